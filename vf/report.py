"""Rule bookkeeping, findings, known findings, evidence and replay files."""
from __future__ import annotations

import ast
import hashlib
import json
import os
import re
import time

from . import astu
from .model import AnalysisError, Func, Mod

VERIF = os.path.dirname(os.path.dirname(os.path.abspath(__file__)))

ASSUMPTIONS = [
    'analysed functions are not rebound / monkey-patched at run time; decorators other than the modelled ones '
    '(functools.wraps/partial, contextmanager, dataclass, struct.dataclass, graph.update_context, api_boundary) '
    'do not change control flow',
    'external libraries behave as documented (dict order, sorted, deque, os.rename, jax.tree_util, numpy tobytes, '
    'threading.Condition)',
    'user-supplied callables (fn, init_fn, reduce_fn, predicates) are opaque: rules speak about the flax code around them',
    'a rule decides a necessary structural condition on every path of the analysed functions; value-level clauses '
    'listed as not decided in DESIGN.md are covered by no check',
    'implicit exceptions raised by arbitrary calls are modelled only inside try blocks',
]


class Finding:

  def __init__(self, prop, rule, key, file, line, msg, witness=None, title=''):
    self.prop, self.rule, self.key, self.file, self.line = prop, rule, key, file, line
    self.msg, self.witness, self.title = msg, witness, title
    self.known = None

  def ident(self):
    return '%s|%s' % (self.rule, self.key)

  def to_json(self, root):
    return {
        'property': self.prop, 'rule': self.rule, 'construct_key': self.key, 'file': self.file, 'line': self.line,
        'message': self.msg, 'witness': self.witness, 'title': self.title, 'root': root,
    }


class RuleRun:

  def __init__(self, ctx, rid, kind, floor, title):
    self.ctx, self.id, self.kind, self.floor, self.title = ctx, rid, kind, floor, title
    self.instances = []  # (key, file, line, ok, msg)
    self.findings = []
    self.notes = []
    self.error = None
    self.inconclusive = []

  def _where(self, where):
    if isinstance(where, tuple):
      f, node = where
      rel = f.mod.rel if isinstance(f, Func) else (f.rel if isinstance(f, Mod) else str(f))
      line = node if isinstance(node, int) else getattr(node, 'lineno', 0)
      return rel, line
    if isinstance(where, Func):
      return where.mod.rel, where.node.lineno
    if isinstance(where, Mod):
      return where.rel, 1
    return str(where), 0

  def ok(self, key, where, msg=''):
    rel, line = self._where(where)
    self.instances.append((key, rel, line, True, msg))

  def fail(self, key, where, msg, witness=None):
    rel, line = self._where(where)
    self.instances.append((key, rel, line, False, msg))
    self.findings.append(Finding(self.ctx.prop, self.id, key, rel, line, msg, witness, self.title))

  def check(self, cond, key, where, msg_fail, witness=None, msg_ok='', evidence=False):
    """cond holds -> instance held.  Otherwise: with evidence=True the caller asserts that the anchors of the mechanism
    were located and the required relation between them is *positively* broken -> VIOLATION; without it the failure may
    just as well mean that the code was restructured beyond what the rule recognises -> inconclusive (exit 2)."""
    if cond:
      self.ok(key, where, msg_ok)
    elif evidence:
      self.fail(key, where, msg_fail, witness)
    else:
      self.unsure(key, where, msg_fail)
    return bool(cond)

  def unsure(self, key, where, msg):
    """The mechanism this instance is about could not be recognised in the tree under analysis (it was refactored
    beyond the fragment the rule understands, or removed).  Not a violation: reported as ANALYSIS-INCONCLUSIVE (exit 2)."""
    rel, line = self._where(where)
    self.inconclusive.append((key, rel, line, msg))

  def shape(self, cond, key, where, msg_fail, msg_ok=''):
    """A recognition check: `cond` says the expected code shape was found. Failure = inconclusive, never a violation."""
    if cond:
      self.ok(key, where, msg_ok)
    else:
      self.unsure(key, where, msg_fail)
    return bool(cond)

  def judge(self, found, ok, key, where, msg_fail, msg_unsure=None, witness=None):
    """found: the anchors of the mechanism were located; ok: the required relation between them holds."""
    if not found:
      self.unsure(key, where, msg_unsure or ('could not recognise the code this rule checks (%s)' % msg_fail))
      return False
    return self.check(ok, key, where, msg_fail, witness, evidence=True)

  def note(self, text):
    self.notes.append(text)

  def require(self, cond, what):
    """Fail closed: the code left the fragment this rule understands."""
    if not cond:
      raise AnalysisError('%s: %s' % (self.id, what))

  @property
  def found(self):
    return len(self.instances) + len(self.inconclusive)


class Ctx:

  def __init__(self, prop, repo, tier='quick', root='/repo'):
    self.prop, self.repo, self.tier, self.root = prop, repo, tier, root
    self.rules = []
    self.errors = []

  def rule(self, rid, kind, floor, title):
    r = RuleRun(self, rid, kind, floor, title)
    self.rules.append(r)
    return r


def key_of(*parts):
  out = []
  for p in parts:
    if isinstance(p, Func):
      out.append(p.fq)
    elif isinstance(p, ast.AST):
      out.append(' '.join(astu.src(p).split())[:120])
    else:
      out.append(str(p))
  return ' :: '.join(out)


def load_known():
  p = os.path.join(VERIF, 'known_findings.json')
  if not os.path.exists(p):
    return []
  with open(p) as f:
    return json.load(f).get('findings', [])


def slug(s, n=40):
  return re.sub(r'[^A-Za-z0-9]+', '-', s).strip('-')[:n]


def replay_path(f: Finding):
  h = hashlib.sha1(f.ident().encode()).hexdigest()[:8]
  return os.path.join(VERIF, 'evidence', 'replay', '%s-%s-%s-%s.json' % (
      f.prop, f.rule.split('.')[-1], slug(f.key.split(' :: ')[0].split(':')[-1], 30), h))


def validate_evidence(ev):
  for k in ('property_id', 'tier', 'seed', 'level', 'coverage', 'wall_s'):
    if k not in ev:
      raise AnalysisError('evidence missing key ' + k)
  if ev['tier'] not in ('quick', 'thorough') or not isinstance(ev['seed'], int):
    raise AnalysisError('evidence tier/seed invalid')
  c = ev['coverage']
  if ev['level'] == 'other':
    if not (isinstance(c.get('explanation'), str) and c['explanation'].strip()):
      raise AnalysisError('evidence: explanation required')
  for k in ('evaluations', 'distinct_nontrivial', 'obligations', 'discharged'):
    if k in c and not (isinstance(c[k], int) and c[k] >= 0):
      raise AnalysisError('evidence: %s must be a non-negative int' % k)
  if 'samples' in c and not (isinstance(c['samples'], list) and c['samples']):
    raise AnalysisError('evidence: samples must be a non-empty list')


def write_evidence(prop, ev):
  validate_evidence(ev)
  d = os.path.join(VERIF, 'evidence')
  os.makedirs(d, exist_ok=True)
  tmp = os.path.join(d, '.%s.json.tmp' % prop)
  with open(tmp, 'w') as f:
    json.dump(ev, f, indent=1, sort_keys=False)
    f.write('\n')
  os.replace(tmp, os.path.join(d, '%s.json' % prop))
