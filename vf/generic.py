"""Bug-pattern rules that apply to every property, run over the files the property is anchored in.

The rules of vf/props/cXX.py encode mechanisms found by reading the code.  The three rules here are
shape rules that need no such reading; each is a necessary condition of any "for every input" property
of the functions concerned:

  G1  an option that used to influence the result is still read.  A named parameter that is read on the
      reference tree (vf/reference.json, table __live_params__) and is still in the signature must be read
      somewhere in the function (nested functions included).  `f(..., out_axes=0)` whose body no longer
      mentions out_axes cannot honour the option for every value.
  G2  an Optional parameter whose type has falsy legal values (int, float, str, sequences, mappings) is not
      tested by truthiness: `if step:` treats step 0 / an empty filter like "absent".
  G3  arguments that carry the callee's parameter names are passed in the callee's order: `f(b, a)` for
      `def f(a, b)` — unless the pair is listed (one intentional transposition on the reference tree).
  G4  no sequence is built by repeating a reference to one mutable container (`([],) * n`): none on the reference tree.
  G5  a lambda created in a `for` loop that reads the loop variable is consumed within the iteration (map / tree_map / sorted / ...);
      handed to anything that stores it, all such lambdas see the last value (late binding). One reviewed site on the reference tree.
  G6  `d.setdefault(k, [v])` as a bare statement in a loop (the element is recorded only for the first k). None on the reference tree.
  G7  a memoised function (lru_cache / cache) reads the mutable global configuration (`config.<flag>`). No memoised function on the reference tree.

Nothing is reported for functions that do not exist on the reference tree (G1) or for code the rule
cannot resolve (G3: unresolved callee, star arguments).
"""
from __future__ import annotations

import ast
import json
import os

from . import astu, reference
from .model import Func
from .report import key_of

VERIF = os.path.dirname(os.path.dirname(os.path.abspath(__file__)))
_ANCHORS = None

# G3: reviewed transpositions (caller, callee, the two names): one line of reason each
G3_ALLOWED = {
    ('flax/linen/fp8_ops.py', 'dot_general_transpose_rhs', 'dot_general_transpose_lhs', ('x', 'y')):
        'the rhs transpose rule is the lhs rule with the operands exchanged (mirrors jax.lax)',
}

# G2: reviewed truthiness tests of optional value-typed parameters
G2_ALLOWED = {
    ('flax/linen/attention.py', 'MultiHeadDotProductAttention.__call__', 'out_features'): '`self.out_features or inputs_q.shape[-1]`: a layer with 0 output features is meaningless, 0 reads as "same as input"',
    ('flax/linen/attention.py', 'MultiHeadDotProductAttention.__call__', 'qkv_features'): '`self.qkv_features or inputs_q.shape[-1]`: as above',
    ('flax/core/scope.py', 'Scope.__init__', 'rngs'): '`{...: LazyRng.create(v) ...} if rngs else {}`: an empty mapping and None both give the empty mapping',
    ('flax/nnx/nn/recurrent.py', 'RNN.__init__', 'state_axes'): '`state_axes or {...: Carry}`: an empty mapping selects the default axes like None does (nothing can be scanned with no axes)',
}

_FALSY_TYPES = ('int', 'float', 'str', 'bytes', 'Sequence', 'tuple', 'Tuple', 'list', 'List', 'dict', 'Dict', 'Mapping', 'Iterable',
                'set', 'Set', 'FrozenSet', 'frozenset', 'Collection', 'Axes', 'Shape', 'CollectionFilter', 'Filter', 'PRNGSequenceFilter')


def anchors(prop):
  global _ANCHORS
  if _ANCHORS is None:
    _ANCHORS = {}
    with open(os.path.join(VERIF, 'properties.jsonl'), encoding='utf-8') as f:
      for line in f:
        if line.strip():
          d = json.loads(line)
          _ANCHORS[d['id']] = [x for x in d['anchors']['files'] if x.endswith('.py')]
  return _ANCHORS.get(prop, [])


_EXT = None


def ext_anchors(prop):
  """Every flax/*.py file named anywhere in the property's anchors (files, and the `where` of its state / mechanism entries)."""
  global _EXT
  if _EXT is None:
    import re
    _EXT = {}
    with open(os.path.join(VERIF, 'properties.jsonl'), encoding='utf-8') as f:
      for line in f:
        if line.strip():
          d = json.loads(line)
          _EXT[d['id']] = sorted(set(re.findall(r'flax/[A-Za-z0-9_/]+\.py', json.dumps(d['anchors']))))
  return _EXT.get(prop, [])


# files that carry part of a property's mechanism without being listed in its anchors (found while reading the code / seeds)
EXTRA_FILES = {
    'C04': ['flax/nnx/variablelib.py', 'flax/nnx/statelib.py'],
    'C05': ['flax/linen/module.py'],
    'C06': ['flax/linen/module.py', 'flax/core/scope.py'],
    'C07': ['flax/linen/module.py', 'flax/core/scope.py'],
    'C09': ['flax/linen/module.py'],
    'C18': ['flax/core/meta.py', 'flax/linen/spmd.py'],
    'C19': ['flax/linen/transforms.py', 'flax/nnx/variablelib.py'],
    'C16': ['flax/nnx/graph.py'],
}


def rule_files(prop):
  """Anchor files plus every file the property's own rules consult on the reference tree (a property's rules may follow its
  mechanism beyond the listed anchors, e.g. C14's first-match rule reads nnx/graph.py::_graph_pop)."""
  out = set(anchors(prop)) | set(EXTRA_FILES.get(prop, []))
  ref = reference.load()
  for rid, v in ref.items():
    if rid.startswith(prop + '.') and isinstance(v, dict) and not rid.endswith('.R90') and not rid.endswith('.R91'):
      out |= {k.split('|')[1] for k in v.get('units', {})}
  return sorted(out)


def named_params(fn):
  a = fn.args
  return [x.arg for x in a.posonlyargs + a.args + a.kwonlyargs if x.arg not in ('self', 'cls') and not x.arg.startswith('_')]


def is_stub(fn):
  body = astu.strip_docstring(fn.body)
  if any(isinstance(d, ast.Name) and d.id in ('overload', 'abstractmethod') or isinstance(d, ast.Attribute) and d.attr in ('overload', 'abstractmethod') for d in fn.decorator_list):
    return True
  return all(isinstance(s, (ast.Pass, ast.Raise)) or (isinstance(s, ast.Expr) and isinstance(s.value, ast.Constant))
             or (isinstance(s, ast.Return) and (s.value is None or isinstance(s.value, (ast.Constant, ast.Name)) and astu.src(s.value) in ('None', 'NotImplemented'))) for s in body)


def live_params(fn):
  """Named parameters of fn that are read somewhere in its body (nested scopes included); None if the body uses locals()/vars()."""
  loads = set()
  for s in fn.body:
    for x in ast.walk(s):
      if isinstance(x, ast.Name) and isinstance(x.ctx, ast.Load):
        loads.add(x.id)
      elif isinstance(x, ast.Call) and isinstance(x.func, ast.Name) and x.func.id in ('locals', 'vars') and not x.args:
        return None
  # defaults of later parameters and decorators are evaluated outside the body: they do not read parameters
  return [p for p in named_params(fn) if p in loads]


def live_table(repo, rels):
  out = {}
  for rel in rels:
    if rel not in repo._paths:
      continue
    m = repo._load(rel)
    for q, f in m._funcs.items():
      if is_stub(f.node):
        continue
      lp = live_params(f.node)
      if lp:
        out['%s|%s' % (rel, q)] = sorted(lp)
  return out


def g1_dead_options(R, repo, rels):
  table = reference.load().get('__live_params__')
  if not isinstance(table, dict):
    R.require(False, 'reference table __live_params__ missing (run tools/make_reference.py)')
  for rel in rels:
    if rel not in repo._paths:
      continue
    m = repo.mod(rel)
    n_f = n_p = 0
    for q, f in sorted(m.funcs.items()):
      was = table.get('%s|%s' % (rel, q))
      if not was or is_stub(f.node):
        continue
      now = live_params(f.node)
      if now is None:
        continue
      n_f += 1
      sig = set(named_params(f.node))
      for p in was:
        if p not in sig:
          continue  # removed from the signature: an API change every caller would notice, not a silent one
        n_p += 1
        if p not in now:
          R.fail(key_of(f, 'option `%s` is read' % p), f,
                 'parameter `%s` of %s is accepted but no longer read anywhere in the function: every value of the option now gives the same result (on the reference tree the function depends on it)' % (p, q))
    R.ok(key_of(rel, 'no option is accepted and ignored (%d functions, %d parameters)' % (n_f, n_p)), m)


def _optional_falsy(arg, default):
  if not (isinstance(default, ast.Constant) and default.value is None) or arg.annotation is None:
    return False
  names = {n.id for n in ast.walk(arg.annotation) if isinstance(n, ast.Name)} | {n.attr for n in ast.walk(arg.annotation) if isinstance(n, ast.Attribute)}
  for n in ast.walk(arg.annotation):  # string annotations
    if isinstance(n, ast.Constant) and isinstance(n.value, str):
      names |= {w for w in n.value.replace('[', ' ').replace(']', ' ').replace('|', ' ').replace(',', ' ').replace('.', ' ').split()}
  return bool(names & set(_FALSY_TYPES))


def g2_optional_truthiness(R, repo, rels):
  for rel in rels:
    if rel not in repo._paths:
      continue
    m = repo.mod(rel)
    n = 0
    for q, f in sorted(m.funcs.items()):
      a = f.node.args
      pos = a.posonlyargs + a.args
      defs = [None] * (len(pos) - len(a.defaults)) + list(a.defaults)
      opt = {x.arg for x, d in list(zip(pos, defs)) + list(zip(a.kwonlyargs, a.kw_defaults)) if d is not None and _optional_falsy(x, d)}
      if not opt:
        continue
      # a parameter that is re-bound (`p = p or {}`, `if p is None: p = {}`) is judged only up to its first re-binding
      first_store = {}
      for x in astu.body_walk(f.node):
        if isinstance(x, ast.Name) and isinstance(x.ctx, ast.Store) and x.id in opt:
          first_store[x.id] = min(first_store.get(x.id, 10 ** 9), x.lineno)
      n += len(opt)
      for x in astu.body_walk(f.node, into_lambda=False):
        tests = []
        if isinstance(x, (ast.If, ast.While, ast.IfExp)):
          tests = [x.test]
        elif isinstance(x, ast.BoolOp):
          tests = list(x.values[:-1]) if not isinstance(astu.parent(x), (ast.If, ast.While, ast.IfExp, ast.UnaryOp)) else list(x.values)
        elif isinstance(x, ast.UnaryOp) and isinstance(x.op, ast.Not):
          tests = [x.operand]
        elif isinstance(x, ast.Assert):
          tests = [x.test]
        for te in tests:
          while isinstance(te, ast.UnaryOp) and isinstance(te.op, ast.Not):
            te = te.operand
          if isinstance(te, ast.Name) and te.id in opt and (rel, q, te.id) not in G2_ALLOWED and te.lineno <= first_store.get(te.id, 10 ** 9):
            R.fail(key_of(f, 'optional `%s` tested with `is None`, not by truthiness' % te.id), (f, te),
                   '`%s` defaults to None but has falsy legal values (its annotation is `%s`); testing it by truthiness treats 0 / an empty value like "not given"' % (
                       te.id, astu.short(next(z.annotation for z in pos + a.kwonlyargs if z.arg == te.id))))
    # the same for optional value-typed *fields* of a class (dataclass fields, or `self.x = x` of an Optional __init__ parameter)
    for cname, c in sorted(m.classes.items()):
      opt = {}
      for st in c.body:
        if isinstance(st, ast.AnnAssign) and isinstance(st.target, ast.Name) and st.value is not None and _optional_falsy(ast.arg(arg=st.target.id, annotation=st.annotation), st.value):
          opt[st.target.id] = st.annotation
      for meth in c.body:
        if isinstance(meth, ast.FunctionDef) and meth.name == '__init__':
          a = meth.args
          pos = a.posonlyargs + a.args
          defs = [None] * (len(pos) - len(a.defaults)) + list(a.defaults)
          cand = {x.arg: x for x, d in list(zip(pos, defs)) + list(zip(a.kwonlyargs, a.kw_defaults)) if d is not None and _optional_falsy(x, d)}
          for x in ast.walk(meth):
            if isinstance(x, ast.Assign) and len(x.targets) == 1 and isinstance(x.targets[0], ast.Attribute) and isinstance(x.targets[0].value, ast.Name) and x.targets[0].value.id == 'self' \
                and isinstance(x.value, ast.Name) and x.value.id in cand:
              opt[x.targets[0].attr] = cand[x.value.id].annotation
      if not opt:
        continue
      n += len(opt)
      for meth in c.body:
        if not isinstance(meth, (ast.FunctionDef, ast.AsyncFunctionDef)):
          continue
        f = m.funcs.get('%s.%s' % (cname, meth.name))
        for x in ast.walk(meth):
          tests = []
          if isinstance(x, (ast.If, ast.While, ast.IfExp)):
            tests = [x.test]
          elif isinstance(x, ast.BoolOp):
            tests = list(x.values)
          elif isinstance(x, ast.UnaryOp) and isinstance(x.op, ast.Not):
            tests = [x.operand]
          for te in tests:
            while isinstance(te, ast.UnaryOp) and isinstance(te.op, ast.Not):
              te = te.operand
            if isinstance(te, ast.Attribute) and isinstance(te.value, ast.Name) and te.value.id == 'self' and te.attr in opt and (rel, '%s.%s' % (cname, meth.name), te.attr) not in G2_ALLOWED and f is not None:
              R.fail(key_of(f, 'optional field `self.%s` tested with `is None`, not by truthiness' % te.attr), (f, te),
                     '`self.%s` defaults to None but has falsy legal values (annotation `%s`); testing it by truthiness treats 0 / 0.0 / an empty value like "not given"' % (te.attr, astu.short(opt[te.attr])))
    R.ok(key_of(rel, 'optional value-typed parameters are compared with None (%d parameters)' % n), m)


def g3_transposed_arguments(R, repo, rels):
  for rel in rels:
    if rel not in repo._paths:
      continue
    m = repo.mod(rel)
    n = 0
    for q, f in sorted(m.funcs.items()):
      for c in astu.func_calls(f):
        if any(isinstance(a, ast.Starred) for a in c.args) or len(c.args) < 2:
          continue
        try:
          callee = repo.resolve_call(m, c, f)
        except Exception:
          callee = None
        if not isinstance(callee, Func):
          continue
        pp = astu.pos_params(callee.node)
        if pp and pp[0] in ('self', 'cls') and (isinstance(c.func, ast.Attribute) or callee.qual.endswith('__init__') or callee.qual.endswith('__new__')):
          pp = pp[1:]
        names = [a.id if isinstance(a, ast.Name) else None for a in c.args]
        n += 1
        for i, nm in enumerate(names):
          if nm is None or i >= len(pp) or nm == pp[i] or nm not in pp:
            continue
          j = pp.index(nm)
          if j < len(names) and names[j] == pp[i] and i < j:
            pair = tuple(sorted((nm, pp[i])))
            if (rel, q.split('.')[-1], callee.qual.split('.')[-1], pair) in G3_ALLOWED:
              continue
            R.fail(key_of(f, '%s(...) gets `%s` and `%s` in the callee\'s order' % (callee.qual.split('.')[-1], pp[i], pp[j])), (f, c),
                   '`%s` passes `%s` where %s expects `%s` and vice versa (signature: %s)' % (astu.short(c), nm, callee.qual, pp[i], ', '.join(pp[:6])))
    R.ok(key_of(rel, 'same-named arguments are passed in the callee\'s order (%d resolved calls)' % n), m)


def g4_repeated_mutable(R, repo, rels):
  """`([],) * n` / `[{}] * n`: n references to ONE list / dict - filling one slot fills them all."""
  for rel in rels:
    if rel not in repo._paths:
      continue
    m = repo.mod(rel)
    for q, f in sorted(m.funcs.items()):
      for x in astu.body_walk(f.node):
        if isinstance(x, ast.BinOp) and isinstance(x.op, ast.Mult):
          for side in (x.left, x.right):
            if isinstance(side, (ast.Tuple, ast.List)) and any(isinstance(e, (ast.List, ast.Dict, ast.Set, ast.ListComp, ast.DictComp)) or (isinstance(e, ast.Call) and isinstance(e.func, ast.Name) and e.func.id in ('list', 'dict', 'set')) for e in side.elts):
              if astu.enclosing_func(x) is f.node or True:
                R.fail(key_of(f, 'no repeated reference to one mutable container'), (f, x), '`%s` repeats a reference to a single list / dict: every slot is the same object, so an item added to one group appears in all of them' % astu.short(x))
    R.ok(key_of(rel, 'no sequence built by repeating one mutable container'), m)


_IMMEDIATE = {'map', 'tree_map', 'filter', 'sorted', 'max', 'min', 'any', 'all', 'sum', 'tuple', 'list', 'dict', 'set', 'reduce', 'sort', 'tree_map_with_path', 'next', 'zip',
              'enumerate', 'wait_for', 'frozenset', 'join', 'tree_leaves', 'tree_flatten', 'eval_shape', 'map_axis_meta',
              '_check_valid_context'}  # the last: error-message thunk of nnx Object, evaluated (if at all) inside the call


def g5_late_binding(R, repo, rels):
  """A lambda created inside a `for` loop that reads the loop variable must be consumed within the iteration (passed to map / tree_map /
  sorted ...): handed to anything that keeps it, every stored callable sees the *last* value of the loop variable."""
  for rel in rels:
    if rel not in repo._paths:
      continue
    m = repo.mod(rel)
    for q, f in sorted(m.funcs.items()):
      for lp in [n for n in astu.body_walk(f.node, into_lambda=False) if isinstance(n, ast.For)]:
        tv = {n.id for n in ast.walk(lp.target) if isinstance(n, ast.Name)}
        for lam in [n for st in lp.body for n in ast.walk(st) if isinstance(n, ast.Lambda)]:
          params = set(astu.params(lam))
          cap = ({n.id for n in ast.walk(lam.body) if isinstance(n, ast.Name)} - params) & tv
          if not cap or any(isinstance(d, ast.Name) and d.id in cap for d in lam.args.defaults + [x for x in lam.args.kw_defaults if x is not None]):
            continue
          par = astu.parent(lam)
          call = par if isinstance(par, ast.Call) else (astu.parent(par) if isinstance(par, ast.keyword) else None)
          if isinstance(call, ast.Call) and ((astu.call_tail(call) or '') in _IMMEDIATE):
            continue
          if isinstance(par, ast.Call) and par.func is lam:
            continue  # called on the spot
          R.fail(key_of(f, 'lambda in a loop does not outlive the iteration'), (f, lam),
                 '`%s` is created inside the loop over `%s` and reads the loop variable, but it is handed to `%s`, which keeps it: when it finally runs, every such lambda sees the value of `%s` from the *last* iteration' % (
                     astu.short(lam), astu.short(lp.target), astu.short(call.func if isinstance(call, ast.Call) else par, 50), sorted(cap)[0]))
    R.ok(key_of(rel, 'no loop-variable capture by a stored lambda'), m)


def g6_setdefault_statement(R, repo, rels):
  """`d.setdefault(k, [v])` as a statement records v only for the first k: every later (k, v) is dropped (the idiom is
  `d.setdefault(k, []).append(v)`)."""
  for rel in rels:
    if rel not in repo._paths:
      continue
    m = repo.mod(rel)
    for q, f in sorted(m.funcs.items()):
      for x in astu.body_walk(f.node):
        if isinstance(x, ast.Expr) and isinstance(x.value, ast.Call) and isinstance(x.value.func, ast.Attribute) and x.value.func.attr == 'setdefault' and len(x.value.args) == 2:
          d = x.value.args[1]
          if isinstance(d, (ast.List, ast.Set, ast.Tuple)) and d.elts or isinstance(d, ast.Dict) and d.keys:
            inloop = any(isinstance(a, (ast.For, ast.While)) for a in astu.ancestors(x))
            if inloop:
              R.fail(key_of(f, 'setdefault result used'), (f, x), '`%s` inside a loop stores `%s` only the first time the key is seen and silently drops it for every later occurrence (the result of setdefault is not used to add the new element)' % (astu.short(x), astu.short(d)))
    R.ok(key_of(rel, 'no element dropped by a bare setdefault(k, [v])'), m)


def g7_cached_reads_config(R, repo, rels):
  """A memoised function (functools.lru_cache / cache) whose body reads the mutable global configuration (`config.<flag>`): the
  flag is not part of the cache key, so a result computed under one setting is served under another."""
  for rel in rels:
    if rel not in repo._paths:
      continue
    m = repo.mod(rel)
    for q, f in sorted(m.funcs.items()):
      if not any('lru_cache' in astu.src(d) or astu.src(d).split('(')[0].endswith('.cache') or astu.src(d) == 'cache' for d in f.node.decorator_list):
        continue
      reads = [x for x in ast.walk(f.node) if isinstance(x, ast.Attribute) and isinstance(x.value, ast.Name) and x.value.id in ('config', 'flax_config') and isinstance(x.ctx, ast.Load)]
      if reads:
        R.fail(key_of(f, 'memoised result does not depend on global configuration'), (f, reads[0]), '%s is memoised, but its body reads `%s`: the flag is not part of the cache key, so after the flag changes the function keeps returning what it computed under the old setting' % (q, astu.short(reads[0])))
    R.ok(key_of(rel, 'no memoised function reads the global configuration'), m)


def run(R, repo, prop):
  rels = rule_files(prop)
  R.require(bool(rels), 'no anchor files for %s' % prop)
  for rel in rels:
    R.require(rel in repo._paths, 'anchor file %s is missing' % rel)
  g1_dead_options(R, repo, rels)
  g2_optional_truthiness(R, repo, rels)
  g3_transposed_arguments(R, repo, rels)
  g4_repeated_mutable(R, repo, rels)
  g5_late_binding(R, repo, rels)
  g6_setdefault_statement(R, repo, rels)
  g7_cached_reads_config(R, repo, rels)


def ensure(prop, registry, RuleSpec):
  rid = '%s.R90' % prop
  specs = registry.setdefault(prop, [])
  if any(s.id == rid for s in specs):
    return
  n = len(anchors(prop))  # floor: at least the anchor files

  def fn(R, repo, _prop=prop):
    run(R, repo, _prop)
  specs.append(RuleSpec(rid, 'K6+K12', 7 * n, 'bug patterns over the anchored files: option accepted but no longer read, optional value tested by truthiness, same-named arguments transposed, repeated mutable container, loop variable captured by a stored lambda, bare setdefault(k, [v])', fn))
