"""Bug-pattern rules that apply to every property, run over the files the property is anchored in.

The rules of vf/props/cXX.py encode mechanisms found by reading the code.  The three rules here are
shape rules that need no such reading; each is a necessary condition of any "for every input" property
of the functions concerned:

  G1  an option that used to influence the result is still read.  A named parameter that is read on the
      reference tree (vf/reference.json, table __live_params__) and is still in the signature must be read
      somewhere in the function (nested functions included).  `f(..., out_axes=0)` whose body no longer
      mentions out_axes cannot honour the option for every value.
  G2  an Optional parameter whose type has falsy legal values (int, float, str, sequences, mappings) is not
      tested by truthiness: `if step:` treats step 0 / an empty filter like "absent".
  G3  arguments that carry the callee's parameter names are passed in the callee's order: `f(b, a)` for
      `def f(a, b)` — unless the pair is listed (one intentional transposition on the reference tree).

Nothing is reported for functions that do not exist on the reference tree (G1) or for code the rule
cannot resolve (G3: unresolved callee, star arguments).
"""
from __future__ import annotations

import ast
import json
import os

from . import astu, reference
from .model import Func
from .report import key_of

VERIF = os.path.dirname(os.path.dirname(os.path.abspath(__file__)))
_ANCHORS = None

# G3: reviewed transpositions (caller, callee, the two names): one line of reason each
G3_ALLOWED = {
    ('flax/linen/fp8_ops.py', 'dot_general_transpose_rhs', 'dot_general_transpose_lhs', ('x', 'y')):
        'the rhs transpose rule is the lhs rule with the operands exchanged (mirrors jax.lax)',
}

# G2: reviewed truthiness tests of optional value-typed parameters
G2_ALLOWED = {
    ('flax/nnx/nn/recurrent.py', 'RNN.__init__', 'state_axes'): '`state_axes or {...: Carry}`: an empty mapping selects the default axes like None does (nothing can be scanned with no axes)',
}

_FALSY_TYPES = ('int', 'float', 'str', 'bytes', 'Sequence', 'tuple', 'Tuple', 'list', 'List', 'dict', 'Dict', 'Mapping', 'Iterable',
                'set', 'Set', 'FrozenSet', 'frozenset', 'Collection', 'Axes', 'Shape', 'CollectionFilter', 'Filter', 'PRNGSequenceFilter')


def anchors(prop):
  global _ANCHORS
  if _ANCHORS is None:
    _ANCHORS = {}
    with open(os.path.join(VERIF, 'properties.jsonl'), encoding='utf-8') as f:
      for line in f:
        if line.strip():
          d = json.loads(line)
          _ANCHORS[d['id']] = [x for x in d['anchors']['files'] if x.endswith('.py')]
  return _ANCHORS.get(prop, [])


_EXT = None


def ext_anchors(prop):
  """Every flax/*.py file named anywhere in the property's anchors (files, and the `where` of its state / mechanism entries)."""
  global _EXT
  if _EXT is None:
    import re
    _EXT = {}
    with open(os.path.join(VERIF, 'properties.jsonl'), encoding='utf-8') as f:
      for line in f:
        if line.strip():
          d = json.loads(line)
          _EXT[d['id']] = sorted(set(re.findall(r'flax/[A-Za-z0-9_/]+\.py', json.dumps(d['anchors']))))
  return _EXT.get(prop, [])


def rule_files(prop):
  """Anchor files plus every file the property's own rules consult on the reference tree (a property's rules may follow its
  mechanism beyond the listed anchors, e.g. C14's first-match rule reads nnx/graph.py::_graph_pop)."""
  out = set(anchors(prop))
  ref = reference.load()
  for rid, v in ref.items():
    if rid.startswith(prop + '.') and isinstance(v, dict) and not rid.endswith('.R90') and not rid.endswith('.R91'):
      out |= {k.split('|')[1] for k in v.get('units', {})}
  return sorted(out)


def named_params(fn):
  a = fn.args
  return [x.arg for x in a.posonlyargs + a.args + a.kwonlyargs if x.arg not in ('self', 'cls') and not x.arg.startswith('_')]


def is_stub(fn):
  body = astu.strip_docstring(fn.body)
  if any(isinstance(d, ast.Name) and d.id in ('overload', 'abstractmethod') or isinstance(d, ast.Attribute) and d.attr in ('overload', 'abstractmethod') for d in fn.decorator_list):
    return True
  return all(isinstance(s, (ast.Pass, ast.Raise)) or (isinstance(s, ast.Expr) and isinstance(s.value, ast.Constant))
             or (isinstance(s, ast.Return) and (s.value is None or isinstance(s.value, (ast.Constant, ast.Name)) and astu.src(s.value) in ('None', 'NotImplemented'))) for s in body)


def live_params(fn):
  """Named parameters of fn that are read somewhere in its body (nested scopes included); None if the body uses locals()/vars()."""
  loads = set()
  for s in fn.body:
    for x in ast.walk(s):
      if isinstance(x, ast.Name) and isinstance(x.ctx, ast.Load):
        loads.add(x.id)
      elif isinstance(x, ast.Call) and isinstance(x.func, ast.Name) and x.func.id in ('locals', 'vars') and not x.args:
        return None
  # defaults of later parameters and decorators are evaluated outside the body: they do not read parameters
  return [p for p in named_params(fn) if p in loads]


def live_table(repo, rels):
  out = {}
  for rel in rels:
    if rel not in repo._paths:
      continue
    m = repo._load(rel)
    for q, f in m._funcs.items():
      if is_stub(f.node):
        continue
      lp = live_params(f.node)
      if lp:
        out['%s|%s' % (rel, q)] = sorted(lp)
  return out


def g1_dead_options(R, repo, rels):
  table = reference.load().get('__live_params__')
  if not isinstance(table, dict):
    R.require(False, 'reference table __live_params__ missing (run tools/make_reference.py)')
  for rel in rels:
    if rel not in repo._paths:
      continue
    m = repo.mod(rel)
    n_f = n_p = 0
    for q, f in sorted(m.funcs.items()):
      was = table.get('%s|%s' % (rel, q))
      if not was or is_stub(f.node):
        continue
      now = live_params(f.node)
      if now is None:
        continue
      n_f += 1
      sig = set(named_params(f.node))
      for p in was:
        if p not in sig:
          continue  # removed from the signature: an API change every caller would notice, not a silent one
        n_p += 1
        if p not in now:
          R.fail(key_of(f, 'option `%s` is read' % p), f,
                 'parameter `%s` of %s is accepted but no longer read anywhere in the function: every value of the option now gives the same result (on the reference tree the function depends on it)' % (p, q))
    R.ok(key_of(rel, 'no option is accepted and ignored (%d functions, %d parameters)' % (n_f, n_p)), m)


def _optional_falsy(arg, default):
  if not (isinstance(default, ast.Constant) and default.value is None) or arg.annotation is None:
    return False
  names = {n.id for n in ast.walk(arg.annotation) if isinstance(n, ast.Name)} | {n.attr for n in ast.walk(arg.annotation) if isinstance(n, ast.Attribute)}
  for n in ast.walk(arg.annotation):  # string annotations
    if isinstance(n, ast.Constant) and isinstance(n.value, str):
      names |= {w for w in n.value.replace('[', ' ').replace(']', ' ').replace('|', ' ').replace(',', ' ').replace('.', ' ').split()}
  return bool(names & set(_FALSY_TYPES))


def g2_optional_truthiness(R, repo, rels):
  for rel in rels:
    if rel not in repo._paths:
      continue
    m = repo.mod(rel)
    n = 0
    for q, f in sorted(m.funcs.items()):
      a = f.node.args
      pos = a.posonlyargs + a.args
      defs = [None] * (len(pos) - len(a.defaults)) + list(a.defaults)
      opt = {x.arg for x, d in list(zip(pos, defs)) + list(zip(a.kwonlyargs, a.kw_defaults)) if d is not None and _optional_falsy(x, d)}
      if not opt:
        continue
      stores = {x.id for x in astu.body_walk(f.node) if isinstance(x, ast.Name) and isinstance(x.ctx, ast.Store)}
      opt -= stores
      n += len(opt)
      for x in astu.body_walk(f.node, into_lambda=False):
        tests = []
        if isinstance(x, (ast.If, ast.While, ast.IfExp)):
          tests = [x.test]
        elif isinstance(x, ast.BoolOp):
          tests = list(x.values[:-1]) if not isinstance(astu.parent(x), (ast.If, ast.While, ast.IfExp, ast.UnaryOp)) else list(x.values)
        elif isinstance(x, ast.UnaryOp) and isinstance(x.op, ast.Not):
          tests = [x.operand]
        elif isinstance(x, ast.Assert):
          tests = [x.test]
        for te in tests:
          while isinstance(te, ast.UnaryOp) and isinstance(te.op, ast.Not):
            te = te.operand
          if isinstance(te, ast.Name) and te.id in opt and (rel, q, te.id) not in G2_ALLOWED:
            R.fail(key_of(f, 'optional `%s` tested with `is None`, not by truthiness' % te.id), (f, te),
                   '`%s` defaults to None but has falsy legal values (its annotation is `%s`); testing it by truthiness treats 0 / an empty value like "not given"' % (
                       te.id, astu.short(next(z.annotation for z in pos + a.kwonlyargs if z.arg == te.id))))
    R.ok(key_of(rel, 'optional value-typed parameters are compared with None (%d parameters)' % n), m)


def g3_transposed_arguments(R, repo, rels):
  for rel in rels:
    if rel not in repo._paths:
      continue
    m = repo.mod(rel)
    n = 0
    for q, f in sorted(m.funcs.items()):
      for c in astu.func_calls(f):
        if any(isinstance(a, ast.Starred) for a in c.args) or len(c.args) < 2:
          continue
        try:
          callee = repo.resolve_call(m, c, f)
        except Exception:
          callee = None
        if not isinstance(callee, Func):
          continue
        pp = astu.pos_params(callee.node)
        if pp and pp[0] in ('self', 'cls') and (isinstance(c.func, ast.Attribute) or callee.qual.endswith('__init__') or callee.qual.endswith('__new__')):
          pp = pp[1:]
        names = [a.id if isinstance(a, ast.Name) else None for a in c.args]
        n += 1
        for i, nm in enumerate(names):
          if nm is None or i >= len(pp) or nm == pp[i] or nm not in pp:
            continue
          j = pp.index(nm)
          if j < len(names) and names[j] == pp[i] and i < j:
            pair = tuple(sorted((nm, pp[i])))
            if (rel, q.split('.')[-1], callee.qual.split('.')[-1], pair) in G3_ALLOWED:
              continue
            R.fail(key_of(f, '%s(...) gets `%s` and `%s` in the callee\'s order' % (callee.qual.split('.')[-1], pp[i], pp[j])), (f, c),
                   '`%s` passes `%s` where %s expects `%s` and vice versa (signature: %s)' % (astu.short(c), nm, callee.qual, pp[i], ', '.join(pp[:6])))
    R.ok(key_of(rel, 'same-named arguments are passed in the callee\'s order (%d resolved calls)' % n), m)


def run(R, repo, prop):
  rels = rule_files(prop)
  R.require(bool(rels), 'no anchor files for %s' % prop)
  for rel in rels:
    R.require(rel in repo._paths, 'anchor file %s is missing' % rel)
  g1_dead_options(R, repo, rels)
  g2_optional_truthiness(R, repo, rels)
  g3_transposed_arguments(R, repo, rels)


def ensure(prop, registry, RuleSpec):
  rid = '%s.R90' % prop
  specs = registry.setdefault(prop, [])
  if any(s.id == rid for s in specs):
    return
  n = len(anchors(prop))  # floor: at least the anchor files

  def fn(R, repo, _prop=prop):
    run(R, repo, _prop)
  specs.append(RuleSpec(rid, 'K6+K12', 3 * n, 'bug patterns over the anchored files: options accepted but ignored, optional values tested by truthiness, same-named arguments transposed', fn))
