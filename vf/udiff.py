"""Minimal unified-diff applier (in memory): used to run the stored seeded changes and behaviour-preserving
refactorings against the tree under analysis without touching it."""
from __future__ import annotations

import re

HUNK = re.compile(r'^@@ -(\d+)(?:,(\d+))? \+(\d+)(?:,(\d+))? @@')


class PatchError(Exception):
  pass


def parse(patch_text):
  """[(old_path or None, new_path or None, [(old_start, old_lines, new_lines)])]"""
  files, cur, hunk = [], None, None
  lines = patch_text.splitlines()
  i = 0
  while i < len(lines):
    ln = lines[i]
    if ln.startswith('--- '):
      old = ln[4:].split('\t')[0].strip()
      new = lines[i + 1][4:].split('\t')[0].strip() if i + 1 < len(lines) and lines[i + 1].startswith('+++ ') else None
      strip = lambda p: None if p in (None, '/dev/null') else (p[2:] if p[:2] in ('a/', 'b/') else p)
      cur = [strip(old), strip(new), []]
      files.append(cur)
      hunk = None
      i += 2
      continue
    m = HUNK.match(ln)
    if m and cur is not None:
      hunk = [int(m.group(1)), [], []]
      cur[2].append(hunk)
    elif hunk is not None and ln[:1] in (' ', '-', '+'):
      if ln[:1] in (' ', '-'):
        hunk[1].append(ln[1:])
      if ln[:1] in (' ', '+'):
        hunk[2].append(ln[1:])
    elif hunk is not None and ln == '':
      hunk[1].append('')
      hunk[2].append('')
    elif ln.startswith('diff ') or ln.startswith('index '):
      hunk = None
    i += 1
  return [(a, b, [tuple(h) for h in hs]) for a, b, hs in files]


def _find(lines, block, guess):
  if not block:
    return max(0, min(guess, len(lines)))
  n = len(block)
  for d in range(0, len(lines) + 1):
    for pos in (guess - d, guess + d):
      if 0 <= pos <= len(lines) - n and lines[pos:pos + n] == block:
        return pos
  return None


def apply(patch_text, read):
  """{path: new text}; `read(path)` returns the current text of a file or None."""
  out = {}
  for old, new, hunks in parse(patch_text):
    path = new or old
    if new is None:
      raise PatchError('file deletion not supported: %s' % old)
    text = out.get(path)
    if text is None:
      text = '' if old is None else read(old)
    if text is None:
      raise PatchError('file not found: %s' % old)
    lines = text.split('\n')
    trailing = text.endswith('\n')
    if trailing:
      lines = lines[:-1]
    shift = 0
    for start, olds, news in hunks:
      # trailing blank context lines of the last hunk may be an artefact of splitlines(): tolerate
      while olds and news and olds[-1] == '' and news[-1] == '' and _find(lines, olds, start - 1 + shift) is None:
        olds, news = olds[:-1], news[:-1]
      pos = _find(lines, olds, start - 1 + shift)
      if pos is None:
        raise PatchError('hunk at line %d of %s does not apply' % (start, path))
      lines[pos:pos + len(olds)] = news
      shift += len(news) - len(olds)
    out[path] = '\n'.join(lines) + ('\n' if trailing else '')
  return out
