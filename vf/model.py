"""Source model of /repo/flax: modules, functions, classes, imports, call resolution.

Nothing is imported or executed; everything comes from `ast.parse`.
"""
from __future__ import annotations

import ast
import copy
import hashlib
import os
from typing import Optional

from . import astu


_NESTED = None


def _ref_children(rel, parent_qual):
  """[[name, number of parameters], ...] of the functions nested directly in `parent_qual` on the reference tree."""
  _nested_info(rel, '')   # loads the table
  global _CHILDREN
  if _CHILDREN is None:
    try:
      import json
      with open(os.path.join(os.path.dirname(os.path.abspath(__file__)), 'reference.json')) as fh:
        _CHILDREN = json.load(fh).get('__children__', {})
    except (OSError, ValueError):
      _CHILDREN = {}
  return _CHILDREN.get('%s|%s' % (rel, parent_qual))


_CHILDREN = None


def _direct_nested(fn):
  out = []
  stack = list(fn.body)
  while stack:
    st = stack.pop()
    if isinstance(st, astu.FUNC_TYPES):
      out.append(st)
      continue
    if isinstance(st, ast.ClassDef):
      continue
    for fld in ('body', 'orelse', 'finalbody'):
      stack.extend(x for x in (getattr(st, fld, None) or []) if isinstance(x, ast.stmt))
    for h in getattr(st, 'handlers', []) or []:
      stack.extend(h.body)
  return sorted(out, key=lambda f: (f.lineno, f.col_offset))


def _normalise_nested_names(tree, rel):
  """Alpha-normalisation of *nested function names*: when a function has as many directly nested functions, with the same
  arities and in the same order, as on the reference tree but under other names, they are given the reference names again
  (definition and every reference inside the enclosing function).  Nested functions are private to their parent, so this is
  behaviour preserving; rules can then go on addressing `vjp.inner.wrapper` after it was renamed `pure_fn`."""
  def visit(node, qual):
    for ch in (node.body if hasattr(node, 'body') else []):
      if isinstance(ch, ast.ClassDef):
        visit(ch, (qual + '.' if qual else '') + ch.name)
      elif isinstance(ch, astu.FUNC_TYPES):
        fix(ch, (qual + '.' if qual else '') + ch.name)

  def fix(fn, qual):
    kids = _direct_nested(fn)
    ref = _ref_children(rel, qual)
    if ref and len(ref) == len(kids) and all(len(astu.params(k)) == r[1] for k, r in zip(kids, ref)) and [k.name for k in kids] != [r[0] for r in ref]:
      mapping = {k.name: r[0] for k, r in zip(kids, ref) if k.name != r[0]}
      used = {n.id for n in ast.walk(fn) if isinstance(n, ast.Name)} | set(astu.params(fn))
      if len(set(mapping)) == len(mapping) and not any(v in used and v not in mapping for v in mapping.values()):
        for n in ast.walk(fn):
          if isinstance(n, ast.Name) and n.id in mapping:
            n.id = mapping[n.id]
        for k in kids:
          k.name = mapping.get(k.name, k.name)
    for k in kids:
      fix(k, qual + '.' + k.name)
  visit(tree, '')


def _nested_info(rel, qual):
  """(index among the nested functions of its parent, number of parameters, number of siblings) on the reference tree."""
  global _NESTED
  if _NESTED is None:
    try:
      import json
      with open(os.path.join(os.path.dirname(os.path.abspath(__file__)), 'reference.json')) as fh:
        _NESTED = json.load(fh).get('__nested__', {})
    except (OSError, ValueError):
      _NESTED = {}
  v = _NESTED.get('%s|%s' % (rel, qual))
  return tuple(v) if v else None


class AnalysisError(Exception):
  """The checker cannot do its job (anchor vanished, floor not met, ...)."""


class Func:
  __slots__ = ('mod', 'qual', 'node', 'cls')

  def __init__(self, mod, qual, node, cls):
    self.mod, self.qual, self.node, self.cls = mod, qual, node, cls

  @property
  def name(self):
    return self.node.name if not isinstance(self.node, ast.Lambda) else '<lambda>'

  @property
  def fq(self):
    return '%s:%s' % (self.mod.dotted, self.qual)

  @property
  def loc(self):
    return '%s:%d' % (self.mod.rel, self.node.lineno)

  def __repr__(self):
    return '<Func %s>' % self.fq


_POS = {ast.IsNot: ast.Is, ast.NotEq: ast.Eq, ast.NotIn: ast.In}


def _positive(test):
  """(positive form of the test, flipped?) for `not X` and single negative comparisons."""
  if isinstance(test, ast.UnaryOp) and isinstance(test.op, ast.Not):
    return test.operand, True
  if isinstance(test, ast.Compare) and len(test.ops) == 1 and type(test.ops[0]) in _POS:
    new = ast.Compare(left=test.left, ops=[_POS[type(test.ops[0])]()], comparators=test.comparators)
    ast.copy_location(new, test)
    return new, True
  return test, False


def _normalise_inline_splat(tree):
  """`f(a, **dict(k=v, j=w))` / `f(a, **{'k': v})` -> `f(a, k=v, j=w)`: the same call (keywords are evaluated in the same order)."""
  for n in ast.walk(tree):
    if isinstance(n, ast.Call) and any(k.arg is None for k in n.keywords):
      out = []
      for k in n.keywords:
        v = k.value
        if k.arg is None and isinstance(v, ast.Call) and isinstance(v.func, ast.Name) and v.func.id == 'dict' and not v.args and v.keywords and all(x.arg is not None for x in v.keywords):
          out.extend(v.keywords)
        elif k.arg is None and isinstance(v, ast.Dict) and v.keys and all(isinstance(x, ast.Constant) and isinstance(x.value, str) and x.value.isidentifier() for x in v.keys):
          out.extend(ast.keyword(arg=x.value, value=y) for x, y in zip(v.keys, v.values))
        else:
          out.append(k)
      names = [k.arg for k in out if k.arg is not None]
      if len(names) == len(set(names)):
        n.keywords = out


_JAX_TREE = {'map', 'leaves', 'flatten', 'unflatten', 'structure', 'reduce', 'all', 'transpose', 'map_with_path', 'flatten_with_path', 'leaves_with_path'}


def _normalise_jax_tree(tree):
  """One spelling for jax's tree utilities: `jax.tree.map` -> `jax.tree_util.tree_map` (documented aliases of each other), and an
  import alias of the module (`import jax.tree_util as jtu`, `from jax import tree_util`) -> `jax.tree_util`."""
  alias = set()
  for n in tree.body:
    if isinstance(n, ast.Import):
      alias |= {a.asname for a in n.names if a.name == 'jax.tree_util' and a.asname}
    elif isinstance(n, ast.ImportFrom) and n.module == 'jax' and not n.level:
      alias |= {a.asname or a.name for a in n.names if a.name == 'tree_util'}
  for n in ast.walk(tree):
    if not isinstance(n, ast.Attribute):
      continue
    v = n.value
    if isinstance(v, ast.Name) and v.id in alias and isinstance(v.ctx, ast.Load):
      new = ast.Attribute(value=ast.Name(id='jax', ctx=ast.Load()), attr='tree_util', ctx=ast.Load())
      ast.copy_location(new, v)
      ast.copy_location(new.value, v)
      n.value = new
    elif n.attr in _JAX_TREE and isinstance(v, ast.Attribute) and v.attr == 'tree' and isinstance(v.value, ast.Name) and v.value.id == 'jax':
      v.attr = 'tree_util'
      n.attr = 'tree_' + n.attr


_FLIP = {ast.Eq: ast.Eq, ast.NotEq: ast.NotEq, ast.Lt: ast.Gt, ast.Gt: ast.Lt, ast.LtE: ast.GtE, ast.GtE: ast.LtE}


def _constant_like(e):
  if isinstance(e, ast.Constant):
    return True
  if isinstance(e, ast.UnaryOp) and isinstance(e.op, ast.USub) and isinstance(e.operand, ast.Constant):
    return True
  if isinstance(e, ast.Name):
    return e.id.isupper()
  if isinstance(e, ast.Attribute):
    root = e
    while isinstance(root, ast.Attribute):
      root = root.value
    return isinstance(root, ast.Name) and root.id.lstrip('_')[:1].isupper() and not root.id.isupper()
  return False


def _normalise_yoda(tree):
  """`0 == n`, `_Enum.member == code`, `LIMIT < size` -> the variable on the left (`n == 0`, `code == _Enum.member`, `size > LIMIT`)."""
  for n in ast.walk(tree):
    if isinstance(n, ast.Compare) and len(n.ops) == 1 and type(n.ops[0]) in _FLIP and _constant_like(n.left) and not _constant_like(n.comparators[0]):
      n.left, n.comparators[0] = n.comparators[0], n.left
      n.ops = [_FLIP[type(n.ops[0])]()]


def _len_minus(e, base_dump):
  """k for `len(<base>) - k` with a positive integer literal k, else None."""
  if isinstance(e, ast.BinOp) and isinstance(e.op, ast.Sub) and isinstance(e.right, ast.Constant) and type(e.right.value) is int and e.right.value > 0 \
      and isinstance(e.left, ast.Call) and isinstance(e.left.func, ast.Name) and e.left.func.id == 'len' and len(e.left.args) == 1 and not e.left.keywords \
      and ast.dump(e.left.args[0]) == base_dump:
    return e.right.value
  return None


def _normalise_len_index(tree):
  """`xs[len(xs) - 1]` -> `xs[-1]` (also as a slice bound): the same element of a sequence."""
  for n in ast.walk(tree):
    if not isinstance(n, ast.Subscript) or not isinstance(n.value, (ast.Name, ast.Attribute)):
      continue
    bd = ast.dump(n.value)
    def neg(e):
      k = _len_minus(e, bd) if e is not None else None
      if k is None:
        return e
      new = ast.UnaryOp(op=ast.USub(), operand=ast.Constant(value=k))
      ast.copy_location(new, e)
      ast.copy_location(new.operand, e)
      return new
    if isinstance(n.slice, ast.Slice):
      n.slice.lower, n.slice.upper = neg(n.slice.lower), neg(n.slice.upper)
    else:
      n.slice = neg(n.slice)


_MODNAMES = None


def _ref_module_names(rel):
  """Names bound at module level in `rel` on the reference tree (None when the table has no entry for the file)."""
  global _MODNAMES
  if _MODNAMES is None:
    try:
      import json
      with open(os.path.join(os.path.dirname(os.path.abspath(__file__)), 'reference.json')) as fh:
        _MODNAMES = json.load(fh).get('__module_names__', {})
    except (OSError, ValueError):
      _MODNAMES = {}
  return _MODNAMES.get(rel)


def module_level_names(tree):
  out = set()
  for st in tree.body:
    for n in ast.walk(st) if isinstance(st, (ast.Assign, ast.AnnAssign, ast.AugAssign, ast.Import, ast.ImportFrom)) else []:
      if isinstance(n, ast.Name) and isinstance(n.ctx, ast.Store):
        out.add(n.id)
      elif isinstance(n, ast.alias):
        out.add((n.asname or n.name).split('.')[0])
    if isinstance(st, (ast.FunctionDef, ast.AsyncFunctionDef, ast.ClassDef)):
      out.add(st.name)
  return out


def _literal_const(e):
  if isinstance(e, ast.Constant) and isinstance(e.value, (str, int, float, bool, type(None), bytes)):
    return True
  if isinstance(e, ast.UnaryOp) and isinstance(e.op, ast.USub) and isinstance(e.operand, ast.Constant) and isinstance(e.operand.value, (int, float)):
    return True
  if isinstance(e, ast.Tuple) and e.elts and all(_literal_const(x) for x in e.elts):
    return True
  return False


def _normalise_new_constants(tree, rel):
  """A module-level `NAME = <literal>` that does not exist on the reference tree (a constant hoisted out of the code by a
  tidy-up) is spelled out again at its uses, so that `f'{prefix}{_TMP}'`, `self.make_rng(_PARAMS)` read as on the reference tree.
  Constants the reference tree already has keep their names (rules refer to them)."""
  known = _ref_module_names(rel)
  if known is None:
    return
  known = set(known)
  consts = {}
  counts = {}
  for st in tree.body:
    if isinstance(st, ast.Assign) and len(st.targets) == 1 and isinstance(st.targets[0], ast.Name):
      counts[st.targets[0].id] = counts.get(st.targets[0].id, 0) + 1
      if _literal_const(st.value) and st.targets[0].id not in known:
        consts[st.targets[0].id] = st.value
    elif isinstance(st, ast.AnnAssign) and isinstance(st.target, ast.Name) and st.value is not None:
      counts[st.target.id] = counts.get(st.target.id, 0) + 1
      if _literal_const(st.value) and st.target.id not in known:
        consts[st.target.id] = st.value
  consts = {k: v for k, v in consts.items() if counts.get(k) == 1}
  if not consts:
    return
  # never touch a function that binds the name itself (parameter, local, global statement)
  rebinders = set()
  for fn in [n for n in ast.walk(tree) if isinstance(n, (ast.FunctionDef, ast.AsyncFunctionDef, ast.Lambda))]:
    a = fn.args
    bound = {x.arg for x in a.posonlyargs + a.args + a.kwonlyargs} | ({a.vararg.arg} if a.vararg else set()) | ({a.kwarg.arg} if a.kwarg else set())
    for n in ast.walk(fn):
      if isinstance(n, ast.Name) and isinstance(n.ctx, (ast.Store, ast.Del)):
        bound.add(n.id)
      elif isinstance(n, (ast.Global, ast.Nonlocal)):
        bound.update(n.names)
    if bound & set(consts):
      rebinders.add(id(fn))

  class T(ast.NodeTransformer):
    def __init__(self):
      self.block = 0

    def _fn(self, node):
      b = id(node) in rebinders
      self.block += b
      self.generic_visit(node)
      self.block -= b
      return node
    visit_FunctionDef = visit_AsyncFunctionDef = visit_Lambda = _fn

    def visit_Name(self, node):
      if isinstance(node.ctx, ast.Load) and node.id in consts and not self.block:
        return ast.copy_location(copy.deepcopy(consts[node.id]), node)
      return node
  for i, st in enumerate(tree.body):
    if isinstance(st, (ast.FunctionDef, ast.AsyncFunctionDef, ast.ClassDef)):
      tree.body[i] = T().visit(st)
  ast.fix_missing_locations(tree)


def _normalise_named_splat(tree):
  """`opts = dict(k=v, j=w)` ... `f(a, **opts)` -> `f(a, k=v, j=w)` when `opts` is bound once in its function and only ever used as
  a `**opts` argument there (the shape a "collect the shared keywords in a dict" refactoring produces).  The rules then see the
  keywords at the call; the order in which the values are evaluated is not something any rule speaks about."""
  for fn in [n for n in ast.walk(tree) if isinstance(n, (ast.FunctionDef, ast.AsyncFunctionDef))]:
    own = []
    stack = list(fn.body)
    while stack:
      n = stack.pop()
      own.append(n)
      for ch in ast.iter_child_nodes(n):
        if not isinstance(ch, (ast.FunctionDef, ast.AsyncFunctionDef, ast.ClassDef, ast.Lambda)):
          stack.append(ch)
    inner_names = {x.id for n in ast.walk(fn) if isinstance(n, (ast.FunctionDef, ast.AsyncFunctionDef, ast.Lambda)) and n is not fn for x in ast.walk(n) if isinstance(x, ast.Name)}
    stores, loads, splats = {}, {}, {}
    for n in own:
      if isinstance(n, ast.Name):
        (stores if isinstance(n.ctx, (ast.Store, ast.Del)) else loads).setdefault(n.id, []).append(n)
      if isinstance(n, ast.Call):
        for k in n.keywords:
          if k.arg is None and isinstance(k.value, ast.Name):
            splats.setdefault(k.value.id, []).append((n, k))
    for st in own:
      if not (isinstance(st, ast.Assign) and len(st.targets) == 1 and isinstance(st.targets[0], ast.Name)):
        continue
      name = st.targets[0].id
      v = st.value
      if isinstance(v, ast.Call) and isinstance(v.func, ast.Name) and v.func.id == 'dict' and not v.args and v.keywords and all(k.arg is not None for k in v.keywords):
        items = list(v.keywords)
      elif isinstance(v, ast.Dict) and v.keys and all(isinstance(k, ast.Constant) and isinstance(k.value, str) and k.value.isidentifier() for k in v.keys):
        items = [ast.keyword(arg=k.value, value=y) for k, y in zip(v.keys, v.values)]
      else:
        continue
      if len(stores.get(name, [])) != 1 or name in inner_names or not splats.get(name) or len(loads.get(name, [])) != len(splats[name]):
        continue
      ok = True
      for call, k in splats[name]:
        have = {x.arg for x in call.keywords if x.arg is not None}
        if have & {x.arg for x in items}:
          ok = False
      if not ok:
        continue
      for call, k in splats[name]:
        i = call.keywords.index(k)
        call.keywords[i:i + 1] = [ast.keyword(arg=x.arg, value=copy.deepcopy(x.value)) for x in items]
      # the binding itself becomes a no-op
      st.targets = [ast.Name(id='_', ctx=ast.Store())]
      st.value = ast.Constant(value=None)


def _normalise_polarity(tree):
  """`if not X: A else: B` -> `if X: B else: A` (also for `is not` / `!=` / `not in` and conditional expressions):
  two-armed conditionals are kept with a positive test, so rules see one polarity only."""
  for n in ast.walk(tree):
    if isinstance(n, ast.If) and n.orelse:
      t, flipped = _positive(n.test)
      if flipped:
        n.test, n.body, n.orelse = t, n.orelse, n.body
    elif isinstance(n, ast.IfExp):
      t, flipped = _positive(n.test)
      if flipped:
        n.test, n.body, n.orelse = t, n.orelse, n.body


def _normalise(tree):
  """Behaviour-preserving normal form applied to every parsed module before any rule sees it:

  `T = E` immediately followed by `return T`, where the local T occurs nowhere else in the function, becomes
  `return E` (kept at the position of the assignment).  Rules therefore see the same tree whether or not a result
  was given a name first; nothing else is rewritten."""
  for fn in [n for n in ast.walk(tree) if isinstance(n, astu.FUNC_TYPES)]:
    counts = {}

    def count(node, top):
      """occurrences of names in `top`'s own scope; a nested function contributes only its free names"""
      for ch in ast.iter_child_nodes(node):
        if isinstance(ch, astu.FUNC_TYPES + (ast.Lambda,)) and ch is not top:
          local = set(astu.params(ch)) if not isinstance(ch, ast.Lambda) else {a.arg for a in ch.args.args}
          local |= {x.id for x in ast.walk(ch) if isinstance(x, ast.Name) and isinstance(x.ctx, ast.Store)}
          for x in ast.walk(ch):
            if isinstance(x, ast.Name) and x.id not in local:
              counts[x.id] = counts.get(x.id, 0) + 1
            elif isinstance(x, (ast.Global, ast.Nonlocal)):
              for nm in x.names:
                counts[nm] = counts.get(nm, 0) + 10
          continue
        if isinstance(ch, ast.Name):
          counts[ch.id] = counts.get(ch.id, 0) + 1
        elif isinstance(ch, (ast.Global, ast.Nonlocal)):
          for nm in ch.names:
            counts[nm] = counts.get(nm, 0) + 10
        count(ch, top)
    count(fn, fn)
    params = set(astu.params(fn))

    def blocks(root):
      stack = [root]
      while stack:
        node = stack.pop()
        for fld in ('body', 'orelse', 'finalbody'):
          blk = getattr(node, fld, None)
          if isinstance(blk, list):
            yield blk
            for st in blk:
              if isinstance(st, ast.stmt) and not isinstance(st, astu.FUNC_TYPES + (ast.ClassDef,)):
                stack.append(st)
        for h in getattr(node, 'handlers', []) or []:
          stack.append(h)

    def is_pair(a, b):
      return isinstance(a, ast.Assign) and len(a.targets) == 1 and isinstance(a.targets[0], ast.Name) and isinstance(b, ast.Return) and \
          isinstance(b.value, ast.Name) and b.value.id == a.targets[0].id and a.targets[0].id not in params
    pairs = {}
    for blk in blocks(fn):
      for i in range(len(blk) - 1):
        if is_pair(blk[i], blk[i + 1]):
          # the temporary may not occur inside its own defining expression
          if not any(isinstance(x, ast.Name) and x.id == blk[i].targets[0].id for x in ast.walk(blk[i].value)):
            pairs[blk[i].targets[0].id] = pairs.get(blk[i].targets[0].id, 0) + 1
    ok_names = {t for t, k in pairs.items() if counts.get(t) == 2 * k}
    if not ok_names:
      continue
    for blk in blocks(fn):
      i = 0
      while i + 1 < len(blk):
        a, b = blk[i], blk[i + 1]
        if is_pair(a, b) and a.targets[0].id in ok_names:
          new = ast.Return(value=a.value)
          ast.copy_location(new, a)
          new.end_lineno, new.end_col_offset = getattr(b, 'end_lineno', None), getattr(b, 'end_col_offset', None)
          blk[i:i + 2] = [new]
          continue
        i += 1


class Mod:

  def __init__(self, repo, rel, path, text=None):
    self.repo, self.rel, self.path = repo, rel, path
    self.relocated = {}
    if text is not None:
      raw = text.encode('utf-8')
    else:
      with open(path, 'rb') as f:
        raw = f.read()
    self.digest = hashlib.sha1(raw).hexdigest()
    self.src = raw.decode('utf-8')
    try:
      self._tree = ast.parse(self.src, filename=path)
    except SyntaxError as e:
      raise AnalysisError('unparsable file %s: %s' % (rel, e))
    _normalise_nested_names(self._tree, rel)
    _normalise_new_constants(self._tree, rel)
    _normalise_jax_tree(self._tree)
    _normalise_yoda(self._tree)
    _normalise_len_index(self._tree)
    _normalise_inline_splat(self._tree)
    _normalise_named_splat(self._tree)
    _normalise_polarity(self._tree)
    _normalise(self._tree)
    self._import_nodes = astu.set_parents(self._tree)
    self.dotted = rel[:-3].replace('/', '.')
    if self.dotted.endswith('.__init__'):
      self.dotted = self.dotted[: -len('.__init__')]
    self._funcs: dict = {}
    self._classes: dict = {}
    self.imports: dict = {}  # local alias -> dotted target ('flax.core.lift' or 'flax.core.lift.scan')
    self._assigns: dict = {}  # module-level simple name -> value node (last wins)
    self._index(self._tree, '', None)
    self._index_imports()

  def _index(self, node, prefix, cls):
    for ch in ast.iter_child_nodes(node):
      if isinstance(ch, astu.FUNC_TYPES):
        q = prefix + ch.name
        # keep the first def under a name unless later one is not an overload stub
        if q in self._funcs and 'overload' in ' '.join(astu.decorator_names(ch)):
          pass
        else:
          if q in self._funcs and 'overload' not in ' '.join(astu.decorator_names(self._funcs[q].node)):
            # redefinition (e.g. property setter): keep under a suffixed key too
            k = 2
            while '%s#%d' % (q, k) in self._funcs:
              k += 1
            self._funcs['%s#%d' % (q, k)] = Func(self, '%s#%d' % (q, k), ch, cls)
          else:
            self._funcs[q] = Func(self, q, ch, cls)
        self._index(ch, q + '.', None)
      elif isinstance(ch, ast.ClassDef):
        q = prefix + ch.name
        self._classes.setdefault(q, ch)
        self._index(ch, q + '.', ch)
      elif isinstance(ch, (ast.If, ast.Try, ast.With, ast.For, ast.While)):
        self._index(ch, prefix, cls)
      elif isinstance(ch, ast.Assign) and node is self._tree:
        for t in ch.targets:
          if isinstance(t, ast.Name):
            self._assigns[t.id] = ch.value
      elif isinstance(ch, ast.AnnAssign) and node is self._tree and isinstance(ch.target, ast.Name) and ch.value:
        self._assigns[ch.target.id] = ch.value

  def _index_imports(self):
    pkg = self.dotted if self.rel.endswith('__init__.py') else self.dotted.rsplit('.', 1)[0]
    for n in sorted(self._import_nodes, key=lambda x: (x.lineno, x.col_offset)):
      if isinstance(n, ast.Import):
        for a in n.names:
          if a.asname:
            self.imports[a.asname] = a.name
          else:
            self.imports[a.name.split('.')[0]] = a.name.split('.')[0]
      elif isinstance(n, ast.ImportFrom):
        base = n.module or ''
        if n.level:
          parts = pkg.split('.')
          parts = parts[: len(parts) - (n.level - 1)]
          base = '.'.join(parts + ([n.module] if n.module else []))
        for a in n.names:
          self.imports[a.asname or a.name] = base + '.' + a.name

  # -- traced views (rules use these; the engine records what a rule consulted) ---------------
  def _wide(self):
    t = self.repo.trace
    if t is not None:
      t.add(('mod', self.rel))

  @property
  def funcs(self):
    self._wide()
    return self._funcs

  @property
  def classes(self):
    self._wide()
    return self._classes

  @property
  def assigns(self):
    self._wide()
    return self._assigns

  @property
  def tree(self):
    self._wide()
    return self._tree

  def _rec(self, f):
    t = self.repo.trace
    if t is not None and f is not None:
      t.add(('func', self.rel, f.qual.split('.')[0] if False else f.qual))
    return f

  # -- lookups ------------------------------------------------------------
  def func(self, qual) -> Func:
    f = self._funcs.get(qual)
    if f is None:
      f = self._relocate(qual)
    if f is None:
      self._wide()
      raise AnalysisError('anchor vanished: function %s in %s' % (qual, self.rel))
    return self._rec(f)

  def _children(self, parent):
    pre = parent + '.'
    kids = [f for q, f in self._funcs.items() if q.startswith(pre) and '.' not in q[len(pre):]]
    return sorted(kids, key=lambda f: (f.node.lineno, f.node.col_offset))

  def _relocate(self, qual, depth=0):
    """A private (nested / underscore) function that was renamed or hoisted: find it again by its role.

    (1) a unique function of the module with the same final name (leading underscores ignored) - hoisting / wrapping;
    (2) the nested function at the same position, with the same arity, under the same (possibly relocated) parent,
        when the parent still has as many nested functions as on the reference tree (vf/reference.json) - renaming.
    The relocation is recorded in self.relocated; rules treat the result like the original anchor."""
    if depth > 2:
      return None
    last = qual.rsplit('.', 1)[-1]
    parent = qual.rsplit('.', 1)[0] if '.' in qual else None
    if parent is not None and parent in self._classes:
      return None   # methods are API: never guessed
    cands = [f for q, f in self._funcs.items() if q.rsplit('.', 1)[-1].lstrip('_') == last.lstrip('_') and q.rsplit('.', 1)[0] not in self._classes]
    if len(cands) == 1:
      self.relocated[qual] = cands[0].qual
      return cands[0]
    if parent is None:
      return None
    pf = self._funcs.get(parent) or self._relocate(parent, depth + 1)
    if pf is None:
      return None
    kids = self._children(pf.qual)
    info = _nested_info(self.rel, qual)
    if info is not None:
      idx, npar, nkids = info
      if len(kids) == nkids and idx < len(kids) and len(astu.params(kids[idx].node)) == npar:
        self.relocated[qual] = kids[idx].qual
        return kids[idx]
      return None
    if len(kids) == 1:
      self.relocated[qual] = kids[0].qual
      return kids[0]
    return None

  def cls(self, qual) -> ast.ClassDef:
    self._wide()
    c = self._classes.get(qual)
    if c is None:
      raise AnalysisError('anchor vanished: class %s in %s' % (qual, self.rel))
    return c

  def has_func(self, qual):
    self._wide()
    return qual in self._funcs

  def methods(self, clsname) -> dict:
    self._wide()
    pre = clsname + '.'
    return {q[len(pre):]: f for q, f in self._funcs.items() if q.startswith(pre) and '.' not in q[len(pre):]}

  def nested(self, qual) -> dict:
    self._wide()
    pre = qual + '.'
    return {q[len(pre):]: f for q, f in self._funcs.items() if q.startswith(pre)}

  def func_of_node(self, node) -> Optional[Func]:
    """The Func whose def encloses `node` (innermost)."""
    cur = node
    while cur is not None:
      if isinstance(cur, astu.FUNC_TYPES):
        for f in self._funcs.values():
          if f.node is cur:
            return f
      cur = astu.parent(cur)
    return None

  def qual_of(self, fnode) -> Optional[str]:
    for q, f in self._funcs.items():
      if f.node is fnode:
        return q
    return None


class _LazyDotted:
  """dotted module name -> Mod, parsing on demand."""

  def __init__(self, repo):
    self.repo = repo

  def __contains__(self, d):
    return d in self.repo._dotted_to_rel

  def get(self, d, default=None):
    rel = self.repo._dotted_to_rel.get(d)
    return self.repo._load(rel) if rel is not None else default

  def __getitem__(self, d):
    return self.repo._load(self.repo._dotted_to_rel[d])


class Repo:

  def __init__(self, root='/repo', package='flax', overlay=None):
    """overlay: {relpath: source text} replaces files in memory (used for checker self-validation)."""
    overlay = overlay or {}
    self.root = os.path.abspath(root)
    self.package = package
    self._paths: dict = {}
    self._overlay = overlay
    self._mods: dict = {}
    self._dotted_to_rel: dict = {}
    base = os.path.join(self.root, package)
    if not os.path.isdir(base):
      raise AnalysisError('no package directory %s' % base)
    for dp, dns, fns in os.walk(base):
      dns[:] = sorted(d for d in dns if d != '__pycache__')
      for fn in sorted(fns):
        if fn.endswith('.py'):
          p = os.path.join(dp, fn)
          rel = os.path.relpath(p, self.root)
          self._paths[rel] = p
          d = rel[:-3].replace('/', '.')
          if d.endswith('.__init__'):
            d = d[: -len('.__init__')]
          self._dotted_to_rel[d] = rel
    self.by_dotted = _LazyDotted(self)
    self.trace = None   # set of consulted units while a rule runs

  def _load(self, rel):
    m = self._mods.get(rel)
    if m is None:
      m = Mod(self, rel, self._paths[rel], self._overlay.get(rel))
      self._mods[rel] = m
    return m

  @property
  def mods(self) -> dict:
    """All modules (parses everything that has not been parsed yet)."""
    for rel in self._paths:
      self._load(rel)
    return {rel: self._mods[rel] for rel in self._paths}

  def mods_with(self, *needles) -> list:
    """Modules whose source text contains any of the needles (cheap pre-filter for whole-repo scans)."""
    out = []
    for rel, path in self._paths.items():
      if rel in self._mods or rel in self._overlay:
        m = self._load(rel)
        if any(n in m.src for n in needles):
          out.append(m)
        continue
      with open(path, encoding='utf-8') as f:
        txt = f.read()
      if any(n in txt for n in needles):
        out.append(self._load(rel))
    return out

  @property
  def n_funcs(self):
    return sum(len(m._funcs) for m in self._mods.values())

  @property
  def n_parsed(self):
    return len(self._mods)

  def mod(self, rel) -> Mod:
    if rel not in self._paths:
      raise AnalysisError('anchor vanished: file %s' % rel)
    return self._load(rel)

  def func(self, rel, qual) -> Func:
    return self.mod(rel).func(qual)

  def digest(self, rels=None) -> str:
    h = hashlib.sha1()
    for rel in sorted(rels or self._mods):
      h.update(rel.encode())
      h.update(self._load(rel).digest.encode())
    return h.hexdigest()

  # -- symbol / call resolution --------------------------------------------
  def resolve_dotted(self, mod: Mod, name: str, scope: Func = None):
    return self._note(self._resolve_dotted(mod, name, scope))

  def _resolve_dotted(self, mod: Mod, name: str, scope: Func = None):
    """Resolve a dotted name used inside `mod` (optionally inside `scope`).

    Returns a Func, an ast.ClassDef wrapper ('class', mod, node), a Mod, or None.
    """
    parts = name.split('.')
    head, rest = parts[0], parts[1:]
    # nested defs of enclosing functions
    if scope is not None and not rest:
      q = scope.qual
      while True:
        cand = q + '.' + head
        if cand in mod._funcs and q in mod._funcs:  # class bodies are not enclosing scopes of their methods
          return mod._funcs[cand]
        if '.' not in q:
          break
        q = q.rsplit('.', 1)[0]
    if head in ('self', 'cls') and scope is not None and rest:
      c = self.class_of(scope)
      if c is not None and len(rest) == 1:
        return self.lookup_method(c[0], c[1], rest[0])
      return None
    cur = None
    if head in mod._funcs and not rest:
      return mod._funcs[head]
    if head in mod._classes:
      cur = ('class', mod, head)
    elif head in mod.imports:
      cur = self._resolve_abs(mod.imports[head])
    elif head in mod._funcs:
      cur = mod._funcs[head]
    if cur is None:
      return None
    for r in rest:
      cur = self._member(cur, r)
      if cur is None:
        return None
    return cur

  def _resolve_abs(self, dotted, depth=0):
    if dotted in self.by_dotted:
      return self.by_dotted[dotted]
    if '.' in dotted and depth < 6:
      base, last = dotted.rsplit('.', 1)
      b = self._resolve_abs(base, depth + 1)
      if b is not None:
        return self._member(b, last, depth + 1)
    return None

  def _member(self, cur, name, depth=0):
    if isinstance(cur, Mod):
      if name in cur._funcs:
        return cur._funcs[name]
      if name in cur._classes:
        return ('class', cur, name)
      if name in cur.imports and depth < 6:
        return self._resolve_abs(cur.imports[name], depth + 1)
      sub = cur.dotted + '.' + name
      if sub in self.by_dotted:
        return self.by_dotted[sub]
      return None
    if isinstance(cur, tuple) and cur[0] == 'class':
      return self.lookup_method(cur[1], cur[2], name)
    return None

  def class_of(self, f: Func):
    """(mod, classqual) of the class that lexically encloses method f (through nested defs)."""
    q = f.qual
    while '.' in q:
      q = q.rsplit('.', 1)[0]
      if q in f.mod._classes:
        return (f.mod, q)
    return None

  def bases(self, mod: Mod, clsqual: str) -> list:
    out = []
    c = mod._classes.get(clsqual)
    if c is None:
      return out
    for b in c.bases:
      d = astu.dotted(b.value if isinstance(b, ast.Subscript) else b)
      if not d:
        continue
      r = self.resolve_dotted(mod, d)
      if isinstance(r, tuple) and r[0] == 'class':
        out.append((r[1], r[2]))
    return out

  def mro(self, mod: Mod, clsqual: str, _seen=None) -> list:
    seen = _seen if _seen is not None else set()
    key = (mod.rel, clsqual)
    if key in seen:
      return []
    seen.add(key)
    out = [(mod, clsqual)]
    for bm, bq in self.bases(mod, clsqual):
      out.extend(self.mro(bm, bq, seen))
    return out

  def lookup_method(self, mod: Mod, clsqual: str, name: str):
    return self._note(self._lookup_method(mod, clsqual, name))

  def _lookup_method(self, mod: Mod, clsqual: str, name: str):
    for m, q in self.mro(mod, clsqual):
      f = m._funcs.get(q + '.' + name)
      if f is not None:
        return f
    return None

  def resolve_call(self, mod: Mod, call: ast.Call, scope: Func = None):
    """Resolve the callee of `call` to a Func (constructor calls -> __init__), else None."""
    f = call.func
    # functools.partial(f, ...)(...) / partial objects are not followed here
    d = astu.dotted(f)
    if d is None:
      return None
    r = self.resolve_dotted(mod, d, scope)
    if isinstance(r, Func):
      return r
    if isinstance(r, tuple) and r[0] == 'class':
      return self.lookup_method(r[1], r[2], '__init__')
    return None

  def resolve_class(self, mod: Mod, expr):
    d = astu.dotted(expr)
    if d is None:
      return None
    r = self.resolve_dotted(mod, d)
    if isinstance(r, tuple) and r[0] == 'class':
      return (r[1], r[2])
    return None

  def all_funcs(self):
    for m in self.mods.values():
      yield from m._funcs.values()

  def _note(self, r):
    if isinstance(r, Func) and self.trace is not None:
      self.trace.add(('func', r.mod.rel, r.qual))
    return r
