"""Strong normal form used (only) for the alpha-equivalence digests of vf/canon.py.

Two functions with the same strong normal form compute the same thing; the rewrites below are all
semantics preserving, and they are chosen to absorb the most common behaviour-preserving refactorings:

  S0  tests in negation normal form (not pushed through and/or, is/in, all()/any() over a generator);
      `if a and b: A` == `if a: if b: A`;  `if a or b: A` with A ending in return/raise/... == `if a: A  if b: A`
  S1  `if c: A else: B` with A ending in return/raise/continue/break  ==  `if c: A` followed by B
      (and, for a guard clause `if not c: A` whose rest R closes the enclosing function or loop,
      the positive form `if c: R  A`), trailing bare `return` / `continue` removed
  S2  a local bound exactly once to an expression that reads no mutable state and runs no code
      (names that are never rebound, constants, attributes of imported modules, arithmetic,
      comparisons, tuples of such - not list/dict/set displays, which create a fresh mutable object) is replaced by that expression at its uses
  S3  A-normal form: every call, attribute read on a local object and subscript nested inside an
      unconditionally evaluated expression is named by a fresh temporary immediately before the
      statement, in Python's evaluation order.  `t = f(x); g(t)` and `g(f(x))` become the same
      text, while two orders of evaluation of possibly effectful expressions stay different.

Nothing is hoisted out of a conditionally or repeatedly evaluated position (operands of and/or
after the first, branches of a conditional expression, comprehension bodies, lambda bodies,
`while` tests, assert messages).  Whatever the transformer does not understand is left untouched,
which only makes two equivalent functions look different (no verdict reuse), never the converse.

The rules themselves never see this form: they analyse the tree as loaded by vf/model.py.
"""
from __future__ import annotations

import ast
import copy

FUNC = (ast.FunctionDef, ast.AsyncFunctionDef)
SCOPES = FUNC + (ast.Lambda, ast.ClassDef, ast.ListComp, ast.SetComp, ast.DictComp, ast.GeneratorExp)
TERM = (ast.Return, ast.Raise, ast.Continue, ast.Break)
_NEG_CMP = {ast.IsNot: ast.Is, ast.NotEq: ast.Eq, ast.NotIn: ast.In}


def terminates(body):
  if not body:
    return False
  last = body[-1]
  if isinstance(last, TERM):
    return True
  if isinstance(last, ast.If) and last.orelse:
    return terminates(last.body) and terminates(last.orelse)
  return False


def _negative(test):
  if isinstance(test, ast.UnaryOp) and isinstance(test.op, ast.Not):
    return test.operand
  if isinstance(test, ast.Compare) and len(test.ops) == 1 and type(test.ops[0]) in _NEG_CMP:
    return ast.Compare(left=test.left, ops=[_NEG_CMP[type(test.ops[0])]()], comparators=test.comparators)
  return None


def _not(e):
  """Negation of a test in negation normal form (only rewrites that hold for every object)."""
  if isinstance(e, ast.UnaryOp) and isinstance(e.op, ast.Not):
    return nnf(e.operand)
  if isinstance(e, ast.BoolOp):
    return ast.BoolOp(op=ast.Or() if isinstance(e.op, ast.And) else ast.And(), values=[_not(v) for v in e.values])
  if isinstance(e, ast.Compare) and len(e.ops) == 1:
    flip = {ast.Is: ast.IsNot, ast.IsNot: ast.Is, ast.In: ast.NotIn, ast.NotIn: ast.In}.get(type(e.ops[0]))
    if flip is not None:
      return ast.Compare(left=e.left, ops=[flip()], comparators=e.comparators)
  if (isinstance(e, ast.Call) and isinstance(e.func, ast.Name) and e.func.id in ('all', 'any') and len(e.args) == 1 and not e.keywords
      and isinstance(e.args[0], ast.GeneratorExp)):
    g = e.args[0]
    return ast.Call(func=ast.Name(id='any' if e.func.id == 'all' else 'all', ctx=ast.Load()),
                    args=[ast.GeneratorExp(elt=_not(g.elt), generators=g.generators)], keywords=[])
  return ast.UnaryOp(op=ast.Not(), operand=nnf(e))


def nnf(e):
  """Push `not` inwards through and/or, is/in and all()/any() over a generator (short-circuit order is kept)."""
  if isinstance(e, ast.UnaryOp) and isinstance(e.op, ast.Not):
    return _not(e.operand)
  if isinstance(e, ast.BoolOp):
    vals = []
    for v in e.values:
      v = nnf(v)
      if isinstance(v, ast.BoolOp) and type(v.op) is type(e.op):
        vals.extend(v.values)
      else:
        vals.append(v)
    return ast.BoolOp(op=e.op, values=vals)
  return e


# ----------------------------------------------------------------------------------------------
# S1 control-flow normal form


def _strip_tail(body, kind):
  """Remove a trailing bare `return`/`return None` (kind='func') or `continue` (kind='loop')."""
  if not body:
    return body
  last = body[-1]
  if kind == 'func' and isinstance(last, ast.Return) and (last.value is None or (isinstance(last.value, ast.Constant) and last.value.value is None)):
    return _strip_tail(body[:-1], kind) if len(body) > 1 else [ast.Pass()]
  if kind == 'loop' and isinstance(last, ast.Continue):
    return _strip_tail(body[:-1], kind) if len(body) > 1 else [ast.Pass()]
  return body


def _small(body):
  return sum(1 for st in body for _ in ast.walk(st)) <= 60


def _is_implicit_end(body, kind):
  if len(body) != 1:
    return False
  st = body[0]
  if kind == 'loop':
    return isinstance(st, ast.Continue)
  if kind == 'func':
    return isinstance(st, ast.Return) and (st.value is None or (isinstance(st.value, ast.Constant) and st.value.value is None))
  return False


def _flow(body, kind):
  """kind: 'func' (end of block = return None), 'loop' (end of block = continue), 'inner' (falls through)."""
  out = []
  i = 0
  body = list(body)
  while i < len(body):
    st = body[i]
    rest = body[i + 1:]
    if isinstance(st, ast.If):
      st.test = nnf(st.test)
      st.body = _flow(st.body, 'inner')
      st.orelse = _flow(st.orelse, 'inner') if st.orelse else []
      if not st.orelse and isinstance(st.test, ast.BoolOp) and isinstance(st.test.op, ast.And):
        # if a and b: A   ->   if a: if b: A
        inner = st.body
        for v in reversed(st.test.values[1:]):
          inner = [ast.If(test=v, body=inner, orelse=[])]
        st.test = st.test.values[0]
        st.body = inner
      if not st.orelse and isinstance(st.test, ast.BoolOp) and isinstance(st.test.op, ast.Or) and terminates(st.body) and _small(st.body):
        # if a or b: A(term)   ->   if a: A ; if b: A
        split = [ast.If(test=v, body=copy.deepcopy(st.body), orelse=[]) for v in st.test.values]
        body = body[:i] + split + rest
        continue
      if st.orelse and terminates(st.body):
        # if c: A(term) else: B ; R   ->   if c: A ; B ; R
        tail = st.orelse
        st.orelse = []
        body = body[:i + 1] + tail + rest
        rest = body[i + 1:]
      elif st.orelse and terminates(st.orelse):
        # if c: A else: B(term) ; R   ->   if not c: B ; A ; R   (then made positive again below when possible)
        tail = st.body
        st.test = _negative(st.test) or ast.UnaryOp(op=ast.Not(), operand=st.test)
        st.body = st.orelse
        st.orelse = []
        body = body[:i + 1] + tail + rest
        rest = body[i + 1:]
      if not st.orelse and terminates(st.body):
        pos = _negative(st.test)
        closes = terminates(rest) or (kind in ('func', 'loop') and bool(rest))
        if pos is not None and closes and not any(isinstance(x, FUNC + (ast.ClassDef,)) for x in rest):
          # guard clause with a negative test: if not c: A ; R   ->   if c: R(closed) ; A
          new_body = _flow(rest, 'inner')
          guard = st.body
          if _is_implicit_end(guard, kind):
            # the guard only does what falling off the block does anyway: if not c: continue ; R  ->  if c: R
            st.test = pos
            st.body = _strip_tail(new_body, kind)
            out.append(st)
            return _finish(out, kind)
          if not terminates(new_body):
            new_body = new_body + [ast.Return(value=None) if kind == 'func' else ast.Continue()]
          st.test = pos
          st.body = new_body
          out.append(st)
          out.extend(guard)
          return _finish(out, kind)
      out.append(st)
    elif isinstance(st, (ast.For, ast.AsyncFor, ast.While)):
      st.body = _flow(st.body, 'loop')
      st.orelse = _flow(st.orelse, 'inner') if st.orelse else []
      out.append(st)
    elif isinstance(st, (ast.With, ast.AsyncWith)):
      st.body = _flow(st.body, 'inner')
      out.append(st)
    elif isinstance(st, ast.Try):
      st.body = _flow(st.body, 'inner')
      for h in st.handlers:
        h.body = _flow(h.body, 'inner')
      st.orelse = _flow(st.orelse, 'inner') if st.orelse else []
      st.finalbody = _flow(st.finalbody, 'inner') if st.finalbody else []
      out.append(st)
    elif isinstance(st, ast.Pass):
      pass
    else:
      out.append(st)
      if isinstance(st, TERM):
        break  # unreachable code after return/raise/continue/break
    i += 1
  return _finish(out, kind)


def _finish(out, kind):
  out = _strip_tail(out, kind) if kind in ('func', 'loop') else out
  return out or [ast.Pass()]


# ----------------------------------------------------------------------------------------------
# name facts


class _Facts(ast.NodeVisitor):
  """Per function: how often each name is bound in the function's own scope, which names nested scopes rebind."""

  def __init__(self, fn):
    self.stores = {}
    self.store_line = {}
    self.loads = {}
    self.closure_loads = set()
    for x in ast.walk(fn):
      if isinstance(x, ast.Name) and isinstance(x.ctx, ast.Load):
        self.loads[x.id] = self.loads.get(x.id, 0) + 1
    for x in ast.walk(fn):
      if x is not fn and isinstance(x, FUNC + (ast.Lambda, ast.GeneratorExp)):
        for y in ast.walk(x):
          if isinstance(y, ast.Name) and isinstance(y.ctx, ast.Load):
            self.closure_loads.add(y.id)
    self.unstable = set()
    self.inner_bound = set()
    a = fn.args
    self.params = {x.arg for x in a.posonlyargs + a.args + a.kwonlyargs} | ({a.vararg.arg} if a.vararg else set()) | ({a.kwarg.arg} if a.kwarg else set())
    for st in fn.body:
      self.visit(st)

  def _bind(self, name, line=None):
    self.stores[name] = self.stores.get(name, 0) + 1
    if line is not None:
      self.store_line.setdefault(name, line)

  def visit_Name(self, n):
    if isinstance(n.ctx, (ast.Store, ast.Del)):
      self._bind(n.id, getattr(n, 'lineno', None))

  def visit_ExceptHandler(self, n):
    if n.name:
      self._bind(n.name)
      self._bind(n.name)  # unbound again at the end of the handler
    self.generic_visit(n)

  def visit_Global(self, n):
    self.unstable.update(n.names)

  visit_Nonlocal = visit_Global

  def visit_Import(self, n):
    for a in n.names:
      self._bind((a.asname or a.name).split('.')[0])

  visit_ImportFrom = visit_Import

  def _inner(self, n):
    # names bound in nested scopes (shadowing) and names they declare nonlocal
    for x in ast.walk(n):
      if isinstance(x, (ast.Nonlocal, ast.Global)):
        self.unstable.update(x.names)
      elif isinstance(x, ast.Name) and isinstance(x.ctx, (ast.Store, ast.Del)):
        self.inner_bound.add(x.id)
      elif isinstance(x, ast.arg):
        self.inner_bound.add(x.arg)
      elif isinstance(x, FUNC + (ast.ClassDef,)) and x is not n:
        self.inner_bound.add(x.name)

  def visit_FunctionDef(self, n):
    self._bind(n.name)
    for d in n.decorator_list + n.args.defaults + [k for k in n.args.kw_defaults if k is not None]:
      self.visit(d)
    self._inner(n)

  visit_AsyncFunctionDef = visit_FunctionDef

  def visit_ClassDef(self, n):
    self._bind(n.name)
    self._inner(n)

  def visit_Lambda(self, n):
    self._inner(n)

  def _comp(self, n):
    self.visit(n.generators[0].iter)
    for g in n.generators:
      for x in ast.walk(g.target):
        if isinstance(x, ast.Name):
          self.inner_bound.add(x.id)
    for x in ast.walk(n):
      if isinstance(x, ast.NamedExpr) and isinstance(x.target, ast.Name):
        self._bind(x.target.id)
        self._bind(x.target.id)

  visit_ListComp = visit_SetComp = visit_DictComp = visit_GeneratorExp = _comp

  def visit_NamedExpr(self, n):
    self._bind(n.target.id)
    self._bind(n.target.id)
    self.visit(n.value)


class _Env:
  """What the transformer needs to know about one function."""

  def __init__(self, fn, module_names):
    self.f = _Facts(fn)
    self.module_names = module_names
    self.n = 0

  def fresh(self):
    self.n += 1
    return '__anf%d' % self.n

  def is_local(self, name):
    return name in self.f.params or name in self.f.stores

  def stable(self, name):
    """The name denotes the same object wherever it is read in this function (after its single binding)."""
    if name in self.f.unstable:
      return False
    if name in self.f.params:
      return self.f.stores.get(name, 0) == 0
    if name in self.f.stores:
      return self.f.stores[name] == 1
    return True  # global / builtin / enclosing function's name: not rebound here

  def module_rooted(self, e):
    while isinstance(e, ast.Attribute):
      e = e.value
    return isinstance(e, ast.Name) and not self.is_local(e.id) and e.id in self.module_names


def pure(e, env) -> bool:
  """Evaluating e runs no user code worth ordering and reads no mutable state: it may be moved or duplicated."""
  if isinstance(e, ast.Constant):
    return True
  if isinstance(e, ast.Name):
    return env.stable(e.id)
  if isinstance(e, ast.Attribute):
    return env.module_rooted(e)
  if isinstance(e, ast.Tuple):
    return all(pure(x, env) for x in e.elts)
  if isinstance(e, ast.Starred):
    return pure(e.value, env)
  # list / dict / set displays create a fresh mutable object: neither duplicated nor moved
  if isinstance(e, ast.BinOp):
    return pure(e.left, env) and pure(e.right, env)
  if isinstance(e, ast.UnaryOp):
    return pure(e.operand, env)
  if isinstance(e, ast.Compare):
    return pure(e.left, env) and all(pure(c, env) for c in e.comparators)
  if isinstance(e, ast.BoolOp):
    return all(pure(v, env) for v in e.values)
  if isinstance(e, ast.IfExp):
    return pure(e.test, env) and pure(e.body, env) and pure(e.orelse, env)
  if isinstance(e, ast.JoinedStr):
    return all(pure(v, env) for v in e.values)
  if isinstance(e, ast.FormattedValue):
    return pure(e.value, env) and (e.format_spec is None or pure(e.format_spec, env))
  if isinstance(e, ast.Slice):
    return all(x is None or pure(x, env) for x in (e.lower, e.upper, e.step))
  return False


# ----------------------------------------------------------------------------------------------
# S2 inlining of pure single-binding locals


class _Subst(ast.NodeTransformer):

  def __init__(self, name, expr):
    self.name, self.expr, self.count = name, expr, 0

  def visit_Name(self, n):
    if n.id == self.name and isinstance(n.ctx, ast.Load):
      self.count += 1
      return copy.deepcopy(self.expr)
    return n


def _names(e):
  return {x.id for x in ast.walk(e) if isinstance(x, ast.Name)}


def _inline_block(body, env, in_loop=False):
  """Inline `t = <pure>` (t bound once in the whole function, not captured-and-rebound, not shadowed) into the
  statements that follow it in the same block; only when every read of t is among them, and every local the
  expression mentions was bound (once) textually before."""
  body = list(body)
  i = 0
  while i < len(body):
    st = body[i]
    for fld in ('body', 'orelse', 'finalbody'):
      if isinstance(st, FUNC + (ast.ClassDef,)):
        break
      if isinstance(getattr(st, fld, None), list) and getattr(st, fld):
        setattr(st, fld, _inline_block(getattr(st, fld), env, in_loop or (isinstance(st, (ast.For, ast.AsyncFor, ast.While)) and fld == 'body')))
    if isinstance(st, ast.Try):
      for h in st.handlers:
        h.body = _inline_block(h.body, env, in_loop)
    if (isinstance(st, ast.Assign) and len(st.targets) == 1 and isinstance(st.targets[0], ast.Name)):
      t = st.targets[0].id
      f = env.f
      if (f.stores.get(t) == 1 and t not in f.params and t not in f.unstable and t not in f.inner_bound
          and pure(st.value, env) and not (_names(st.value) & f.inner_bound) and t not in _names(st.value)):
        rest = body[i + 1:]
        here = sum(1 for x in rest for y in ast.walk(x) if isinstance(y, ast.Name) and y.id == t and isinstance(y.ctx, ast.Load))
        line = getattr(st, 'lineno', None)
        earlier = all((n in f.params or n not in f.stores or (line is not None and f.store_line.get(n) is not None and f.store_line[n] < line)) for n in _names(st.value))
        if here == f.loads.get(t, 0) and earlier and not (in_loop and t in f.closure_loads):
          sub = _Subst(t, st.value)
          body = body[:i] + [sub.visit(x) for x in rest]
          continue
    i += 1
  return body or [ast.Pass()]


# ----------------------------------------------------------------------------------------------
# S3 A-normal form


class _Bail(Exception):
  pass


class _Anf:

  def __init__(self, env):
    self.env = env

  def atomic(self, e):
    return isinstance(e, (ast.Name, ast.Constant)) or pure(e, self.env) or isinstance(e, ast.Lambda)

  def atomise(self, e, pre):
    e = self.hoist(e, pre)
    if self.atomic(e) or self._pure_shell(e):
      return e
    name = self.env.fresh()
    self.env.f.stores[name] = 1
    pre.append(ast.Assign(targets=[ast.Name(id=name, ctx=ast.Store())], value=e, lineno=0, col_offset=0))
    return ast.Name(id=name, ctx=ast.Load())

  def _pure_shell(self, e):
    """A pure combinator whose operands are already atoms (temporaries are single-binding names, hence stable)."""
    return pure(e, self.env)

  def hoist(self, e, pre):
    """Returns e with its unconditionally evaluated, possibly effectful sub-expressions named in `pre`, in evaluation order."""
    if e is None or self.atomic(e):
      return e
    if isinstance(e, (ast.NamedExpr, ast.Await, ast.Yield, ast.YieldFrom)):
      raise _Bail()
    for x in ast.walk(e):
      if isinstance(x, (ast.NamedExpr, ast.Await, ast.Yield, ast.YieldFrom)):
        raise _Bail()
    if isinstance(e, ast.Call):
      if isinstance(e.func, ast.Attribute) and not self.env.module_rooted(e.func):
        e.func.value = self.atomise(e.func.value, pre)
      else:
        e.func = self.atomise(e.func, pre)
      e.args = [self._arg(a, pre) for a in e.args]
      for k in e.keywords:
        k.value = self.atomise(k.value, pre)
      return e
    if isinstance(e, ast.Attribute):
      e.value = self.atomise(e.value, pre)
      return e
    if isinstance(e, ast.Subscript):
      e.value = self.atomise(e.value, pre)
      e.slice = self.atomise(e.slice, pre)
      return e
    if isinstance(e, ast.Slice):
      e.lower = self.atomise(e.lower, pre) if e.lower is not None else None
      e.upper = self.atomise(e.upper, pre) if e.upper is not None else None
      e.step = self.atomise(e.step, pre) if e.step is not None else None
      return e
    if isinstance(e, (ast.Tuple, ast.List, ast.Set)):
      e.elts = [self._arg(a, pre) for a in e.elts]
      return e
    if isinstance(e, ast.Dict):
      ks, vs = [], []
      for k, v in zip(e.keys, e.values):
        ks.append(self.atomise(k, pre) if k is not None else None)
        vs.append(self.atomise(v, pre))
      e.keys, e.values = ks, vs
      return e
    if isinstance(e, ast.BinOp):
      e.left = self.atomise(e.left, pre)
      e.right = self.atomise(e.right, pre)
      return e
    if isinstance(e, ast.UnaryOp):
      e.operand = self.atomise(e.operand, pre)
      return e
    if isinstance(e, ast.Compare):
      e.left = self.atomise(e.left, pre)
      if len(e.ops) == 1:
        e.comparators = [self.atomise(e.comparators[0], pre)]
      return e
    if isinstance(e, ast.BoolOp):
      e.values[0] = self.atomise(e.values[0], pre)
      return e
    if isinstance(e, ast.IfExp):
      e.test = self.atomise(e.test, pre)
      return e
    if isinstance(e, (ast.ListComp, ast.SetComp, ast.DictComp, ast.GeneratorExp)):
      e.generators[0].iter = self.atomise(e.generators[0].iter, pre)
      return e
    if isinstance(e, ast.JoinedStr):
      return e
    if isinstance(e, ast.Starred):
      e.value = self.atomise(e.value, pre)
      return e
    return e

  def _arg(self, a, pre):
    if isinstance(a, ast.Starred):
      a.value = self.atomise(a.value, pre)
      return a
    return self.atomise(a, pre)

  def _simple_target(self, t):
    if isinstance(t, ast.Name):
      return True
    if isinstance(t, (ast.Tuple, ast.List)):
      return all(self._simple_target(x) for x in t.elts)
    if isinstance(t, ast.Starred):
      return self._simple_target(t.value)
    if isinstance(t, ast.Attribute):
      return self.atomic(t.value)
    if isinstance(t, ast.Subscript):
      return self.atomic(t.value) and self.atomic(t.slice)
    return False

  def block(self, body):
    out = []
    for st in body:
      pre = []
      snapshot = copy.deepcopy(st)
      try:
        st = self.stmt(st, pre)
      except _Bail:
        st, pre = snapshot, []
        self._recurse(st)
      out.extend(pre)
      out.append(st)
    return out

  def _recurse(self, st):
    if isinstance(st, FUNC + (ast.ClassDef,)):
      return
    for fld in ('body', 'orelse', 'finalbody'):
      v = getattr(st, fld, None)
      if isinstance(v, list) and v and isinstance(v[0], ast.stmt):
        setattr(st, fld, self.block(v))
    if isinstance(st, ast.Try):
      for h in st.handlers:
        h.body = self.block(h.body)

  def stmt(self, st, pre):
    if isinstance(st, ast.Assign):
      if all(self._simple_target(t) for t in st.targets):
        st.value = self.hoist(st.value, pre)
      elif len(st.targets) == 1 and isinstance(st.targets[0], (ast.Attribute, ast.Subscript)):
        # value first, then the target's object (and index), then the store: Python's order
        st.value = self.atomise(st.value, pre)
        t = st.targets[0]
        t.value = self.atomise(t.value, pre)
        if isinstance(t, ast.Subscript):
          t.slice = self.atomise(t.slice, pre)
      else:
        raise _Bail()
    elif isinstance(st, ast.AugAssign):
      if not isinstance(st.target, ast.Name):
        raise _Bail()
      st.value = self.hoist(st.value, pre)
    elif isinstance(st, ast.AnnAssign):
      if st.value is not None:
        if not self._simple_target(st.target):
          raise _Bail()
        st.value = self.hoist(st.value, pre)
    elif isinstance(st, ast.Expr):
      st.value = self.hoist(st.value, pre)
    elif isinstance(st, ast.Return):
      if st.value is not None:
        st.value = self.atomise(st.value, pre)
    elif isinstance(st, ast.Raise):
      if st.exc is not None and st.cause is None:
        st.exc = self.atomise(st.exc, pre)
    elif isinstance(st, ast.If):
      st.test = self.atomise(st.test, pre)
      self._recurse(st)
    elif isinstance(st, (ast.For, ast.AsyncFor)):
      if not self._simple_target(st.target):
        raise _Bail()
      st.iter = self.atomise(st.iter, pre)
      self._recurse(st)
    elif isinstance(st, (ast.With, ast.AsyncWith)):
      if st.items:
        st.items[0].context_expr = self.hoist(st.items[0].context_expr, pre)
      self._recurse(st)
    elif isinstance(st, (ast.While, ast.Try)):
      self._recurse(st)
    return st


# ----------------------------------------------------------------------------------------------


def _module_names(tree):
  """Names bound by import statements at module level (their attributes are treated as constants)."""
  out = set()
  for st in ast.walk(tree):
    if isinstance(st, ast.Import):
      for a in st.names:
        out.add((a.asname or a.name).split('.')[0])
    elif isinstance(st, ast.ImportFrom):
      for a in st.names:
        out.add(a.asname or a.name)
  return out


def _function(fn, module_names):
  for st in ast.walk(fn):
    if st is not fn and isinstance(st, FUNC):
      pass
  # innermost first: nested functions are normalised on their own
  for node in list(_direct_scopes(fn)):
    _function(node, module_names)
  try:
    fn.body = _flow(fn.body, 'func')
    env = _Env(fn, module_names)
    fn.body = _inline_block(fn.body, env)
    env = _Env(fn, module_names)
    fn.body = _Anf(env).block(fn.body)
    fn.body = fn.body or [ast.Pass()]
  except RecursionError:
    pass


def _direct_scopes(node):
  """Function definitions nested directly (not through another function) in node, including methods of nested classes."""
  out = []
  stack = list(ast.iter_child_nodes(node))
  while stack:
    n = stack.pop()
    if isinstance(n, FUNC):
      out.append(n)
    elif isinstance(n, ast.Lambda):
      continue
    else:
      stack.extend(ast.iter_child_nodes(n))
  return out


def strengthen(node, module_names=None):
  """Strong normal form of a module / class / function tree (in place on a copy made by the caller)."""
  if module_names is None:
    module_names = _module_names(node)
  if isinstance(node, FUNC):
    _function(node, module_names)
  else:
    for fn in _direct_scopes(node):
      _function(fn, module_names)
  ast.fix_missing_locations(node)
  return node
