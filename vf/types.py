"""Tiny local type inference: just enough to know that a name holds an instance
of an in-repo class (through return annotations / constructor calls) or a
builtin container, and which members an in-repo class has.
"""
from __future__ import annotations

import ast
from typing import Optional

from . import astu
from .model import Func, Mod, Repo

BUILTIN_CTORS = {
    'dict': 'dict', 'list': 'list', 'set': 'set', 'frozenset': 'frozenset', 'tuple': 'tuple', 'sorted': 'list',
    'str': 'str', 'deque': 'deque', 'collections.deque': 'deque',
}

# members provided by well-known external base classes
OBJECT_MEMBERS = {
    '__class__', '__dict__', '__doc__', '__eq__', '__hash__', '__init__', '__ne__', '__new__', '__repr__',
    '__str__', '__setattr__', '__getattribute__', '__delattr__', '__reduce__', '__reduce_ex__', '__sizeof__',
    '__dir__', '__format__', '__init_subclass__', '__subclasshook__', '__module__', '__slots__', '__annotations__',
    '__class_getitem__', '__orig_bases__', '__parameters__', '__weakref__',
}
EXTERNAL_BASES = {
    'Sequence': {'__getitem__', '__len__', '__contains__', '__iter__', '__reversed__', 'index', 'count'},
    'Mapping': {'__getitem__', '__len__', '__contains__', '__iter__', 'keys', 'items', 'values', 'get', '__eq__'},
    'MutableMapping': {'__getitem__', '__len__', '__contains__', '__iter__', 'keys', 'items', 'values', 'get', '__eq__',
                       '__setitem__', '__delitem__', 'pop', 'popitem', 'clear', 'update', 'setdefault'},
    'Generic': set(), 'Protocol': set(), 'object': set(), 'ABC': set(),
    'Iterable': {'__iter__'}, 'Iterator': {'__iter__', '__next__'},
    'Hashable': {'__hash__'}, 'Sized': {'__len__'}, 'Container': {'__contains__'},
    'Collection': {'__len__', '__iter__', '__contains__'},
}
BUILTIN_MEMBERS = {
    'dict': {'items', 'keys', 'values', 'get', 'pop', 'popitem', 'update', 'setdefault', 'clear', 'copy', 'fromkeys'},
    'list': {'append', 'extend', 'insert', 'pop', 'remove', 'clear', 'index', 'count', 'sort', 'reverse', 'copy'},
    'set': {'add', 'update', 'discard', 'remove', 'pop', 'clear', 'union', 'intersection', 'difference', 'copy',
            'issubset', 'issuperset', 'isdisjoint', 'symmetric_difference', 'difference_update', 'intersection_update'},
    'tuple': {'index', 'count'},
}


class ClassInfo:

  def __init__(self, repo: Repo, mod: Mod, qual: str):
    self.repo, self.mod, self.qual = repo, mod, qual
    self.members = set(OBJECT_MEMBERS)
    self.known = True      # False if some base could not be resolved / has __getattr__
    self.why_unknown = ''
    seen = set()
    self._collect(mod, qual, seen)

  def _collect(self, mod, qual, seen):
    if (mod.rel, qual) in seen:
      return
    seen.add((mod.rel, qual))
    c = mod.classes.get(qual)
    if c is None:
      self.known, self.why_unknown = False, 'class %s not found' % qual
      return
    for st in c.body:
      if isinstance(st, astu.FUNC_TYPES):
        self.members.add(st.name)
        if st.name in ('__getattr__', '__getattribute__'):
          self.known, self.why_unknown = False, '%s defines %s' % (qual, st.name)
        for n in ast.walk(st):
          if isinstance(n, ast.Attribute) and isinstance(n.ctx, ast.Store) and isinstance(n.value, ast.Name) and \
              st.args.args and n.value.id == st.args.args[0].arg:
            self.members.add(n.attr)
          # objects built via object.__new__ inside static/class methods: x._f = ...
          if isinstance(n, ast.Attribute) and isinstance(n.ctx, ast.Store) and isinstance(n.value, ast.Name):
            self.members.add(n.attr) if astu.decorator_names(st) else None
      elif isinstance(st, ast.Assign):
        for t in st.targets:
          for e in astu.flatten_targets(t):
            if isinstance(e, ast.Name):
              self.members.add(e.id)
              if e.id == '__slots__':
                for s in ast.walk(st.value):
                  if isinstance(s, ast.Constant) and isinstance(s.value, str):
                    self.members.add(s.value)
      elif isinstance(st, ast.AnnAssign) and isinstance(st.target, ast.Name):
        self.members.add(st.target.id)
      elif isinstance(st, ast.ClassDef):
        self.members.add(st.name)
    for b in c.bases:
      base = b.value if isinstance(b, ast.Subscript) else b
      d = astu.dotted(base)
      if d is None:
        self.known, self.why_unknown = False, 'computed base'
        continue
      r = self.repo.resolve_dotted(mod, d)
      if isinstance(r, tuple) and r[0] == 'class':
        self._collect(r[1], r[2], seen)
      else:
        last = d.split('.')[-1]
        if last in EXTERNAL_BASES:
          self.members |= EXTERNAL_BASES[last]
        else:
          self.known, self.why_unknown = False, 'external base %s' % d
    for k in c.keywords:
      if k.arg == 'metaclass':
        self.known, self.why_unknown = False, 'metaclass'


_CI_CACHE: dict = {}


def class_info(repo, mod, qual) -> ClassInfo:
  k = (id(repo), mod.rel, qual)
  if k not in _CI_CACHE:
    _CI_CACHE[k] = ClassInfo(repo, mod, qual)
  return _CI_CACHE[k]


def _ann_class(repo: Repo, mod: Mod, ann):
  """In-repo class named by an annotation (X, mod.X, X[...], 'X'), else None."""
  if ann is None:
    return None
  if isinstance(ann, ast.Constant) and isinstance(ann.value, str):
    try:
      ann = ast.parse(ann.value, mode='eval').body
    except SyntaxError:
      return None
  if isinstance(ann, ast.Subscript):
    ann = ann.value
  d = astu.dotted(ann)
  if not d:
    return None
  r = repo.resolve_dotted(mod, d)
  if isinstance(r, tuple) and r[0] == 'class':
    return ('cls', r[1], r[2])
  if d in BUILTIN_CTORS and d != 'sorted':
    return ('builtin', BUILTIN_CTORS[d])
  return None


def single_def(func_node, name, allow_param=False):
  """The unique value expression assigned to `name` in the function body (whole-name
  assignment), or None if there are zero or several definitions or it is a parameter
  (allow_param: a parameter rebound exactly once counts)."""
  func_node = getattr(func_node, 'node', func_node)
  if name in astu.params(func_node) and not allow_param:
    return None
  defs = []
  for n in astu.body_walk(func_node, into_lambda=False):
    if isinstance(n, ast.Assign):
      for t in n.targets:
        if isinstance(t, ast.Name) and t.id == name:
          defs.append(n.value)
        elif any(isinstance(e, ast.Name) and e.id == name for e in astu.flatten_targets(t)):
          defs.append(None)
    elif isinstance(n, (ast.AugAssign, ast.AnnAssign)) and isinstance(n.target, ast.Name) and n.target.id == name:
      defs.append(n.value if isinstance(n, ast.AnnAssign) else None)
    elif isinstance(n, (ast.For, ast.comprehension)) and name in astu.names_stored(n.target):
      defs.append(None)
    elif isinstance(n, ast.With):
      for i in n.items:
        if i.optional_vars is not None and name in astu.names_stored(i.optional_vars):
          defs.append(None)
    elif isinstance(n, ast.NamedExpr) and n.target.id == name:
      defs.append(n.value)
  if len(defs) == 1:
    return defs[0]
  return None


def infer(repo: Repo, f: Func, expr, depth=0):
  """Type tag of `expr` inside function f: ('cls', mod, qual) | ('builtin', name) | None."""
  mod = f.mod
  if depth > 6 or expr is None:
    return None
  if isinstance(expr, (ast.Dict, ast.DictComp)):
    return ('builtin', 'dict')
  if isinstance(expr, (ast.List, ast.ListComp)):
    return ('builtin', 'list')
  if isinstance(expr, (ast.Set, ast.SetComp)):
    return ('builtin', 'set')
  if isinstance(expr, ast.Tuple):
    return ('builtin', 'tuple')
  if isinstance(expr, ast.Call):
    d = astu.call_name(expr)
    if d in BUILTIN_CTORS:
      return ('builtin', BUILTIN_CTORS[d])
    if d:
      r = repo.resolve_dotted(mod, d, f)
      if isinstance(r, tuple) and r[0] == 'class':
        return ('cls', r[1], r[2])
      if isinstance(r, Func):
        if 'property' in astu.decorator_names(r.node):
          return None
        return _ann_class(repo, r.mod, r.node.returns)
    # method call on a typed receiver
    if isinstance(expr.func, ast.Attribute):
      recv = infer(repo, f, expr.func.value, depth + 1)
      if recv and recv[0] == 'cls':
        m = repo.lookup_method(recv[1], recv[2], expr.func.attr)
        if m is not None:
          return _ann_class(repo, m.mod, m.node.returns)
    return None
  if isinstance(expr, ast.Name):
    if isinstance(f.node, astu.FUNC_TYPES):
      pp = astu.pos_params(f.node)
      if pp and expr.id == pp[0] == 'self' and 'staticmethod' not in astu.decorator_names(f.node):
        c = repo.class_of(f)
        if c is not None and f.qual == c[1] + '.' + f.node.name and '__slots__' in {
            t.id for st in c[0].classes[c[1]].body if isinstance(st, ast.Assign) for t in st.targets if isinstance(t, ast.Name)}:
          return ('cls', c[0], c[1])
      for a in f.node.args.posonlyargs + f.node.args.args + f.node.args.kwonlyargs:
        if a.arg == expr.id:
          return _ann_class(repo, mod, a.annotation)
      v = single_def(f.node, expr.id)
      if v is not None:
        return infer(repo, f, v, depth + 1)
    return None
  return None
