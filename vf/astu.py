"""Small AST utilities shared by all rules (stdlib only)."""
from __future__ import annotations

import ast
from typing import Callable, Iterable, Iterator, Optional

FUNC_TYPES = (ast.FunctionDef, ast.AsyncFunctionDef)
SCOPE_TYPES = (ast.FunctionDef, ast.AsyncFunctionDef, ast.Lambda, ast.ClassDef)


def src(node) -> str:
  """Normalised source text of a node (no line numbers, no formatting)."""
  if node is None:
    return '<none>'
  if isinstance(node, str):
    return node
  try:
    return ast.unparse(node)
  except Exception:  # pragma: no cover
    return '<%s>' % type(node).__name__


def short(node, n=90) -> str:
  s = ' '.join(src(node).split())
  return s if len(s) <= n else s[: n - 3] + '...'


def set_parents(tree):
  """Single pass: parent links; returns the Import/ImportFrom nodes met on the way."""
  imports = []
  tree._vf_parent = None
  stack = [tree]
  while stack:
    n = stack.pop()
    for ch in ast.iter_child_nodes(n):
      ch._vf_parent = n
      stack.append(ch)
      if isinstance(ch, (ast.Import, ast.ImportFrom)):
        imports.append(ch)
  return imports


def parent(node):
  return getattr(node, '_vf_parent', None)


def ancestors(node) -> Iterator[ast.AST]:
  p = parent(node)
  while p is not None:
    yield p
    p = parent(p)


def enclosing_func(node):
  for a in ancestors(node):
    if isinstance(a, FUNC_TYPES + (ast.Lambda,)):
      return a
  return None


def enclosing_stmt(node):
  cur = node
  while cur is not None and not isinstance(cur, ast.stmt):
    cur = parent(cur)
  return cur


def walk_shallow(node, include_self=True, into_lambda=True) -> Iterator[ast.AST]:
  """Walk `node` without descending into nested def/class bodies.

  Lambdas and comprehensions are descended into (they run as part of the
  enclosing statement or are closures the rules usually want to see); pass
  into_lambda=False to stop at lambdas.
  """
  stack = [node]
  first = True
  while stack:
    n = stack.pop()
    if not first and isinstance(n, FUNC_TYPES + (ast.ClassDef,)):
      continue
    if not first and not into_lambda and isinstance(n, ast.Lambda):
      continue
    if not first or include_self:
      yield n
    first = False
    stack.extend(reversed(list(ast.iter_child_nodes(n))))


def _n(f):
  return getattr(f, 'node', f)


def body_walk(func, into_lambda=True) -> Iterator[ast.AST]:
  """All nodes of a function's own body (not nested defs)."""
  func = _n(func)
  for st in func.body if not isinstance(func, ast.Lambda) else [func.body]:
    if isinstance(st, FUNC_TYPES + (ast.ClassDef,)):
      yield st  # the nested definition itself, not its body
      continue
    yield from walk_shallow(st, into_lambda=into_lambda)


def dotted(node) -> Optional[str]:
  """'a.b.c' for Name/Attribute chains, else None."""
  parts = []
  while isinstance(node, ast.Attribute):
    parts.append(node.attr)
    node = node.value
  if isinstance(node, ast.Name):
    parts.append(node.id)
    return '.'.join(reversed(parts))
  return None


def call_name(call: ast.Call) -> Optional[str]:
  return dotted(call.func)


def call_tail(call: ast.Call) -> Optional[str]:
  """Last attribute / name of the callee: `a.b.c()` -> 'c'."""
  f = call.func
  if isinstance(f, ast.Attribute):
    return f.attr
  if isinstance(f, ast.Name):
    return f.id
  return None


def kwarg(call: ast.Call, name: str):
  for k in call.keywords:
    if k.arg == name:
      return k.value
  return None


def has_star_kwargs(call: ast.Call) -> bool:
  return any(k.arg is None for k in call.keywords)


def arg_or_kw(call: ast.Call, pos: int, name: str):
  v = kwarg(call, name)
  if v is not None:
    return v
  if pos < len(call.args) and not any(isinstance(a, ast.Starred) for a in call.args[: pos + 1]):
    return call.args[pos]
  return None


def calls_in(node, pred: Callable[[ast.Call], bool] = None, shallow=True) -> list:
  it = walk_shallow(node) if shallow else ast.walk(node)
  out = [n for n in it if isinstance(n, ast.Call) and (pred is None or pred(n))]
  out.sort(key=lambda c: (c.lineno, c.col_offset))
  return out


def func_calls(func, pred=None) -> list:
  func = _n(func)
  out = [n for n in body_walk(func) if isinstance(n, ast.Call) and (pred is None or pred(n))]
  out.sort(key=lambda c: (c.lineno, c.col_offset))
  return out


def names_loaded(node) -> set:
  return {n.id for n in ast.walk(node) if isinstance(n, ast.Name) and isinstance(n.ctx, ast.Load)}


def names_stored(node) -> set:
  return {n.id for n in ast.walk(node) if isinstance(n, ast.Name) and isinstance(n.ctx, (ast.Store, ast.Del))}


def is_const(node, value=...) -> bool:
  if not isinstance(node, ast.Constant):
    return False
  return value is ... or (node.value == value and type(node.value) is type(value))


def const_str(node) -> Optional[str]:
  if isinstance(node, ast.Constant) and isinstance(node.value, str):
    return node.value
  return None


def params(func) -> list:
  func = _n(func)
  a = func.args
  return [x.arg for x in a.posonlyargs + a.args] + ([a.vararg.arg] if a.vararg else []) + [
      x.arg for x in a.kwonlyargs
  ] + ([a.kwarg.arg] if a.kwarg else [])


def pos_params(func) -> list:
  func = _n(func)
  a = func.args
  return [x.arg for x in a.posonlyargs + a.args]


def kwonly_params(func) -> list:
  func = _n(func)
  return [x.arg for x in func.args.kwonlyargs]


def param_default(func, name):
  func = _n(func)
  a = func.args
  pos = a.posonlyargs + a.args
  for p, d in zip(pos[len(pos) - len(a.defaults):], a.defaults):
    if p.arg == name:
      return d
  for p, d in zip(a.kwonlyargs, a.kw_defaults):
    if p.arg == name:
      return d
  return None


def raises_in(node) -> list:
  return [n for n in walk_shallow(node) if isinstance(n, ast.Raise)]


def raised_name(r: ast.Raise) -> Optional[str]:
  e = r.exc
  if e is None:
    return None
  if isinstance(e, ast.Call):
    e = e.func
  d = dotted(e)
  return d.split('.')[-1] if d else None


def stmt_contains(stmt, node) -> bool:
  return any(n is node for n in ast.walk(stmt))


def assigned_targets(stmt) -> list:
  """Target expressions written by an assignment-like statement."""
  if isinstance(stmt, ast.Assign):
    return list(stmt.targets)
  if isinstance(stmt, (ast.AugAssign, ast.AnnAssign)):
    return [stmt.target]
  if isinstance(stmt, (ast.For, ast.AsyncFor)):
    return [stmt.target]
  if isinstance(stmt, (ast.With, ast.AsyncWith)):
    return [i.optional_vars for i in stmt.items if i.optional_vars is not None]
  return []


def flatten_targets(t) -> list:
  if isinstance(t, (ast.Tuple, ast.List)):
    out = []
    for e in t.elts:
      out.extend(flatten_targets(e))
    return out
  if isinstance(t, ast.Starred):
    return flatten_targets(t.value)
  return [t]


def same(a, b) -> bool:
  """Structural equality of two expressions."""
  if a is None or b is None:
    return a is b
  return src(a) == src(b)


def strip_docstring(body):
  if body and isinstance(body[0], ast.Expr) and isinstance(body[0].value, ast.Constant) and isinstance(
      body[0].value.value, str):
    return body[1:]
  return body


def decorator_names(node) -> list:
  out = []
  for d in getattr(node, 'decorator_list', []):
    if isinstance(d, ast.Call):
      d = d.func
    n = dotted(d)
    if n:
      out.append(n)
  return out


def isinstance_test(test, var: str = None):
  """If test is `isinstance(x, T)` return (x_src, [type names]); else None."""
  if isinstance(test, ast.Call) and call_name(test) == 'isinstance' and len(test.args) == 2:
    x = src(test.args[0])
    if var is not None and x != var:
      return None
    t = test.args[1]

    def alts(e):
      # (A, B) and A | B both mean "A or B"
      if isinstance(e, ast.Tuple):
        return [y for z in e.elts for y in alts(z)]
      if isinstance(e, ast.BinOp) and isinstance(e.op, ast.BitOr):
        return alts(e.left) + alts(e.right)
      return [e]
    return x, [src(e) for e in alts(t)]
  return None


def isinstance_test_pol(test, var: str = None):
  """Like isinstance_test but sees through `not`: returns (x_src, [types], positive) or None."""
  pos = True
  while isinstance(test, ast.UnaryOp) and isinstance(test.op, ast.Not):
    pos = not pos
    test = test.operand
  r = isinstance_test(test, var)
  if r is None:
    return None
  return r[0], r[1], pos


def mirror_forms(test) -> set:
  """Source texts of a two-operand comparison in both operand orders (`a < b` and `b > a`); the plain text for anything else."""
  flip = {ast.Lt: '>', ast.Gt: '<', ast.LtE: '>=', ast.GtE: '<=', ast.Eq: '==', ast.NotEq: '!='}
  out = {src(test)}
  if isinstance(test, ast.Compare) and len(test.ops) == 1 and type(test.ops[0]) in flip:
    out.add('%s %s %s' % (src(test.comparators[0]), flip[type(test.ops[0])], src(test.left)))
  return out
