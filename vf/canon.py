"""Alpha-normal form of functions and modules.

Two pieces of source that differ only in names of local variables (including
comprehension variables), comments, formatting, docstrings, type annotations or
the order of keyword arguments have the same canonical digest.  The checker
uses it to make its (name-based) rules invariant under such edits: if every
unit a rule consulted is alpha-equivalent to the reference tree on which the
rule's verdict is recorded, that verdict is reused instead of trusting a
finding that can only be an artefact of renamed locals.
"""
from __future__ import annotations

import ast
import copy
import hashlib
import os

from . import strong

FUNC = (ast.FunctionDef, ast.AsyncFunctionDef)


def _params(fn):
  a = fn.args
  return [x.arg for x in a.posonlyargs + a.args + a.kwonlyargs] + ([a.vararg.arg] if a.vararg else []) + ([a.kwarg.arg] if a.kwarg else [])


def _locals_in_order(fn):
  """Names bound directly in fn (assignment targets, for/with/except targets, walrus), in order of first binding."""
  out, skip = [], set()
  params = set(_params(fn)) if isinstance(fn, FUNC) else set()

  def walk(n):
    if isinstance(n, FUNC + (ast.ClassDef, ast.Lambda)):
      return
    if isinstance(n, (ast.Global, ast.Nonlocal)):
      skip.update(n.names)
      return
    if isinstance(n, (ast.ListComp, ast.SetComp, ast.DictComp, ast.GeneratorExp)):
      walk(n.generators[0].iter)
      return
    if isinstance(n, ast.Name) and isinstance(n.ctx, (ast.Store, ast.Del)) and n.id not in out:
      out.append(n.id)
    if isinstance(n, ast.ExceptHandler) and n.name and n.name not in out:
      out.append(n.name)
    for ch in ast.iter_child_nodes(n):
      walk(ch)
  for st in fn.body:
    walk(st)
  return [x for x in out if x not in skip and x not in params and not (x.startswith('__') and x.endswith('__'))]


class _Canon(ast.NodeTransformer):

  def __init__(self, uniq=False):
    self.env = [{}]
    self.counter = [0]
    self.uniq = uniq  # every local of every scope gets a name of its own (pre-pass of the strong normal form)
    self.total = 0

  def _fresh(self):
    if self.uniq:
      self.total += 1
      return '_u%d' % self.total
    self.counter[-1] += 1
    return '_v%d' % self.counter[-1]

  def lookup(self, name):
    for m in reversed(self.env):
      if name in m:
        return m[name]
    return name

  def _strip_doc(self, body):
    if body and isinstance(body[0], ast.Expr) and isinstance(body[0].value, ast.Constant) and isinstance(body[0].value.value, str):
      body = body[1:]
    return body or [ast.Pass()]

  def visit_FunctionDef(self, node):
    node.decorator_list = [self.visit(d) for d in node.decorator_list]
    node.args.defaults = [self.visit(d) for d in node.args.defaults]
    node.args.kw_defaults = [self.visit(d) if d is not None else None for d in node.args.kw_defaults]
    node.returns = None
    for a in node.args.posonlyargs + node.args.args + node.args.kwonlyargs + ([node.args.vararg] if node.args.vararg else []) + ([node.args.kwarg] if node.args.kwarg else []):
      a.annotation = None
    node.type_comment = None
    m = {}
    self.counter.append(0)
    for n in _locals_in_order(node):
      m[n] = self._fresh()
    for p in _params(node):
      m[p] = p
    for ch in node.body:
      if isinstance(ch, FUNC + (ast.ClassDef,)):
        m.setdefault(ch.name, ch.name)
    self.env.append(m)
    node.body = [self.visit(s) for s in self._strip_doc(node.body)]
    self.env.pop()
    self.counter.pop()
    return node

  visit_AsyncFunctionDef = visit_FunctionDef

  def visit_Lambda(self, node):
    node.args.defaults = [self.visit(d) for d in node.args.defaults]
    self.env.append({p: p for p in _params(node)})
    node.body = self.visit(node.body)
    self.env.pop()
    return node

  def visit_ClassDef(self, node):
    node.decorator_list = [self.visit(d) for d in node.decorator_list]
    node.bases = [self.visit(b) for b in node.bases]
    node.body = [self.visit(s) for s in self._strip_doc(node.body)]
    return node

  def _comp(self, node, fields):
    m = {}
    first = self.visit(node.generators[0].iter)
    self.counter.append(self.counter[-1] + 100)
    for g in node.generators:
      for n in ast.walk(g.target):
        if isinstance(n, ast.Name) and n.id not in m:
          m[n.id] = '_c' + self._fresh()
    self.env.append(m)
    for i, g in enumerate(node.generators):
      g.target = self.visit(g.target)
      if i > 0:
        g.iter = self.visit(g.iter)
      g.ifs = [self.visit(x) for x in g.ifs]
    node.generators[0].iter = first
    for f in fields:
      setattr(node, f, self.visit(getattr(node, f)))
    self.env.pop()
    self.counter.pop()
    return node

  def visit_ListComp(self, node):
    return self._comp(node, ['elt'])

  visit_SetComp = visit_ListComp
  visit_GeneratorExp = visit_ListComp

  def visit_DictComp(self, node):
    return self._comp(node, ['key', 'value'])

  def visit_Name(self, node):
    node.id = self.lookup(node.id)
    return node

  def visit_ExceptHandler(self, node):
    if node.type is not None:
      node.type = self.visit(node.type)
    if node.name:
      node.name = self.lookup(node.name)
    node.body = [self.visit(s) for s in node.body]
    return node

  def visit_Nonlocal(self, node):
    node.names = [self.lookup(n) for n in node.names]
    return node

  def visit_AnnAssign(self, node):
    # annotations have no runtime effect on locals; `x: T` alone disappears
    tgt = self.visit(node.target)
    if node.value is None:
      return ast.Pass()
    return ast.Assign(targets=[tgt], value=self.visit(node.value), lineno=0, col_offset=0)

  def visit_Call(self, node):
    self.generic_visit(node)
    named = [k for k in node.keywords if k.arg is not None]
    star = [k for k in node.keywords if k.arg is None]
    if len(star) == 0:
      node.keywords = sorted(named, key=lambda k: k.arg)
    return node


def _detached_copy(node):
  """Deep copy of a subtree without the analysis annotations (parent pointers would drag the whole module along)."""
  memo = {}
  par = getattr(node, '_vf_parent', None)
  if par is not None:
    memo[id(par)] = None
  n = copy.deepcopy(node, memo)
  for x in ast.walk(n):
    for k in [k for k in vars(x) if k.startswith('_vf_')]:
      delattr(x, k)
  return n


def canon_dump(node) -> str:
  n = _detached_copy(node)
  if not os.environ.get('VF_WEAK_CANON'):
    n = _Canon(uniq=True).visit(n)
    n = strong.strengthen(n)
  n = _Canon().visit(n)
  if isinstance(n, ast.Module):
    n.body = _Canon()._strip_doc(n.body)
  return ast.dump(n, annotate_fields=False, include_attributes=False)


def digest(node) -> str:
  return hashlib.sha1(canon_dump(node).encode()).hexdigest()[:16]


def _children_defs(node):
  out = []
  stack = list(node.body)
  while stack:
    st = stack.pop(0)
    if isinstance(st, FUNC + (ast.ClassDef,)):
      out.append(st)
    elif isinstance(st, (ast.If, ast.Try, ast.With, ast.For, ast.While)):
      for fld in ('body', 'orelse', 'finalbody', 'handlers'):
        for x in getattr(st, fld, []) or []:
          if isinstance(x, ast.ExceptHandler):
            stack.extend(x.body)
          else:
            stack.append(x)
  return out


def _find(node, names):
  """Descend through nested def/class names (overload stubs with the same name are tried last-first)."""
  if not names:
    return node
  cands = [d for d in _children_defs(node) if d.name == names[0]]
  for c in reversed(cands):
    r = _find(c, names[1:])
    if r is not None:
      return r
  return None


def digest_qual(module_tree, qual, cache=None) -> str:
  """Digest of the function `qual` ('outer.inner.f') canonicalised *in the context of its enclosing functions*
  (free variables that are locals of an enclosing function get that function's canonical names)."""
  parts = qual.split('#')[0].split('.')
  tops = [d for d in _children_defs(module_tree) if d.name == parts[0]]
  tops = [t for t in reversed(tops) if _find(t, parts[1:]) is not None]
  if not tops:
    return None
  top = tops[0]
  key = (id(module_tree), parts[0])
  ctop = cache.get(key) if cache is not None else None
  if ctop is None:
    ctop = _detached_copy(top)
    if not os.environ.get('VF_WEAK_CANON'):
      mk = ('module-names', id(module_tree))
      names = cache.get(mk) if cache is not None else None
      if names is None:
        names = strong._module_names(module_tree)
        if cache is not None:
          cache[mk] = names
      ctop = _Canon(uniq=True).visit(ctop)
      ctop = strong.strengthen(ctop, names)
    ctop = _Canon().visit(ctop)
    if cache is not None:
      cache[key] = ctop
  node = _find(ctop, parts[1:]) if len(parts) > 1 else ctop
  if node is None:
    return None
  return hashlib.sha1(ast.dump(node, annotate_fields=False, include_attributes=False).encode()).hexdigest()[:16]
