"""CLI: decide one property on the current /repo working tree.

exit 0  every rule instance held (known findings are printed, not alarms)
exit 1  at least one unlisted violation (VIOLATION lines on stdout)
exit 2  ANALYSIS-ERROR / ANALYSIS-INCONCLUSIVE (the checker could not do its job)
"""
from __future__ import annotations

import argparse
import importlib
import json
import os
import shutil
import sys
import tempfile
import time
import traceback

from . import reference, report
from .model import AnalysisError, Repo
from .props import META, REGISTRY


def load_prop(prop):
  importlib.import_module('vf.props.%s' % prop.lower())
  from . import generic
  from .props import RuleSpec
  generic.ensure(prop, REGISTRY, RuleSpec)
  from . import diffrules
  diffrules.ensure(prop, REGISTRY, RuleSpec)
  specs = REGISTRY.get(prop)
  if not specs:
    raise AnalysisError('no rules registered for %s' % prop)
  return specs, META.get(prop, {})


def generic_files(prop):
  from . import generic
  return sorted(set(generic.ext_anchors(prop)) | set(generic.EXTRA_FILES.get(prop, [])))


def shared_specs(prop):
  """Rules of *other* properties whose whole mechanism (every unit they consult on the reference tree) lies in the files this
  property is anchored in.  They are run in violation-only mode: a finding is reported (the shared mechanism is broken, and
  this property is anchored in it), anything else they have to say (held, inconclusive, floor) belongs to their own property."""
  from . import generic
  files = set(generic_files(prop))
  ref = reference.load()
  out = []
  for rid, v in sorted(ref.items()):
    if rid.startswith('__') or not isinstance(v, dict) or rid.startswith(prop + '.') or rid.endswith('.R90') or rid.endswith('.R91'):
      continue
    fs = {k.split('|')[1] for k in v.get('units', {})}
    if not fs & files:
      continue
    other = rid.split('.')[0]
    try:
      importlib.import_module('vf.props.%s' % other.lower())
    except Exception:
      continue
    for sp in REGISTRY.get(other, []):
      if sp.id == rid:
        out.append(sp)
  return out


def run_rules(prop, root, tier, only_rule=None, repo=None, use_reference=True, shared=True):
  """Run all rules of `prop` on the tree at `root`. Returns (ctx, errors)."""
  specs, _ = load_prop(prop)
  repo = repo or Repo(root)
  ctx = report.Ctx(prop, repo, tier, root)
  errors = []
  own = list(specs)
  extra = shared_specs(prop) if shared and not os.environ.get('VF_NO_SHARED') else []
  known_keys = {(k.get('rule'), k.get('construct_key')) for k in report.load_known() if k.get('status') == 'known'}
  ctx.shared_run = [sp.id for sp in extra]
  for spec in own + extra:
    if only_rule and spec.id != only_rule:
      continue
    is_shared = spec not in own
    if is_shared:
      # violation-only: run on a scratch context, keep the rule only if it reports something that is not a listed finding of its own property
      sctx = report.Ctx(prop, repo, tier, root)
      R = sctx.rule(spec.id, spec.kind, spec.floor, '[shared mechanism, rule of %s] %s' % (spec.prop, spec.title))
      repo.trace = set()
      try:
        spec.fn(R, repo)
      except Exception:
        pass
      R.consulted = repo.trace
      repo.trace = None
      sfiles = set(generic_files(prop))
      R.findings = [f for f in R.findings if (f.rule, f.key) not in known_keys and f.file in sfiles]
      if R.findings and use_reference and not os.environ.get('VF_NO_REFERENCE'):
        R.error = None
        reference.reuse(R, repo)
        R.findings = [f for f in R.findings if (f.rule, f.key) not in known_keys and f.file in sfiles]
      if R.findings:
        R.error = None
        R.inconclusive = []
        R.floor = 0
        R.shared = True
        R.instances = [i for i in R.instances if not i[3]]
        ctx.rules.append(R)
      continue
    R = ctx.rule(spec.id, spec.kind, spec.floor, spec.title)
    repo.trace = set()
    try:
      spec.fn(R, repo)
      if R.found < spec.floor:
        raise AnalysisError('%s: only %d instance(s) found, floor is %d (rule would pass vacuously)' %
                            (spec.id, R.found, spec.floor))
    except AnalysisError as e:
      R.error = str(e)
      errors.append('%s: %s' % (spec.id, e))
    except RecursionError as e:  # pragma: no cover
      R.error = 'recursion: %s' % e
      errors.append('%s: internal recursion error' % spec.id)
    except Exception as e:  # internal bug: fail closed, never a VIOLATION
      R.error = '%s: %s' % (type(e).__name__, e)
      tb = traceback.format_exc().strip().splitlines()
      errors.append('%s: internal error %s: %s [%s]' % (spec.id, type(e).__name__, e, ' | '.join(x.strip() for x in tb[-7:])))
    R.consulted = repo.trace
    repo.trace = None
    if R.inconclusive and not R.error:
      R.error = 'inconclusive: %d instance(s) not recognisable, first: %s [%s:%d] %s' % (len(R.inconclusive), R.inconclusive[0][0][:90], R.inconclusive[0][1], R.inconclusive[0][2], R.inconclusive[0][3][:160])
      errors.append('%s: %s' % (spec.id, R.error))
    if (R.findings or R.error) and use_reference and not os.environ.get('VF_NO_REFERENCE'):
      if reference.reuse(R, repo):
        errors[:] = [e for e in errors if not e.startswith(spec.id + ':')]
  if any(R.findings for R in ctx.rules) and use_reference and not os.environ.get('VF_NO_REFERENCE'):
    _gate_rewritten(prop, ctx, repo, errors)
  return ctx, errors


GATE_FUNCS = int(os.environ.get('VF_GATE_FUNCS', '4'))
GATE_STMTS = int(os.environ.get('VF_GATE_STMTS', '10'))


def departure(prop, repo):
  """How far the files this property's rules read have moved away from the reference tree: (number of functions whose set of
  statements differs, number of reference statements that no longer occur literally in their function, examples)."""
  from . import diffrules, generic
  tab = reference.load().get('__stmts__') or {}
  files = set(generic.rule_files(prop))
  changed, missing, ex = 0, 0, []
  for key, ref in sorted(tab.items()):
    rel, qual = key.split('|', 1)
    if rel not in files or rel not in repo._paths or not ref.get('stmts'):
      continue
    try:
      f = repo._load(rel)._funcs.get(qual)
    except AnalysisError:
      continue
    if f is None:
      continue
    now = {(h, tuple(l)) for h, l, _ in diffrules.statements(f.node)}
    rs = [(h, tuple(l)) for h, l, _ in ref['stmts']]
    same = sum(1 for x in rs if x in now)
    if same != len(rs) or len(now) != len(set(rs)):
      changed += 1
      missing += len(rs) - same
      ex.append('%s:%s' % (rel, qual))
  return changed, missing, ex


def _gate_rewritten(prop, ctx, repo, errors):
  """A rule reports a broken relation, but the files the property depends on have been rewritten broadly (>= GATE_FUNCS functions
  changed, or >= GATE_STMTS reference statements gone).  Seven rounds of independent, behaviour-preserving refactorings show that
  on such trees a report is more often an artefact of the rewrite (a recogniser that located its mechanism only loosely) than a
  defect, while every seeded defect but one leaves the rest of the tree alone.  The report is kept, with its text, as
  *inconclusive* (exit 2: a person has to look), not as a VIOLATION."""
  if GATE_FUNCS <= 0 and GATE_STMTS <= 0:
    return
  changed, missing, ex = departure(prop, repo)
  ctx.departure = {'functions_changed': changed, 'reference_statements_gone': missing, 'examples': ex[:8], 'gate': 'functions >= %d or statements >= %d' % (GATE_FUNCS, GATE_STMTS)}
  if not ((GATE_FUNCS > 0 and changed >= GATE_FUNCS) or (GATE_STMTS > 0 and missing >= GATE_STMTS)):
    return
  known_keys = {(k.get('rule'), k.get('construct_key')) for k in report.load_known() if k.get('status') == 'known'}
  for R in ctx.rules:
    gated = [f for f in R.findings if (f.rule, f.key) not in known_keys]  # a listed finding stays what it is
    if not gated:
      continue
    kept = [f for f in R.findings if (f.rule, f.key) in known_keys]
    for f in gated:
      R.inconclusive.append((f.key, f.file, f.line, 'reported by the rule on a broadly rewritten tree (%d functions of this property\'s files changed, %d reference statements gone): %s' % (changed, missing, f.msg[:300])))
    keys = {f.key for f in gated}
    R.instances = [i for i in R.instances if not (i[0] in keys and not i[3])]
    R.findings = kept
    if not R.error:
      R.error = 'inconclusive: %d report(s) on a broadly rewritten tree, first: %s [%s:%d] %s' % (len(R.inconclusive), R.inconclusive[-1][0][:90], R.inconclusive[-1][1], R.inconclusive[-1][2], R.inconclusive[-1][3][:260])
      errors.append('%s: %s' % (R.id, R.error))


def classify(ctx):
  known = [k for k in report.load_known() if k.get('status') == 'known']
  viol, kn = [], []
  for R in ctx.rules:
    for f in R.findings:
      hit = None
      for k in known:
        if k.get('property') == f.prop and k.get('rule') == f.rule and k.get('construct_key') == f.key:
          hit = k
          break
      if hit:
        f.known = hit
        kn.append(f)
      else:
        viol.append(f)
  return viol, kn


def evidence_for(prop, ctx, errors, tier, seed, wall, viol, kn, selftest=None):
  specs, meta = load_prop(prop)
  insts = [(R.id, i) for R in ctx.rules for i in R.instances]
  distinct = len({(rid, i[0]) for rid, i in insts})
  samples = []
  for R in ctx.rules:
    for i in R.instances[:2]:
      samples.append({'rule': R.id, 'instance': i[0], 'at': '%s:%d' % (i[1], i[2]),
                      'verdict': 'held' if i[3] else 'violated', 'detail': i[4][:200]})
  for f in (viol + kn)[:6]:
    samples.append({'rule': f.rule, 'instance': f.key, 'at': '%s:%d' % (f.file, f.line),
                    'verdict': 'known-finding' if f.known else 'VIOLATION', 'detail': f.msg[:300]})
  held = sum(1 for _, i in insts if i[3])
  cov = {
      'explanation': meta.get('explanation', 'repository-specific static rules over AST/CFG/call graph'),
      'decided_clauses': [s.id + ' ' + s.title for s in specs],
      'not_decided': meta.get('not_decided', []),
      'shared_rules_run_violation_only': getattr(ctx, 'shared_run', []),
      'departure_from_reference_tree': getattr(ctx, 'departure', 'not computed (no rule reported anything)'),
      'obligations': len(insts),
      'discharged': held,
      'evaluations': len(insts),
      'distinct_nontrivial': distinct,
      'rule': 'instances are enumerated by role queries over the parsed source of %s/flax (every function / call site / '
              'table entry matching the query); an instance is non-trivial when the query matched real code (distinct by '
              'rule id + construct key); each rule has a hand-confirmed floor below which the run fails closed' % ctx.root,
      'samples': samples or [{'note': 'no instance evaluated'}],
      'exhaustive': True,
      'files_parsed': ctx.repo.n_parsed,
      'functions_indexed': ctx.repo.n_funcs,
      'tree_digest': ctx.repo.digest(),
      'rules': [{
          'id': R.id, 'kind': R.kind, 'title': R.title, 'floor': R.floor, 'found': R.found,
          'held': sum(1 for i in R.instances if i[3]), 'violated': sum(1 for i in R.instances if not i[3]),
          'error': R.error, 'notes': R.notes,
      } for R in ctx.rules],
      'analysis_errors': errors,
      'known_findings_reported': [f.ident() for f in kn],
      'checker_cmd': 'bin/check %s --tier %s' % (prop, tier),
      'trusted_base': ['python ast module', 'vf/cfg.py statement CFG', 'vf/model.py name resolution'],
  }
  if selftest is not None:
    cov['selftest'] = selftest
  return {
      'property_id': prop, 'tier': tier, 'seed': seed, 'level': 'other', 'coverage': cov,
      'assumptions': report.ASSUMPTIONS + meta.get('assumptions', []),
      'wall_s': round(wall, 3), 'violations': len(viol),
  }


def print_finding(f, root):
  print('%s:%d %s %s' % (f.file, f.line, f.rule, f.title))
  print('  instance: %s' % f.key)
  print('  %s' % f.msg)
  if f.witness:
    print('  witness : %s' % f.witness)


def main(argv=None):
  ap = argparse.ArgumentParser()
  ap.add_argument('prop')
  ap.add_argument('--tier', default=os.environ.get('VERIF_TIER') or 'quick', choices=['quick', 'thorough'])
  ap.add_argument('--root', default=os.environ.get('VF_ROOT', '/repo'))
  ap.add_argument('--replay')
  ap.add_argument('--no-evidence', action='store_true')
  ap.add_argument('--no-selftest', action='store_true')
  ap.add_argument('--rule')
  a = ap.parse_args(argv)
  prop = a.prop.upper()
  try:
    seed = int(os.environ.get('VERIF_SEED', '0') or 0)
  except ValueError:
    seed = 0
  t0 = time.time()
  try:
    only_rule, only_key = a.rule, None
    if a.replay:
      with open(a.replay) as f:
        rp = json.load(f)
      only_rule, only_key = rp['rule'], rp['construct_key']
    ctx, errors = run_rules(prop, a.root, a.tier, only_rule)
    viol, kn = classify(ctx)
    if only_key is not None:
      viol = [f for f in viol if f.key == only_key]
      kn = [f for f in kn if f.key == only_key]
    selftest = None
    if a.tier == 'thorough' and not a.replay and not a.no_selftest:
      from . import selftest as st
      selftest = st.run(prop, a.root)
      for m in selftest.get('failures', []):
        errors.append('selftest: ' + m)
    wall = time.time() - t0
    for f in kn:
      print('KNOWN-FINDING: property=%s %s %s — %s' % (prop, f.rule, f.key, f.known.get('what_fails', f.msg)))
    for f in viol:
      rp = report.replay_path(f)
      os.makedirs(os.path.dirname(rp), exist_ok=True)
      with open(rp, 'w') as fh:
        json.dump(f.to_json(a.root), fh, indent=1)
      print('VIOLATION property=%s replay=%s' % (prop, rp))
      print_finding(f, a.root)
    n_inst = sum(R.found for R in ctx.rules)
    print('%s: %d rules, %d instances, %d held, %d violations, %d known findings, %d analysis errors (%.2fs, tier=%s, root=%s)' %
          (prop, len(ctx.rules), n_inst, sum(1 for R in ctx.rules for i in R.instances if i[3]), len(viol), len(kn),
           len(errors), wall, a.tier, a.root))
    for R in ctx.rules:
      print('  %-8s %-10s floor=%-3d found=%-3d violated=%-2d %s%s' % (
          R.id, R.kind, R.floor, R.found, sum(1 for i in R.instances if not i[3]), R.title,
          ('  [ERROR: %s]' % R.error) if R.error else ''))
    if selftest is not None:
      print('  selftest: %d breaking variants (%d detected, %d skipped), %d benign variants (%d silent)' % (
          selftest['break_total'], selftest['break_detected'], selftest['skipped'], selftest['benign_total'],
          selftest['benign_silent']))
      if selftest.get('corpus_break_total') or selftest.get('corpus_benign_total'):
        print('  stored corpus: %d/%d seeded changes reported; %d refactorings: %d silent, %d inconclusive, %d false alarms' % (
            selftest['corpus_break_detected'], selftest['corpus_break_total'], selftest['corpus_benign_total'], selftest['corpus_benign_silent'],
            selftest['corpus_benign_inconclusive'], selftest['corpus_benign_total'] - selftest['corpus_benign_silent'] - selftest['corpus_benign_inconclusive']))
    if not a.no_evidence and not a.replay:
      ev = evidence_for(prop, ctx, errors, a.tier, seed, wall, viol, kn, selftest)
      report.write_evidence(prop, ev)
    for R_ in ctx.rules:
      for (k_, rel_, ln_, msg_) in (R_.inconclusive or [])[:12]:
        print('ANALYSIS-INCONCLUSIVE %s %s [%s:%d] %s' % (R_.id, k_[:110], rel_, ln_, msg_[:220]))
      for old_, new_ in sorted(getattr(R_, 'relocated', {}).items()):
        print('NOTE %s: function %s located as %s' % (R_.id, old_, new_))
    if viol:
      for e in errors:
        print('ANALYSIS-ERROR %s' % e)
      return 1
    if errors:
      for e in errors:
        print('ANALYSIS-ERROR %s' % e)
      return 2
    return 0
  except AnalysisError as e:
    print('ANALYSIS-ERROR %s: %s' % (prop, e))
    return 2
  except Exception as e:  # never let a traceback look like a violation
    print('ANALYSIS-ERROR %s: internal error %s: %s' % (prop, type(e).__name__, e))
    traceback.print_exc(file=sys.stdout)
    return 2


if __name__ == '__main__':
  sys.exit(main())
