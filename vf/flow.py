"""Small intra-procedural dataflow helpers (flow-insensitive def collection, derivation, keyword plumbing)."""
from __future__ import annotations

import ast
from typing import Callable

from . import astu


_DEFS_CACHE: dict = {}


def defs(func, name) -> list:
  """All (value_expr, stmt, index) bound to `name` in the function's own body (memoised per function node)."""
  node = astu._n(func)
  tab = _DEFS_CACHE.get(id(node))
  if tab is None or tab[0] is not node:
    tab = (node, {})
    _DEFS_CACHE[id(node)] = tab
  if name not in tab[1]:
    tab[1][name] = _defs(node, name)
  return list(tab[1][name])


def _defs(func, name) -> list:
  """All (value_expr, stmt, index) bound to `name` in the function's own body.

  value_expr is the assigned expression; for tuple unpacking `a, b = e` it is
  ('unpack', e, i); for loop / with / comprehension targets ('iter', e); a parameter is ('param',).
  """
  func = astu._n(func)
  out = []
  if name in astu.params(func):
    out.append((('param',), func, None))
  for n in astu.body_walk(func, into_lambda=False):
    if isinstance(n, ast.Assign):
      for t in n.targets:
        if isinstance(t, ast.Name) and t.id == name:
          out.append((n.value, n, None))
        elif isinstance(t, (ast.Tuple, ast.List)):
          for i, e in enumerate(t.elts):
            if isinstance(e, ast.Name) and e.id == name:
              if isinstance(n.value, (ast.Tuple, ast.List)) and len(n.value.elts) == len(t.elts):
                out.append((n.value.elts[i], n, i))
              else:
                out.append((('unpack', n.value, i), n, i))
            elif isinstance(e, ast.Starred) and isinstance(e.value, ast.Name) and e.value.id == name:
              out.append((('unpack', n.value, i), n, i))
    elif isinstance(n, ast.AnnAssign) and isinstance(n.target, ast.Name) and n.target.id == name and n.value is not None:
      out.append((n.value, n, None))
    elif isinstance(n, ast.AugAssign) and isinstance(n.target, ast.Name) and n.target.id == name:
      out.append((('aug', n.value), n, None))
    elif isinstance(n, (ast.For, ast.comprehension)) and name in astu.names_stored(n.target):
      out.append((('iter', n.iter), n, None))
    elif isinstance(n, ast.With):
      for i in n.items:
        if i.optional_vars is not None and name in astu.names_stored(i.optional_vars):
          out.append((('with', i.context_expr), n, None))
    elif isinstance(n, ast.NamedExpr) and n.target.id == name:
      out.append((n.value, n, None))
  return out


def must_derive(func, expr, pred: Callable, depth=0, through_calls=()) -> bool:
  """Every definition chain of `expr` ends in an expression satisfying pred.

  Follows plain Name -> its definitions (all of them must derive). `through_calls`
  names wrapper calls whose first argument is followed (e.g. 'tuple', 'dict').
  """
  if depth > 8 or expr is None:
    return False
  if isinstance(expr, tuple):
    if expr[0] in ('unpack', 'with') and isinstance(expr[1], ast.AST):
      return pred(expr) or False
    return False
  if pred(expr):
    return True
  if isinstance(expr, ast.Name):
    ds = defs(func, expr.id)
    ds = [d for d in ds if not (isinstance(d[0], tuple) and d[0][0] == 'param')] or ds
    if not ds:
      return False
    return all(must_derive(func, d[0], pred, depth + 1, through_calls) for d in ds)
  if isinstance(expr, ast.Call) and astu.call_name(expr) in through_calls and expr.args:
    return must_derive(func, expr.args[0], pred, depth + 1, through_calls)
  if isinstance(expr, ast.IfExp):
    return must_derive(func, expr.body, pred, depth + 1, through_calls) and must_derive(func, expr.orelse, pred, depth + 1, through_calls)
  return False


def may_derive(func, expr, pred: Callable, depth=0) -> bool:
  """Some sub-expression / definition of `expr` satisfies pred (transitively through names)."""
  if depth > 8 or expr is None:
    return False
  if isinstance(expr, tuple):
    return any(may_derive(func, e, pred, depth + 1) for e in expr[1:] if isinstance(e, ast.AST))
  for sub in ast.walk(expr):
    if pred(sub):
      return True
  for nm in astu.names_loaded(expr):
    for d in defs(func, nm):
      if isinstance(d[0], tuple) and d[0][0] == 'param':
        continue
      if d[1] is not None and any(x is expr for x in ast.walk(d[1])):
        continue
      if may_derive(func, d[0], pred, depth + 1):
        return True
  return False


def kw_forwarded(call: ast.Call, name: str, as_name: str = None, pos: int = None) -> bool:
  """The call passes `name=<as_name or name>` (or positionally at `pos`) unchanged."""
  v = astu.kwarg(call, name)
  want = as_name or name
  if v is not None:
    return isinstance(v, ast.Name) and v.id == want
  if pos is not None and pos < len(call.args) and not any(isinstance(a, ast.Starred) for a in call.args[:pos + 1]):
    a = call.args[pos]
    return isinstance(a, ast.Name) and a.id == want
  return False


def stores_into(func, base_pred: Callable) -> list:
  """Subscript/attribute stores whose base satisfies base_pred (own body only)."""
  out = []
  for n in astu.body_walk(func):
    if isinstance(n, (ast.Subscript, ast.Attribute)) and isinstance(n.ctx, (ast.Store, ast.Del)) and base_pred(n.value):
      out.append(n)
  return out
