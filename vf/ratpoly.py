"""Rational-function normal form (quotients of multivariate polynomials with rational coefficients) and a tiny symbolic
executor for straight-line arithmetic code.  Used to decide algebraic identities such as the Welford merge step
independently of how the expression is written."""
from __future__ import annotations

import ast
from fractions import Fraction

from . import astu


class Unsupported(Exception):
  pass


def _pmul(a, b):
  out = {}
  for k1, v1 in a.items():
    for k2, v2 in b.items():
      k = tuple(sorted(k1 + k2))
      out[k] = out.get(k, 0) + v1 * v2
  return {k: v for k, v in out.items() if v != 0}


def _padd(a, b, sign=1):
  out = dict(a)
  for k, v in b.items():
    out[k] = out.get(k, 0) + sign * v
  return {k: v for k, v in out.items() if v != 0}


class Rat:
  """num / den, both polynomials {sorted tuple of atom names: coefficient}"""

  def __init__(self, num, den=None):
    self.num = num
    self.den = den if den is not None else {(): Fraction(1)}

  @staticmethod
  def const(c):
    return Rat({(): Fraction(c)} if c != 0 else {})

  @staticmethod
  def atom(name):
    return Rat({(name,): Fraction(1)})

  def __add__(self, o):
    return Rat(_padd(_pmul(self.num, o.den), _pmul(o.num, self.den)), _pmul(self.den, o.den))

  def __sub__(self, o):
    return Rat(_padd(_pmul(self.num, o.den), _pmul(o.num, self.den), -1), _pmul(self.den, o.den))

  def __mul__(self, o):
    return Rat(_pmul(self.num, o.num), _pmul(self.den, o.den))

  def __truediv__(self, o):
    if not o.num:
      raise Unsupported('division by zero')
    return Rat(_pmul(self.num, o.den), _pmul(self.den, o.num))

  def __eq__(self, o):
    return _pmul(self.num, o.den) == _pmul(o.num, self.den)

  def show(self):
    def p(poly):
      if not poly:
        return '0'
      return ' + '.join(('%s*' % v if v != 1 or not k else '') + ('*'.join(k) if k else ('' if v != 1 else '1')) for k, v in sorted(poly.items())).replace('*+', '+').rstrip('*')
    return '(%s) / (%s)' % (p(self.num), p(self.den))


class SymExec:
  """Evaluates arithmetic statements in order.  `atom_of(expr)` maps an opaque sub-expression to an atom name (or None),
  `state_key(expr)` maps an lvalue / rvalue such as `self.count.value` to a state-variable name (or None)."""

  def __init__(self, atom_of, state_key, choose_ifexp=None):
    self.atom_of, self.state_key, self.choose = atom_of, state_key, choose_ifexp
    self.env = {}

  def ev(self, e):
    k = self.state_key(e)
    if k is not None:
      if k not in self.env:
        self.env[k] = Rat.atom(k)
      return self.env[k]
    a = self.atom_of(e)
    if a is not None:
      return Rat.atom(a)
    if isinstance(e, ast.Constant) and isinstance(e.value, (int, float)) and not isinstance(e.value, bool):
      return Rat.const(Fraction(e.value).limit_denominator(10**9))
    if isinstance(e, ast.Name):
      if e.id in self.env:
        return self.env[e.id]
      raise Unsupported('unknown name %s' % e.id)
    if isinstance(e, ast.BinOp):
      l, r = self.ev(e.left), self.ev(e.right)
      if isinstance(e.op, ast.Add):
        return l + r
      if isinstance(e.op, ast.Sub):
        return l - r
      if isinstance(e.op, ast.Mult):
        return l * r
      if isinstance(e.op, ast.Div):
        return l / r
      if isinstance(e.op, ast.Pow) and isinstance(e.right, ast.Constant) and isinstance(e.right.value, int) and 0 <= e.right.value <= 4:
        out = Rat.const(1)
        for _ in range(e.right.value):
          out = out * l
        return out
      raise Unsupported('operator in `%s`' % astu.src(e))
    if isinstance(e, ast.UnaryOp) and isinstance(e.op, ast.USub):
      return Rat.const(0) - self.ev(e.operand)
    if isinstance(e, ast.IfExp) and self.choose is not None:
      return self.ev(self.choose(e))
    raise Unsupported('expression `%s`' % astu.src(e))

  def run(self, stmts):
    for st in stmts:
      if isinstance(st, ast.Expr) and isinstance(st.value, ast.Constant):
        continue
      if isinstance(st, ast.AnnAssign) and st.value is not None:
        st = ast.Assign(targets=[st.target], value=st.value)
      if isinstance(st, ast.Assign) and len(st.targets) == 1:
        t = st.targets[0]
        k = self.state_key(t) or (t.id if isinstance(t, ast.Name) else None)
        if k is None:
          raise Unsupported('assignment target `%s`' % astu.src(t))
        try:
          self.env[k] = self.ev(st.value)
        except Unsupported:
          if self.state_key(t) is not None:
            raise
          self.env.pop(k, None)   # a local we cannot interpret: fine unless it is used later
        continue
      if isinstance(st, ast.AugAssign):
        k = self.state_key(st.target) or (st.target.id if isinstance(st.target, ast.Name) else None)
        if k is None:
          raise Unsupported('augmented assignment target `%s`' % astu.src(st.target))
        cur = self.ev(st.target)
        v = self.ev(st.value)
        self.env[k] = {ast.Add: cur + v, ast.Sub: cur - v, ast.Mult: cur * v}.get(type(st.op)) if type(st.op) in (ast.Add, ast.Sub, ast.Mult) else None
        if self.env[k] is None:
          raise Unsupported('operator in `%s`' % astu.src(st))
        continue
      if isinstance(st, (ast.If, ast.Raise, ast.Assert, ast.Pass)):
        if isinstance(st, ast.If) and not st.orelse and st.body and isinstance(st.body[-1], ast.Raise) and \
            all(isinstance(x, (ast.Raise, ast.Pass)) or (isinstance(x, ast.Assign) and all(isinstance(t_, ast.Name) for t_ in x.targets)) for x in st.body):
          continue   # argument validation: the block always raises
        if isinstance(st, (ast.Raise, ast.Assert, ast.Pass)):
          continue
      raise Unsupported('statement `%s`' % astu.short(st))
    return self.env
