"""C17 — optimizer wrappers apply exactly the optax update; metrics ignore batching."""
from __future__ import annotations

import ast

from .. import astu, evid, flow, types
from ..cfg import cfg_of
from ..model import AnalysisError
from ..report import key_of
from . import Mutant, meta, rule

TS = 'flax/training/train_state.py'
OP = 'flax/nnx/training/optimizer.py'
HE = 'flax/nnx/helpers.py'
MT = 'flax/nnx/training/metrics.py'

SIBLINGS = [(TS, 'TrainState.apply_gradients'), (OP, 'Optimizer.update'), (HE, 'TrainState.apply_gradients')]


def _protocol(f):
  """(update call, (updates name, new state name), apply_updates call, new params name) of an optax wrapper."""
  ups = [n for n in astu.body_walk(f.node) if isinstance(n, ast.Assign) and isinstance(n.value, ast.Call) and astu.src(n.value.func) == 'self.tx.update']
  aps = [n for n in astu.body_walk(f.node) if isinstance(n, ast.Assign) and isinstance(n.value, ast.Call) and astu.call_name(n.value) == 'optax.apply_updates']
  if len(ups) != 1 or len(aps) != 1 or not isinstance(ups[0].targets[0], ast.Tuple) or len(ups[0].targets[0].elts) != 2:
    raise AnalysisError('%s: `updates, new_state = self.tx.update(...)` / `optax.apply_updates(...)` not found' % f.qual)
  return ups[0], [astu.src(e) for e in ups[0].targets[0].elts], aps[0], astu.src(aps[0].targets[0])


def _hand_rolled_apply(f):
  """The tree-map call that adds the updates returned by self.tx.update onto the params when optax.apply_updates is not used."""
  ups = [n for n in astu.body_walk(f.node) if isinstance(n, ast.Assign) and isinstance(n.value, ast.Call) and astu.src(n.value.func) == 'self.tx.update']
  if len(ups) != 1 or not isinstance(ups[0].targets[0], ast.Tuple) or not ups[0].targets[0].elts or not isinstance(ups[0].targets[0].elts[0], ast.Name):
    return None
  if any(astu.call_tail(x) == 'apply_updates' for x in astu.func_calls(f)):
    return None
  upd = ups[0].targets[0].elts[0].id
  for x in astu.func_calls(f):
    if astu.call_tail(x) in ('tree_map', 'map') and 'tree' in (astu.call_name(x) or '') and x.args and isinstance(x.args[0], ast.Lambda):
      if any(isinstance(a, ast.Name) and a.id == upd for a in x.args[1:]) and any(isinstance(n, ast.BinOp) and isinstance(n.op, (ast.Add, ast.Sub)) for n in ast.walk(x.args[0].body)):
        return x
  return None


@rule('C17.R1', 'K7', 9, 'tx.update(grads, current opt state, current params) -> apply_updates(same params, updates) -> both results stored')
def r1(R, repo):
  for rel, q in SIBLINGS:
    f = repo.func(rel, q)
    hand = _hand_rolled_apply(f)
    if hand is not None:
      R.fail(key_of(f, 'apply_updates(the same params, the updates from tx.update)'), (f, hand),
             '%s applies the optax updates by hand (`%s`) instead of optax.apply_updates: apply_updates also casts the result back to each parameter\'s dtype and passes None leaves through, so the hand-written sum differs from the optax loop (e.g. bfloat16 params with float32 accumulators)' % (q, astu.short(hand)))
      continue
    up, (updates, new_state), ap, new_params = _protocol(f)
    args = [astu.src(a) for a in up.value.args]
    if len(args) != 3:
      R.fail(key_of(f, 'tx.update(gradients, current optimizer state, current params)'), (f, up), '%s calls tx.update(%s): it must pass (gradients, optimizer state, params) — transformations such as weight decay need the params' % (q, ', '.join(args)))
      continue
    g, s, p = up.value.args
    gp = astu.params(f.node)
    ok_g = flow.may_derive(f, g, lambda e: isinstance(e, ast.Name) and e.id == 'grads')
    ok_s = flow.may_derive(f, s, lambda e: astu.src(e) == 'self.opt_state')
    ok_p = flow.may_derive(f, p, lambda e: astu.src(e) in ('self.params', 'self.model'))
    roles = lambda e: ('g' if flow.may_derive(f, e, lambda x: isinstance(x, ast.Name) and x.id == 'grads') else '') + ('s' if flow.may_derive(f, e, lambda x: astu.src(x) == 'self.opt_state') else '') + ('p' if flow.may_derive(f, e, lambda x: astu.src(x) in ('self.params', 'self.model')) else '')
    R.judge(all(len(roles(e_)) == 1 for e_ in (g, s, p)), ok_g and ok_s and ok_p, key_of(f, 'tx.update(gradients, current optimizer state, current params)'), (f, up),
            '%s must call tx.update with the gradients, the wrapper\'s current optimizer state and its current parameters in that order (got %s)' % (q, args))
    aa = [astu.src(a) for a in ap.value.args]
    p_alts = evid.arg_text(f, p)
    a_ok = len(ap.value.args) == 2 and (astu.src(ap.value.args[0]) == astu.src(p) or evid.arg_text(f, ap.value.args[0]) == p_alts) and astu.src(ap.value.args[1]) == updates
    known = len(ap.value.args) == 2 and all(isinstance(a_, (ast.Name, ast.Attribute)) for a_ in ap.value.args)
    R.judge(a_ok or known, a_ok, key_of(f, 'apply_updates(the same params, the updates from tx.update)'), (f, ap),
            '%s must compute optax.apply_updates(%s, %s) — the params given to tx.update and its first result — got apply_updates(%s)' % (q, astu.src(p), updates, ', '.join(aa)))
    # sinks
    if q == 'Optimizer.update':
      sink_p = [x for x in astu.func_calls(f) if astu.call_name(x) == 'nnx.update']
      sink_s = [x for x in astu.func_calls(f) if astu.call_name(x) == '_update_opt_state']
      def _roles(call, first, second):
        if len(call.args) != 2:
          return None
        t0, t1 = evid.arg_text(f, call.args[0]) | {astu.src(call.args[0])}, evid.arg_text(f, call.args[1]) | {astu.src(call.args[1])}
        if first in t0 and second in t1:
          return True
        if first in t1 and second in t0:
          return False
        return None
      rp_ = _roles(sink_p[0], 'self.model', new_params) if len(sink_p) == 1 else None
      rs_ = _roles(sink_s[0], 'self.opt_state', new_state) if len(sink_s) == 1 else None
      if not sink_p or not sink_s:
        gone = 'nnx.update' if not sink_p else '_update_opt_state'
        R.judge(not evid.calls_deep(repo, f, evid.call_named(gone.split('.')[-1])), False, key_of(f, 'new params -> nnx.update(model), new state -> _update_opt_state'), f, 'Optimizer.update no longer calls %s: the %s is never written back' % (gone, 'new parameters' if not sink_p else 'new optimizer state'))
      else:
        R.judge(rp_ is not None and rs_ is not None, bool(rp_) and bool(rs_), key_of(f, 'new params -> nnx.update(model), new state -> _update_opt_state'), f, 'Optimizer.update must write the new params into the model and the new optax state into self.opt_state')
      stores = [n for n in astu.body_walk(f.node) if isinstance(n, (ast.Attribute, ast.Subscript)) and isinstance(n.ctx, ast.Store)]
      R.check(all(astu.src(n) == 'self.step.value' for n in stores if astu.src(n).startswith('self')), key_of(f, 'nothing else is written'), f, evidence=True, msg_fail= 'Optimizer.update must not write anything but step, model params and optimizer state (found %s)' % [astu.src(n) for n in stores])
    else:
      rets = [n for n in astu.body_walk(f.node) if isinstance(n, ast.Return)]
      ok = len(rets) == 1 and isinstance(rets[0].value, ast.Call) and astu.src(rets[0].value.func) == 'self.replace'
      if ok:
        kw = {k.arg: k.value for k in rets[0].value.keywords if k.arg}
        ok = 'params' in kw and 'opt_state' in kw and astu.src(kw['opt_state']) == new_state and flow.may_derive(f, kw['params'], lambda e: isinstance(e, ast.Name) and e.id == new_params)
      R.judge(len(rets) == 1 and isinstance(rets[0].value, ast.Call) and astu.src(rets[0].value.func) == 'self.replace' and 'params' in {k.arg for k in rets[0].value.keywords} and 'opt_state' in {k.arg for k in rets[0].value.keywords}, ok, key_of(f, 'replace(params=new params, opt_state=new state)'), f, '%s must return self.replace(params=<new params>, opt_state=<second result of tx.update>, …)' % q)


@rule('C17.R2', 'K2+K8', 3, 'the step counter grows by exactly one per update')
def r2(R, repo):
  for rel, q in SIBLINGS:
    f = repo.func(rel, q)
    c = cfg_of(f)
    if q == 'Optimizer.update':
      inc = [n for n in c.nodes if isinstance(n.stmt, ast.AugAssign) and astu.src(n.stmt.target) == 'self.step.value' and isinstance(n.stmt.op, ast.Add) and astu.is_const(n.stmt.value, 1)]
      handed = []
      if not inc:
        # the increment may live in a helper that receives the optimizer itself: `<param>.step.value += 1` exactly once there
        for x in astu.func_calls(f):
          pos = [i for i, a in enumerate(x.args) if isinstance(a, ast.Name) and a.id == 'self']
          g_ = f.mod.funcs.get(astu.call_name(x) or '')
          if pos and g_ is not None and len(astu.params(g_.node)) > pos[0]:
            pn = astu.params(g_.node)[pos[0]]
            cg_ = cfg_of(g_)
            inc_g = [n for n in cg_.nodes if isinstance(n.stmt, ast.AugAssign) and astu.src(n.stmt.target) == pn + '.step.value' and isinstance(n.stmt.op, ast.Add) and astu.is_const(n.stmt.value, 1)]
            if inc_g and cg_.exactly_once_to_exit(inc_g)[0]:
              inc += c.nodes_for(x)
            elif 'step' in astu.src(g_.node):
              handed.append(x)
          elif pos:
            handed.append(x)
      ok, why = c.exactly_once_to_exit(inc) if inc else (False, 'no increment')
      if handed and not ok:
        R.unsure(key_of(f, 'self.step.value += 1 exactly once'), f, 'the optimizer is handed to `%s`, which may count the step' % astu.short(handed[0]))
        continue
      any_step = [n for n in astu.body_walk(f.node) if isinstance(n, (ast.Attribute, ast.Name)) and isinstance(n.ctx, ast.Store) and 'step' in astu.src(n)] or evid.calls_deep(repo, f, lambda y: 'step' in astu.src(y.func))
      R.judge(bool(inc) or not any_step, ok, key_of(f, 'self.step.value += 1 exactly once'), f, 'Optimizer.update must increment step by one exactly once on every path: %s' % why)
    else:
      rets = [n for n in astu.body_walk(f.node) if isinstance(n, ast.Return)]
      kw = {k.arg: k.value for k in rets[0].value.keywords if k.arg} if rets and isinstance(rets[0].value, ast.Call) else {}
      v = kw.get('step')
      if isinstance(v, ast.Name):
        v = types.single_def(f.node, v.id)
      evid.judge_expr(R, f, v, ['self.step + 1', '1 + self.step'], key_of(f, 'step=self.step + 1'), f, '%s must return the new state with step=self.step + 1' % q, follow=False) if False else R.judge(v is not None and (astu.src(v) in ('self.step + 1', '1 + self.step') or evid.delta(ast.parse('self.step + 1', mode='eval').body, v, {'self', 'step'}) == 'swap' or astu.src(v) == 'self.step'), v is not None and astu.src(v) in ('self.step + 1', '1 + self.step'), key_of(f, 'step=self.step + 1'), f, '%s must return the new state with step=self.step + 1 (got %s)' % (q, astu.src(v)))


@rule('C17.R3', 'K4', 4, 'the optimizer state is initialised on exactly what update() later optimises')
def r3(R, repo):
  op = repo.mod(OP)
  ini, upd = op.func('Optimizer.__init__'), op.func('Optimizer.update')
  R.check('tx.init(nnx.state(model, wrt))' in astu.src(ini.node) and 'self.wrt = wrt' in astu.src(ini.node) and 'self.model = model' in astu.src(ini.node), key_of(ini, 'tx.init(nnx.state(model, wrt)); wrt remembered'), ini,
          'Optimizer.__init__ must initialise the optax state on nnx.state(model, wrt) and remember model and wrt')
  evid.judge_stmts(R, upd, ['params = nnx.state(self.model, self.wrt)'], key_of(upd, 'update reads nnx.state(self.model, self.wrt)'), upd, vocab=('Param', 'Variable'), msg='Optimizer.update must optimise nnx.state(self.model, self.wrt) — the same filter the state was initialised with')
  ts = repo.mod(TS)
  cr, ag = ts.func('TrainState.create'), ts.func('TrainState.apply_gradients')
  R.check("params_with_opt = params['params'] if OVERWRITE_WITH_GRADIENT in params else params" in astu.src(cr.node) and 'opt_state = tx.init(params_with_opt)' in astu.src(cr.node) and 'params=params' in astu.src(cr.node),
          key_of(cr, 'tx.init on the optimised sub-tree, full params stored'), cr, 'TrainState.create must initialise the optimizer on the sub-tree that apply_gradients optimises and store the full params')
  src = astu.src(ag.node)
  # apply_gradients returns a *new* state: it may not write into the containers of the old one
  for st_ in astu.body_walk(ag.node):
    if isinstance(st_, (ast.Assign, ast.AugAssign)):
      for t_ in (st_.targets if isinstance(st_, ast.Assign) else [st_.target]):
        if isinstance(t_, ast.Subscript) and isinstance(t_.value, ast.Name):
          ds_ = [d_[0] for d_ in flow.defs(ag, t_.value.id) if isinstance(d_[0], ast.AST)]
          if ds_ and any(isinstance(d_, ast.Attribute) and isinstance(d_.value, ast.Name) and d_.value.id == 'self' for d_ in ds_):
            R.fail(key_of(ag, 'the old state is left intact'), (ag, st_), '`%s` writes into `%s`, which is the old state\'s own container (`%s = %s`): the TrainState passed in is modified in place, so the caller\'s previous state (and anything sharing its params dict) changes under its feet' % (
                astu.short(st_), t_.value.id, t_.value.id, astu.src(ds_[0])))
  # the new params of the overwrite-with-gradient case: a dict whose overwrite collection is the *gradient*, not the old value
  owg_old = None
  for d_ in [n_ for n_ in ast.walk(ag.node) if isinstance(n_, ast.Dict)]:
    splat_old = [v_ for k_, v_ in zip(d_.keys, d_.values) if k_ is None and astu.src(v_) in ('self.params', 'params')]
    has_owg = any(k_ is not None and astu.src(k_) == 'OVERWRITE_WITH_GRADIENT' for k_ in d_.keys)
    if splat_old and not has_owg and any(k_ is not None and astu.const_str(k_) == 'params' for k_ in d_.keys):
      owg_old = d_
  if owg_old is not None:
    R.fail(key_of(ag, 'overwrite-with-gradient branch keeps the same sub-tree'), (ag, owg_old), '`%s` takes the overwrite-with-gradient collection from the *old* params: those entries are meant to be overwritten by their gradients on every step, so they now never change' % astu.short(owg_old))
    return
  R.check("params_with_opt = self.params['params']" in src and "grads_with_opt = grads['params']" in src and 'OVERWRITE_WITH_GRADIENT: grads[OVERWRITE_WITH_GRADIENT]' in src, key_of(ag, 'overwrite-with-gradient branch keeps the same sub-tree'), ag,
          "with OVERWRITE_WITH_GRADIENT the 'params' sub-tree must be optimised and the overwrite collection replaced by its gradient")
  hc = repo.func(HE, 'TrainState.create')
  R.check('opt_state=tx.init(params)' in astu.src(hc.node) and 'params=params' in astu.src(hc.node), key_of(hc, 'tx.init(params) on the stored params'), hc, 'nnx TrainState.create must initialise the optimizer on the params it stores')


@rule('C17.R4', 'K3', 2, 'functional train states return a new instance and leave self untouched')
def r4(R, repo):
  for rel, q in ((TS, 'TrainState'), (HE, 'TrainState')):
    m = repo.mod(rel)
    cls = m.cls(q)
    bases = [astu.src(b) for b in cls.bases]
    f = m.func(q + '.apply_gradients')
    st = [n for n in astu.body_walk(f.node) if isinstance(n, (ast.Attribute, ast.Subscript)) and isinstance(n.ctx, (ast.Store, ast.Del)) and astu.src(n).startswith('self')]
    setc = [x for x in astu.func_calls(f) if astu.call_name(x) in ('object.__setattr__', 'setattr')]
    R.check(any('PyTreeNode' in b for b in bases) and not st and not setc, key_of(f, 'frozen PyTreeNode; no store to self'), f, evidence=bool(st or setc), msg_fail= '%s.%s must be a frozen struct.PyTreeNode whose apply_gradients performs no store to self' % (rel, q))


@rule('C17.R5', 'K4', 5, 'optimizer-state wrappers are inverse tables and write back raw values')
def r5(R, repo):
  op = repo.mod(OP)
  w = op.func('_wrap_optimizer_state.wrap_optimizer_state_fn')
  src = astu.src(w.node)
  R.check('new_state.source_type = x.type' in src and 'new_state.type = OptVariable' in src and 'return OptArray(x)' in src and 'isinstance(x, variablelib.VariableState)' in src, key_of(w, 'VariableState -> OptVariable(source_type), other -> OptArray'), w,
          '_wrap_optimizer_state must wrap VariableStates as OptVariable remembering source_type and everything else as OptArray')
  u = op.func('_opt_state_variables_to_state.optimizer_variable_to_state_fn')
  src = astu.src(u.node)
  R.check('state.type = x.source_type' in src and 'return x.value' in src and 'isinstance(x, OptVariable)' in src and 'isinstance(x, OptArray)' in src and any(isinstance(n, ast.Raise) for n in ast.walk(u.node)),
          key_of(u, 'OptVariable -> state of source_type, OptArray -> value, else raise'), u, '_opt_state_variables_to_state must undo the wrapping exactly')
  up = op.func('_update_opt_state.optimizer_update_variables')
  kinds = set()
  for n in ast.walk(up.node):
    if isinstance(n, ast.If):
      it = astu.isinstance_test_pol(n.test, 'x')
      if it:
        kinds |= set(it[1])
  R.judge(len(kinds) >= 1, kinds == {'OptVariable', 'OptArray'}, key_of(up, 'handles the same two kinds'), up, '_update_opt_state must handle exactly OptVariable and OptArray')
  st = [n for n in ast.walk(up.node) if isinstance(n, ast.Attribute) and isinstance(n.ctx, ast.Store)]
  R.judge(len(st) >= 1 and all(astu.src(n.value) == 'x' for n in st), all(astu.src(n) == 'x.raw_value' for n in st), key_of(up, 'new optimizer state written to raw_value'), up,
          'the new optax state must be written with `x.raw_value = …` (found %s): assigning `.value` runs the on_set_value hooks that the OptVariable inherited from the parameter, so the stored moments differ from what optax returned' % [astu.src(n) for n in st])
  vals = sorted(astu.src(astu.enclosing_stmt(n).value) for n in st)
  R.check(vals == ['update', 'update.value'], key_of(up, 'stores exactly the value returned by optax'), up, 'the stored values must be the optax results themselves (update.value / update)')


def _metric_fields(f):
  """Names of MetricState attributes created/assigned on self in a method."""
  out = set()
  for n in astu.body_walk(f.node):
    if isinstance(n, ast.Assign) and isinstance(n.targets[0], ast.Attribute):
      t = n.targets[0]
      if astu.src(t.value) == 'self' and isinstance(n.value, ast.Call) and astu.call_name(n.value) == 'MetricState':
        out.add(t.attr)
      if isinstance(t.value, ast.Attribute) and astu.src(t.value.value) == 'self' and t.attr == 'value':
        out.add(t.value.attr)
  return out


@rule('C17.R6', 'K4', 5, 'reset() restores every statistic a metric accumulates; MultiMetric delegates to every metric')
def r6(R, repo):
  m = repo.mod(MT)
  for cls in ('Average', 'Welford'):
    ini, rs, up = m.func(cls + '.__init__'), m.func(cls + '.reset'), m.func(cls + '.update')
    a, b = _metric_fields(ini), _metric_fields(rs)
    R.judge(len(a) >= 2 and len(b) >= 1, a == b, key_of(rs, 'resets %s' % sorted(a)), rs, '%s.__init__ creates the statistics %s but reset() restores %s' % (cls, sorted(a), sorted(b)))
    zero = all(astu.src(n.value).startswith('jnp.array(0') for n in astu.body_walk(rs.node) if isinstance(n, ast.Assign) and astu.src(n.targets[0]).startswith('self.'))
    R.check(zero, key_of(rs, 'resets to zero'), rs, '%s.reset must set every statistic back to zero' % cls)
    if m.has_func(cls + '.__init__'):
      dt_i = {n.targets[0].attr: astu.src(astu.kwarg(n.value.args[0], 'dtype')) for n in astu.body_walk(ini.node) if isinstance(n, ast.Assign) and isinstance(n.value, ast.Call) and astu.call_name(n.value) == 'MetricState' and n.value.args and isinstance(n.value.args[0], ast.Call)}
      dt_r = {n.targets[0].value.attr: astu.src(astu.kwarg(n.value, 'dtype')) for n in astu.body_walk(rs.node) if isinstance(n, ast.Assign) and isinstance(n.value, ast.Call) and isinstance(n.targets[0], ast.Attribute) and isinstance(n.targets[0].value, ast.Attribute)}
      diff = {k: (dt_i[k], dt_r.get(k)) for k in dt_i if dt_r.get(k) != dt_i[k]}
      if diff:
        R.note('%s: dtype differs between __init__ and reset (not a violation of the property): %s' % (cls, diff))
  mm = {q: m.func('MultiMetric.' + q) for q in ('reset', 'update', 'compute', '__init__')}
  for q, call in (('reset', '.reset()'), ('update', '.update(**updates)'), ('compute', '.compute()')):
    src = astu.src(mm[q].node)
    R.check('for metric_name in self._metric_names' in src and 'getattr(self, metric_name)%s' % call in src, key_of(mm[q], 'delegates to every registered metric'), mm[q], 'MultiMetric.%s must call %s on every metric in self._metric_names' % (q, call))
  R.check('self._metric_names.append(metric_name)' in astu.src(mm['__init__'].node) and 'vars(self)[metric_name] = metric' in astu.src(mm['__init__'].node), key_of(mm['__init__'], 'every metric registered by name'), mm['__init__'], 'MultiMetric.__init__ must register every metric under its name')


INT_NAMES = {'count', 'original_count', 'self.count', 'self.count.value', 'values.size'}


@rule('C17.R7', 'K8', 5, 'Average / Welford accumulate batch-size-weighted statistics (order and batching independent form)')
def r7(R, repo):
  m = repo.mod(MT)
  au = m.func('Average.update')
  R.check('self.total.value / self.count.value' in astu.src(m.func('Average.compute').node), key_of(m.func('Average.compute'), 'total / count'), m.func('Average.compute'), 'Average.compute must be total / count')
  wu = m.func('Welford.update')
  c = cfg_of(wu)
  m2 = [n for n in c.nodes if isinstance(n.stmt, ast.AugAssign) and astu.src(n.stmt.target) == 'self.m2.value']
  R.require(len(m2) == 1, 'Welford.update: self.m2.value += … not found')
  e = m2[0].stmt.value
  # symbolic execution of the update over (n_a, mean_a, M2_a) and the batch (n_b, mean_b, M2_b); results compared as rational functions
  from .. import ratpoly

  def state_key(x):
    t = astu.src(x)
    return {'self.count.value': 'n', 'self.count': 'n', 'self.mean.value': 'mean', 'self.mean': 'mean', 'self.m2.value': 'M2', 'self.m2': 'M2'}.get(t)

  def atom_of(x):
    t = astu.src(x)
    if t in ('values.size', 'len(values)', 'jnp.size(values)'):
      return 'n_b'
    if t in ('values.mean()', 'jnp.mean(values)'):
      return 'mean_b'
    if t in ('values.var()', 'jnp.var(values)'):
      return 'var_b'
    return None
  def _is_scalar_test(t, fn):
    if 'isinstance(values' in astu.src(t):
      return True
    if isinstance(t, ast.Name):
      return any(isinstance(d[0], ast.AST) and 'isinstance(values' in astu.src(d[0]) for d in flow.defs(fn, t.id))
    return False

  def chooser(fn):
    def ch(ie):
      if _is_scalar_test(ie.test, fn):
        return ie.orelse      # the array case; the scalar case is its specialisation (size 1, mean = value, var = 0)
      if isinstance(ie.test, ast.UnaryOp) and isinstance(ie.test.op, ast.Not) and _is_scalar_test(ie.test.operand, fn):
        return ie.body
      raise ratpoly.Unsupported('conditional expression on `%s`' % astu.src(ie.test))
    return ch
  ex = ratpoly.SymExec(atom_of, state_key, choose_ifexp=chooser(wu))
  body = [s_ for s_ in astu.strip_docstring(wu.node.body) if not (isinstance(s_, (ast.Assign, ast.AnnAssign)) and 'kwargs[' in astu.src(s_))]
  key_m2 = key_of(wu, 'm2 += m2_batch + delta^2 * n_batch * n_old / n_new')
  try:
    env = ex.run(body)
    A = ratpoly.Rat.atom
    n_new = A('n') + A('n_b')
    d_ = A('mean_b') - A('mean')
    want_m2 = A('M2') + A('var_b') * A('n_b') + d_ * d_ * A('n_b') * A('n') / n_new
    want_mean = (A('mean') * A('n') + A('mean_b') * A('n_b')) / n_new
    R.check(env.get('n') == n_new, key_of(wu, 'count advanced by the batch size'), wu, 'Welford.update must add the number of values in the batch to the count (got %s)' % (env['n'].show() if 'n' in env else 'no update'), evidence=True)
    R.check(env.get('mean') == want_mean, key_of(wu, 'mean = count-weighted mean of old mean and batch mean'), wu, 'after Welford.update the mean must be (n_old*mean_old + n_b*mean_b)/(n_old + n_b); the code computes %s' % (env['mean'].show() if 'mean' in env else 'no update'), evidence=True)
    R.check(env.get('M2') == want_m2, key_m2, (wu, m2[0].stmt), 'Welford.update must merge the batch with M2 += M2_batch + delta^2 * n_batch * n_old / n_new (Chan et al.); as a rational function of (n, mean, M2, n_b, mean_b, var_b) the code computes %s, '
            'which differs: the reported deviation then depends on how the stream was batched' % (env['M2'].show() if 'M2' in env else 'no update'), evidence=True)
  except ratpoly.Unsupported as e_:
    R.unsure(key_m2, (wu, m2[0].stmt), 'Welford.update left the fragment the symbolic evaluator understands: %s' % e_)
  key_avg = key_of(au, 'total += sum(values); count += number of values')
  try:
    exa = ratpoly.SymExec(lambda x: {'values.sum()': 'sum_b', 'jnp.sum(values)': 'sum_b', 'values.size': 'n_b', 'len(values)': 'rows_b', 'values.shape[0]': 'rows_b', 'values.mean()': 'mean_b', 'jnp.mean(values)': 'mean_b'}.get(astu.src(x)),
                          lambda x: {'self.total.value': 'total', 'self.total': 'total', 'self.count.value': 'n', 'self.count': 'n'}.get(astu.src(x)), choose_ifexp=chooser(au))
    enva = exa.run([s_ for s_ in astu.strip_docstring(au.node.body) if not (isinstance(s_, (ast.Assign, ast.AnnAssign)) and 'kwargs[' in astu.src(s_))])
    A = ratpoly.Rat.atom
    R.check(enva.get('total') == A('total') + A('sum_b') and enva.get('n') == A('n') + A('n_b'), key_avg, au, 'Average.update must add the sum of the values to total and their number to count (computed: total=%s, count=%s)' % (
        enva['total'].show() if 'total' in enva else 'unchanged', enva['n'].show() if 'n' in enva else 'unchanged'), evidence=True)
  except ratpoly.Unsupported as e_:
    R.unsure(key_avg, au, 'Average.update left the fragment the symbolic evaluator understands: %s' % e_)
  # integer-overflow hazard: no product of two integer-typed operands
  bad = []
  for n in ast.walk(m2[0].stmt.value):
    if isinstance(n, ast.BinOp) and isinstance(n.op, ast.Mult) and astu.src(n.left) in INT_NAMES and astu.src(n.right) in INT_NAMES:
      bad.append(n)
  R.check(not bad, key_of(wu, 'no integer * integer sub-product in the merge term'), (wu, m2[0].stmt), evidence=True, msg_fail=
          '`%s` multiplies two integer counts before any float factor: the product is evaluated in int32 and wraps once n_batch · n_old >= 2^31, so the reported deviation depends on how the stream was batched' % (astu.short(bad[0]) if bad else ''))
  wc = m.func('Welford.compute')
  R.check('variance = self.m2 / self.count' in astu.src(wc.node) and 'standard_deviation / self.count ** 0.5' in astu.src(wc.node), key_of(wc, 'variance = M2 / n; sem = sd / sqrt(n)'), wc, 'Welford.compute must report M2/n and sd/sqrt(n)')


meta('C17',
     explanation='Dataflow of the optax protocol in the three sibling wrappers (tx.update argument roles, apply_updates on the same params, both results reaching the params / optimizer-state '
     'sinks), step + 1 exactly once, agreement of the `wrt` filter / optimised sub-tree between initialisation and update, functional train states without stores to self, inverse tables of the '
     'optimizer-state wrappers with raw_value write-back, reset completeness of the metrics, and the algebraic shape of the Average / Welford updates including an integer-product hazard check.',
     not_decided=['equality with a hand-written optax loop (values)', 'Welford / Average batching invariance as floating-point statements', 'Accuracy thresholds'],
     mutants=[
         Mutant('C17-m1', OP, "      x.raw_value = update.value", "      x.value = update.value", 'C17.R5', why='seed C17-A'),
         Mutant('C17-m2', MT, "        m2 + delta * delta * count * original_count / self.count\n", "        m2 + delta**2 * (count * original_count / self.count)\n", 'C17.R7', why='seed C17-B'),
         Mutant('C17-m3', TS, "    new_params_with_opt = optax.apply_updates(params_with_opt, updates)", "    new_params_with_opt = optax.apply_updates(self.params, updates)", 'C17.R1'),
         Mutant('C17-m4', HE, "    updates, opt_state = self.tx.update(grads, self.opt_state, self.params)", "    updates, opt_state = self.tx.update(grads, self.opt_state)", 'C17.R1'),
         Mutant('C17-m5', OP, "    self.step.value += 1\n", "", 'C17.R2'),
         Mutant('C17-m6', MT, "    self.count.value = jnp.array(0, dtype=jnp.uint32)\n    self.mean.value = jnp.array(0, dtype=jnp.float32)", "    self.mean.value = jnp.array(0, dtype=jnp.float32)", 'C17.R6'),
         Mutant('C17-m7', OP, "    params = nnx.state(self.model, self.wrt)", "    params = nnx.state(self.model, nnx.Param)", 'C17.R3'),
         Mutant('C17-m8', MT, "        m2 + delta * delta * count * original_count / self.count\n", "        m2 + delta * delta * original_count * original_count / self.count\n", 'C17.R7', why='seed C17-D (round 2): wrong weight'),
         Mutant('C17-b2', MT, "        m2 + delta * delta * count * original_count / self.count\n", "        m2 + (delta * original_count) * (delta * count) / self.count.value\n", kind='benign'),
         Mutant('C17-b1', MT, "        m2 + delta * delta * count * original_count / self.count\n", "        m2 + delta**2 * count * original_count / self.count\n", kind='benign'),
     ])
