"""C02 — the variable tree mirrors the module tree; init, apply and shape-only init agree."""
from __future__ import annotations

import ast
import itertools

from .. import astu, flow, types
from ..cfg import cfg_of
from ..model import AnalysisError
from ..report import key_of
from . import Mutant, meta, rule
from . import c01 as _c01

SC = 'flax/core/scope.py'
MO = 'flax/linen/module.py'
PE = 'flax/core/partial_eval.py'


def _first_real_stmt(f):
  return astu.strip_docstring(f.node.body)[0]


@rule('C02.R1', 'K1', 9, 'every variable / parameter / submodule name is reserved (and a clash raised) before anything is created')
def r1(R, repo):
  mod = repo.mod(SC)
  for q, col in (('Scope.param', "'params'"), ('Scope.variable', 'col')):
    f = mod.func(q)
    c = cfg_of(f)
    rs = [n for x in astu.func_calls(f) if astu.src(x.func) == 'self.reserve' for n in c.nodes_for(x)]
    others = [n for n in c.stmt_nodes() if n not in rs and not (isinstance(n.stmt, ast.Expr) and isinstance(n.stmt.value, ast.Constant))]
    call = [x for x in astu.func_calls(f) if astu.src(x.func) == 'self.reserve']
    ok = len(rs) == 1 and [astu.src(a) for a in call[0].args] == ['name', col] and all(c.dominated(n, rs) for n in others if c.reachable(n))
    R.check(ok, key_of(f, 'self.reserve(name, %s) first' % col), f, '%s must reserve the name in its collection before looking up or creating the variable (two variables would otherwise silently share a slot)' % q)
  rsv = mod.func('Scope.reserve')
  c = cfg_of(rsv)
  t = [n for n in c.nodes if n.kind == 'if' and astu.src(n.ast) == 'self.name_reserved(name, col)']
  rz = [n for n in c.nodes if isinstance(n.stmt, ast.Raise) and astu.raised_name(n.stmt) == 'ValueError']
  add = [n for n in c.nodes if n.kind == 'stmt' and astu.src(n.stmt) == 'self.reservations[name].add(col)']
  ok = len(t) == 1 and len(add) == 1 and any(c.edge_guarded(r_, t[0], 'T') for r_ in rz) and c.edge_guarded(add[0], t[0], 'F')
  R.check(ok, key_of(rsv, 'duplicate name raises, else recorded'), rsv, 'Scope.reserve must raise on a reserved name and otherwise record (name, col)')
  ps = mod.func('Scope.push')
  c = cfg_of(ps)
  rs = [n for x in astu.func_calls(ps) if astu.src(x.func) == 'self.reserve' for n in c.nodes_for(x)]
  t = [n for n in c.nodes if n.kind == 'if' and astu.src(n.ast) == 'not reuse or name not in self.reservations']
  ctor = [n for x in astu.func_calls(ps) if astu.call_name(x) == 'Scope' for n in c.nodes_for(x)]
  ok = len(rs) == 1 and len(t) == 1 and c.edge_guarded(rs[0], t[0], 'T') and ctor and all(c.dominated(x, t) for x in ctor) and astu.is_const(astu.param_default(ps.node, 'reuse'), False)
  R.check(ok, key_of(ps, 'child name reserved unless an existing scope is re-used'), ps, 'Scope.push must reserve the child name unless reuse is requested and the name is already reserved')
  mo = repo.mod(MO)
  for q, kind, coll in (('Module.param', 'param', "'params'"), ('Module.variable', 'variable', 'col')):
    f = mo.func(q)
    c = cfg_of(f)
    t = [n for n in c.nodes if n.kind == 'if' and astu.src(n.ast) == 'self._name_taken(name, collection=%s)' % coll]
    rz = [n for n in c.nodes if isinstance(n.stmt, ast.Raise) and astu.raised_name(n.stmt) == 'NameInUseError']
    mk = [n for x in astu.func_calls(f) if astu.src(x.func) == 'self.scope.%s' % kind for n in c.nodes_for(x)]
    if not t or not rz:
      R.fail(key_of(f, 'name clash raises before the variable is created'), f, '%s no longer raises NameInUseError for a taken name' % q)
      continue
    ok = len(mk) == 1 and c.edge_guarded(rz[0], t[0], 'T') and c.edge_guarded(mk[0], t[0], 'F')
    R.check(ok, key_of(f, 'name clash raises before the variable is created'), f, '%s must test _name_taken(name, collection=%s) and raise NameInUseError before delegating to the scope' % (q, coll))
  pi = mo.func('Module.__post_init__')
  c = cfg_of(pi)
  t = [n for n in c.nodes if n.kind == 'if' and astu.src(n.ast) == 'self.parent._name_taken(self.name, reuse_scopes=reuse_scopes)']
  rz = [n for n in c.nodes if isinstance(n.stmt, ast.Raise) and astu.raised_name(n.stmt) == 'NameInUseError']
  push = [n for x in astu.func_calls(pi) if astu.src(x.func) == 'self.parent.scope.push' for n in c.nodes_for(x)]
  ok = len(t) == 1 and len(rz) == 1 and len(push) == 1 and c.edge_guarded(rz[0], t[0], 'T') and c.edge_guarded(push[0], t[0], 'F')
  R.check(ok, key_of(pi, 'submodule name clash raises before the scope is pushed'), pi, 'Module.__post_init__ must raise NameInUseError for a taken submodule name before pushing the child scope')
  pc = [x for x in astu.func_calls(pi) if astu.src(x.func) == 'self.parent.scope.push']
  R.check(pc and astu.src(pc[0].args[0]) == 'self.name' and astu.src(astu.kwarg(pc[0], 'reuse')) == 'reuse_scopes', key_of(pi, 'scope pushed under the module name'), pi, 'the child scope must be pushed under self.name')
  nt = mo.func('Module._name_taken')
  R.check('return self.scope.name_reserved(name, collection)' in astu.src(nt.node), key_of(nt, 'delegates to scope.name_reserved(name, collection)'), nt, '_name_taken must ask the scope whether (name, collection) is reserved')


def _eval_reserved(expr, env, alias):
  """Evaluate a boolean expression of Scope.name_reserved under abstract facts."""
  s = astu.src(expr)
  if isinstance(expr, ast.Constant) and isinstance(expr.value, bool):
    return expr.value
  if isinstance(expr, ast.BoolOp):
    vs = [_eval_reserved(v, env, alias) for v in expr.values]
    return all(vs) if isinstance(expr.op, ast.And) else any(vs)
  if isinstance(expr, ast.UnaryOp) and isinstance(expr.op, ast.Not):
    return not _eval_reserved(expr.operand, env, alias)
  rset = {'self.reservations[name]', 'self.reservations.get(name)', 'self.reservations.get(name, set())', 'self.reservations.get(name, ())'} | alias
  if isinstance(expr, ast.Compare) and len(expr.ops) == 1:
    l, r, op = astu.src(expr.left), astu.src(expr.comparators[0]), expr.ops[0]
    if isinstance(op, (ast.In, ast.NotIn)):
      if l == 'name' and r == 'self.reservations':
        v = env['name_in']
      elif l == 'None' and r in rset:
        v = env['name_in'] and env['none_in']
      elif l == 'col' and r in rset:
        v = env['name_in'] and env['col_in']
      else:
        raise AnalysisError('name_reserved: unsupported membership `%s`' % s)
      return v if isinstance(op, ast.In) else not v
    if isinstance(op, (ast.Is, ast.IsNot)) and l == 'col' and r == 'None':
      return env['col_is_none'] if isinstance(op, ast.Is) else not env['col_is_none']
    if isinstance(op, (ast.Is, ast.IsNot)) and l in rset and r == 'None':
      v = not env['name_in']
      return v if isinstance(op, ast.Is) else not v
  if s in rset:
    return env['name_in']  # a recorded reservation set is never empty
  raise AnalysisError('name_reserved: expression `%s` is outside the analysable fragment' % s)


def _run_reserved(stmts, env, alias):
  for st in stmts:
    if isinstance(st, ast.Expr) and isinstance(st.value, ast.Constant):
      continue
    if isinstance(st, ast.If):
      r = _run_reserved(st.body if _eval_reserved(st.test, env, alias) else st.orelse, env, alias)
      if r is not None:
        return r
    elif isinstance(st, ast.Return):
      return _eval_reserved(st.value, env, alias)
    elif isinstance(st, ast.Assign) and isinstance(st.targets[0], ast.Name) and astu.src(st.value).startswith('self.reservations'):
      alias.add(st.targets[0].id)
    else:
      raise AnalysisError('name_reserved: statement `%s` is outside the analysable fragment' % astu.short(st))
  return None


@rule('C02.R2', 'K8', 8, 'name_reserved: a name clashes with a submodule always, with a variable of the same collection, and a new submodule clashes with any use')
def r2(R, repo):
  f = repo.func(SC, 'Scope.name_reserved')
  body = astu.strip_docstring(f.node.body)
  for name_in, none_in, col_is_none, col_in in itertools.product([False, True], repeat=4):
    if col_is_none and col_in != none_in:
      continue
    if not name_in and (none_in or col_in):
      continue
    if name_in and not (none_in or col_in) and col_is_none and False:
      continue
    env = dict(name_in=name_in, none_in=none_in, col_is_none=col_is_none, col_in=col_in)
    got = _run_reserved(body, env, set())
    want = name_in and (none_in or col_is_none or col_in)
    desc = 'name %s; reserved by a submodule: %s; asking for %s; same collection reserved: %s' % (
        'used' if name_in else 'unused', none_in, 'a submodule (col=None)' if col_is_none else 'a variable', col_in)
    R.check(bool(got) == want, key_of(f, desc), f,
            'name_reserved returns %s but must return %s for: %s — e.g. a submodule may not take a name already used by a variable (and vice versa)' % (got, want, desc))


@rule('C02.R3', 'K1/K2', 6, 'existing parameters are never re-initialised; missing or mis-shaped ones raise')
def r3(R, repo):
  mod = repo.mod(SC)
  f = mod.func('Scope.param')
  c = cfg_of(f)
  hv = [n for n in c.nodes if n.kind == 'if' and astu.src(n.ast) == "self.has_variable('params', name)"]
  R.require(len(hv) == 1, "Scope.param: has_variable('params', name) test not found")
  puts = [n for x in astu.func_calls(f) if astu.src(x.func) == 'self.put_variable' for n in c.nodes_for(x)]
  inits = [x for x in ast.walk(f.node) if isinstance(x, ast.Call) and astu.src(x.func) == 'init_fn']
  R.require(len(puts) == 1 and len(inits) == 2, 'Scope.param: put_variable / init_fn calls not found')
  R.check(c.edge_guarded(puts[0], hv[0], 'F'), key_of(f, 'no write when the parameter exists'), f, 'an existing parameter must never be overwritten by Scope.param')
  real = [x for x in inits if not isinstance(astu.parent(x), ast.Lambda)]
  lam = [x for x in inits if isinstance(astu.parent(x), ast.Lambda)]
  ok = len(real) == 1 and len(lam) == 1 and all(c.edge_guarded(n, hv[0], 'F') for n in c.nodes_for(real[0]))
  es = astu.parent(astu.parent(lam[0])) if lam else None
  ok = ok and isinstance(es, ast.Call) and astu.call_name(es) == 'jax.eval_shape'
  R.check(ok, key_of(f, 'init_fn runs for real only when the parameter is missing (shape check uses eval_shape)'), f, 'with an existing parameter init_fn may only be evaluated abstractly inside jax.eval_shape')
  rs = [n for n in c.nodes if isinstance(n.stmt, ast.Raise) and astu.raised_name(n.stmt) == 'ScopeParamShapeError']
  ts = [n for n in c.nodes if n.kind == 'if' and astu.src(n.ast) == 'np.shape(val) != np.shape(abs_val)']
  R.check(len(rs) == 1 and len(ts) == 1 and c.edge_guarded(rs[0], ts[0], 'T') and c.edge_guarded(rs[0], hv[0], 'T'), key_of(f, 'shape mismatch raises'), f, 'a parameter whose shape differs from the initialiser\'s must raise ScopeParamShapeError')
  mt = [n for n in c.nodes if n.kind == 'if' and astu.src(n.ast) == "not self.is_mutable_collection('params')"]
  raises = [n for n in c.nodes if isinstance(n.stmt, ast.Raise) and astu.raised_name(n.stmt) in ('ScopeCollectionNotFound', 'ScopeParamNotFoundError')]
  ok = len(mt) == 1 and len(raises) == 2 and all(c.edge_guarded(r_, mt[0], 'T') for r_ in raises) and c.edge_guarded(puts[0], mt[0], 'F') and all(c.edge_guarded(n, mt[0], 'F') for n in c.nodes_for(real[0]))
  R.check(ok, key_of(f, 'missing parameter raises unless params is mutable'), f, 'a missing parameter may be created only when the params collection is mutable; otherwise ScopeCollectionNotFound / ScopeParamNotFoundError')
  mk = [x for x in real if astu.src(x.args[0]) == "self.make_rng('params')"]
  R.check(len(mk) == 1, key_of(f, "initialiser keyed by make_rng('params')"), f, "the initialiser must be called with self.make_rng('params')")
  v = mod.func('Scope.variable')
  c = cfg_of(v)
  hv = [n for n in c.nodes if n.kind == 'if' and astu.src(n.ast) == 'not self.has_variable(col, name)']
  puts = [n for x in astu.func_calls(v) if astu.src(x.func) == 'self.put_variable' for n in c.nodes_for(x)]
  mt = [n for n in c.nodes if n.kind == 'if' and astu.src(n.ast) == 'not self.is_mutable_collection(col) or init_fn is None']
  raises = [n for n in c.nodes if isinstance(n.stmt, ast.Raise)]
  ok = len(hv) == 1 and len(puts) == 1 and len(mt) == 1 and c.edge_guarded(puts[0], hv[0], 'T') and c.edge_guarded(puts[0], mt[0], 'F') and len(raises) == 2 and all(c.edge_guarded(r_, mt[0], 'T') for r_ in raises)
  R.check(ok, key_of(v, 'variable created only when missing and mutable'), v, 'Scope.variable may initialise only a missing variable of a mutable collection; otherwise it must raise')


@rule('C02.R4', 'K2+K10', 4, 'auto-generated names: class name + per-class cursor, advanced exactly once, reset after each compact/setup call')
def r4(R, repo):
  mo = repo.mod(MO)
  pi = mo.func('Module.__post_init__')
  c = cfg_of(pi)
  t = [n for n in c.nodes if n.kind == 'if' and astu.src(n.ast) == 'self.name is None' and any(isinstance(s, ast.Assign) for s in n.stmt.body)]
  R.require(len(t) == 1, 'Module.__post_init__: `if self.name is None` naming branch not found')
  body = {astu.src(s.targets[0]): s for s in t[0].stmt.body if isinstance(s, ast.Assign)}
  ok = astu.src(body.get('prefix').value) == "f'{self.__class__.__name__}'" if 'prefix' in body else False
  ok = ok and 'cursor' in body and astu.src(body['cursor'].value) == 'self.parent._state.autoname_cursor.get(prefix, 0)'
  ok = ok and 'self.name' in body and astu.src(body['self.name'].value) == "f'{prefix}_{cursor}'"
  ok = ok and 'self.parent._state.autoname_cursor[prefix]' in body and astu.src(body['self.parent._state.autoname_cursor[prefix]'].value) == 'cursor + 1'
  ok = ok and len(t[0].stmt.body) == 4
  R.check(ok, key_of(pi, 'name = <ClassName>_<cursor>; cursor advanced by one under the same key'), (pi, t[0].stmt),
          'an unnamed submodule must be named f"{ClassName}_{cursor}" from the parent\'s per-class cursor, which is then advanced by exactly one')
  bad = [x for x in ast.walk(t[0].stmt) if isinstance(x, ast.Call) and astu.call_name(x) in ('id', 'hash', 'uuid', 'len')]
  R.check(not bad, key_of(pi, 'name independent of object identity / creation count'), pi, 'auto-names must not depend on id/hash/uuid/len')
  cw = mo.func('Module._call_wrapped_method')
  tr = [n for n in astu.body_walk(cw.node) if isinstance(n, ast.Try)]
  R.require(len(tr) == 1 and tr[0].finalbody, '_call_wrapped_method: try/finally not found')
  fin = ast.Module(body=tr[0].finalbody, type_ignores=[])
  ifs = [n for n in ast.walk(fin) if isinstance(n, ast.If)]
  rew = [n for n in ifs if astu.src(n.test) == 'is_compact_method' and any("object.__setattr__(self, 'scope', self.scope.rewound())" in astu.src(s) for s in n.body)]
  rst = [n for n in ifs if astu.src(n.test) == '(is_compact_method or is_setup_method) and (not is_recurrent)' and any(astu.src(s) == 'self._state.reset()' for s in n.body)]
  R.check(len(rew) == 1 and len(rst) == 1, key_of(cw, 'finally: rewind the scope (compact) and reset transient state (non-recurrent)'), cw,
          '_call_wrapped_method must, in its finally block, rewind the scope after a compact method and reset the transient state (auto-name cursors) after a non-recurrent compact/setup call: repeating a call then produces the same names')
  rs = mo.func('_ModuleInternalState.reset')
  R.check('self.autoname_cursor = dict()' in astu.src(rs.node) or 'self.autoname_cursor = {}' in astu.src(rs.node), key_of(rs, 'reset clears the auto-name cursors'), rs, 'reset must clear autoname_cursor')


@rule('C02.R5', 'K7', 5, 'a scope\'s variables live under the chain of names that leads to it')
def r5(R, repo):
  mod = repo.mod(SC)
  ps = mod.func('Scope.push')
  ctor = [x for x in astu.func_calls(ps) if astu.call_name(x) == 'Scope']
  ok = len(ctor) == 1 and astu.src(astu.kwarg(ctor[0], 'path')) == 'self.path + (name,)' and astu.src(astu.kwarg(ctor[0], 'name')) == 'name' and astu.src(astu.kwarg(ctor[0], 'parent')) == 'self' and astu.src(ctor[0].args[0]) == '{}'
  R.check(ok, key_of(ps, 'child: path + (name,), parent=self, fresh private dict'), ps, 'Scope.push must create the child with path=self.path + (name,), name=name, parent=self and an empty private variable dict')
  for q in ('Scope._collection', 'Scope._mutable_collection'):
    f = mod.func(q)
    st = [n for n in astu.body_walk(f.node) if isinstance(n, ast.Assign) and astu.src(n.targets[0]) == 'self._variables[col]' and isinstance(n.value, ast.Subscript)]
    R.check(len(st) == 1 and astu.src(st[0].value) == 'parent_col[self.name]', key_of(f, 'child collection = parent collection[self.name]'), f, '%s must resolve a child\'s collection as parent_col[self.name]' % q)
  mo = repo.mod(MO)
  ad = mo.func('Module._register_submodules.adopt_attr_modules')
  R.check("adopted_name = f'{name}{suffix}' if not isinstance(subvalue, CompactNameScope) else current_name" in astu.src(ad.node), key_of(ad, 'adopted submodules are named after the attribute'), ad,
          'a submodule assigned to an attribute in setup() must be named after that attribute (plus its position suffix)')
  rw = mod.func('Scope.rewound')
  ctor = [x for x in astu.func_calls(rw) if astu.call_name(x) == 'Scope']
  ok = len(ctor) == 1 and [astu.src(a) for a in ctor[0].args] == ['self._variables', 'self.rngs', 'self.name', 'self.mutable', 'self.parent'] and astu.src(astu.kwarg(ctor[0], 'path')) == 'self.path'
  R.check(ok, key_of(rw, 'rewound scope = same variables, rngs, name, mutable, parent, path'), rw, 'Scope.rewound must rebuild the scope over the same variables, rngs, name, mutability, parent and path (only reservations start afresh)')


@rule('C02.R6', 'K6', 3, 'shape-only init runs the same init and returns its variables')
def r6(R, repo):
  mo = repo.mod(MO)
  lw = mo.func('Module.lazy_init.lazy_wrapper')
  calls = [x for x in astu.func_calls(lw) if astu.src(x.func) == 'self.init']
  ok = len(calls) == 1 and flow.kw_forwarded(calls[0], 'method') and flow.kw_forwarded(calls[0], 'mutable') and astu.has_star_kwargs(calls[0]) and astu.src(calls[0].args[0]) == 'rngs'
  R.check(ok, key_of(lw, 'self.init(rngs, *args, method=method, mutable=mutable, **kwargs)'), lw, 'Module.lazy_init must evaluate exactly Module.init with the same method / mutable / arguments')
  li = mo.func('Module.lazy_init')
  R.check('partial_eval.lazy_init(lazy_wrapper)(rngs, *args, **kwargs)' in astu.src(li.node), key_of(li, 'partial_eval.lazy_init(wrapper)(rngs, …)'), li, 'Module.lazy_init must run the wrapper under partial_eval.lazy_init')
  cl = repo.func(SC, 'lazy_init')
  R.check('init(fn, mutable, flags)(*args, **kwargs)[1]' in astu.src(cl.node), key_of(cl, 'core.lazy_init returns the variables of init'), cl, 'core.lazy_init must return element [1] (the variables) of init(fn, mutable, flags)')
  pe = repo.func(PE, 'lazy_init.wrapper')
  src = astu.src(pe.node)
  R.check('raise errors.LazyInitError(pv)' in src and 'pe.trace_to_jaxpr_nounits' in src, key_of(pe, 'unknown outputs raise LazyInitError'), pe, 'partial_eval.lazy_init must raise LazyInitError when a variable depends on abstract input values')


@rule('C02.R7', 'K7', 7, 'bind / init / apply work on deep clones that preserve sharing between submodules')
def r7(R, repo):
  _c01.r4(R, repo)


meta('C02',
     explanation='Reserve-before-create dominance in Scope.param/variable/push and Module.param/variable/__post_init__, an exhaustive abstract truth table of Scope.name_reserved over '
     '(name used, reserved by submodule, asked for submodule, same collection), no-re-initialisation guards of Scope.param/variable, the auto-name protocol and its reset in '
     '_call_wrapped_method.finally, name-chain addressing of child collections, plumbing of lazy_init, and the deep-clone rules shared with C01.R4.',
     not_decided=['equality of outputs between init and apply', 'a submodule applied on its own subtree computes the same values', 'eval_shape vs concrete shapes (jax tracing semantics)',
                  'the zip in the shape check truncating on differing leaf counts (noted, not claimed)'],
     mutants=[
         Mutant('C02-m1', SC, "      if (\n        None in self.reservations[name]\n        or col is None\n        or col in self.reservations[name]\n      ):\n        return True\n    return False",
                "      if None in self.reservations[name] or col in self.reservations[name]:\n        return True\n    return False", 'C02.R2', why='seed C02-B'),
         Mutant('C02-m2', MO, "    if _deep_clone != False:", "    if _deep_clone:", 'C02.R7', why='seed C02-A'),
         Mutant('C02-m3', SC, "    self.reserve(name, 'params')\n    if self.has_variable('params', name):", "    if self.has_variable('params', name):", 'C02.R1'),
         Mutant('C02-m4', MO, "        self.parent._state.autoname_cursor[prefix] = cursor + 1\n", "        self.parent._state.autoname_cursor[prefix] = cursor + 1\n        self.parent._state.autoname_cursor['_'] = cursor\n", 'C02.R4'),
         Mutant('C02-m5', SC, "      if not self.is_mutable_collection('params'):\n        if self.is_collection_empty('params'):\n          raise errors.ScopeCollectionNotFound('params', name, self.path_text)\n        raise errors.ScopeParamNotFoundError(name, self.path_text)\n", "", 'C02.R3'),
         Mutant('C02-m6', MO, "      if (is_compact_method or is_setup_method) and not is_recurrent:\n        self._state.reset()", "      if is_setup_method and not is_recurrent:\n        self._state.reset()", 'C02.R4'),
         Mutant('C02-m7', SC, "      path=self.path + (name,),", "      path=self.path,", 'C02.R5'),
         Mutant('C02-b1', SC, "      if (\n        None in self.reservations[name]\n        or col is None\n        or col in self.reservations[name]\n      ):\n        return True\n    return False",
                "      reserved = self.reservations[name]\n      return col is None or None in reserved or col in reserved\n    return False", kind='benign'),
     ])
