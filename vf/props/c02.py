"""C02 — the variable tree mirrors the module tree; init, apply and shape-only init agree."""
from __future__ import annotations

import ast
import itertools

from .. import astu, evid, flow, types
from ..cfg import cfg_of
from ..model import AnalysisError
from ..report import key_of
from . import Mutant, meta, rule
from . import c01 as _c01

SC = 'flax/core/scope.py'
MO = 'flax/linen/module.py'
PE = 'flax/core/partial_eval.py'


def _first_real_stmt(f):
  return astu.strip_docstring(f.node.body)[0]


def _tail(*names):
  return evid.call_named(*names)


def _raises(c, name):
  return [n for n in c.nodes if isinstance(n.stmt, ast.Raise) and astu.raised_name(n.stmt) == name]


def _args_are(call, texts, start=0):
  return [astu.src(a) for a in call.args[start:start + len(texts)]] == list(texts)


@rule('C02.R1', 'K1', 9, 'every variable / parameter / submodule name is reserved (and a clash raised) before anything is created')
def r1(R, repo):
  mod = repo.mod(SC)
  for q, col in (('Scope.param', "'params'"), ('Scope.variable', 'col')):
    f = mod.func(q)
    c = cfg_of(f)
    call = [x for x in astu.func_calls(f) if astu.src(x.func) == 'self.reserve']
    rs = evid.nodes_of(c, call)
    uses = evid.nodes_of(c, evid.find_calls(f, 'has_variable', 'get_variable', 'put_variable', 'init_fn', 'Variable'))
    key = key_of(f, 'self.reserve(name, %s) first' % col)
    msg = '%s must reserve the name in its collection before looking up or creating the variable (two variables would otherwise silently share a slot)' % q
    if not call:
      if evid.calls_deep(repo, f, _tail('reserve')):
        R.unsure(key, f, 'reserve is called from a helper')
      else:
        R.fail(key, f, msg + ': no call of self.reserve is left')
    elif not uses:
      R.unsure(key, f, 'variable lookups / creation not found in %s' % q)
    else:
      for x in call:
        evid.judge_args(R, repo, f, x, {'name': (0, {'name'}), 'col': (1, {col})}, key, msg)
      R.check(all(c.dominated(n, rs) for n in uses if c.reachable(n)), key, f, msg, evidence=True)
  rsv = mod.func('Scope.reserve')
  c = cfg_of(rsv)
  is_res = _tail('name_reserved')
  rz = _raises(c, 'ValueError')
  add = evid.nodes_of(c, [x for x in astu.func_calls(rsv) if astu.call_tail(x) in ('add', 'update', 'append') and 'reservations' in astu.src(x.func)])
  key = key_of(rsv, 'duplicate name raises, else recorded')
  if not add:
    R.unsure(key, rsv, 'the statement recording the reservation was not found')
  else:
    evid.judge_guard(R, c, add, is_res, key, rsv, 'Scope.reserve must raise on a reserved name and only otherwise record (name, col)', negative=True)
    if evid.guarded(c, add[0], is_res, negative=True) == 'yes':
      R.check(any(evid.guarded(c, r_, is_res) == 'yes' for r_ in rz), key_of(rsv, 'duplicate name raises ValueError'), rsv, 'Scope.reserve must raise ValueError for a name that is already reserved', evidence=bool(rz) or not evid.raises_deep(repo, rsv, 'ValueError'))
  ps = mod.func('Scope.push')
  c = cfg_of(ps)
  rs = evid.nodes_of(c, [x for x in astu.func_calls(ps) if astu.src(x.func) == 'self.reserve'])
  ctor = evid.nodes_of(c, evid.find_calls(ps, 'Scope'))
  key = key_of(ps, 'child name reserved unless an existing scope is re-used')
  if not rs and not evid.calls_deep(repo, ps, _tail('reserve')):
    R.fail(key, ps, 'Scope.push no longer reserves the child name: two children (or a child and a variable) could share a name')
  elif not rs or not ctor:
    R.unsure(key, ps, 'reserve / Scope(...) not found in push')
  else:
    # reserve may be skipped only on a path that established `reuse` and `name in self.reservations`
    reuse_t = lambda e: isinstance(e, ast.Name) and e.id == 'reuse'
    in_res = lambda e: isinstance(e, ast.Compare) and len(e.ops) == 1 and isinstance(e.ops[0], ast.In) and astu.src(e.comparators[0]) == 'self.reservations'
    notin_res = lambda e: isinstance(e, ast.Compare) and len(e.ops) == 1 and isinstance(e.ops[0], ast.NotIn) and astu.src(e.comparators[0]) == 'self.reservations'
    e1 = evid.est_edges(c, reuse_t)
    e2 = evid.est_edges(c, in_res) + evid.est_edges(c, notin_res, negative=True)
    # every path that reaches the constructor without reserve must have established `reuse` and `name in self.reservations`
    ok = all(not any(x in c.reach([c.entry], avoid=rs, avoid_edges=e, include_src=True) for x in ctor) for e in (e1, e2))
    ok = ok and astu.is_const(astu.param_default(ps.node, 'reuse'), False)
    R.judge(bool(e1) and bool(e2), ok, key, ps, 'Scope.push must reserve the child name unless reuse is requested and the name is already reserved (and reuse must default to False)')
  mo = repo.mod(MO)
  for q, kind, coll in (('Module.param', 'param', "'params'"), ('Module.variable', 'variable', 'col')):
    f = mo.func(q)
    c = cfg_of(f)
    mk = evid.nodes_of(c, [x for x in astu.func_calls(f) if astu.src(x.func) == 'self.scope.%s' % kind])
    key = key_of(f, 'name clash raises before the variable is created')
    evid.judge_guard(R, c, mk, _tail('_name_taken'), key, f, '%s must test _name_taken(name, collection=%s) and raise NameInUseError before delegating to the scope' % (q, coll), negative=True,
                     moved=lambda: bool(evid.raises_deep(repo, f, 'NameInUseError')))
    nt = [x for x in astu.func_calls(f) if astu.call_tail(x) == '_name_taken']
    for x in nt:
      st, v = evid.passed_value(repo, mo, f, x, 'collection', None)
      if st == evid.YES:
        R.check(astu.src(v) == coll, key + ' :: collection', (f, x), '%s must ask whether the name is taken in collection %s, not `%s`' % (q, coll, astu.src(v)), evidence=True)
      elif st == evid.NO:
        R.fail(key + ' :: collection', (f, x), '%s asks _name_taken without the collection: a variable would clash with same-named variables of other collections' % q)
  pi = mo.func('Module.__post_init__')
  c = cfg_of(pi)
  pc = [x for x in astu.func_calls(pi) if astu.call_tail(x) == 'push' and 'scope' in astu.src(x.func)]
  push = evid.nodes_of(c, pc)
  evid.judge_guard(R, c, push, _tail('_name_taken'), key_of(pi, 'submodule name clash raises before the scope is pushed'), pi,
                   'Module.__post_init__ must raise NameInUseError for a taken submodule name before pushing the child scope', negative=True, moved=lambda: bool(evid.raises_deep(repo, pi, 'NameInUseError')))
  key = key_of(pi, 'scope pushed under the module name')
  if len(pc) == 1 and pc[0].args:
    R.check('self.name' in evid.arg_text(pi, pc[0].args[0]) and 'reuse_scopes' in evid.arg_text(pi, astu.kwarg(pc[0], 'reuse')), key, pi, 'the child scope must be pushed under self.name with reuse=reuse_scopes', evidence=True)
  else:
    R.unsure(key, pi, 'self.parent.scope.push(...) not found')
  nt = mo.func('Module._name_taken')
  rets = [n for n in astu.body_walk(nt.node) if isinstance(n, ast.Return) and isinstance(n.value, ast.Call) and astu.call_tail(n.value) == 'name_reserved']
  key = key_of(nt, 'delegates to scope.name_reserved(name, collection)')
  if len(rets) == 1:
    evid.judge_args(R, repo, nt, rets[0].value, {'name': (0, {'name'}), 'col': (1, {'collection'})}, key, '_name_taken must ask the scope whether (name, collection) is reserved')
  else:
    R.unsure(key, nt, '`return self.scope.name_reserved(...)` not found')


def _eval_reserved(expr, env, alias):
  """Evaluate a boolean expression of Scope.name_reserved under abstract facts."""
  s = astu.src(expr)
  if isinstance(expr, ast.Constant) and isinstance(expr.value, bool):
    return expr.value
  if isinstance(expr, ast.BoolOp):
    vs = [_eval_reserved(v, env, alias) for v in expr.values]
    return all(vs) if isinstance(expr.op, ast.And) else any(vs)
  if isinstance(expr, ast.UnaryOp) and isinstance(expr.op, ast.Not):
    return not _eval_reserved(expr.operand, env, alias)
  rset = {'self.reservations[name]', 'self.reservations.get(name)', 'self.reservations.get(name, set())', 'self.reservations.get(name, ())'} | alias
  if isinstance(expr, ast.Compare) and len(expr.ops) == 1:
    l, r, op = astu.src(expr.left), astu.src(expr.comparators[0]), expr.ops[0]
    if isinstance(op, (ast.In, ast.NotIn)):
      if l == 'name' and r == 'self.reservations':
        v = env['name_in']
      elif l == 'None' and r == 'self.reservations':
        v = False  # the keys of `reservations` are names (strings): None is never one of them
      elif l == 'None' and r in rset:
        v = env['name_in'] and env['none_in']
      elif l == 'col' and r in rset:
        v = env['name_in'] and env['col_in']
      else:
        raise AnalysisError('name_reserved: unsupported membership `%s`' % s)
      return v if isinstance(op, ast.In) else not v
    if isinstance(op, (ast.Is, ast.IsNot)) and l == 'col' and r == 'None':
      return env['col_is_none'] if isinstance(op, ast.Is) else not env['col_is_none']
    if isinstance(op, (ast.Is, ast.IsNot)) and l in rset and r == 'None':
      v = not env['name_in']
      return v if isinstance(op, ast.Is) else not v
  if s in rset:
    return env['name_in']  # a recorded reservation set is never empty
  raise AnalysisError('name_reserved: expression `%s` is outside the analysable fragment' % s)


def _run_reserved(stmts, env, alias):
  for st in stmts:
    if isinstance(st, ast.Expr) and isinstance(st.value, ast.Constant):
      continue
    if isinstance(st, ast.If):
      r = _run_reserved(st.body if _eval_reserved(st.test, env, alias) else st.orelse, env, alias)
      if r is not None:
        return r
    elif isinstance(st, ast.Return):
      return _eval_reserved(st.value, env, alias)
    elif isinstance(st, ast.Assign) and isinstance(st.targets[0], ast.Name) and astu.src(st.value).startswith('self.reservations'):
      alias.add(st.targets[0].id)
    elif isinstance(st, ast.Assign) and all(isinstance(t_, ast.Name) for t_ in st.targets) and isinstance(st.value, ast.Constant) and \
        not any(isinstance(n_, ast.Name) and n_.id in {t_.id for t_ in st.targets} and isinstance(n_.ctx, ast.Load) for s2 in stmts for n_ in ast.walk(s2)):
      continue   # a constant bound to a name nobody reads
    else:
      raise AnalysisError('name_reserved: statement `%s` is outside the analysable fragment' % astu.short(st))
  return None


@rule('C02.R2', 'K8', 8, 'name_reserved: a name clashes with a submodule always, with a variable of the same collection, and a new submodule clashes with any use')
def r2(R, repo):
  f = repo.func(SC, 'Scope.name_reserved')
  body = astu.strip_docstring(f.node.body)
  for name_in, none_in, col_is_none, col_in in itertools.product([False, True], repeat=4):
    if col_is_none and col_in != none_in:
      continue
    if not name_in and (none_in or col_in):
      continue
    if name_in and not (none_in or col_in) and col_is_none and False:
      continue
    env = dict(name_in=name_in, none_in=none_in, col_is_none=col_is_none, col_in=col_in)
    got = _run_reserved(body, env, set())
    want = name_in and (none_in or col_is_none or col_in)
    desc = 'name %s; reserved by a submodule: %s; asking for %s; same collection reserved: %s' % (
        'used' if name_in else 'unused', none_in, 'a submodule (col=None)' if col_is_none else 'a variable', col_in)
    R.check(bool(got) == want, key_of(f, desc), f,
            'name_reserved returns %s but must return %s for: %s — e.g. a submodule may not take a name already used by a variable (and vice versa)' % (got, want, desc), evidence=True)


@rule('C02.R3', 'K1/K2', 6, 'existing parameters are never re-initialised; missing or mis-shaped ones raise')
def r3(R, repo):
  mod = repo.mod(SC)
  f = mod.func('Scope.param')
  c = cfg_of(f)
  has = lambda e: isinstance(e, ast.Call) and astu.call_tail(e) == 'has_variable'
  is_mut = _tail('is_mutable_collection')
  puts = evid.nodes_of(c, [x for x in astu.func_calls(f) if astu.src(x.func) == 'self.put_variable'])
  inits = [x for x in ast.walk(f.node) if isinstance(x, ast.Call) and astu.src(x.func) == 'init_fn']
  R.require(len(puts) >= 1 and len(inits) >= 1, 'Scope.param: put_variable / init_fn calls not found')
  evid.judge_guard(R, c, puts, has, key_of(f, 'no write when the parameter exists'), f, 'an existing parameter must never be overwritten by Scope.param', negative=True)
  real = [x for x in inits if not any(isinstance(a_, ast.Lambda) for a_ in astu.ancestors(x))]
  lam = [x for x in inits if any(isinstance(a_, ast.Lambda) for a_ in astu.ancestors(x))]
  key = key_of(f, 'init_fn runs for real only when the parameter is missing (shape check uses eval_shape)')
  evid.judge_guard(R, c, evid.nodes_of(c, real), has, key, f, 'init_fn may run for real only when the parameter is missing', negative=True)
  for x in lam:
    es = [a_ for a_ in astu.ancestors(x) if isinstance(a_, ast.Call)]
    R.judge(bool(es), bool(es) and astu.call_tail(es[0]) == 'eval_shape', key + ' :: abstract', (f, x), 'with an existing parameter init_fn may only be evaluated abstractly inside jax.eval_shape')
  rs = _raises(c, 'ScopeParamShapeError')
  key = key_of(f, 'shape mismatch raises')
  if not rs and not evid.raises_deep(repo, f, 'ScopeParamShapeError'):
    R.fail(key, f, 'Scope.param no longer raises ScopeParamShapeError: a parameter of the wrong shape would be used silently')
  elif not rs:
    R.unsure(key, f, 'the shape check was moved to a helper')
  else:
    shp = lambda e: isinstance(e, ast.Compare) and len(e.ops) == 1 and isinstance(e.ops[0], (ast.NotEq, ast.Eq)) and 'shape' in astu.src(e)
    ne = lambda e: shp(e) and isinstance(e.ops[0], ast.NotEq)
    eq = lambda e: shp(e) and isinstance(e.ops[0], ast.Eq)
    ok = all(evid.guarded(c, r_, has) == 'yes' for r_ in rs) and all(evid.guarded(c, r_, ne) == 'yes' or evid.guarded(c, r_, eq, negative=True) == 'yes' for r_ in rs)
    R.judge(any(n.kind == 'if' and evid.mentions(n.ast, shp) for n in c.nodes), ok, key, f, 'a parameter whose shape differs from the initialiser\'s must raise ScopeParamShapeError')
  # the shape comparison runs for every existing parameter: no path with has_variable true reaches the return without the comparison loop
  cmp_loops = [n for n in c.nodes if n.kind == 'for' and any(isinstance(x, ast.Raise) and astu.raised_name(x) == 'ScopeParamShapeError' for x in ast.walk(n.stmt))]
  rets_ = [n for n in c.nodes if isinstance(n.stmt, ast.Return)]
  key = key_of(f, 'shape comparison not skippable for an existing parameter')
  if len(cmp_loops) == 1 and rets_:
    wit = None
    for r_ in rets_:
      wit = wit or evid.bypass_under(c, {"self.has_variable('params', name)": True}, r_, cmp_loops)
    R.check(wit is None, key, (f, cmp_loops[0].stmt), 'an existing parameter can reach the return without its shape being compared with the initialiser\'s (path: %s): a wrongly shaped parameter is then used silently' % wit, evidence=True)
  else:
    R.unsure(key, f, 'shape comparison loop not found in Scope.param')
  key = key_of(f, 'missing parameter raises unless params is mutable')
  nf = _raises(c, 'ScopeCollectionNotFound') + _raises(c, 'ScopeParamNotFoundError')
  if not nf and not (evid.raises_deep(repo, f, 'ScopeParamNotFoundError') or evid.raises_deep(repo, f, 'ScopeCollectionNotFound')):
    R.fail(key, f, 'Scope.param no longer raises for a missing parameter of an immutable params collection')
  else:
    evid.judge_guard(R, c, puts + evid.nodes_of(c, real), is_mut, key, f, 'a missing parameter may be created only when the params collection is mutable; otherwise ScopeCollectionNotFound / ScopeParamNotFoundError',
                     moved=lambda: True)
  key = key_of(f, "initialiser keyed by make_rng('params')")
  for x in real:
    a0 = x.args[0] if x.args else None
    alts = evid.arg_text(f, a0) if a0 is not None and not isinstance(a0, ast.Starred) else set()
    mk = mod.funcs.get('Scope.make_rng')
    dflt = astu.param_default(mk.node, astu.params(mk.node)[1]) if mk is not None and len(astu.params(mk.node)) > 1 else None
    if "self.make_rng('params')" in alts or ('self.make_rng()' in alts and astu.const_str(dflt) == 'params') or "self.make_rng(name='params')" in alts:
      R.ok(key, (f, x))
    elif any(t.startswith('self.make_rng(') or 'random.key(' in t or 'PRNGKey(' in t for t in alts):
      R.fail(key, (f, x), "the initialiser must be called with self.make_rng('params'), not `%s`" % astu.short(a0))
    else:
      R.unsure(key, (f, x), 'first argument of init_fn not recognised')
  v = mod.func('Scope.variable')
  c = cfg_of(v)
  puts = evid.nodes_of(c, [x for x in astu.func_calls(v) if astu.src(x.func) == 'self.put_variable'])
  ini = evid.nodes_of(c, [x for x in astu.func_calls(v) if astu.src(x.func) == 'init_fn'])
  key = key_of(v, 'variable created only when missing and mutable')
  evid.judge_guard(R, c, puts + ini, has, key + ' :: missing', v, 'Scope.variable may initialise only a missing variable', negative=True)
  evid.judge_guard(R, c, puts + ini, is_mut, key + ' :: mutable', v, 'Scope.variable may initialise only a variable of a mutable collection; otherwise it must raise', moved=lambda: True)


def _cond_table(node, stop, names):
  """Truth table {assignment: reached?} of the `if` conditions enclosing `node` (below `stop`) over boolean `names`; None if not analysable."""
  conds = evid.path_condition(node, stop)
  out = {}
  for vals in itertools.product([False, True], repeat=len(names)):
    env = dict(zip(names, vals))
    try:
      out[vals] = all(evid.bool_eval(t, env) == pol for t, pol in conds)
    except evid.Unsupported:
      return None
  return out


@rule('C02.R4', 'K2+K10', 4, 'auto-generated names: class name + per-class cursor, advanced exactly once, reset after each compact/setup call')
def r4(R, repo):
  mo = repo.mod(MO)
  pi = mo.func('Module.__post_init__')
  c = cfg_of(pi)
  t = [n for n in c.nodes if n.kind == 'if' and astu.src(n.ast) == 'self.name is None' and any(isinstance(s, ast.Assign) for s in n.stmt.body)]
  R.require(len(t) == 1, 'Module.__post_init__: `if self.name is None` naming branch not found')
  branch = t[0].stmt
  stores = [x for x in ast.walk(branch) if isinstance(x, ast.Assign) and isinstance(x.targets[0], ast.Subscript) and 'autoname_cursor' in astu.src(x.targets[0].value)]
  gets = [x for x in ast.walk(branch) if isinstance(x, ast.Call) and astu.call_tail(x) == 'get' and 'autoname_cursor' in astu.src(x.func)]
  names = [x for x in ast.walk(branch) if isinstance(x, ast.Assign) and astu.src(x.targets[0]) == 'self.name']
  key = key_of(pi, 'name = <ClassName>_<cursor>; cursor advanced by one under the same key')
  if len(gets) == 1 and len(names) == 1 and stores and gets[0].args:
    kexpr = astu.src(gets[0].args[0])
    cur = [astu.src(x.targets[0]) for x in ast.walk(branch) if isinstance(x, ast.Assign) and x.value is gets[0]]
    ok = len(stores) == 1 and astu.src(stores[0].targets[0].slice) == kexpr and len(cur) == 1 and astu.src(stores[0].value) in ('%s + 1' % cur[0], '1 + %s' % cur[0])
    ok = ok and astu.src(stores[0].targets[0].value) == astu.src(gets[0].func.value) and len(gets[0].args) == 2 and astu.is_const(gets[0].args[1], 0)
    nm = names[0].value
    ok = ok and isinstance(nm, ast.JoinedStr) and cur and {kexpr, cur[0]} <= {astu.src(v.value) for v in nm.values if isinstance(v, ast.FormattedValue)}
    kdef = types.single_def(pi.node, kexpr) if kexpr.isidentifier() else None
    ok = ok and kdef is not None and '__class__.__name__' in astu.src(kdef)
    R.check(ok, key, (pi, branch), 'an unnamed submodule must be named f"{ClassName}_{cursor}" from the parent\'s per-class cursor, which is then advanced by exactly one under the same key '
            '(found: name=`%s`, stores %s)' % (astu.short(nm), [astu.short(x) for x in stores]), evidence=True)
  else:
    R.unsure(key, (pi, branch), 'auto-naming statements (cursor get / self.name / cursor store) not recognised')
  bad = [x for x in ast.walk(branch) if isinstance(x, ast.Call) and astu.call_name(x) in ('id', 'hash', 'uuid', 'len', 'uuid.uuid4', 'time.time', 'random.random')]
  R.check(not bad, key_of(pi, 'name independent of object identity / creation count'), pi, 'auto-names must not depend on id/hash/uuid/len', evidence=True)
  cw = mo.func('Module._call_wrapped_method')
  tr = [n for n in astu.body_walk(cw.node) if isinstance(n, ast.Try)]
  R.require(len(tr) == 1 and tr[0].finalbody, '_call_wrapped_method: try/finally not found')
  fin = [x for s_ in tr[0].finalbody for x in ast.walk(s_)]
  rew = [x for x in fin if isinstance(x, ast.Call) and astu.call_tail(x) == 'rewound']
  rst = [x for x in fin if isinstance(x, ast.Call) and astu.call_tail(x) == 'reset' and '_state' in astu.src(x.func)]
  key = key_of(cw, 'finally: rewind the scope (compact) and reset transient state (non-recurrent)')
  msg = ('_call_wrapped_method must, in its finally block, rewind the scope after a compact method and reset the transient state (auto-name cursors) after a non-recurrent compact/setup call: '
         'repeating a call then produces the same names')
  if not rst and not [x for x in astu.func_calls(cw) if astu.call_tail(x) == 'reset']:
    R.fail(key, cw, msg + ' — the reset call is gone')
  elif not rew and not [x for x in astu.func_calls(cw) if astu.call_tail(x) == 'rewound']:
    R.fail(key, cw, msg + ' — the scope is no longer rewound')
  elif len(rst) == 1 and len(rew) == 1:
    names = ('is_compact_method', 'is_setup_method', 'is_recurrent')
    t1, t2 = _cond_table(rst[0], tr[0], names), _cond_table(rew[0], tr[0], names)
    if t1 is None or t2 is None:
      R.unsure(key, cw, 'conditions around reset()/rewound() not analysable')
    else:
      want1 = {v: (v[0] or v[1]) and not v[2] for v in t1}
      # rewinding is required after every compact call
      ok2 = all(t2[v] for v in t2 if v[0])
      R.check(t1 == want1 and ok2, key, cw, msg + ' — reset happens for (compact, setup, recurrent) in %s, rewind for %s' % (sorted(v for v in t1 if t1[v]), sorted(v for v in t2 if t2[v])), evidence=True)
  else:
    R.unsure(key, cw, 'reset()/rewound() not both in the finally block')
  rs = mo.func('_ModuleInternalState.reset')
  st = [n for n in astu.body_walk(rs.node) if isinstance(n, ast.Assign) and astu.src(n.targets[0]) == 'self.autoname_cursor']
  clr = [x for x in astu.func_calls(rs) if astu.src(x.func) == 'self.autoname_cursor.clear']
  key = key_of(rs, 'reset clears the auto-name cursors')
  if st:
    R.check(all(astu.src(x.value) in ('dict()', '{}') for x in st), key, rs, 'reset must clear autoname_cursor', evidence=True)
  elif clr:
    R.ok(key, rs)
  elif 'autoname_cursor' not in astu.src(rs.node):
    R.fail(key, rs, '_ModuleInternalState.reset no longer touches autoname_cursor: auto-names would keep counting across calls')
  else:
    R.unsure(key, rs, 'treatment of autoname_cursor in reset not recognised')


@rule('C02.R5', 'K7', 5, 'a scope\'s variables live under the chain of names that leads to it')
def r5(R, repo):
  mod = repo.mod(SC)
  ps = mod.func('Scope.push')
  ctor = evid.find_calls(ps, 'Scope')
  R.require(len(ctor) == 1, 'Scope.push: Scope(...) not found')
  evid.judge_args(R, repo, ps, ctor[0], {'path': (None, {'self.path + (name,)', '(*self.path, name)'}), 'name': (None, {'name'}), 'parent': (None, {'self'}), 'variables': (0, {'{}', 'dict()'})},
             key_of(ps, 'child: path + (name,), parent=self, fresh private dict'), 'Scope.push must create the child with path=self.path + (name,), name=name, parent=self and an empty private variable dict')
  for q in ('Scope._collection', 'Scope._mutable_collection'):
    f = mod.func(q)
    st = [n for n in astu.body_walk(f.node) if isinstance(n, ast.Assign) and astu.src(n.targets[0]) == 'self._variables[col]' and isinstance(n.value, ast.Subscript)]
    key = key_of(f, 'child collection = parent collection[self.name]')
    if len(st) == 1:
      base = st[0].value.value
      ok = astu.src(st[0].value.slice) == 'self.name' and any('self.parent.' in t for t in evid.arg_text(f, base))
      R.check(ok, key, f, '%s must resolve a child\'s collection as parent_col[self.name], not `%s`' % (q, astu.short(st[0].value)), evidence=True)
    else:
      R.unsure(key, f, 'self._variables[col] = parent_col[...] not found')
  mo = repo.mod(MO)
  ad = mo.func('Module._register_submodules.adopt_attr_modules')
  _t = astu.src(ad.node)
  R.check("adopted_name = f'{name}{suffix}' if not isinstance(subvalue, CompactNameScope) else current_name" in _t or "adopted_name = current_name if isinstance(subvalue, CompactNameScope) else f'{name}{suffix}'" in _t, key_of(ad, 'adopted submodules are named after the attribute'), ad,
          'a submodule assigned to an attribute in setup() must be named after that attribute (plus its position suffix)')
  rw = mod.func('Scope.rewound')
  ctor = evid.find_calls(rw, 'Scope')
  R.require(len(ctor) == 1, 'Scope.rewound: Scope(...) not found')
  evid.judge_args(R, repo, rw, ctor[0], {'variables': (0, {'self._variables'}), 'rngs': (1, {'self.rngs'}), 'name': (2, {'self.name'}), 'mutable': (3, {'self.mutable'}), 'parent': (4, {'self.parent'}), 'path': (None, {'self.path'})},
             key_of(rw, 'rewound scope = same variables, rngs, name, mutable, parent, path'), 'Scope.rewound must rebuild the scope over the same variables, rngs, name, mutability, parent and path (only reservations start afresh)')


@rule('C02.R8', 'K7', 2, 'a module instance shared between parents is adopted once per variable tree: the adoption cache is keyed by the root scope')
def r8(R, repo):
  mo = repo.mod(MO)
  f = mo.func('Module._register_submodules')
  keys = []
  for n in ast.walk(f.node):
    if isinstance(n, ast.Subscript) and astu.src(n.value) == '_caches':
      keys.append((n, n.slice))
    if isinstance(n, ast.Call) and isinstance(n.func, ast.Attribute) and astu.src(n.func.value) == '_caches' and n.func.attr in ('get', 'setdefault', 'pop') and n.args:
      keys.append((n, n.args[0]))
  R.require(len(keys) >= 1, '_register_submodules: no access to the adoption cache `_caches`')
  for node, k in keys:
    key = key_of(f, 'adoption cache keyed by the root scope') + ' :: ' + astu.short(node, 40)
    alts = {astu.src(e) for e in evid.expand(f, k) if isinstance(e, ast.AST)}
    if any(a.endswith('.scope.root') or a.endswith('.root') for a in alts):
      R.ok(key, (f, node))
    elif alts & {'self.scope', 'self', 'self.parent', 'self.parent.scope'} or any(a.endswith('.scope') for a in alts):
      R.fail(key, (f, node), '`%s` keys the adoption cache by `%s` instead of the root scope: a module instance used by two parents of the same tree is cloned once per parent, so the two uses get independent parameters and weight sharing is silently lost' % (astu.short(node), sorted(alts)[0]))
    else:
      R.unsure(key, (f, node), 'cache key `%s` not recognised' % astu.short(k))


@rule('C02.R6', 'K6', 3, 'shape-only init runs the same init and returns its variables')
def r6(R, repo):
  mo = repo.mod(MO)
  lw = mo.func('Module.lazy_init.lazy_wrapper')
  calls = [x for x in astu.func_calls(lw) if astu.src(x.func) == 'self.init']
  R.require(len(calls) == 1, 'lazy_wrapper: self.init(...) not found')
  evid.judge_forward(R, repo, lw, calls[0], ['rngs', 'method', 'mutable'], key_of(lw, 'self.init(rngs, *args, method=method, mutable=mutable, **kwargs)'), 'Module.lazy_init must evaluate exactly Module.init with the same method / mutable / arguments', pos={'rngs': 0})
  li = mo.func('Module.lazy_init')
  R.check('partial_eval.lazy_init(lazy_wrapper)(rngs, *args, **kwargs)' in astu.src(li.node), key_of(li, 'partial_eval.lazy_init(wrapper)(rngs, …)'), li, 'Module.lazy_init must run the wrapper under partial_eval.lazy_init')
  cl = repo.func(SC, 'lazy_init')
  subs = [n for n in astu.body_walk(cl.node) if isinstance(n, ast.Subscript) and isinstance(n.value, ast.Call) and isinstance(n.value.func, ast.Call) and astu.call_name(n.value.func) == 'init']
  key = key_of(cl, 'core.lazy_init returns the variables of init')
  if len(subs) == 1:
    idx = subs[0].slice
    if isinstance(idx, ast.Name):
      d_ = types.single_def(cl.node, idx.id)
      idx = d_ if d_ is not None else idx
    if isinstance(idx, ast.Constant):
      R.check(astu.is_const(idx, 1), key, cl, 'core.lazy_init must return element [1] (the variables) of init(fn, mutable, flags), not `%s`' % astu.short(subs[0]), evidence=True)
    else:
      R.unsure(key, cl, 'index `%s` of the init result not resolved' % astu.short(subs[0].slice))
    evid.judge_forward(R, repo, cl, subs[0].value.func, ['fn', 'mutable', 'flags'], key, 'core.lazy_init must run init with the same fn / mutable / flags', pos={'fn': 0, 'mutable': 1, 'flags': 2})
  else:
    R.unsure(key, cl, 'init(fn, mutable, flags)(…)[1] not found')
  pe = repo.func(PE, 'lazy_init.wrapper')
  src = astu.src(pe.node)
  R.check('raise errors.LazyInitError(pv)' in src and 'pe.trace_to_jaxpr_nounits' in src, key_of(pe, 'unknown outputs raise LazyInitError'), pe, 'partial_eval.lazy_init must raise LazyInitError when a variable depends on abstract input values')


@rule('C02.R7', 'K7', 7, 'bind / init / apply work on deep clones that preserve sharing between submodules')
def r7(R, repo):
  _c01.r4(R, repo)


meta('C02',
     explanation='Reserve-before-create dominance in Scope.param/variable/push and Module.param/variable/__post_init__, an exhaustive abstract truth table of Scope.name_reserved over '
     '(name used, reserved by submodule, asked for submodule, same collection), no-re-initialisation guards of Scope.param/variable, the auto-name protocol and its reset in '
     '_call_wrapped_method.finally, name-chain addressing of child collections, plumbing of lazy_init, and the deep-clone rules shared with C01.R4.',
     not_decided=['equality of outputs between init and apply', 'a submodule applied on its own subtree computes the same values', 'eval_shape vs concrete shapes (jax tracing semantics)',
                  'the zip in the shape check truncating on differing leaf counts (noted, not claimed)'],
     mutants=[
         Mutant('C02-m1', SC, "      if (\n        None in self.reservations[name]\n        or col is None\n        or col in self.reservations[name]\n      ):\n        return True\n    return False",
                "      if None in self.reservations[name] or col in self.reservations[name]:\n        return True\n    return False", 'C02.R2', why='seed C02-B'),
         Mutant('C02-m2', MO, "    if _deep_clone != False:", "    if _deep_clone:", 'C02.R7', why='seed C02-A'),
         Mutant('C02-m3', SC, "    self.reserve(name, 'params')\n    if self.has_variable('params', name):", "    if self.has_variable('params', name):", 'C02.R1'),
         Mutant('C02-m4', MO, "        self.parent._state.autoname_cursor[prefix] = cursor + 1\n", "        self.parent._state.autoname_cursor[prefix] = cursor + 1\n        self.parent._state.autoname_cursor['_'] = cursor\n", 'C02.R4'),
         Mutant('C02-m5', SC, "      if not self.is_mutable_collection('params'):\n        if self.is_collection_empty('params'):\n          raise errors.ScopeCollectionNotFound('params', name, self.path_text)\n        raise errors.ScopeParamNotFoundError(name, self.path_text)\n", "", 'C02.R3'),
         Mutant('C02-m6', MO, "      if (is_compact_method or is_setup_method) and not is_recurrent:\n        self._state.reset()", "      if is_setup_method and not is_recurrent:\n        self._state.reset()", 'C02.R4'),
         Mutant('C02-m7', SC, "      path=self.path + (name,),", "      path=self.path,", 'C02.R5'),
         Mutant('C02-b1', SC, "      if (\n        None in self.reservations[name]\n        or col is None\n        or col in self.reservations[name]\n      ):\n        return True\n    return False",
                "      reserved = self.reservations[name]\n      return col is None or None in reserved or col in reserved\n    return False", kind='benign'),
     ])
