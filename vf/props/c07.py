"""C07 — lifted vjp / jvp / grad / custom_vjp equal JAX autodiff of the pure apply function (routing structure)."""
from __future__ import annotations

import ast

from .. import astu, evid, flow, types
from ..cfg import cfg_of
from ..model import AnalysisError
from ..report import key_of
from . import Mutant, meta, rule
from . import c05 as _c05
from .c06 import _kw_forward

LI = 'flax/core/lift.py'
TR = 'flax/linen/transforms.py'

AD_FUNCS = ['vjp', 'vjp.inner', 'vjp.inner.wrapper', 'value_and_grad', 'value_and_grad.inner', 'value_and_grad.inner.wrapper', 'jvp', 'jvp.inner', 'jvp.inner.wrapper',
            'custom_vjp', 'custom_vjp.inner', 'custom_vjp.inner.f', 'custom_vjp.inner.f_fwd', 'custom_vjp.inner.f_bwd', '_bwd_wrapper']


@rule('C07.R1', 'K7', 7, 'exactly the selected collections are differentiated; the others are closed over untouched')
def r1(R, repo):
  mod = repo.mod(LI)
  v = mod.func('vjp')
  pk = [x for x in astu.func_calls(v) if astu.call_name(x) == 'pack']
  R.require(len(pk) == 1, 'lift.vjp: pack not found')
  evid.judge_call_args(R, repo, v, pk[0], [None, '(vjp_variables, variables)', '(variables,)', '(rngs,)'], key_of(v, 'in = (vjp_variables, variables), out = (variables,)'), (v, pk[0]),
                       'lift.vjp must lift (vjp_variables, variables) in and (variables,) out')
  inner = mod.func('vjp.inner')
  unp = [n for n in astu.body_walk(inner.node) if isinstance(n, ast.Assign) and astu.src(n.value) == 'variable_groups']
  R.require(len(unp) == 1 and isinstance(unp[0].targets[0], ast.Tuple), 'vjp.inner: variable_groups unpacking not found')
  dv, ov = [astu.src(e) for e in unp[0].targets[0].elts]
  call = [x for x in astu.func_calls(inner) if astu.call_name(x) == 'jax.vjp']
  R.require(len(call) == 1, 'vjp.inner: jax.vjp call not found')
  w = mod.func('vjp.inner.wrapper')
  key = key_of(inner, 'jax.vjp(wrapper, <first group>, *args, has_aux=True)')
  evid.judge_call_args(R, repo, inner, call[0], [w.name, dv], key, (inner, call[0]), 'jax.vjp must differentiate the wrapper with respect to the first (selected) variable group and the arguments', vocab=(dv, ov))
  ha = astu.kwarg(call[0], 'has_aux')
  R.check(astu.is_const(ha, True), key + ' :: has_aux', (inner, call[0]), 'jax.vjp must be called with has_aux=True (the repacked variables travel as aux output)', evidence=ha is None or isinstance(ha, ast.Constant))
  w = mod.func('vjp.inner.wrapper')
  evid.judge_expr(R, w, types.single_def(w.node, 'variable_groups'), '(%s, %s)' % (astu.params(w.node)[0], ov), key_of(w, 'scope built from (differentiated group, closed-over group)'), w,
                  'the differentiated wrapper must rebuild the groups from its own first argument and the closed-over non-differentiated group', follow=False, vocab=(dv, ov))
  for q in ('vjp.inner', 'jvp.inner', 'custom_vjp.inner'):
    f = mod.func(q)
    unp = [n for n in astu.body_walk(f.node) if isinstance(n, ast.Assign) and astu.src(n.value) == 'variable_groups' and isinstance(n.targets[0], ast.Tuple)]
    R.require(len(unp) == 1, '%s: variable_groups unpacking not found' % q)
    other = astu.src(unp[0].targets[0].elts[1])
    # single definition in the whole nest of functions: nothing rebinds / wraps the non-differentiated group
    rebinds = [n for n in ast.walk(f.node) if isinstance(n, (ast.Assign, ast.AugAssign)) and n is not unp[0] and other in astu.names_stored(n.targets[0] if isinstance(n, ast.Assign) else n.target)]
    R.check(not rebinds, key_of(f, 'non-selected group `%s` passed through unmodified' % other), (f, rebinds[0]) if rebinds else f, evidence=True, msg_fail=
            '`%s` rebinds the non-selected variable group: it must reach the scope exactly as given, so that outer differentiation / the forward value see the same function of those collections as jax autodiff of the pure apply' % (astu.short(rebinds[0]) if rebinds else ''))
  # the function handed to jax.vjp / jax.jvp must compute on *its own* arguments: a closed-over `args` is a constant to autodiff
  for q in ('vjp.inner.wrapper', 'jvp.inner.wrapper', 'value_and_grad.inner.wrapper'):
    wf = mod.func(q)
    own = set(astu.params(wf.node)) | {n_.id for n_ in ast.walk(wf.node) if isinstance(n_, ast.Name) and isinstance(n_.ctx, ast.Store)}
    outer_params = set(astu.params(mod.func(q.rsplit('.', 1)[0]).node))
    for x in astu.func_calls(wf):
      if astu.src(x.func) != 'fn':
        continue
      key = key_of(wf, 'user function evaluated on the differentiated arguments')
      free = [a_ for a_ in x.args[1:] for n_ in ast.walk(a_) if isinstance(n_, ast.Name) and n_.id not in own and n_.id in outer_params]
      R.check(not free, key, (wf, x), '`%s` evaluates the user function on `%s` of the enclosing function instead of on the arguments jax differentiates: the inputs are then constants to autodiff '
              'and their tangents / cotangents are silently dropped' % (astu.short(x), astu.short(free[0]) if free else ''), evidence=True)
  n_sg = 0
  for q in AD_FUNCS:
    f = mod.func(q)
    for x in astu.func_calls(f):
      if (astu.call_name(x) or '').endswith('stop_gradient'):
        n_sg += 1
        R.fail(key_of(f, 'no stop_gradient in lifted autodiff'), (f, x), '`%s` cuts derivatives inside a lifted autodiff transform: nested jax.grad / jax.jvp over the result would silently get zeros' % astu.short(x))
  j = mod.func('jvp')
  t = astu.src(j.node)
  key = key_of(j, 'tangent collections select the differentiated group')
  evid.judge_stmts(R, j, ['target = tuple(variable_tangents[0].keys())'], key, j, 'lift.jvp must differentiate exactly the collections for which tangents were given')
  pk = [x for x in astu.func_calls(j) if astu.call_name(x) == 'pack']
  evid.judge_call_args(R, repo, j, pk[0] if len(pk) == 1 else None, [None, '(target, variables)', '(variables,)', '(rngs,)'], key + ' :: pack', j, 'lift.jvp must lift (target, variables) in and (variables,) out')
  ji = mod.func('jvp.inner')
  jc = [x for x in astu.func_calls(ji) if astu.call_name(x) == 'jax.jvp']
  evid.judge_call_args(R, repo, ji, jc[0] if len(jc) == 1 else None, [mod.func('jvp.inner.wrapper').name, '(jvp_vars, args)', '(variable_tangents, tangents)'], key_of(ji, 'primals (vars, args) paired with tangents (variable_tangents, tangents)'), ji,
                       'jvp.inner must pair (jvp_vars, args) with (variable_tangents, tangents)', vocab=('other_vars',))
  vg = mod.func('value_and_grad.inner')
  c = [x for x in astu.func_calls(vg) if astu.call_name(x) == 'jax.vjp']
  R.judge(len(c) == 1 and len(c[0].args) >= 2, len(c) == 1 and astu.src(c[0].args[0]) == mod.func('value_and_grad.inner.wrapper').name and isinstance(c[0].args[1], ast.Starred) and len(c[0].args) == 2, key_of(vg, 'only the arguments are differentiated'), vg, 'value_and_grad must differentiate with respect to the arguments only (variables are closed over)')


@rule('C07.R2', 'K4', 4, 'aux output and repacked variables travel together and are destructured in the same layout')
def r2(R, repo):
  mod = repo.mod(LI)
  for q in ('vjp', 'value_and_grad'):
    w = mod.func(q + '.inner.wrapper')
    evid.judge_stmts(R, w, ['return (y, (aux, repack_fn(scope)))'], key_of(w, 'returns (y, (aux, repacked variables))'), w, '%s.wrapper must return (y, (aux, repack_fn(scope))) on every path' % q)
    c = cfg_of(w)
    t = [n for n in c.nodes if n.kind == 'if' and astu.src(n.ast) == 'has_aux']
    evid.judge_stmts(R, w, ['y, aux = fn(scope, *args)', 'aux = ()'], key_of(w, 'aux = () when has_aux is false'), w, 'without has_aux the auxiliary output must be the empty tuple')
    inner = mod.func(q + '.inner')
    vc = [n for n in astu.body_walk(inner.node) if isinstance(n, ast.Assign) and isinstance(n.value, ast.Call) and astu.call_name(n.value) == 'jax.vjp']
    evid.judge_expr(R, inner, vc[0].targets[0] if len(vc) == 1 else None, '(y, bwd, (aux, out_vars))', key_of(inner, '(y, bwd, (aux, out_vars)) = jax.vjp(...)'), inner, '%s.inner must destructure jax.vjp\'s result as (y, bwd, (aux, out_vars))' % q, follow=False)
    rets = [astu.src(n.value) for n in astu.body_walk(inner.node) if isinstance(n, ast.Return)]
    want = ['((y, bwd, aux), out_vars)', '((y, bwd), out_vars)'] if q == 'vjp' else ['((y, aux, inputs_grad), out_vars)', '((y, inputs_grad), out_vars)']
    rn = [n.value for n in astu.body_walk(inner.node) if isinstance(n, ast.Return)]
    if len(rn) == 2:
      for r_, w_ in zip(rn, want):
        evid.judge_expr(R, inner, r_, w_, key_of(inner, 'return shape follows has_aux; variables always second', w_), (inner, r_), '%s.inner must return %s' % (q, want), follow=False, vocab=('y', 'bwd', 'aux', 'out_vars', 'inputs_grad'))
    else:
      R.unsure(key_of(inner, 'return shape follows has_aux; variables always second'), inner, 'the two return statements of %s.inner were not found' % q)


@rule('C07.R3', 'K5', 5, 'custom_vjp: primal function and forward rule build the same scope and both publish their variables; the user rule is used only backwards')
def r3(R, repo):
  mod = repo.mod(LI)
  f, fwd, bwd = mod.func('custom_vjp.inner.f'), mod.func('custom_vjp.inner.f_fwd'), mod.func('custom_vjp.inner.f_bwd')
  sf = [astu.src(x) for x in astu.func_calls(f) if astu.call_name(x) == 'scope_fn']
  sw = [astu.src(x) for x in astu.func_calls(fwd) if astu.call_name(x) == 'scope_fn']
  cf = [x for x in astu.func_calls(f) if astu.call_name(x) == 'scope_fn']
  cw = [x for x in astu.func_calls(fwd) if astu.call_name(x) == 'scope_fn']
  k3 = key_of(mod.rel, 'f and f_fwd build the scope from the same groups')
  m3 = 'f and f_fwd must both build their scope with scope_fn((grad_variables, other_variables), rng_groups)'
  if len(cf) == 1 and len(cw) == 1 and sf != sw and len(cf[0].args) == len(cw[0].args) and not cf[0].keywords and not cw[0].keywords:
    # a local standing for the tuple of groups is the tuple
    alts = [(evid.arg_text(f, a), evid.arg_text(fwd, b)) for a, b in zip(cf[0].args, cw[0].args)]
    if all(x & y for x, y in alts):
      R.ok(k3, f)
    else:
      known = {'grad_variables', 'other_variables', 'rng_groups', 'variable_groups'}
      used = set()
      for x, y in alts:
        for t in x | y:
          used |= astu.names_loaded(ast.parse(t, mode='eval'))
      if used <= known:
        R.fail(k3, f, m3 + ' (got `%s` / `%s`)' % (sf[0], sw[0]))
      else:
        R.unsure(k3, f, m3 + ' (got `%s` / `%s`)' % (sf[0], sw[0]))
  else:
    R.judge(len(sf) == 1 and len(sw) == 1, sf == sw, k3, f, m3)
  evid.judge_stmts(R, f, ['y = fn(scope, *args)', 'return (y, vars_out)', 'vars_out = repack_fn(scope)'], key_of(f, 'primal: fn, repack, (y, vars_out)'), f, 'f must call the original fn and return (y, repacked variables)')
  evid.judge_stmts(R, fwd, ['y, res = forward_fn(scopes, *args)', 'return ((y, vars_out), res)', 'vars_out = repack_fn(scopes)'], key_of(fwd, 'forward: forward_fn, repack, ((y, vars_out), res)'), fwd,
          'f_fwd must call forward_fn and return ((y, repacked variables), residuals): the same primal output layout as f')
  evid.judge_stmts(R, bwd, ['g_y, _ = g'], key_of(bwd, 'cotangent of the variables dropped; backward_fn(residuals, g_y)'), bwd, 'f_bwd must drop the cotangent of the published variables and call backward_fn with the residuals and the output cotangent')
  inner = mod.func('custom_vjp.inner')
  t = astu.src(inner.node)
  evid.judge_stmts(R, inner, ['f = jax.custom_vjp(f, nondiff_argnums=nondiff_argnums)', 'f.defvjp(f_fwd, f_bwd)', 'return f(grad_variables, *args)'], key_of(inner, 'custom_vjp(f).defvjp(f_fwd, f_bwd)'), inner, 'the lifted function must be jax.custom_vjp(f, nondiff_argnums).defvjp(f_fwd, f_bwd) applied to (grad_variables, *args)')
  uses_b = [g.qual for g in (f, fwd) if 'backward_fn' in astu.names_loaded(g.node)]
  uses_f = [g.qual for g in (fwd, bwd) if 'fn' in {n.id for n in ast.walk(g.node) if isinstance(n, ast.Name) and isinstance(n.ctx, ast.Load)} - {'scope_fn'}]
  R.check(not uses_b and not uses_f, key_of(mod.rel, 'backward_fn only in f_bwd; fn only in f'), inner, evidence=True, msg_fail= 'the user\'s backward rule may be referenced only by f_bwd and the original fn only by the primal f (found backward_fn in %s, fn in %s)' % (uses_b, uses_f))


@rule('C07.R4', 'K2', 14, 'forward-pass variable updates are repacked inside the differentiated function and published exactly once (shared with C05.R1/R2)')
def r4(R, repo):
  _c05.r1(R, repo)
  _c05.r2(R, repo)


@rule('C07.R5', 'K6', 4, 'options of nn.vjp / jvp / value_and_grad / grad / custom_vjp reach the lifted core unchanged')
def r5(R, repo):
  tr = repo.mod(TR)
  for name, callee, opts in (('vjp', 'lift.vjp', ['multi_scope', 'has_aux', 'vjp_variables', 'variables', 'rngs']), ('jvp', 'lift.jvp', ['variables', 'rngs']),
                             ('value_and_grad', 'lift.value_and_grad', ['has_aux', 'variables', 'rngs'])):
    f = tr.func(name)
    calls = [x for x in ast.walk(f.node) if isinstance(x, ast.Call) and any(astu.src(a) == callee for a in x.args[:2])]
    R.require(len(calls) == 1, 'nn.%s: use of %s not found' % (name, callee))
    _kw_forward(R, f, calls[0], opts, key_of(f, 'forwards %s' % ', '.join(opts)), 'nn.%s must forward its options unchanged to %s' % (name, callee))
  g = tr.func('grad')
  calls = [x for x in ast.walk(g.node) if isinstance(x, ast.Call) and astu.call_name(x) == 'functools.partial' and astu.src(x.args[0]) == 'value_and_grad']
  if len(calls) == 1:
    _kw_forward(R, g, calls[0], ('has_aux', 'variables', 'rngs'), key_of(g, 'grad = value_and_grad with the same options'), 'nn.grad must delegate to value_and_grad forwarding has_aux, variables and rngs')
  else:
    R.unsure(key_of(g, 'grad = value_and_grad with the same options'), g, 'functools.partial(value_and_grad, …) not found')
  cv = tr.func('custom_vjp')
  calls = [x for x in astu.func_calls(cv) if astu.call_name(x) == 'decorator_lift_transform']
  if len(calls) == 1:
    _kw_forward(R, cv, calls[0], ('backward_fn', 'grad_vars', 'nondiff_argnums'), key_of(cv, 'forwards backward_fn, grad_vars, nondiff_argnums'), 'nn.custom_vjp must forward backward_fn, grad_vars and nondiff_argnums')
  else:
    R.unsure(key_of(cv, 'forwards backward_fn, grad_vars, nondiff_argnums'), cv, 'decorator_lift_transform(...) not found')
  sh = tr.func('custom_vjp.shared_forward_fn')
  c = cfg_of(sh)
  t = [n for n in c.nodes if n.kind == 'if' and astu.src(n.ast) == 'needs_residual']
  rf = [n for n in c.nodes if isinstance(n.stmt, ast.Return) and astu.src(n.stmt.value).startswith('forward_fn(')]
  rp = [n for n in c.nodes if isinstance(n.stmt, ast.Return) and astu.src(n.stmt.value).startswith('fn(')]
  R.judge(len(t) == 1 and len(rf) == 1 and len(rp) == 1, len(t) == 1 and len(rf) == 1 and len(rp) == 1 and c.edge_guarded(rf[0], t[0], 'T') and c.edge_guarded(rp[0], t[0], 'F'), key_of(sh, 'forward_fn only when residuals are needed, else the original fn'), sh,
          'the primal value must come from the original fn; forward_fn may run only when residuals are needed (i.e. when differentiating)')


@rule('C07.R7', 'K1', 2, 'nn.value_and_grad / nn.grad reject a non-scalar output on every path, with and without has_aux')
def r7(R, repo):
  tr = repo.mod(TR)
  f = tr.func('value_and_grad')
  c = cfg_of(f)
  runs = [n for x in astu.func_calls(f) if astu.src(x.func) == 'grad_partial' or (isinstance(x.func, ast.Call) and 'lift.value_and_grad' in astu.src(x.func)) for n in c.nodes_for(x)]
  tests = [n for n in c.nodes if n.kind == 'if' and any(isinstance(y, ast.Compare) and any(isinstance(z, ast.Attribute) and z.attr in ('shape', 'ndim', 'size') for z in ast.walk(y)) for y in ast.walk(n.ast))
           and any(c.edge_guarded(r_, n, 'T') or c.edge_guarded(r_, n, 'F') for r_ in c.nodes if isinstance(r_.stmt, ast.Raise))]
  rets = [n for n in c.nodes if isinstance(n.stmt, ast.Return)]
  key = key_of(f, 'scalar-output check between the lifted call and every return')
  weak = [y for n in tests for y in ast.walk(n.ast) if isinstance(y, ast.Compare) and any(isinstance(z, ast.Attribute) and z.attr == 'size' for z in ast.walk(y))
          and not any(isinstance(z, ast.Attribute) and z.attr in ('shape', 'ndim') for z in ast.walk(n.ast))]
  if weak:
    R.fail(key, (f, weak[0]), '`%s` accepts every one-element array, e.g. a loss of shape (1,) or (1, 1): jax.grad of the pure apply function raises for those, so nn.grad / nn.value_and_grad no longer agree with it; the check must be on the shape (`out.shape != ()`)' % astu.short(weak[0]))
    return
  if not runs or not rets:
    R.unsure(key, f, 'grad_partial() call / returns not recognised')
    return
  n_paths = 0
  for run in runs:
    after = c.reach([run])
    for r_ in rets:
      if r_ is run or r_ in after:
        n_paths += 1
        k2 = '%s :: %s' % (key, astu.short(r_.stmt, 50))
        if tests and c.must_pass(run, r_, tests):
          R.ok(k2, (f, r_.stmt))
        elif tests or not evid.raises_deep(repo, f, 'ValueError'):
          R.fail(k2, (f, r_.stmt), 'value_and_grad returns `%s` without checking that the differentiated output is a scalar on this path: for a vector-valued function nn.grad / nn.value_and_grad silently returns the gradient of the sum where jax.grad raises' % astu.short(r_.stmt.value, 60))
        else:
          R.unsure(k2, (f, r_.stmt), 'the scalar check may have moved into a helper')
  R.require(n_paths >= 1, 'value_and_grad: no return after the lifted call')


@rule('C07.R6', 'K5', 5, 'multi-scope lifts bind every sub-module to its own scope (shared with C05.R7)')
def r6(R, repo):
  _c05.r7(R, repo)


meta('C07',
     explanation='Routing structure of the lifted autodiff transforms: which variable group is an argument of jax.vjp / jax.jvp and which is closed over (single definition, no stop_gradient), '
     'layout of (y, (aux, repacked variables)) through jax.vjp, agreement of custom_vjp\'s primal and forward functions and the confinement of the user backward rule to f_bwd, '
     'repack / publish-once (shared with C05), keyword plumbing of the linen wrappers, and scope-list lock-step for multi-scope lifts.',
     not_decided=['equality of gradients / tangents with jax.vjp / jvp / grad of the pure apply function (values; jax AD)'],
     mutants=[
         Mutant('C07-m1', LI, "    vjp_vars, other_vars = variable_groups\n\n    @functools.wraps(fn)\n    def wrapper(vjp_vars, *args):", "    vjp_vars, other_vars = variable_groups\n    other_vars = jax.lax.stop_gradient(other_vars)\n\n    @functools.wraps(fn)\n    def wrapper(vjp_vars, *args):", 'C07.R1', why='seed C07-B'),
         Mutant('C07-m2', TR, "    for leaf in jax.tree_util.tree_leaves(attrs):\n      get_scopes_inner(leaf)\n    scopes.append(module.scope)", "    for f in dataclasses.fields(module):\n      if f.name != 'parent' and f.init:\n        for leaf in jax.tree_util.tree_leaves(getattr(module, f.name)):\n          get_scopes_inner(leaf)\n    scopes.append(module.scope)", 'C07.R6', why='seed C07-A'),
         Mutant('C07-m3', LI, "      wrapper, vjp_vars, *args, has_aux=True\n", "      wrapper, other_vars, *args, has_aux=True\n", 'C07.R1'),
         Mutant('C07-m4', LI, "      y, res = forward_fn(scopes, *args)\n      vars_out = repack_fn(scopes)\n      return (y, vars_out), res", "      y, res = forward_fn(scopes, *args)\n      vars_out = repack_fn(scopes)\n      return (y, ()), res", 'C07.R3'),
         Mutant('C07-m6', LI, "    def wrapper(vars_primals, args):\n", "    def wrapper(vars_primals, *primals):\n", 'C07.R1', why='seed C07-C (round 2): body still uses the closed-over args'),
         Mutant('C07-m5', TR, "    has_aux=has_aux,\n    vjp_variables=vjp_variables,\n    variables=variables,\n    rngs=rngs,\n  )", "    has_aux=has_aux,\n    variables=variables,\n    rngs=rngs,\n  )", 'C07.R5'),
     ])
