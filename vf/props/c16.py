"""C16 — flatten/unflatten of nested dicts and NNX State conversions are mutual inverses; set laws."""
from __future__ import annotations

import ast

from .. import evid, astu, flow, types
from ..cfg import cfg_of
from ..model import AnalysisError
from ..report import key_of
from . import Mutant, meta, rule

TU = 'flax/traverse_util.py'
TR = 'flax/nnx/traversals.py'
SL = 'flax/nnx/statelib.py'

PAIRS = [(TU, 'flatten_dict', 'unflatten_dict'), (TR, 'flatten_mapping', 'unflatten_mapping')]


def _sentinel_home(repo, mod, node):
  """Module in which the object named by `node` (Name/Attribute) is defined, or None."""
  d = astu.dotted(node)
  if d is None:
    return None
  if '.' not in d:
    if d in mod.assigns and d not in mod.imports:
      return (mod.rel, d)
    if d in mod.imports:
      tgt = mod.imports[d]
      base, last = tgt.rsplit('.', 1)
      m = repo.by_dotted.get(base)
      if m is not None and last in m.assigns:
        return (m.rel, last)
    return None
  base, last = d.rsplit('.', 1)
  r = repo.resolve_dotted(mod, base)
  from ..model import Mod
  if isinstance(r, Mod) and last in r.assigns:
    return (r.rel, last)
  return None


def _sentinel_refs(repo, mod, func):
  out = []
  for n in astu.body_walk(func.node):
    if isinstance(n, (ast.Name, ast.Attribute)) and isinstance(getattr(n, 'ctx', None), ast.Load):
      d = astu.dotted(n)
      if d and d.split('.')[-1] == 'empty_node':
        p = astu.parent(n)
        if isinstance(p, ast.Attribute):
          continue
        out.append(n)
  return out


_SEP_NOTNONE = lambda e: isinstance(e, ast.Compare) and len(e.ops) == 1 and isinstance(e.ops[0], ast.IsNot) and astu.src(e.left) == 'sep' and astu.is_const(e.comparators[0], None)
_SEP_NONE = lambda e: isinstance(e, ast.Compare) and len(e.ops) == 1 and isinstance(e.ops[0], ast.Is) and astu.src(e.left) == 'sep' and astu.is_const(e.comparators[0], None)


def _sep_guard(R, c, nodes, key, where, msg, asts=()):
  """`nodes` (uses of sep as a string) must be reached only when sep is not None."""
  if asts and all(evid.expr_guard(a, _SEP_NOTNONE, func=c.func) or evid.expr_guard(a, _SEP_NONE, negative=True, func=c.func) for a in asts):
    R.ok(key, where)
    return
  if not nodes:
    R.unsure(key, where, 'use of the separator not found (%s)' % msg)
    return
  g = [('yes' if 'yes' in (evid.guarded(c, n, _SEP_NOTNONE), evid.guarded(c, n, _SEP_NONE, negative=True)) else
        ('absent' if evid.guarded(c, n, _SEP_NOTNONE) == 'absent' and evid.guarded(c, n, _SEP_NONE, negative=True) == 'absent' else 'bypass')) for n in nodes]
  if all(x == 'yes' for x in g):
    R.ok(key, where)
  else:
    R.fail(key, where, '%s: `%s` is reached %s' % (msg, astu.short(nodes[g.index([x for x in g if x != 'yes'][0])].stmt), 'although sep may be None' if 'bypass' in g else 'without any test of `sep is None`'))


@rule('C16.R1', 'K4', 8, 'separator and empty-node sentinel agree between flatten and unflatten')
def r1(R, repo):
  for rel, fl, unfl in PAIRS:
    mod = repo.mod(rel)
    F, U = mod.func(fl), mod.func(unfl)
    inner = mod.func(fl + '._flatten')
    keyf = mod.func(fl + '._key')
    # (a) separator: join under `sep is None` test, split under `sep is not None`
    joins = [c for c in astu.func_calls(keyf) if astu.call_tail(c) == 'join' and astu.src(c.func.value) == 'sep']
    R.require('sep' in astu.params(F.node) and 'sep' in astu.params(U.node), '%s/%s lost the sep parameter' % (fl, unfl))
    ok = False
    if joins:
      c = cfg_of(keyf)
      jn = c.nodes_for(joins[0])
      tests = [n for n in c.nodes if n.kind == 'if' and astu.src(n.ast) in ('sep is None', 'sep is not None')]
      if jn and tests:
        t = tests[0]
        lab = 'F' if astu.src(t.ast) == 'sep is None' else 'T'
        ok = all(c.edge_guarded(j, t, lab) for j in jn)
        # the other branch returns the path itself
        rets = [n for n in c.nodes if isinstance(n.stmt, ast.Return) and n not in jn]
        ok = ok and any(isinstance(r.stmt.value, ast.Name) and r.stmt.value.id == astu.params(keyf.node)[0] for r in rets)
    ck = cfg_of(keyf)
    if not joins and 'sep' not in astu.names_loaded(keyf.node):
      R.fail(key_of(keyf, 'sep.join only when sep is not None'), keyf, '%s._key ignores the separator: keys are never joined, so flatten_dict(..., sep=s) returns tuple keys and unflatten cannot split them' % fl)
    else:
      _sep_guard(R, ck, evid.nodes_of(ck, joins), key_of(keyf, 'sep.join only when sep is not None'), keyf, '%s._key must return sep.join(path) exactly when sep is not None and the tuple path otherwise' % fl, asts=joins)
    if joins:
      R.judge(True, ok, key_of(keyf, 'tuple path returned when sep is None'), keyf, '%s._key must return the tuple path itself when sep is None' % fl) if ok else R.unsure(key_of(keyf, 'tuple path returned when sep is None'), keyf, 'return of the raw path not recognised')
    splits = [c for c in astu.func_calls(U) if astu.call_tail(c) == 'split' and c.args and astu.src(c.args[0]) == 'sep']
    ok = False
    if splits:
      c = cfg_of(U)
      sn = c.nodes_for(splits[0])
      tests = [n for n in c.nodes if n.kind == 'if' and astu.src(n.ast) in ('sep is None', 'sep is not None')]
      if sn and tests:
        t = tests[0]
        lab = 'F' if astu.src(t.ast) == 'sep is None' else 'T'
        ok = all(c.edge_guarded(s, t, lab) for s in sn)
    cU = cfg_of(U)
    _sep_guard(R, cU, evid.nodes_of(cU, splits), key_of(U, 'path.split(sep) only when sep is not None'), U, '%s must split keys with the same separator exactly when sep is not None' % unfl, asts=splits)
    # every produced key goes through _key (leaf and empty-node entries)
    bad = []
    for n in astu.body_walk(inner.node):
      if isinstance(n, ast.Return) and isinstance(n.value, ast.Dict) and n.value.keys:
        for k in n.value.keys:
          if not any(isinstance(k_, ast.Call) and astu.call_name(k_) == '_key' for k_ in evid.expand(inner, k)):
            bad.append(n)
    raw_keys = [n for n in bad if any(astu.src(k) in astu.params(inner.node) for k in n.value.keys)]
    R.judge(not bad or bool(raw_keys), not bad, key_of(inner, 'all keys built by _key'), inner,
            'an entry is emitted with a key that does not pass through _key (separator ignored): %s' %
            (astu.short(bad[0]) if bad else ''))
    # (b) sentinel: emitted only under keep_empty_nodes and is_empty, never for the root
    em = [n for n in _sentinel_refs(repo, mod, inner)]
    R.require(len(em) >= 1, '%s._flatten no longer refers to empty_node' % fl)
    c = cfg_of(inner)
    ok_guard = True
    for e in em:
      for node in c.nodes_for(e):
        tests = [n for n in c.nodes if n.kind == 'if' and 'keep_empty_nodes' in astu.names_loaded(n.ast)]
        ok_guard &= bool(tests) and any(c.edge_guarded(node, t, 'T') for t in tests)
        roots = [n for n in c.nodes if n.kind == 'if' and astu.src(n.ast) in ('prefix == ()', 'not prefix', '() == prefix')]
        ok_guard &= bool(roots) and any(c.edge_guarded(node, t, 'F') for t in roots)
    kt = [n for n in c.nodes if n.kind == 'if' and 'keep_empty_nodes' in astu.names_loaded(n.ast)]
    ok_and = all(isinstance(t.ast, ast.BoolOp) and isinstance(t.ast.op, ast.And) and
                 {'keep_empty_nodes', 'is_empty'} <= astu.names_loaded(t.ast) for t in kt)
    roots_found = any(n.kind == 'if' and astu.src(n.ast) in ('prefix == ()', 'not prefix', '() == prefix') for n in c.nodes)
    key_e = key_of(inner, 'empty_node only for empty non-root mappings under keep_empty_nodes')
    if ok_guard and ok_and and kt and roots_found:
      R.ok(key_e, inner)
    else:
      # polarity-free reading: the sentinel must be unreachable when keep_empty_nodes is false and when the prefix is the root
      sent = [nd for e in em for nd in c.nodes_for(e)]
      may_off, _m1 = evid.reach_env(c, {'keep_empty_nodes': False})
      may_root, _m2 = evid.reach_env(c, {'prefix == ()': True, '() == prefix': True, 'not prefix': True, 'prefix': False, 'prefix != ()': False})
      emptiness = any(t.kind == 'if' and any(c.edge_guarded(nd, t, lab) for nd in sent for lab in ('T', 'F')) and (astu.names_loaded(t.ast) - {'keep_empty_nodes', 'prefix'}) for t in c.nodes)
      if any(nd in may_off for nd in sent):
        R.fail(key_e, (inner, sent[0].stmt), 'the empty-node sentinel can be emitted although keep_empty_nodes is false: flatten/unflatten then no longer round-trip for callers that did not ask for empty nodes')
      elif roots_found and any(nd in may_root for nd in sent):
        R.fail(key_e, (inner, sent[0].stmt), 'the empty-node sentinel can be emitted for the root prefix: flattening an empty mapping must give {}')
      elif roots_found and emptiness:
        R.ok(key_e, inner)
      else:
        R.unsure(key_e, inner, 'empty_node must be emitted only when keep_empty_nodes and the mapping is empty, and never for the root prefix')
    um = _sentinel_refs(repo, mod, U)
    R.require(len(um) >= 1, '%s no longer compares against empty_node' % unfl)
    homes_f = {_sentinel_home(repo, mod, e) for e in em}
    homes_u = {_sentinel_home(repo, mod, e) for e in um}
    txt_f, txt_u = {astu.dotted(e) for e in em}, {astu.dotted(e) for e in um}
    R.judge(None not in homes_f and (None not in homes_u or txt_f != txt_u), homes_f == homes_u and None not in homes_f and len(homes_f) == 1 and list(homes_f)[0][0] == rel,
            key_of(mod.rel, fl, unfl, 'same sentinel object'), (mod, um[0]),
            'flatten emits sentinel %s but unflatten compares against %s (they must be the same module-level object of %s)' %
            (sorted(map(str, homes_f)), sorted(map(str, homes_u)), rel))
    # unflatten turns the sentinel into a fresh {} (identity comparison)
    ok = False
    for n in astu.body_walk(U.node):
      if isinstance(n, ast.If) and isinstance(n.test, ast.Compare) and len(n.test.ops) == 1 and \
          isinstance(n.test.ops[0], (ast.Is, ast.Eq)) and any(e in ast.walk(n.test) for e in um):
        for st in n.body:
          if isinstance(st, ast.Assign) and isinstance(st.value, ast.Dict) and not st.value.keys:
            ok = True
    has_test = any(isinstance(n, ast.If) and any(e in ast.walk(n.test) for e in um) for n in astu.body_walk(U.node))
    R.judge(has_test, ok, key_of(U, 'sentinel -> {}'), U, '%s must replace the empty-node sentinel by a new empty dict' % unfl)
    cu = cfg_of(U)
    st_ = [n for n in cu.nodes if n.kind == 'if' and any(e in ast.walk(n.ast) for e in um)]
    sp_ = [n for n in cu.nodes if n.kind == 'if' and astu.src(n.ast) in ('sep is None', 'sep is not None')]
    indep = bool(st_) and bool(sp_) and not any(cu.edge_guarded(a, b, lab) for a in st_ for b in sp_ for lab in ('T', 'F'))
    R.judge(bool(st_) and bool(sp_), indep, key_of(U, 'sentinel restored with and without a separator'), U,
            '%s tests for the empty-node sentinel only on one branch of the separator test: with sep given (or not given) empty sub-dicts come back as the sentinel object instead of {}' % unfl)
  # (c) path_aware_map
  mod = repo.mod(TU)
  P = mod.func('path_aware_map')
  fc = [c for c in astu.func_calls(P) if astu.call_name(c) == 'flatten_dict']
  if not fc:
    # a hand-written recursion instead of flatten_dict/unflatten_dict: it must descend into the same mapping types
    # as flatten_dict does (dict and FrozenDict)
    tests = [n for n in ast.walk(P.node) if isinstance(n, ast.Call) and astu.call_name(n) == 'isinstance' and len(n.args) == 2]
    only_dict = [t_ for t_ in tests if astu.src(t_.args[1]) == 'dict']
    if only_dict:
      R.fail(key_of(P, 'keep_empty_nodes=True'), (P, only_dict[0]), 'path_aware_map recurses only into `dict` (`%s`): a FrozenDict input or sub-tree is handed to the mapped function whole, so its leaves are not visited and the structure of the result differs from the input' % astu.short(only_dict[0]))
      return
  R.require(fc, 'path_aware_map no longer calls flatten_dict')
  ken = astu.kwarg(fc[0], 'keep_empty_nodes')
  R.check(astu.is_const(ken, True), key_of(P, 'keep_empty_nodes=True'), (P, fc[0]), evidence=(ken is None and not astu.has_star_kwargs(fc[0]) and len(fc[0].args) < 2) or isinstance(ken, ast.Constant), msg_fail=
          'path_aware_map must flatten with keep_empty_nodes=True, otherwise empty sub-dicts vanish from the result')
  comps = [n for n in astu.body_walk(P.node) if isinstance(n, ast.DictComp)]
  ok = False
  for dc in comps:
    if isinstance(dc.value, ast.IfExp) and any(astu.dotted(x) == 'empty_node' for x in ast.walk(dc.value.test)):
      t = dc.value.test
      is_not = isinstance(t, ast.Compare) and isinstance(t.ops[0], (ast.IsNot, ast.NotEq))
      mapped, passed = (dc.value.body, dc.value.orelse) if is_not else (dc.value.orelse, dc.value.body)
      ok = isinstance(mapped, ast.Call) and isinstance(passed, ast.Name) and astu.same(dc.key, dc.generators[0].target.elts[0])
  R.check(ok, key_of(P, 'sentinel leaves pass through unmapped, keys preserved'), P,
          'path_aware_map must map every non-sentinel leaf under its own key and pass the sentinel through unmapped')


def _loop_over_items(func):
  for n in astu.body_walk(func.node):
    if isinstance(n, ast.For) and isinstance(n.iter, ast.Call) and astu.call_tail(n.iter) == 'items':
      return n
  return None


@rule('C16.R2', 'K2', 9, 'every leaf is emitted / assigned exactly once with its full path')
def r2(R, repo):
  for rel, fl in [(TU, 'flatten_dict'), (TR, 'flatten_mapping'), (TR, 'flatten_to_sequence')]:
    mod = repo.mod(rel)
    inner = mod.func(fl + '._flatten')
    loop = _loop_over_items(inner)
    R.require(loop is not None and isinstance(loop.target, ast.Tuple) and len(loop.target.elts) == 2,
              '%s._flatten: loop `for key, value in xs.items()` not found' % fl)
    kname, vname = loop.target.elts[0].id, loop.target.elts[1].id
    pname = astu.params(inner.node)[1]
    c = cfg_of(inner)
    body = c.loop_body_nodes(loop)
    rec = [x for st in loop.body for x in astu.calls_in(st) if astu.call_name(x) == '_flatten']
    rec_nodes = [n for x in rec for n in c.nodes_for(x)]
    head = [n for n in c.nodes_of_stmt(loop)][0]
    # exactly one recursive call per iteration: every path head -T-> ... -> head passes exactly one
    once = len(rec) >= 1
    if once:
      first = [m for m, lab in c.succ[head] if lab == 'T']
      for s in first:
        if s not in rec_nodes and head in c.reach([s], avoid=rec_nodes):
          once = False
      for rn in rec_nodes:
        r = c.reach([rn], avoid=[head])
        if any(x in r for x in rec_nodes):
          once = False
      once = once and len(rec) == len(set(id(n) for n in rec_nodes))
    R.judge(len(rec) >= 1, once, key_of(inner, 'one recursive call per entry'), (inner, loop),
            '%s._flatten must recurse exactly once for every mapping entry' % fl)
    ok = False
    if rec:
      a = rec[0].args
      if len(a) == 2 and isinstance(a[0], ast.Name) and a[0].id == vname:
        path = a[1]
        if isinstance(path, ast.Name):
          v = types.single_def(inner.node, path.id)
          path = v if v is not None else path
        names = astu.names_loaded(path)
        ok = pname in names and kname in names
        # prefix first, key last
        if isinstance(path, ast.BinOp):
          ok = ok and pname in astu.names_loaded(path.left) and kname in astu.names_loaded(path.right)
        elif isinstance(path, ast.Tuple):
          ok = ok and isinstance(path.elts[0], ast.Starred) and pname in astu.names_loaded(path.elts[0]) and \
              kname in astu.names_loaded(path.elts[-1])
    found_path = bool(rec) and len(rec[0].args) == 2 and isinstance(rec[0].args[0], ast.Name) and rec[0].args[0].id == vname and {pname, kname} <= astu.names_loaded(path if rec and len(rec[0].args) == 2 else ast.Constant(value=0))
    R.judge(found_path, ok, key_of(inner, 'child path = prefix + (key,)'), (inner, loop),
            '%s._flatten must recurse into `value` with the path prefix extended by exactly this key (prefix first)' % fl)
    # result of recursion is merged into what is returned
    if fl != 'flatten_to_sequence':
      ok = False
      for x in rec:
        p = astu.parent(x)
        if isinstance(p, ast.Call) and astu.call_tail(p) == 'update' and isinstance(p.func.value, ast.Name):
          res = p.func.value.id
          rets = [n for n in astu.body_walk(inner.node) if isinstance(n, ast.Return) and isinstance(n.value, ast.Name)
                  and n.value.id == res]
          ok = bool(rets)
      # leaf: single entry {_key(prefix): xs}
      leaf_ok = False
      xs = astu.params(inner.node)[0]
      for n in astu.body_walk(inner.node):
        if isinstance(n, ast.Return) and isinstance(n.value, ast.Dict) and len(n.value.keys) == 1 and \
            isinstance(n.value.values[0], ast.Name) and n.value.values[0].id == xs:
          k = n.value.keys[0]
          leaf_ok = isinstance(k, ast.Call) and len(k.args) == 1 and astu.src(k.args[0]) == pname
      R.check(ok and leaf_ok, key_of(inner, 'leaf entry under full prefix; recursion merged into result'), inner,
              '%s._flatten must return {key(prefix): leaf} for a leaf and merge every recursive result into the returned dict' % fl)
    else:
      xs = astu.params(inner.node)[0]
      apps = [x for x in astu.func_calls(inner) if astu.call_tail(x) == 'append']
      ok = len(apps) == 1 and isinstance(apps[0].args[0], ast.Tuple) and [astu.src(e) for e in apps[0].args[0].elts] == [pname, xs]
      R.check(ok, key_of(inner, 'leaf appended once as (prefix, leaf)'), inner,
              'flatten_to_sequence._flatten must append exactly (prefix, leaf) for a leaf')
  for rel, unfl in [(TU, 'unflatten_dict'), (TR, 'unflatten_mapping')]:
    mod = repo.mod(rel)
    U = mod.func(unfl)
    c = cfg_of(U)
    outer = [n for n in astu.body_walk(U.node) if isinstance(n, ast.For) and isinstance(n.target, ast.Tuple)]
    R.require(outer, '%s: outer loop over (path, value) not found' % unfl)
    outer = outer[0]
    pname, vname = outer.target.elts[0].id, outer.target.elts[1].id
    inner_loops = [n for st in outer.body for n in ast.walk(st) if isinstance(n, ast.For)]
    R.require(len(inner_loops) == 1, '%s: inner loop over path[:-1] not found' % unfl)
    il = inner_loops[0]
    ok_iter = astu.src(il.iter) == '%s[:-1]' % pname
    # final store cursor[path[-1]] = value, exactly once per outer iteration, after the inner loop
    stores = [st for st in outer.body if isinstance(st, ast.Assign) and isinstance(st.targets[0], ast.Subscript)]
    ok_store = len(stores) == 1 and astu.src(stores[0].targets[0].slice) == '%s[-1]' % pname and astu.src(stores[0].value) == vname \
        and outer.body.index(stores[0]) > outer.body.index(il)
    cur = astu.src(stores[0].targets[0].value) if stores else None
    R.judge(len(stores) == 1 and ok_iter and pname in astu.names_loaded(stores[0].targets[0].slice), ok_iter and ok_store, key_of(U, 'cursor[path[-1]] = value once per item'), (U, outer),
            '%s must walk path[:-1] and then assign cursor[path[-1]] = value exactly once per item' % unfl)
    # cursor is reset to the result root for every item before walking
    resets = [st for st in outer.body if isinstance(st, ast.Assign) and astu.src(st.targets[0]) == cur
              and isinstance(st.value, ast.Name)]
    rets = [n for n in astu.body_walk(U.node) if isinstance(n, ast.Return)]
    ok = bool(resets) and outer.body.index(resets[0]) < outer.body.index(il) and rets and \
        astu.src(rets[-1].value) == astu.src(resets[0].value)
    R.judge(bool(resets) and bool(rets), ok, key_of(U, 'cursor restarts at result root; result returned'), (U, outer),
            '%s must restart the cursor at the result dict for every item and return that dict' % unfl)
    # intermediate dict creation is guarded by `key not in cursor`, then descend
    kname = il.target.id if isinstance(il.target, ast.Name) else None
    creates = [n for n in ast.walk(il) if isinstance(n, ast.Assign) and isinstance(n.targets[0], ast.Subscript)
               and isinstance(n.value, ast.Dict)]
    ok = False
    if creates and kname:
      cn = c.nodes_of_stmt(creates[0])
      tests = [n for n in c.nodes if n.kind == 'if' and astu.src(n.ast) in ('%s not in %s' % (kname, cur), '%s in %s' % (kname, cur))]
      if tests and cn:
        lab = 'T' if 'not in' in astu.src(tests[0].ast) else 'F'
        ok = all(c.edge_guarded(x, tests[0], lab) for x in cn)
      desc = [st for st in il.body if isinstance(st, ast.Assign) and astu.src(st.targets[0]) == cur
              and astu.src(st.value) == '%s[%s]' % (cur, kname)]
      ok = ok and len(desc) == 1 and il.body[-1] is desc[0]
    sd = [x for x in ast.walk(il) if isinstance(x, ast.Call) and astu.call_tail(x) == 'setdefault']
    absent = lambda e: isinstance(e, ast.Compare) and len(e.ops) == 1 and isinstance(e.ops[0], ast.NotIn) and astu.src(e.left) == kname
    present = lambda e: isinstance(e, ast.Compare) and len(e.ops) == 1 and isinstance(e.ops[0], ast.In) and astu.src(e.left) == kname
    unguarded = bool(creates) and kname and not sd and all(evid.guarded(c, x, absent) != 'yes' and evid.guarded(c, x, present, negative=True) != 'yes' for x in c.nodes_of_stmt(creates[0]))
    R.judge(ok or bool(unguarded), ok, key_of(U, 'create intermediate dict only if absent, then descend'), (U, il),
            '%s must create an intermediate dict only when the key is absent (never overwrite a sibling subtree) and then descend' % unfl)


def _k9_scan(R, repo, rels):
  checked = 0
  for rel in rels:
    mod = repo.mod(rel)
    for f in list(mod.funcs.values()):
      for n in astu.body_walk(f.node):
        if not (isinstance(n, ast.Attribute) and isinstance(n.ctx, ast.Load)):
          continue
        if not isinstance(n.value, (ast.Name, ast.Call)):
          continue
        t = types.infer(repo, f, n.value)
        if t and t[0] == 'builtin' and t[1] in types.BUILTIN_MEMBERS and isinstance(astu.parent(n), ast.Call) and astu.parent(n).func is n:
          checked += 1
          key = key_of(f, '%s.%s' % (astu.short(n.value, 40), n.attr), 'on', t[1])
          R.check(n.attr in types.BUILTIN_MEMBERS[t[1]] or n.attr.startswith('__'), key, (f, n), evidence=True, msg_fail=
                  'method `%s` does not exist on builtin %s; receiver `%s`' % (n.attr, t[1], astu.short(n.value, 40)))
          continue
        if not t or t[0] != 'cls':
          continue
        ci = types.class_info(repo, t[1], t[2])
        if not ci.known:
          continue
        checked += 1
        key = key_of(f, '%s.%s' % (astu.short(n.value, 40), n.attr), 'on', t[2])
        if n.attr in ci.members:
          R.ok(key, (f, n))
        else:
          R.fail(key, (f, n), 'attribute `%s` does not exist on %s (%s); receiver `%s` is typed by its definition `%s`' % (
              n.attr, t[2], t[1].rel, astu.short(n.value, 40), astu.short(
                  types.single_def(f.node, n.value.id) if isinstance(n.value, ast.Name) else n.value, 60)))
  return checked


@rule('C16.R3', 'K9', 12, 'members used on State/FlatState-typed receivers exist on the class')
def r3(R, repo):
  rels = [SL, TR, TU]
  if R.ctx.tier == 'thorough':
    rels += ['flax/nnx/graph.py', 'flax/nnx/extract.py', 'flax/nnx/variablelib.py', 'flax/nnx/filterlib.py']
  n = _k9_scan(R, repo, rels)
  R.note('receivers typed by return annotation / constructor / parameter annotation: %d attribute uses checked' % n)


def _container_kind(repo, f, expr):
  """'paths' (dict/set of paths), 'pairs' (FlatState / list of pairs), 'nested' (State), or None."""
  if isinstance(expr, ast.Attribute) and expr.attr in ('paths', '_keys'):
    return 'paths'
  t = types.infer(repo, f, expr)
  if t is None:
    return None
  if t[0] == 'builtin':
    return 'paths' if t[1] in ('dict', 'set', 'frozenset') else 'pairs'
  if t[0] == 'cls':
    return {'FlatState': 'pairs', 'State': 'nested'}.get(t[2])
  return None


@rule('C16.R4', 'K1/K2', 7, 'State set laws: merge order, diff by path membership, split/filter share the partition')
def r4(R, repo):
  mod = repo.mod(SL)
  M = mod.func('merge_state')
  loops = [n for n in astu.body_walk(M.node) if isinstance(n, ast.For)]
  sd = [x for lp_ in loops for x in ast.walk(lp_) if isinstance(x, ast.Call) and astu.call_tail(x) == 'setdefault' and isinstance(x.func.value, ast.Name)]
  if sd and any(isinstance(lp_.iter, ast.Name) for lp_ in loops):
    R.fail(key_of(M, 'later states win'), (M, sd[0]), '`%s` keeps the value that is already there: the *first* state that has a path wins, so `a | b`, State.merge and nnx.update(node, state, overrides) no longer let the later state override the earlier one' % astu.short(sd[0]))
    loops = [lp_ for lp_ in loops if not any(x is sd[0] for x in ast.walk(lp_))][:1] or loops[:1]
  if len(loops) != 1:
    R.unsure(key_of(M, 'later states win'), M, 'merge_state no longer folds the states one by one with dict.update in argument order (later states must win on overlapping paths)')
    loops = None
  lp = loops[0] if loops else None
  if lp is None:
    lp = ast.parse('for _ in (): pass').body[0]
  seq = types.single_def(M.node, lp.iter.id, allow_param=True) if isinstance(lp.iter, ast.Name) else None
  order_ok = isinstance(lp.iter, ast.Name) and isinstance(seq, ast.Tuple) and len(seq.elts) == 2 and \
      isinstance(seq.elts[0], ast.Name) and seq.elts[0].id == astu.params(M.node)[0] and isinstance(seq.elts[1], ast.Starred)
  upd = [c for st in lp.body for c in astu.calls_in(st) if astu.call_tail(c) == 'update']
  ok = order_ok and len(upd) == 1 and isinstance(upd[0].func.value, ast.Name)
  if ok:
    acc = upd[0].func.value.id
    arg = upd[0].args[0]
    ok = isinstance(arg, ast.Call) and astu.call_name(arg) in ('traversals.flatten_mapping', 'flatten_mapping') and \
        astu.src(arg.args[0]) == astu.src(lp.target)
    init = types.single_def(M.node, acc)
    ok = ok and isinstance(init, ast.Dict) and not init.keys
    rets = [n for n in astu.body_walk(M.node) if isinstance(n, ast.Return)]
    ok = ok and isinstance(rets[-1].value, ast.Call) and astu.call_name(rets[-1].value) == 'from_flat_state' and \
        astu.src(rets[-1].value.args[0]) == acc
  seq_found = isinstance(lp.iter, ast.Name) and isinstance(seq, ast.Tuple) and len(seq.elts) == 2 and len(upd) == 1 and sum(isinstance(e_, ast.Starred) for e_ in seq.elts) == 1
  chain = [x for x in astu.func_calls(M) if astu.call_tail(x) == 'ChainMap' and not any(isinstance(y, ast.Call) and astu.call_name(y) == 'reversed' for y in ast.walk(x)) and '[::-1]' not in astu.src(x)]
  if chain and not any(isinstance(y, ast.Call) and astu.call_name(y) == 'reversed' or '[::-1]' in astu.src(y) for d_ in ast.walk(M.node) if isinstance(d_, ast.Assign) for y in [d_.value]):
    R.fail(key_of(M, 'later states win'), (M, chain[0]), 'merge_state combines the flattened states with `%s`: a ChainMap resolves a key in the *first* mapping that has it, so earlier states win on overlapping paths' % astu.short(chain[0]))
  R.judge(seq_found and (ok or not order_ok), ok, key_of(M, 'later states win'), (M, lp),
          'merge_state must fold the states in argument order with dict.update of their flattened mappings into one fresh '
          'dict and build the result from it (later states win on overlapping paths)')
  # diff
  D = mod.func('diff')
  comps = [n for n in astu.body_walk(D.node) if isinstance(n, ast.DictComp)]
  R.require(len(comps) == 1, 'diff: one dict comprehension expected')
  dc = comps[0]
  gen = dc.generators[0]
  R.require(isinstance(gen.target, ast.Tuple) and len(gen.target.elts) == 2, 'diff: comprehension over (path, value) pairs expected')
  k, v = gen.target.elts[0].id, gen.target.elts[1].id
  conds = [t for t in gen.ifs if isinstance(t, ast.Compare) and isinstance(t.ops[0], ast.NotIn) and astu.src(t.left) == k]
  R.require(len(conds) == 1 and len(gen.ifs) == 1, 'diff: single condition `path not in <other paths>` expected')
  rhs = conds[0].comparators[0]
  kind = _container_kind(repo, D, rhs)
  src_def = types.single_def(D.node, rhs.id) if isinstance(rhs, ast.Name) else rhs
  derives_other = src_def is not None and astu.params(D.node)[1] in astu.names_loaded(src_def)
  if kind in ('pairs', 'nested'):
    R.fail(key_of(D, 'membership over paths'), (D, conds[0]),
           '`%s` tests membership in `%s`, which is %s, not a collection of paths: a - b would not remove the paths of b' % (
               astu.src(conds[0]), astu.src(rhs), 'a sequence of (path, value) pairs' if kind == 'pairs' else 'a nested State (top-level keys only)'))
  else:
    R.judge(src_def is not None and (derives_other or astu.params(D.node)[0] in astu.names_loaded(src_def)), derives_other, key_of(D, 'membership over paths'), (D, conds[0]),
            'the right-hand side of `not in` must be the flattened paths of the second operand')
    if kind is None:
      R.note('diff: container type of `%s` not inferred; accepted' % astu.src(rhs))
  # iteration source yields (path, value) of the first operand
  it = gen.iter
  ok = True
  msg = ''
  if isinstance(it, ast.Call) and astu.call_tail(it) == 'items':
    ck = _container_kind(repo, D, it.func.value)
    d0 = types.single_def(D.node, it.func.value.id) if isinstance(it.func.value, ast.Name) else it.func.value
    ok = ck == 'paths' and d0 is not None and astu.params(D.node)[0] in astu.names_loaded(d0)
    msg = '`%s` is called on %s' % (astu.src(it), {None: 'a value of unknown type', 'pairs': 'a FlatState (a Sequence: it has no .items())', 'nested': 'a nested State (top-level items, not paths)'}.get(ck, ck))
  else:
    ck = _container_kind(repo, D, it)
    d0 = types.single_def(D.node, it.id) if isinstance(it, ast.Name) else it
    ok = ck == 'pairs' and d0 is not None and astu.params(D.node)[0] in astu.names_loaded(d0)
    msg = 'iteration source `%s` is not the flat (path, value) sequence of the first operand' % astu.src(it)
  ok = ok and astu.src(dc.key) == k and astu.src(dc.value) == v
  R.judge(ck is not None and d0 is not None, ok, key_of(D, 'iterates the flat (path, value) pairs of the first operand'), (D, dc),
          'diff must keep (path, value) pairs of its first operand: ' + msg)
  rets = [n for n in astu.body_walk(D.node) if isinstance(n, ast.Return)]
  R.check(isinstance(rets[-1].value, ast.Call) and astu.call_name(rets[-1].value) == 'from_flat_state', key_of(D, 'result rebuilt from flat diff'),
          D, 'diff must rebuild a nested State from the filtered flat mapping')
  # split_state / filter_state share _split_state over to_flat_state(state)
  S, Fi = mod.func('split_state'), mod.func('filter_state')
  for f in (S, Fi):
    calls = [c for c in astu.func_calls(f) if astu.call_name(c) == '_split_state']
    ok = len(calls) == 1 and isinstance(calls[0].args[0], ast.Call) and astu.call_name(calls[0].args[0]) == 'to_flat_state' and \
        astu.src(calls[0].args[0].args[0]) == astu.params(f.node)[0]
    R.judge(len(calls) == 1 and bool(calls[0].args), ok, key_of(f, 'partition by _split_state(to_flat_state(state), *filters)'), f,
            '%s must partition the sorted flat state of its argument with _split_state' % f.name)
  c = cfg_of(S)
  raises = [n for n in c.nodes if isinstance(n.stmt, ast.Raise)]
  tests = [n for n in c.nodes if n.kind == 'if' and astu.src(n.ast) == 'rest']
  R.judge((bool(raises) and bool(tests)) or (not raises and not evid.raises_deep(repo, S, 'ValueError')), bool(raises) and bool(tests) and all(c.edge_guarded(r, tests[0], 'T') for r in raises), key_of(S, 'non-empty remainder raises'), S,
          'split_state must raise when the filters are not exhaustive (non-empty remainder)')
  # operators delegate with operand order preserved
  for meth, callee in (('State.__or__', 'merge_state'), ('State.__sub__', 'diff')):
    f = mod.func(meth)
    calls = [c for c in astu.func_calls(f) if astu.call_name(c) == callee]
    ps = astu.params(f.node)
    ok = len(calls) == 1 and [astu.src(a) for a in calls[0].args] == ps[:2]
    R.judge(len(calls) == 1 and sorted(astu.src(a) for a in calls[0].args) == sorted(ps[:2]), ok, key_of(f, 'delegates to %s(self, other)' % callee), f,
            '%s must return %s(self, other) with the operands in that order' % (meth, callee))


@rule('C16.R5', 'K3', 9, 'flat states are sorted wherever sortedness is assumed')
def r5(R, repo):
  mod = repo.mod(SL)
  init = mod.func('FlatState.__init__')
  c = cfg_of(init)
  srt = [n for n in c.nodes if isinstance(n.stmt, ast.Assign) and isinstance(n.stmt.value, ast.Call)
         and astu.call_name(n.stmt.value) == 'sorted']
  tests = [n for n in c.nodes if n.kind == 'if' and astu.src(n.ast) == 'sort']
  loops = [n for n in c.nodes if n.kind == 'for']
  ok = bool(srt) and bool(tests) and c.edge_guarded(srt[0], tests[0], 'T') and bool(loops) and \
      astu.src(srt[0].stmt.targets[0]) == astu.src(loops[0].ast) and not c.must_pass(c.entry, loops[0], []) is True
  ok = ok and loops[0] in c.reach([srt[0]])
  R.judge(bool(srt) and bool(tests) and bool(loops), ok, key_of(init, 'sort=True sorts before storing'), init,
          'FlatState.__init__ must sort the items (before splitting them into keys/values) when sort is true')
  # all FlatState(...) constructions: sort=True unless in the table of order-preserving sites
  UNSORTED_OK = {
      'flax.nnx.statelib:_split_state': 'filters a sorted flat state preserving order',
      'flax.nnx.statelib:FlatState.__getitem__': 'slice of a sorted flat state',
  }
  n_ctor = 0
  for m in repo.mods_with('FlatState'):
    for f in m.funcs.values():
      for call in astu.func_calls(f):
        d = astu.call_name(call)
        if d and d.split('.')[-1] == 'FlatState':
          r = repo.resolve_dotted(m, d, f)
          if not (isinstance(r, tuple) and r[2] == 'FlatState'):
            continue
          n_ctor += 1
          s = astu.kwarg(call, 'sort')
          key = key_of(f, 'FlatState(... sort=%s)' % astu.src(s))
          if astu.is_const(s, True):
            R.ok(key, (f, call))
          elif f.fq in UNSORTED_OK and astu.is_const(s, False):
            R.ok(key, (f, call), UNSORTED_OK[f.fq])
          else:
            R.fail(key, (f, call), 'FlatState constructed without sorting outside the order-preserving sites %s; '
                   'split/merge/update rely on sorted paths' % sorted(UNSORTED_OK))
  SORTED_CALLERS = {'flax.nnx.graph:flatten', 'flax.nnx.graph:SplitContext.flatten'}
  for m in repo.mods_with('from_sorted_keys_values'):
    for f in m.funcs.values():
      for call in astu.func_calls(f):
        if astu.call_tail(call) == 'from_sorted_keys_values':
          key = key_of(f, 'from_sorted_keys_values')
          # a new caller is not wrong by itself (its keys may well be sorted, e.g. taken from a sorted FlatState): it is something this
          # rule cannot decide, so it is reported as inconclusive rather than as a violation
          R.check(f.fq in SORTED_CALLERS, key, (f, call), msg_fail=
                  'from_sorted_keys_values skips sorting; besides %s (graph traversal in sorted key order) it is now also called here, and whether these keys are sorted is not decided' % sorted(SORTED_CALLERS))
  # _split_state input is order preserving: iterates the flat state once, in order
  sp = mod.func('_split_state')
  loops = [n for n in astu.body_walk(sp.node) if isinstance(n, ast.For) and astu.src(n.iter) == astu.params(sp.node)[0]]
  R.check(len(loops) == 1, key_of(sp, 'single in-order pass'), sp, '_split_state must make a single in-order pass over the flat state')
  # pytree flatten of State: sorted items, static keys from the same sorted list, unflatten zips in that order
  fl, un = mod.func('_state_flatten_with_keys'), mod.func('_state_unflatten')
  items = types.single_def(fl.node, 'items')
  ok = isinstance(items, ast.Call) and astu.call_name(items) == 'sorted'
  ret = [n for n in astu.body_walk(fl.node) if isinstance(n, ast.Return)][-1].value
  ok = ok and isinstance(ret, ast.Tuple) and len(ret.elts) == 2
  if ok:
    ch, static = ret.elts
    ch = types.single_def(fl.node, ch.id) if isinstance(ch, ast.Name) else ch
    ok = all('items' in astu.names_loaded(x) for x in (ch, static))
  R.check(ok, key_of(fl, 'children and static keys from the same sorted items'), fl,
          '_state_flatten_with_keys must derive both children and static keys from one sorted item list')
  zips = [c for c in astu.func_calls(un) if astu.call_name(c) == 'zip']
  ps = astu.params(un.node)
  R.judge(len(zips) == 1 and sorted(astu.src(a) for a in zips[0].args) == sorted(ps[1:3]), len(zips) == 1 and [astu.src(a) for a in zips[0].args] == ps[1:3], key_of(un, 'zip(static, leaves)'), un,
          '_state_unflatten must pair static keys with leaves positionally in flatten order')
  tf = mod.func('to_flat_state')
  fts = [c for c in astu.func_calls(tf) if astu.call_name(c) == 'traversals.flatten_to_sequence']
  R.check(len(fts) == 1, key_of(tf, 'flat state of the whole mapping'), tf, 'to_flat_state must flatten the whole mapping with flatten_to_sequence')


@rule('C16.R6', 'K4', 4, 'pure-dict and flat-state conversions are lossless; unknown paths are rejected')
def r6(R, repo):
  mod = repo.mod(SL)
  tp_, rp = mod.func('to_pure_dict'), mod.func('replace_by_pure_dict')
  for f in (tp_, rp):
    a = [c for c in astu.func_calls(f) if astu.call_name(c) == 'to_flat_state' and astu.src(c.args[0]) == astu.params(f.node)[0]]
    b = [c for c in astu.func_calls(f) if astu.call_name(c) == 'traversals.unflatten_mapping']
    R.check(len(a) == 1 and len(b) == 1, key_of(f, 'to_flat_state -> unflatten_mapping'), f,
            '%s must go through to_flat_state(state) and traversals.unflatten_mapping' % f.name)
  # to_pure_dict: every (k, x) pair kept under k
  dcs = [n for n in astu.body_walk(tp_.node) if isinstance(n, ast.DictComp)]
  ok = len(dcs) == 1 and not dcs[0].generators[0].ifs and astu.same(dcs[0].key, dcs[0].generators[0].target.elts[0]) and \
      isinstance(dcs[0].value, ast.Call) and astu.src(dcs[0].value.args[0]) == astu.src(dcs[0].generators[0].target.elts[1])
  R.check(ok, key_of(tp_, 'every path kept'), tp_, 'to_pure_dict must keep every path and map only the value')
  c = cfg_of(rp)
  raises = [n for n in c.nodes if isinstance(n.stmt, ast.Raise)]
  stores = [n for n in c.nodes if isinstance(n.stmt, ast.Assign) and isinstance(n.stmt.targets[0], ast.Subscript)
            and astu.src(n.stmt.targets[0].value) == 'current_flat']
  tests = [n for n in c.nodes if n.kind == 'if' and isinstance(n.ast, ast.Compare) and isinstance(n.ast.ops[0], ast.NotIn)
           and astu.src(n.ast.comparators[0]) == 'current_flat']
  ok = bool(raises) and bool(stores) and bool(tests) and c.edge_guarded(raises[0], tests[0], 'T') and \
      all(c.dominated(s, [tests[0]]) for s in stores) and \
      astu.src(tests[0].ast.left) == astu.src(stores[0].stmt.targets[0].slice)
  R.judge((bool(raises) and bool(stores) and bool(tests)) or (bool(stores) and not raises and not evid.raises_deep(repo, rp, 'ValueError')), ok, key_of(rp, 'unknown path raises before store'), rp,
          'replace_by_pure_dict must raise for a path that is not in the state before storing anything under it')
  ups = [c_ for c_ in astu.func_calls(rp) if astu.call_tail(c_) == 'update' and astu.src(c_.func.value) == astu.params(rp.node)[0]]
  key = key_of(rp, 'state updated from merged flat mapping')
  if len(ups) != 1 or not ups[0].args:
    R.unsure(key, rp, 'state.update(...) not found in replace_by_pure_dict')
  else:
    # the mapping written back must be the *whole* flattened state with the replaced entries merged in: State.update
    # replaces top-level entries, so a mapping holding only the replaced paths drops their siblings
    st_par = astu.params(rp.node)[0]
    maps = [n_ for n_ in astu.names_loaded(ups[0].args[0]) if any(isinstance(t_, ast.Subscript) and astu.src(t_.value) == n_ for a_ in astu.body_walk(rp.node) if isinstance(a_, ast.Assign) for t_ in a_.targets)]
    full = [n_ for n_ in maps if any(isinstance(d_[0], ast.AST) and any(isinstance(c_, ast.Call) and astu.call_name(c_) == 'to_flat_state' and c_.args and astu.src(c_.args[0]) == st_par for c_ in ast.walk(d_[0])) for d_ in flow.defs(rp, n_))]
    empty = [n_ for n_ in maps if flow.defs(rp, n_) and all(isinstance(d_[0], ast.Dict) and not d_[0].keys or (isinstance(d_[0], ast.Call) and astu.call_name(d_[0]) == 'dict' and not d_[0].args and not d_[0].keywords) for d_ in flow.defs(rp, n_))]
    if full:
      R.ok(key, (rp, ups[0]))
    elif empty:
      R.fail(key, (rp, ups[0]), '`%s` writes back a mapping that starts empty and holds only the replaced paths: State.update replaces whole top-level entries, so every leaf of the state that the pure dict does not mention is dropped' % astu.short(ups[0]))
    else:
      R.unsure(key, (rp, ups[0]), 'cannot tell what `%s` writes back' % astu.short(ups[0]))
  ff = mod.func('from_flat_state')
  calls = [c_ for c_ in astu.func_calls(ff) if astu.call_name(c_) == 'traversals.unflatten_mapping']
  R.check(len(calls) == 1, key_of(ff, 'unflatten_mapping'), ff, 'from_flat_state must rebuild the nested mapping with unflatten_mapping')


meta('C16',
     explanation='Static rules over flax/traverse_util.py, flax/nnx/traversals.py and flax/nnx/statelib.py: separator/sentinel '
     'agreement between each flatten/unflatten pair (K4), exactly-one-emission per leaf and guarded intermediate-dict creation '
     '(K2 on the statement CFG), existence of every member used on State/FlatState-typed receivers (K9, local type inference from '
     'return annotations), structure of merge_state/diff/split/filter (K1), sortedness obligations of FlatState constructions (K3), '
     'and lossless pure-dict conversions. Decides these structural clauses for every input; does not decide value equality.',
     not_decided=['equality of values after round trip for user-defined key types (sorted needs comparable keys)',
                  'the precondition that the separator does not occur in keys'],
     mutants=[
         Mutant('C16-m1', TU, "      if key not in cursor:\n        cursor[key] = {}\n      cursor = cursor[key]\n    cursor[path[-1]] = value\n  return result\n\n\ndef path_aware_map",
                "      cursor[key] = {}\n      cursor = cursor[key]\n    cursor[path[-1]] = value\n  return result\n\n\ndef path_aware_map", 'C16.R2'),
         Mutant('C16-m2', TR, "    if value is empty_node:\n      value = {}", "    if value is traverse_util.empty_node:\n      value = {}", 'C16.R1',
                why='wrong module sentinel (would need an import; still parses)'),
         Mutant('C16-m3', TU, "flat = flatten_dict(nested_dict, keep_empty_nodes=True)", "flat = flatten_dict(nested_dict)", 'C16.R1'),
         Mutant('C16-m4', SL, "  states = (state, *states)\n\n  new_state", "  states = (*states, state)\n\n  new_state", 'C16.R4'),
         Mutant('C16-m5', SL, "return FlatState(traversals.flatten_to_sequence(state._mapping), sort=True)",
                "return FlatState(traversals.flatten_to_sequence(state._mapping), sort=False)", 'C16.R5'),
         Mutant('C16-m6', TR, "      path = prefix + (key,)\n      result.update(_flatten(value, path))", "      path = (key,) + prefix\n      result.update(_flatten(value, path))", 'C16.R2'),
         Mutant('C16-m7', SL, "    if kp not in current_flat:\n      raise ValueError(f'key in pure_dict not available in state: {kp}')\n", "", 'C16.R6'),
         Mutant('C16-m8', TU, "    if sep is None:\n      return path\n    return sep.join(path)", "    return path", 'C16.R1'),
         Mutant('C16-m9', SL, "    return diff(self, other)", "    return diff(other, self)", 'C16.R4'),
         Mutant('C16-b1', TU, "    cursor = result\n    for key in path[:-1]:\n      if key not in cursor:\n        cursor[key] = {}\n      cursor = cursor[key]\n    cursor[path[-1]] = value\n  return result\n\n\ndef path_aware_map",
                "    cursor = result\n    for key in path[:-1]:\n      if key in cursor:\n        pass\n      else:\n        cursor[key] = {}\n      cursor = cursor[key]\n    cursor[path[-1]] = value\n  return result\n\n\ndef path_aware_map",
                kind='benign'),
     ])
