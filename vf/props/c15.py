"""C15 — FrozenDict and struct dataclasses are immutable values and faithful pytrees."""
from __future__ import annotations

import ast

from .. import evid, astu, types
from ..cfg import cfg_of
from ..model import AnalysisError
from ..report import key_of
from . import Mutant, meta, rule

FD = 'flax/core/frozen_dict.py'
ST = 'flax/struct.py'
MUTATORS = {'update', 'pop', 'popitem', 'clear', 'setdefault', '__setitem__', '__delitem__', 'append', 'extend', 'insert', 'remove', 'sort', 'add', 'discard'}
QUERIES = {'iter', 'len', 'sorted', 'list', 'tuple', 'set', 'frozenset', 'bool', 'repr', 'str', 'hash'}
COPIERS = {'dict'}


_MOD = {}


def _is_identity_lambda(n):
  if isinstance(n, ast.Lambda) and len(n.args.args) == 1 and isinstance(n.body, ast.Name) and n.body.id == n.args.args[0].arg:
    return True
  # `lambda y: y` turned into a module-level `def _identity(x): return x`
  mod = _MOD.get('fd')
  if isinstance(n, ast.Name) and mod is not None and n.id in mod._funcs:
    fn = mod._funcs[n.id].node
    body = astu.strip_docstring(fn.body)
    ps = astu.params(fn)
    return len(ps) == 1 and len(body) == 1 and isinstance(body[0], ast.Return) and isinstance(body[0].value, ast.Name) and body[0].value.id == ps[0]
  return False


def _copier_helper(fn_node, depth=0):
  """A same-module helper whose every return value is a freshly built copy of its first parameter (never the parameter itself)."""
  ps = astu.params(fn_node)
  if not ps or depth > 2:
    return False
  p = ps[0]
  rets = [n.value for n in astu.body_walk(fn_node) if isinstance(n, ast.Return)]
  if not rets:
    return False
  for v in rets:
    if isinstance(v, (ast.Dict, ast.DictComp)):
      continue
    if isinstance(v, ast.Call) and any(_is_copy_call(v, a) for a in v.args):
      continue
    return False
  for n in astu.body_walk(fn_node):
    if isinstance(n, (ast.Attribute, ast.Subscript)) and isinstance(n.ctx, ast.Store):
      return False
  return True


def _is_copy_call(call, arg):
  """`dict(arg)`, `jax.tree_util.tree_map(lambda y: y, arg)` or a same-module helper that does exactly that."""
  name = astu.call_name(call) or ''
  mod = _MOD.get('fd')
  if mod is not None and name in mod._funcs and call.args and call.args[0] is arg and _copier_helper(mod._funcs[name].node):
    return True
  if name in COPIERS and call.args and call.args[0] is arg:
    return True
  if (name.split('.')[-1] == 'tree_map' or name in ('jax.tree.map', 'tree.map')) and len(call.args) >= 2 and _is_identity_lambda(call.args[0]) and arg in call.args[1:]:
    return True
  return False


def _dict_reads(mod):
  """All loads of `<expr>._dict` in the module with their enclosing Func."""
  out = []
  for f in mod.funcs.values():
    for n in astu.body_walk(f.node):
      if isinstance(n, ast.Attribute) and n.attr == '_dict' and isinstance(n.ctx, ast.Load):
        out.append((f, n))
  return out


def _readonly_helper(fn):
  """A nested helper is read-only in its first parameter: never returned/stored/passed on raw."""
  p = astu.params(fn)[0]
  for n in astu.body_walk(fn):
    if isinstance(n, ast.Name) and n.id == p and isinstance(n.ctx, ast.Load):
      par = astu.parent(n)
      if isinstance(par, ast.Call) and (astu.call_name(par) in ('isinstance', 'repr', 'len', 'str') or
                                        (isinstance(par.func, ast.Attribute) and par.func.value is n and par.func.attr in ('items', 'keys', 'values'))):
        continue
      if isinstance(par, ast.Attribute) and par.value is n and par.attr in ('items', 'keys', 'values'):
        continue
      if isinstance(par, (ast.FormattedValue,)):
        continue
      return False
  return True


@rule('C15.R1', 'K3', 12, 'the private dict of a FrozenDict never escapes un-copied')
def r1(R, repo):
  mod = repo.mod(FD)
  _MOD['fd'] = mod
  reads = _dict_reads(mod)
  R.require(len(reads) >= 8, 'fewer ._dict reads than expected (%d)' % len(reads))
  for f, n in reads:
    par = astu.parent(n)
    key = key_of(f, astu.short(astu.enclosing_stmt(n), 80))
    where = (f, n)
    # queries
    if isinstance(par, ast.Compare) and n in par.comparators and isinstance(par.ops[par.comparators.index(n)], (ast.In, ast.NotIn)):
      R.ok(key, where, 'membership query')
      continue
    if isinstance(par, ast.Call) and n in par.args and astu.call_name(par) in QUERIES:
      R.ok(key, where, 'read-only query %s()' % astu.call_name(par))
      continue
    if isinstance(par, (ast.For, ast.comprehension)) and par.iter is n:
      R.ok(key, where, 'iteration over keys')
      continue
    if isinstance(par, ast.Call) and _is_copy_call(par, n):
      R.ok(key, where, 'copied')
      continue
    if isinstance(par, ast.Call) and n in par.args:
      callee = repo.resolve_dotted(mod, astu.call_name(par) or '', f)
      from ..model import Func
      if isinstance(callee, Func) and callee.mod is mod and callee.qual.startswith(f.qual + '.') and _readonly_helper(callee.node):
        R.ok(key, where, 'passed to read-only nested helper %s' % callee.name)
        continue
      if isinstance(callee, Func) and callee.mod is mod and _readonly_helper(callee.node):
        R.ok(key, where, 'passed to read-only helper %s' % callee.name)
        continue
      R.unsure(key, where, 'the private dict is passed to `%s`, which may keep or return it' % astu.short(par.func))
      continue
    if isinstance(par, ast.Return) and par.value is n:
      if f.qual == '_prepare_freeze':
        # FrozenDict -> FrozenDict sharing: only callers are FrozenDict.__init__ (stores into a new _dict) and itself
        callers = [(g, c) for g in mod.funcs.values() for c in astu.func_calls(g) if astu.call_name(c) == '_prepare_freeze']
        ok = all(g.qual in ('FrozenDict.__init__', '_prepare_freeze') for g, _ in callers)
        ext = [(m.rel, g.qual) for m in repo.mods_with('_prepare_freeze') if m is not mod for g in m.funcs.values()
               for c in astu.func_calls(g) if (astu.call_tail(c) == '_prepare_freeze')]
        R.check(ok and not ext, key, where, evidence=True, msg_fail='_prepare_freeze hands out a FrozenDict\'s private dict; it may only be called by FrozenDict.__init__ '
                'and itself, found callers %s' % ([g.qual for g, _ in callers] + ext))
        continue
      R.fail(key, where, 'the private dict is returned as is')
      continue
    if isinstance(par, ast.Subscript) and par.value is n and isinstance(par.ctx, ast.Load):
      # element read: the element may be a nested dict
      ok, msg = _element_read_ok(f, par)
      if ok:
        R.ok(key, where, msg)
      else:
        # identity of the construct: the function, how the element leaves it (statement kind) and the element expression -
        # not the full statement text, which changes under harmless edits (DictKey(k) vs DictKey(key=k))
        st_ = astu.enclosing_stmt(n)
        sink = {ast.Return: 'return', ast.Expr: 'expression statement', ast.Assign: 'assignment', ast.AugAssign: 'assignment'}.get(type(st_), type(st_).__name__.lower())
        ekey = key_of(f, 'element of the private dict escapes', '%s of %s' % (sink, astu.src(par)))
        if ok is None:
          R.unsure(ekey, where, msg)
        else:
          R.fail(ekey, where, msg)
      continue
    R.unsure(key, where, 'unclassified use of the private dict: `%s`' % astu.short(astu.enclosing_stmt(n)))
  # the skip-copy constructor flag may only be used by tree_unflatten
  for m in repo.mods_with('__unsafe_skip_copy__'):
    for f in m.funcs.values():
      for c in astu.func_calls(f):
        v = astu.kwarg(c, '__unsafe_skip_copy__')
        if v is not None and not astu.is_const(v, False):
          R.fail(key_of(f, 'constructs a FrozenDict without copying (__unsafe_skip_copy__)'), (f, c),
                 'FrozenDict built with __unsafe_skip_copy__=%s: the new FrozenDict shares the given dict (and its nested dicts) with the caller' % astu.src(v))


def _element_read_ok(f, sub):
  """`self._dict[k]` may flow to a return only wrapped in FrozenDict(...) when it is a dict."""
  st = astu.enclosing_stmt(sub)
  if isinstance(st, ast.Assign) and st.value is sub and len(st.targets) == 1 and isinstance(st.targets[0], ast.Name):
    v = st.targets[0].id
    c = cfg_of(f)
    tests = [n for n in c.nodes if n.kind == 'if' and astu.isinstance_test_pol(n.ast, v) and 'dict' in astu.isinstance_test_pol(n.ast, v)[1]]
    for n in astu.body_walk(f.node):
      if isinstance(n, ast.Name) and n.id == v and isinstance(n.ctx, ast.Load):
        par = astu.parent(n)
        if isinstance(par, ast.Call) and astu.call_name(par) == 'isinstance':
          continue
        if isinstance(par, ast.Call) and astu.call_name(par) in ('FrozenDict', 'freeze') and not any(
            k.arg == '__unsafe_skip_copy__' for k in par.keywords):
          continue
        if isinstance(par, ast.Return) and tests:
          nodes = c.nodes_of_stmt(par)
          if all(c.edge_guarded(x, tests[0], 'F' if astu.isinstance_test_pol(tests[0].ast, v)[2] else 'T') for x in nodes):
            continue
        return (False if isinstance(par, (ast.Return, ast.Yield, ast.Tuple)) else None), 'element `%s` of the private dict reaches `%s` without being wrapped/copied when it is a nested dict' % (
            v, astu.short(astu.enclosing_stmt(n)))
    return True, 'element returned only as FrozenDict(v) when it is a dict'
  esc = any(isinstance(a_, (ast.Return, ast.Yield)) for a_ in astu.ancestors(sub)) and not any(isinstance(a_, ast.Call) and astu.call_name(a_) in ('FrozenDict', 'freeze', 'isinstance', 'hash', 'repr', 'len') for a_ in astu.ancestors(sub))
  return (False if esc else None), ('`%s` hands elements of the private dict (possibly nested mutable dicts) to the caller un-wrapped' % astu.short(st, 100))


@rule('C15.R2', 'K3', 7, 'FrozenDict has no mutator and its fields are written only at construction')
def r2(R, repo):
  mod = repo.mod(FD)
  cls = mod.cls('FrozenDict')
  slots = [st for st in cls.body if isinstance(st, ast.Assign) and astu.src(st.targets[0]) == '__slots__']
  R.judge(len(slots) == 1, len(slots) == 1 and sorted(ast.literal_eval(slots[0].value)) == ['_dict', '_hash'], key_of('FrozenDict', '__slots__'), (mod, cls),
          "FrozenDict.__slots__ must be exactly ('_dict', '_hash'): no instance __dict__ to hang mutable state on")
  bases = [astu.dotted(b.value if isinstance(b, ast.Subscript) else b) for b in cls.bases]
  R.check(all(b and b.split('.')[-1] == 'Mapping' for b in bases), key_of('FrozenDict', 'bases'), (mod, cls),
          'FrozenDict must derive from Mapping only (not MutableMapping / dict), bases: %s' % bases)
  meths = mod.methods('FrozenDict')
  bad = sorted(set(meths) & {'__delitem__', 'update', 'setdefault', 'clear', 'popitem', '__ior__', '__setattr__'})
  R.check(not bad, key_of('FrozenDict', 'no mutating methods'), (mod, cls), 'FrozenDict defines mutating methods %s' % bad, evidence=True)
  si = meths.get('__setitem__')
  R.require(si is not None, 'FrozenDict.__setitem__ vanished')
  body = astu.strip_docstring(si.node.body)
  R.judge(True, any(isinstance(x, ast.Raise) for x in ast.walk(si.node)) and not any(isinstance(x, ast.Subscript) and isinstance(x.ctx, ast.Store) for x in ast.walk(si.node)), key_of(si, 'raises unconditionally'), si, 'FrozenDict.__setitem__ must raise and never store')
  # stores to _dict / _hash
  n_st = 0
  for m in (repo.mods_with('._dict', '._hash') if R.ctx.tier == 'thorough' else [mod]):
    for f in m.funcs.values():
      for n in astu.body_walk(f.node):
        tgt = None
        if isinstance(n, ast.Attribute) and isinstance(n.ctx, (ast.Store, ast.Del)) and n.attr in ('_dict', '_hash'):
          if m is not mod:
            t = types.infer(repo, f, n.value)
            if not (t and t[0] == 'cls' and t[2] == 'FrozenDict'):
              continue
          n_st += 1
          allowed = {'_dict': ('FrozenDict.__init__',), '_hash': ('FrozenDict.__init__', 'FrozenDict.__hash__')}[n.attr]
          private_helper = m is mod and f.qual.startswith('FrozenDict._') and not f.qual.startswith('FrozenDict.__')
          R.check(m is mod and f.qual in allowed, key_of(f, 'store to .%s' % n.attr), (f, n), evidence=not private_helper, msg_fail=
                  '`%s` is written outside %s' % (astu.src(n), allowed))
        # subscript stores / deletes / mutator calls on ._dict
        if isinstance(n, ast.Subscript) and isinstance(n.ctx, (ast.Store, ast.Del)) and isinstance(n.value, ast.Attribute) and n.value.attr == '_dict' and m is mod:
          R.fail(key_of(f, 'item store into the private dict'), (f, n), 'the private dict is mutated in place: `%s`' % astu.short(astu.enclosing_stmt(n)))
        if isinstance(n, ast.Call) and isinstance(n.func, ast.Attribute) and n.func.attr in MUTATORS and \
            isinstance(n.func.value, ast.Attribute) and n.func.value.attr == '_dict' and m is mod:
          R.fail(key_of(f, 'mutating call on the private dict'), (f, n), 'the private dict is mutated in place: `%s`' % astu.short(n))
        # alias `x = self._dict` followed by mutation
        if isinstance(n, ast.Assign) and isinstance(n.value, ast.Attribute) and n.value.attr == '_dict' and m is mod and \
            len(n.targets) == 1 and isinstance(n.targets[0], ast.Name):
          alias = n.targets[0].id
          for k in astu.body_walk(f.node):
            if isinstance(k, ast.Call) and isinstance(k.func, ast.Attribute) and k.func.attr in MUTATORS and astu.src(k.func.value) == alias:
              R.fail(key_of(f, 'mutating call on an alias of the private dict'), (f, k), '`%s` mutates the private dict through alias `%s`' % (astu.short(k), alias))
            if isinstance(k, ast.Subscript) and isinstance(k.ctx, (ast.Store, ast.Del)) and astu.src(k.value) == alias:
              R.fail(key_of(f, 'item store through an alias of the private dict'), (f, k), 'item store through alias `%s`' % alias)
  R.require(n_st >= 3, 'expected stores to _dict/_hash in __init__/__hash__')
  # order-independent hash
  h = meths.get('__hash__')
  R.require(h is not None, 'FrozenDict.__hash__ vanished')
  augs = [n for n in astu.body_walk(h.node) if isinstance(n, ast.AugAssign)]
  loops = [n for n in astu.body_walk(h.node) if isinstance(n, ast.For)]
  ok = len(augs) == 1 and isinstance(augs[0].op, (ast.BitXor, ast.Add)) and len(loops) == 1 and astu.src(loops[0].iter) == 'self.items()' and \
      isinstance(augs[0].value, ast.Call) and astu.call_name(augs[0].value) == 'hash'
  if ok:
    inner = augs[0].value.args[0]
    tn = astu.names_stored(loops[0].target)
    ok = tn <= astu.names_loaded(inner) and len(tn) in (1, 2)  # hash((key, value)) or hash(item): the whole pair is hashed
  order_dep = [n for n in astu.body_walk(h.node) if isinstance(n, ast.Assign) and isinstance(n.value, ast.Call) and astu.call_name(n.value) == 'hash' and
               any(isinstance(t_, ast.Name) and t_.id in astu.names_loaded(n.value) for t_ in n.targets) and any(n is x for lp_ in loops for x in ast.walk(lp_))]
  seq_hash = [x for x in astu.func_calls(h) if astu.call_name(x) == 'hash' and x.args and any(isinstance(e_, ast.Call) and astu.call_name(e_) in ('tuple', 'list') and e_.args and
              any(isinstance(y, ast.Call) and astu.call_tail(y) in ('items', 'keys', 'values') for y in ast.walk(e_)) and not any(isinstance(y, ast.Call) and astu.call_name(y) in ('sorted', 'frozenset', 'set') for y in ast.walk(e_))
              for e_ in evid.expand(h, x.args[0]) if isinstance(e_, ast.AST))]
  R.judge(ok or bool(order_dep) or bool(seq_hash) or (len(augs) == 1 and len(loops) == 1), ok and not seq_hash, key_of(h, 'commutative fold over hash((key, value))'), h,
          'FrozenDict.__hash__ must combine hash((key, value)) of every item with a commutative operator (insertion order must not matter)')


def check_unfreeze(R, repo):
  """unfreeze() builds fresh containers on every branch (shared by C15.R3 and C01.R1)."""
  mod = repo.mod(FD)
  _MOD['fd'] = mod
  un = mod.func('unfreeze')
  cu = cfg_of(un)
  p = astu.params(un.node)[0]
  fd_t = [n for n in cu.nodes if n.kind == 'if' and astu.isinstance_test(n.ast, p) and 'FrozenDict' in astu.isinstance_test(n.ast, p)[1]]
  d_t = [n for n in cu.nodes if n.kind == 'if' and astu.isinstance_test(n.ast, p) and 'dict' in astu.isinstance_test(n.ast, p)[1]]
  R.require(len(fd_t) == 1 and len(d_t) == 1, 'unfreeze: FrozenDict / dict dispatch not found')
  rets = [n for n in cu.nodes if isinstance(n.stmt, ast.Return)]
  ok = True
  msg = ''
  for r in rets:
    v = r.stmt.value
    if isinstance(v, ast.Name) and v.id == p:
      if not (cu.edge_guarded(r, fd_t[0], 'F') and cu.edge_guarded(r, d_t[0], 'F')):
        ok, msg = False, 'returns its argument unchanged although it may be a dict/FrozenDict'
    elif cu.edge_guarded(r, fd_t[0], 'T'):
      if not (isinstance(v, ast.Call) and any(_is_copy_call(v, a) for a in v.args)):
        ok, msg = False, 'FrozenDict branch does not copy the private dict: `%s`' % astu.short(v)
    elif cu.edge_guarded(r, d_t[0], 'T'):
      d = types.single_def(un.node, v.id) if isinstance(v, ast.Name) else v
      if not isinstance(d, (ast.Dict, ast.DictComp)):
        ok, msg = False, 'dict branch must build a fresh dict'
      rec = [x for x in astu.func_calls(un) if astu.call_name(x) == 'unfreeze']
      if not rec:
        ok, msg = False, 'dict branch must unfreeze nested values recursively'
      # the recursion must be unconditional: a value passed through as is (`unfreeze(v) if isinstance(v, FrozenDict) else v`)
      # leaves nested plain dicts shared with the argument
      cond = [y for y in ast.walk(un.node) if isinstance(y, ast.IfExp) and any(x is y.body or any(z is x for z in ast.walk(y.body)) for x in rec) and isinstance(y.orelse, ast.Name)]
      cond += [y for y in ast.walk(un.node) if isinstance(y, ast.IfExp) and any(any(z is x for z in ast.walk(y.orelse)) for x in rec) and isinstance(y.body, ast.Name)]
      if cond:
        ok, msg = False, '`%s` copies a nested value only under a condition and otherwise hands the very object through: nested plain dicts stay shared with the argument, so writing into the "unfrozen copy" (as Scope does for mutable collections) writes into the caller\'s variables' % astu.short(cond[0])
  R.check(ok, key_of(un, 'fresh containers on every branch'), un, 'unfreeze: ' + msg, evidence=True)


@rule('C15.R3', 'K7', 9, 'construction and every copying API build fresh containers')
def r3(R, repo):
  mod = repo.mod(FD)
  _MOD['fd'] = mod
  init = mod.func('FrozenDict.__init__')
  c = cfg_of(init)
  flag = '__unsafe_skip_copy__'
  R.check(astu.is_const(astu.param_default(init.node, flag), False), key_of(init, 'skip-copy flag defaults to False'), init, evidence=flag in astu.params(init.node), msg_fail=
          'the private skip-copy flag must default to False')
  xs = None
  for s_ in [n for n in c.nodes if isinstance(n.stmt, ast.Assign) and astu.src(n.stmt.targets[0]) == 'self._dict']:
    v_ = s_.stmt.value
    v_ = v_.args[0] if isinstance(v_, ast.Call) and astu.call_name(v_) == '_prepare_freeze' and v_.args else v_
    if isinstance(v_, ast.Name):
      xs = types.single_def(init.node, v_.id) or xs
  R.judge(xs is not None, isinstance(xs, ast.Call) and astu.call_name(xs) == 'dict', key_of(init, 'top level copied by dict(...)'), init,
          'FrozenDict.__init__ must copy the top-level mapping with dict(*args, **kwargs)')
  stores = [n for n in c.nodes if isinstance(n.stmt, ast.Assign) and astu.src(n.stmt.targets[0]) == 'self._dict']
  tests = [n for n in c.nodes if n.kind == 'if' and flag in astu.names_loaded(n.ast)]
  R.require(len(stores) >= 1 and len(tests) == 1, 'FrozenDict.__init__: stores to self._dict selected by the skip flag expected')
  t = tests[0]
  is_flag = lambda e: isinstance(e, ast.Name) and e.id == flag
  pf_nodes = [n for n in c.nodes if n.stmt is not None and n.kind == 'stmt' and any(isinstance(x, ast.Call) and astu.call_name(x) == '_prepare_freeze' for x in ast.walk(n.stmt))]
  flag_edges = evid.est_edges(c, is_flag)
  for s in stores:
    if not c.reachable(s):
      continue
    ok = c.must_pass(c.entry, s, pf_nodes, avoid_edges=flag_edges) or s not in c.reach([c.entry], avoid_edges=flag_edges)
    R.judge(bool(flag_edges), ok, key_of(init, 'raw store only under the skip flag'), (init, s.stmt),
            'without the private skip flag `%s` must store a dict that went through _prepare_freeze (nested dicts copied): %s' % (astu.short(s.stmt), c.witness(c.entry, s, avoid=pf_nodes, avoid_edges=flag_edges)))
  pf = mod.func('_prepare_freeze')
  comps = [n for n in astu.body_walk(pf.node) if isinstance(n, ast.DictComp)]
  ok = len(comps) == 1 and isinstance(comps[0].value, ast.Call) and astu.call_name(comps[0].value) == '_prepare_freeze' and \
      not comps[0].generators[0].ifs and astu.src(comps[0].generators[0].iter) == '%s.items()' % astu.params(pf.node)[0]
  cc = cfg_of(pf)
  rets = [n for n in cc.nodes if isinstance(n.stmt, ast.Return) and isinstance(n.stmt.value, ast.Name)]
  dt = [n for n in cc.nodes if n.kind == 'if' and 'dict' in astu.src(n.ast) and 'isinstance' in astu.src(n.ast) and 'FrozenDict' not in astu.src(n.ast)]
  def _truth(e, val):
    # truth of a guard when xs is a non-dict leaf / an empty dict / a non-empty dict
    p0 = astu.params(pf.node)[0]
    if isinstance(e, ast.BoolOp):
      vs = [_truth(v, val) for v in e.values]
      return all(vs) if isinstance(e.op, ast.And) else any(vs)
    if isinstance(e, ast.UnaryOp) and isinstance(e.op, ast.Not):
      return not _truth(e.operand, val)
    it = astu.isinstance_test(e, p0)
    if it:
      return (val != 'leaf') if 'dict' in it[1] else (val == 'leaf' and False)
    if isinstance(e, ast.Name) and e.id == p0:
      return val != 'empty'
    if isinstance(e, ast.Call) and astu.call_name(e) == 'len' and astu.src(e.args[0]) == p0:
      return val == 'nonempty'
    raise AnalysisError('_prepare_freeze guard `%s` is outside the analysable fragment' % astu.src(e))
  # `type(xs) is dict` instead of isinstance: dict *subclasses* (OrderedDict, defaultdict, user mappings derived from dict) are then
  # returned as they are and stay aliased to the caller's object
  exact_t = [n for n in cc.nodes if n.kind == 'if' and any(isinstance(y, ast.Compare) and isinstance(y.left, ast.Call) and astu.call_name(y.left) == 'type' and astu.src(y.comparators[0]) == 'dict' for y in ast.walk(n.ast))]
  if exact_t and not dt:
    R.fail(key_of(pf, 'rebuilds every nested dict; returns only non-dicts as is'), (pf, exact_t[0].stmt), '`%s` recognises only exact dicts: a nested OrderedDict / defaultdict / other dict subclass is stored by reference, so mutating the source later changes the FrozenDict' % astu.short(exact_t[0].ast))
    return
  ok = ok and len(rets) == 1 and len(dt) == 1
  if ok:
    lab = 'T' if cc.edge_guarded(rets[0], dt[0], 'T') else ('F' if cc.edge_guarded(rets[0], dt[0], 'F') else None)
    ok = lab is not None
    if ok:
      taken = {v: (_truth(dt[0].ast, v) if lab == 'T' else not _truth(dt[0].ast, v)) for v in ('empty', 'nonempty')}
      ok = not any(taken.values())   # a dict (empty or not) is never returned as is
  p0_ = astu.params(pf.node)[0]
  shallow = [n for n in cc.nodes if isinstance(n.stmt, ast.Return) and isinstance(n.stmt.value, ast.Call) and astu.call_name(n.stmt.value) in ('dict', 'copy.copy') and [astu.src(a) for a in n.stmt.value.args] == [p0_]]
  recognised = (len(comps) == 1 and len(rets) == 1 and len(dt) == 1) or bool(shallow)
  R.judge(recognised, ok and not shallow, key_of(pf, 'rebuilds every nested dict; returns only non-dicts as is'), pf,
          '_prepare_freeze must rebuild every nested dict recursively and may return its argument unchanged only when it is not a dict')
  check_unfreeze(R, repo)
  # module-level copy / pop: dict branch works on a deep copy
  for name in ('copy', 'pop'):
    g = mod.func(name)
    nd = types.single_def(g.node, 'new_dict')
    ok = isinstance(nd, ast.Call) and any(_is_copy_call(nd, a) for a in nd.args) and astu.src(nd.args[-1]) == astu.params(g.node)[0]
    cg = cfg_of(g)
    fdt = [n for n in cg.nodes if n.kind == 'if' and astu.isinstance_test(n.ast) and 'FrozenDict' in astu.isinstance_test(n.ast)[1]]
    muts = [x for x in astu.func_calls(g) if isinstance(x.func, ast.Attribute) and x.func.attr in MUTATORS and
            not (fdt and all(cg.edge_guarded(nn, fdt[0], 'T') for nn in cg.nodes_for(x)))]  # FrozenDict.pop/copy are functional
    ok = ok and all(astu.src(x.func.value) == 'new_dict' for x in muts)
    R.judge(nd is not None, ok, key_of(g, 'mutates only a deep copy'), g, 'module-level %s must copy the dict (tree_map identity) and mutate only the copy' % name)
  pm = mod.func('FrozenDict.pop')
  nd = types.single_def(pm.node, 'new_dict')
  muts = [x for x in astu.func_calls(pm) if isinstance(x.func, ast.Attribute) and x.func.attr in MUTATORS]
  ok = isinstance(nd, ast.Call) and (astu.call_name(nd) == 'dict' or (astu.call_tail(nd) == 'copy' and isinstance(nd.func, ast.Attribute) and not nd.args)) and all(astu.src(x.func.value) == 'new_dict' for x in muts)
  ctor = [x for x in astu.func_calls(pm) if astu.src(x.func) in ('type(self)', 'FrozenDict') and [astu.src(a) for a in x.args] == ['new_dict'] and not x.keywords]
  R.judge(nd is not None and bool(muts), ok and len(ctor) == 1, key_of(pm, 'pops from a copy and re-freezes'), pm, 'FrozenDict.pop must remove the key from a copy and build a new FrozenDict (with copying) from it')
  cp = mod.func('FrozenDict.copy')
  rets = [n for n in astu.body_walk(cp.node) if isinstance(n, ast.Return)]
  ok = len(rets) == 1 and isinstance(rets[0].value, ast.Call) and astu.src(rets[0].value.func) in ('type(self)', 'FrozenDict') and not rets[0].value.keywords \
      and (isinstance(rets[0].value.args[0], (ast.Dict, ast.DictComp)) or (isinstance(rets[0].value.args[0], ast.Call) and astu.call_name(rets[0].value.args[0]) == 'dict') or
           (isinstance(rets[0].value.args[0], ast.Name) and isinstance(types.single_def(cp.node, rets[0].value.args[0].id), (ast.Dict, ast.DictComp, ast.Call))))
  raw_self = len(rets) == 1 and (astu.src(rets[0].value) == 'self' or (isinstance(rets[0].value, ast.Call) and any(astu.kwarg(rets[0].value, '__unsafe_skip_copy__') is not None for _ in [0])))
  R.judge(ok or raw_self, ok, key_of(cp, 'new FrozenDict from a fresh dict display'), cp, 'FrozenDict.copy must build a new FrozenDict (copying constructor) from a fresh dict')
  rd = mod.func('FrozenDict.__reduce__')
  R.check('unfreeze' in astu.src(rd.node), key_of(rd, 'pickles an unfrozen copy'), rd, '__reduce__ must pickle an unfrozen copy')
  it = mod.func('FrozenDict.items')
  ys = [n for n in astu.body_walk(it.node) if isinstance(n, (ast.Yield, ast.Return))]
  ok = len(ys) == 1 and isinstance(ys[0], ast.Yield) and isinstance(ys[0].value, ast.Tuple) and astu.src(ys[0].value.elts[1]).startswith('self[')
  R.judge(len(ys) == 1 and isinstance(ys[0], ast.Yield) and isinstance(ys[0].value, ast.Tuple) and len(ys[0].value.elts) == 2, ok, key_of(it, 'values obtained through __getitem__'), it, 'FrozenDict.items must yield values through self[key] (so nested dicts are wrapped)')
  for vname, view in (('values', 'FrozenValuesView'), ('keys', 'FrozenKeysView')):
    g = mod.func('FrozenDict.' + vname)
    rets = [n for n in astu.body_walk(g.node) if isinstance(n, ast.Return)]
    over_private = len(rets) == 1 and isinstance(rets[0].value, ast.Call) and len(rets[0].value.args) == 1 and astu.src(rets[0].value.args[0]) in ('self._dict', 'self.__dict__["_dict"]') or \
        (len(rets) == 1 and isinstance(rets[0].value, ast.Call) and astu.src(rets[0].value.func) == 'self._dict.' + vname)
    if vname == 'values' and over_private:
      R.fail(key_of(g, 'view over self'), (g, rets[0]), '`%s` iterates the private dict directly: nested dicts are handed out as the mutable originals instead of being wrapped in FrozenDict by __getitem__, so a caller can modify the frozen value in place' % astu.short(rets[0]))
      continue
    R.check(len(rets) == 1 and (astu.src(rets[0].value) == '%s(self)' % view or (vname == 'keys' and over_private)), key_of(g, 'view over self'), g,
            'FrozenDict.%s must return a view over the FrozenDict itself (element access through __getitem__)' % vname)


@rule('C15.R6', 'K4', 1, 'FrozenDict flatten / unflatten agree on the representation of children (raw stored values both ways)')
def r6(R, repo):
  mod = repo.mod(FD)
  fl, un = mod.func('FrozenDict.tree_flatten_with_keys'), mod.func('FrozenDict.tree_unflatten')
  key = key_of(fl, 'children are the stored values, as tree_unflatten stores them back unconverted')
  skip = any(astu.kwarg(x, '__unsafe_skip_copy__') is not None and astu.is_const(astu.kwarg(x, '__unsafe_skip_copy__'), True) for x in astu.func_calls(un))
  me = astu.params(fl.node)[0]
  raw = [n for n in ast.walk(fl.node) if isinstance(n, ast.Subscript) and astu.src(n.value) == me + '._dict' and isinstance(n.ctx, ast.Load)]
  wrapped = [n for n in ast.walk(fl.node) if isinstance(n, ast.Subscript) and astu.src(n.value) == me and isinstance(n.ctx, ast.Load)]
  wrapped += [x for x in astu.func_calls(fl) if astu.src(x.func) in (me + '.items', me + '.values', me + '.get')]
  if wrapped and skip:
    R.fail(key, (fl, wrapped[0]), '`%s` hands JAX children that went through __getitem__ (nested dicts wrapped in FrozenDict), while tree_unflatten installs the children it receives without conversion: after any tree_map / jit round trip the private dict holds FrozenDict nodes, so unfreeze() returns immutable nested FrozenDicts instead of dicts and the tree structure differs from the one that was flattened' % astu.short(wrapped[0]))
  elif raw:
    R.ok(key, (fl, raw[0]))
  else:
    R.unsure(key, fl, 'children expression of tree_flatten_with_keys not recognised')


@rule('C15.R4', 'K4+K2', 8, 'struct.dataclass: frozen by default, every field is data xor static, registered in that order')
def r4(R, repo):
  mod = repo.mod(ST)
  f = mod.func('dataclass')
  c = cfg_of(f)
  # frozen default
  stores = [n for n in c.nodes if isinstance(n.stmt, ast.Assign) and astu.src(n.stmt.targets[0]) == "kwargs['frozen']"]
  tests = [n for n in c.nodes if n.kind == 'if' and "'frozen'" in astu.src(n.ast)]
  ok = len(stores) == 1 and astu.is_const(stores[0].stmt.value, True) and len(tests) == 1 and \
      c.edge_guarded(stores[0], tests[0], 'T' if 'not in' in astu.src(tests[0].ast) else 'F')
  dc = [n for n in c.nodes if isinstance(n.stmt, ast.Assign) and 'dataclasses.dataclass(**kwargs)' in astu.src(n.stmt.value)]
  ok = ok and len(dc) == 1 and c.dominated(dc[0], [tests[0]])
  R.judge(len(stores) == 1 and len(tests) == 1 and len(dc) == 1, ok, key_of(f, 'frozen=True unless the user passes frozen'), f,
          'struct.dataclass must default frozen=True before calling dataclasses.dataclass(**kwargs)')
  # field partition
  loops = [n for n in astu.body_walk(f.node) if isinstance(n, ast.For) and 'dataclasses.fields' in astu.src(n.iter)]
  R.require(len(loops) == 1, 'struct.dataclass: loop over dataclasses.fields not found')
  lp = loops[0]
  head = c.nodes_of_stmt(lp)[0]
  apps = [n for n in c.nodes if n in c.loop_body_nodes(lp) and isinstance(n.stmt, ast.Expr) and isinstance(n.stmt.value, ast.Call)
          and astu.call_tail(n.stmt.value) == 'append']
  firsts = [m for m, lab in c.succ[head] if lab == 'T']
  ok = len(apps) == 2 and all(s in apps or head not in c.reach([s], avoid=apps) for s in firsts) and \
      not any(b in c.reach([a], avoid=[head]) for a in apps for b in apps)
  lists = {astu.src(a.stmt.value.func.value): a for a in apps}
  R.judge(len(apps) == 2 and len(lists) == 2, ok, key_of(f, 'each field appended to exactly one of data/meta'), (f, lp),
          'every dataclass field must be put in exactly one of the data-field / static-field lists')
  flagdef = [n for n in astu.body_walk(lp) if isinstance(n, ast.Call) and astu.call_tail(n) == 'get' and 'metadata' in astu.src(n.func)]
  ok = len(flagdef) == 1 and astu.const_str(flagdef[0].args[0]) == 'pytree_node' and astu.is_const(flagdef[0].args[1], True)
  # which list gets the pytree nodes
  data_list = None
  tests = [n for n in c.nodes if n.kind == 'if' and n in c.loop_body_nodes(lp)]
  if ok and tests and len(lists) == 2:
    flag_names = {t_.id for n_ in astu.body_walk(lp) if isinstance(n_, ast.Assign) and n_.value is flagdef[0] for t_ in n_.targets if isinstance(t_, ast.Name)}
    is_flag = lambda e: (isinstance(e, ast.Name) and e.id in flag_names) or e is flagdef[0]
    for name, a in lists.items():
      if evid.guarded(c, a, is_flag) == 'yes':
        data_list = name
  meta_list = [n for n in lists if n != data_list]
  R.judge(len(flagdef) == 1 and len(flagdef[0].args) == 2 and data_list is not None, ok and data_list is not None, key_of(f, "metadata.get('pytree_node', True) selects the data list"), (f, lp),
          "fields are data unless metadata 'pytree_node' is false (default True)")
  reg = [x for x in astu.func_calls(f) if astu.call_name(x) == 'jax.tree_util.register_dataclass']
  R.require(len(reg) == 1, 'register_dataclass call not found')
  args = [astu.src(a) for a in reg[0].args]
  kw = {k.arg: astu.src(k.value) for k in reg[0].keywords}
  d = args[1] if len(args) > 1 else kw.get('data_fields')
  m_ = args[2] if len(args) > 2 else kw.get('meta_fields')
  R.judge(data_list is not None and bool(meta_list) and {d, m_} == {data_list, meta_list[0]}, data_list is not None and d == data_list and meta_list and m_ == meta_list[0], key_of(f, 'register_dataclass(cls, data, meta)'), (f, reg[0]),
          'register_dataclass must receive the pytree-node fields as data_fields and the others as meta_fields (got data=%s meta=%s)' % (d, m_))
  rp = mod.func('dataclass.replace')
  rets = [n for n in astu.body_walk(rp.node) if isinstance(n, ast.Return)]
  R.check(len(rets) == 1 and astu.src(rets[0].value) == 'dataclasses.replace(self, **updates)', key_of(rp, 'dataclasses.replace'), rp,
          'replace must be dataclasses.replace(self, **updates): a new instance, only the named fields changed')
  fld = mod.func('field')
  ok = "'pytree_node': pytree_node" in astu.src(fld.node) and astu.is_const(astu.param_default(fld.node, 'pytree_node'), True)
  inplace = [n for n in astu.body_walk(fld.node) if isinstance(n, ast.Subscript) and isinstance(n.ctx, (ast.Store, ast.Del)) and isinstance(n.value, ast.Name) and
             any(evid.raw3(fld, n.value, p_) == evid.RAW for p_ in astu.params(fld.node))] + \
            [x for x in astu.func_calls(fld) if isinstance(x.func, ast.Attribute) and x.func.attr in MUTATORS and isinstance(x.func.value, ast.Name) and any(evid.raw3(fld, x.func.value, p_) == evid.RAW for p_ in astu.params(fld.node))]
  if inplace:
    R.fail(key_of(fld, "stores the flag under metadata['pytree_node']"), (fld, inplace[0]), 'struct.field writes into the mapping its caller passed (`%s`): a metadata dict shared between several fields then carries the pytree_node flag of the last field declared, '
           'so data fields are registered as static (or vice versa)' % astu.short(astu.enclosing_stmt(inplace[0])))
  else:
    R.check(ok, key_of(fld, "stores the flag under metadata['pytree_node']"), fld, "struct.field must record its flag under the metadata key 'pytree_node' that dataclass() reads")
  for nm in ('dataclass.to_state_dict', 'dataclass.from_state_dict'):
    g = mod.func(nm)
    its = [astu.src(n.iter) for n in astu.body_walk(g.node) if isinstance(n, (ast.For, ast.comprehension))]
    R.judge(len(its) == 1 and data_list is not None and bool(meta_list) and its[0] in (data_list, meta_list[0]), its == [data_list], key_of(g, 'iterates data fields only'), g, '%s must iterate exactly the data fields' % nm)
  isub = mod.func('PyTreeNode.__init_subclass__')
  calls = [x for x in astu.func_calls(isub) if astu.call_name(x) == 'dataclass']
  R.check(len(calls) == 1 and astu.src(calls[0].args[0]) == 'cls' and astu.has_star_kwargs(calls[0]), key_of(isub, 'dataclass(cls, **kwargs)'), isub,
          'PyTreeNode.__init_subclass__ must turn every subclass into a struct.dataclass')


def struct_classes(repo):
  """(mod, qual) of classes that are struct dataclasses / PyTreeNodes / frozen dataclasses."""
  out = []
  for m in repo.mods_with('dataclass', 'PyTreeNode', 'Partitioned', 'TrainState'):
    for q, cnode in m.classes.items():
      kind = None
      for d in cnode.decorator_list:
        dd = d.func if isinstance(d, ast.Call) else d
        name = astu.dotted(dd) or ''
        r = repo.resolve_dotted(m, name) if name else None
        from ..model import Func
        if isinstance(r, Func) and r.fq == 'flax.struct:dataclass':
          kind = 'struct.dataclass'
        elif name.split('.')[-1] == 'dataclass' and isinstance(d, ast.Call) and astu.is_const(astu.kwarg(d, 'frozen'), True):
          kind = 'frozen dataclass'
      for bm, bq in repo.mro(m, q)[1:]:
        if bm.rel == ST and bq == 'PyTreeNode':
          kind = 'PyTreeNode'
      if kind:
        out.append((m, q, kind))
  return out


@rule('C15.R5', 'K3', 15, 'frozen dataclasses never mutate themselves through vars(self) / __dict__ / object.__setattr__')
def r5(R, repo):
  classes = struct_classes(repo)
  for m, q, kind in classes:
    bad = []
    for name, f in m.methods(q).items():
      if not astu.pos_params(f.node) or 'staticmethod' in astu.decorator_names(f.node) or 'classmethod' in astu.decorator_names(f.node):
        continue
      selfname = astu.pos_params(f.node)[0]
      aliases = set()
      for n in astu.body_walk(f.node):
        if isinstance(n, ast.Assign) and len(n.targets) == 1 and isinstance(n.targets[0], ast.Name):
          if astu.src(n.value) in ('vars(%s)' % selfname, '%s.__dict__' % selfname):
            aliases.add(n.targets[0].id)

      def is_selfdict(e):
        return astu.src(e) in ('vars(%s)' % selfname, '%s.__dict__' % selfname) or (isinstance(e, ast.Name) and e.id in aliases)

      for n in astu.body_walk(f.node):
        if isinstance(n, ast.Call) and isinstance(n.func, ast.Attribute) and n.func.attr in MUTATORS and is_selfdict(n.func.value):
          bad.append((f, n, '`%s` mutates the instance __dict__ of a frozen %s' % (astu.short(n), kind)))
        if isinstance(n, ast.Subscript) and isinstance(n.ctx, (ast.Store, ast.Del)) and is_selfdict(n.value):
          bad.append((f, n, '`%s` writes into the instance __dict__ of a frozen %s' % (astu.short(astu.enclosing_stmt(n)), kind)))
        if isinstance(n, ast.Call) and astu.call_name(n) in ('object.__setattr__', 'object.__delattr__', 'setattr', 'delattr') and n.args and \
            astu.src(n.args[0]) == selfname and name not in ('__post_init__', '__init__', '__setstate__'):
          bad.append((f, n, '`%s` bypasses the frozen check outside __post_init__' % astu.short(n)))
        if isinstance(n, ast.Return) and n.value is not None and is_selfdict(n.value):
          bad.append((f, n, 'returns the live instance __dict__ (`%s`): the caller can mutate the frozen instance' % astu.short(n)))
    key = key_of('%s:%s' % (m.dotted, q), 'no self-mutation')
    if bad:
      for f, n, msg in bad[:1]:
        R.fail(key_of(f, 'self-mutation of a frozen instance'), (f, n), msg)
    else:
      R.ok(key, (m, m.classes[q]), kind)


meta('C15',
     explanation='Escape analysis of every read of FrozenDict._dict (query / copy / wrapped element / FrozenDict-to-FrozenDict sharing, anything '
     'else is a violation), who-may-write rules for _dict/_hash and absence of mutators (K3), copy obligations of __init__/_prepare_freeze/'
     'unfreeze/copy/pop/items (K7), the struct.dataclass field partition and its registration order (K4/K2 on the CFG), and a scan of every '
     'struct dataclass / PyTreeNode / frozen dataclass in flax/ for self-mutation through vars(self).',
     not_decided=['hash/eq values', 'jit retrace counts (jax)', 'behaviour of user __post_init__'],
     mutants=[
         Mutant('C15-m1', FD, "    v = self._dict[key]\n    if isinstance(v, dict):\n      return FrozenDict(v)\n    return v", "    return self._dict[key]", 'C15.R1'),
         Mutant('C15-m2', FD, "      self._dict = _prepare_freeze(xs)", "      self._dict = xs", 'C15.R3'),
         Mutant('C15-m3', FD, "    return jax.tree_util.tree_map(lambda y: y, x._dict)  # type: ignore", "    return x._dict  # type: ignore", 'C15.R1'),
         Mutant('C15-m4', FD, "    new_dict = dict(self._dict)\n    new_dict.pop(key)", "    new_dict = self._dict\n    new_dict.pop(key)", 'C15.R2'),
         Mutant('C15-m5', FD, "        h ^= hash((key, value))", "        h = hash((h, key, value))", 'C15.R2'),
         Mutant('C15-m6', ST, "  jax.tree_util.register_dataclass(data_clz, data_fields, meta_fields)", "  jax.tree_util.register_dataclass(data_clz, meta_fields, data_fields)", 'C15.R4'),
         Mutant('C15-m7', ST, "    if is_pytree_node:\n      data_fields.append(field_info.name)\n    else:\n      meta_fields.append(field_info.name)",
                "    if is_pytree_node:\n      data_fields.append(field_info.name)\n    meta_fields.append(field_info.name)", 'C15.R4'),
         Mutant('C15-m8', FD, "  return {key: _prepare_freeze(val) for key, val in xs.items()}", "  return dict(xs)", 'C15.R3'),
         Mutant('C15-m9', FD, "      yield (key, self[key])", "      yield (key, self._dict[key])", 'C15.R1'),
         Mutant('C15-m10', FD, "  if not isinstance(xs, dict):\n    # return a leaf as is.\n    return xs", "  if not isinstance(xs, dict) or not xs:\n    # return a leaf as is.\n    return xs", 'C15.R3', why='seed C15-A'),
         Mutant('C15-m11', FD, "      h = 0\n      for key, value in self.items():\n        h ^= hash((key, value))\n      self._hash = h", "      self._hash = hash(tuple(self.items()))", 'C15.R2', why='seed C15-D (round 2)'),
         Mutant('C15-b1', FD, "    v = self._dict[key]\n    if isinstance(v, dict):\n      return FrozenDict(v)\n    return v",
                "    v = self._dict[key]\n    if not isinstance(v, dict):\n      return v\n    return FrozenDict(v)", kind='benign'),
     ])
