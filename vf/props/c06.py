"""C06 — lifted scan and vmap equal the explicit loop and the per-example stack (routing, axes, options)."""
from __future__ import annotations

import ast

from .. import astu, flow, types
from ..cfg import cfg_of
from ..model import AnalysisError
from ..report import key_of
from . import Mutant, meta, rule
from . import c05 as _c05
from . import c19 as _c19

LI = 'flax/core/lift.py'
AX = 'flax/core/axes_scan.py'
TR = 'flax/linen/transforms.py'


@rule('C06.R1', 'K4', 6, 'scan: broadcast, carry and per-step collections keep their positional roles end to end')
def r1(R, repo):
  mod = repo.mod(LI)
  sc = mod.func('scan')
  pk = [x for x in astu.func_calls(sc) if astu.call_name(x) == 'pack']
  R.require(len(pk) == 1, 'lift.scan: pack(...) not found')
  a = [astu.src(x) for x in pk[0].args[1:4]]
  ok = a == ['(variable_broadcast, variable_carry) + variable_in_groups', '(variable_broadcast, variable_carry) + variable_out_groups', 'rng_groups']
  R.check(ok, key_of(sc, 'filters = (broadcast, carry) + per-step groups, in and out'), (sc, pk[0]), 'lift.scan must lift (variable_broadcast, variable_carry) + scan groups in this order, for inputs and outputs (got %s)' % a)
  inner = mod.func('scan.inner')
  txt = astu.src(inner.node)
  ok = 'broadcast_vars = variable_groups[0]' in txt and 'carry_vars = variable_groups[1]' in txt and 'scan_vars = variable_groups[2:]' in txt
  R.check(ok, key_of(inner, 'group 0 = broadcast, 1 = carry, 2: = per-step'), inner, 'scan.inner must read variable_groups[0] as broadcast, [1] as carry and [2:] as scanned collections')
  call = [n for n in astu.body_walk(inner.node) if isinstance(n, ast.Assign) and isinstance(n.value, ast.Call) and astu.call_name(n.value) == 'scanned']
  R.require(len(call) == 1, 'scan.inner: call of scanned not found')
  args = [astu.src(x) for x in call[0].value.args]
  ok = args == ['broadcast_vars', '(carry_vars, init)', 'tuple(new_scan_vars)', 'rng_groups', 'args'] and astu.src(call[0].targets[0]) == '(broadcast_vars, (carry_vars, c), (ys, scan_vars))'
  R.check(ok, key_of(inner, 'scanned(broadcast, (carry vars, init), scan vars, rngs, args) -> (broadcast, (carry vars, c), (ys, scan vars))'), (inner, call[0]),
          'the scanned function must be called with (broadcast, (carry variables, init), scanned variables, rngs, args) and its result destructured in the mirrored layout')
  sd = mod.func('scan.inner.scanned')
  st = astu.src(sd.node)
  ok = 'carry_vars, c = carry' in st and 'variable_groups = (broadcast_vars, carry_vars) + scan_variable_groups' in st and 'broadcast_vars_out = out_vars[0]' in st and 'carry_vars = out_vars[1]' in st and \
      'scan_vars = out_vars[2:]' in st and 'return (broadcast_vars_out, (carry_vars, c), (y, scan_vars))' in st and 'c, y = fn(scope, c, *args)' in st
  R.check(ok, key_of(sd, 'per-step body keeps the same positions'), sd, 'scanned must rebuild the groups as (broadcast, carry) + scanned, call fn(scope, c, *args) -> (c, y), and return (broadcast out, (carry vars, c), (y, scanned vars))')
  R.check('out_vars = (broadcast_vars, carry_vars) + scan_vars' in txt and 'return ((c, ys), out_vars)' in txt, key_of(inner, 'result = ((final carry, stacked ys), (broadcast, carry) + scanned)'), inner,
          'scan.inner must return ((c, ys), (broadcast_vars, carry_vars) + scan_vars)')
  ax = repo.mod(AX)
  for q in ('scan.scan_fn', 'scan.simple_scan_fn'):
    f = ax.func(q)
    body = ax.func(q + '.body_fn')
    R.check('fn(broadcast_in, c, *xs)' in astu.src(body.node) and astu.pos_params(f.node)[:2] == ['broadcast_in', 'init'], key_of(f, 'fn(broadcast, carry, *xs)'), f, '%s must call the body as fn(broadcast_in, c, *xs)' % q)


@rule('C06.R2', 'K7', 6, 'in-axes are used on the way in, out-axes on the way out, for variables and for arguments')
def r2(R, repo):
  mod = repo.mod(LI)
  for q, inner_q, deco_name in (('vmap', 'vmap.inner.mapped', 'jax.vmap'), ('scan', 'scan.inner.scanned', 'axes_scan.scan')):
    f = mod.func(q)
    txt = astu.src(f.node)
    ok = 'variable_in_axes, variable_out_axes = _split_in_out_axes(variable_axes)' in txt and 'variable_in_groups, variable_in_axes = _unzip2(variable_in_axes.items())' in txt and \
        'variable_out_groups, variable_out_axes = _unzip2(variable_out_axes.items())' in txt
    R.check(ok, key_of(f, 'in/out halves of variable_axes unzipped into (groups, axes)'), f, 'lift.%s must split variable_axes into its in and out halves and unzip each into (filters, axes)' % q)
    g = mod.func(inner_q)
    deco = [d for d in g.node.decorator_list if deco_name in astu.src(d)]
    R.require(len(deco) == 1, '%s: %s decorator not found' % (inner_q, deco_name))
    d = deco[0]
    ia, oa = astu.kwarg(d, 'in_axes'), astu.kwarg(d, 'out_axes')
    ok = astu.src(ia) == '(variable_in_axes, rng_axes, in_axes)' and astu.src(oa) == '(out_axes, variable_out_axes)'
    R.check(ok, key_of(g, '%s(in_axes=(variable_in_axes, rng_axes, in_axes), out_axes=(out_axes, variable_out_axes))' % deco_name), (g, d),
            '%s must receive in_axes=(variable_in_axes, rng_axes, in_axes) and out_axes=(out_axes, variable_out_axes) (got %s / %s)' % (deco_name, astu.src(ia), astu.src(oa)))
    if q == 'vmap':
      pk = [x for x in astu.func_calls(f) if astu.call_name(x) == 'pack']
      R.check(len(pk) == 1 and [astu.src(a) for a in pk[0].args[1:4]] == ['variable_in_groups', 'variable_out_groups', 'rng_groups'], key_of(f, 'pack(inner, in groups, out groups, rng groups)'), f, 'lift.vmap must lift the in-groups in and the out-groups out')
  sp = mod.func('_split_in_out_axes')
  ia, oa = types.single_def(sp.node, 'in_axes'), types.single_def(sp.node, 'out_axes')
  ok = isinstance(ia, ast.DictComp) and isinstance(oa, ast.DictComp) and [astu.src(x) for x in ia.generators[0].ifs] == ['not isinstance(v, Out)'] and [astu.src(x) for x in oa.generators[0].ifs] == ['not isinstance(v, In)'] and \
      astu.src(ia.generators[0].iter) == astu.src(oa.generators[0].iter) == '%s.items()' % astu.params(sp.node)[0] and 'return (in_axes, out_axes)' in astu.src(sp.node)
  R.check(ok, key_of(sp, 'In(...) only in, Out(...) only out, plain axes both'), sp, '_split_in_out_axes must route In(axis) to the in half only, Out(axis) to the out half only, and plain axes to both')


@rule('C06.R3', 'K4', 5, 'an rng stream is split along the mapped axis iff it is declared split')
def r3(R, repo):
  mod = repo.mod(LI)
  for q, bc in (('vmap', 'None'), ('scan', 'axes_scan.broadcast')):
    f = mod.func(q)
    d = types.single_def(f.node, 'rng_axes')
    R.check(d is not None and astu.src(d) == 'tuple((0 if rng_split else %s for rng_split in rng_splits))' % bc, key_of(f, 'rng axis 0 iff split'), f, 'lift.%s must map split streams over axis 0 and share the others (%s)' % (q, bc))
    R.check('rng_groups, rng_splits = _unzip2(split_rngs.items())' in astu.src(f.node), key_of(f, 'rng filters and split flags from the same dict order'), f, 'rng_groups and rng_splits must come from one pass over split_rngs.items()')
    inner = mod.func(q + '.inner')
    dd = [x[0] for x in flow.defs(inner, 'rng_groups') if not isinstance(x[0], tuple)]
    ok = any(astu.src(x) == 'tuple((tree_map_rngs(split_fn, rng_group) if split else rng_group for rng_group, split in zip(rng_groups, rng_splits)))' for x in dd)
    R.check(ok, key_of(inner, 'keys split iff declared split'), inner, '%s.inner must apply split_fn exactly to the streams flagged in rng_splits (same order as rng_axes)' % q)
    size = 'd_axis_size' if q == 'vmap' else 'd_length'
    sf = [x[0] for x in flow.defs(inner, 'split_fn') if isinstance(x[0], ast.Lambda)]
    R.check(len(sf) == 2 and all(('random.split(' in astu.src(x) and astu.src(x).rstrip(')').endswith(size)) for x in sf), key_of(inner, 'split into one key per index'), inner, 'split_fn must split each key into %s keys' % size)
  wl = mod.func('while_loop.inner.make_loop_rngs')
  t = astu.src(wl.node)
  R.check('if rng_split:' in t and 'random.fold_in(rng, i)' in t and 'zip(rng_groups, rng_splits)' in t, key_of(wl, 'iteration index folded into split streams only'), wl, 'while_loop must fold the iteration index into exactly the streams declared split')


@rule('C06.R4', 'K1+K4', 7, 'scanned inputs are moved to the front by in_axes before lax.scan and outputs moved back by out_axes after it, per leaf')
def r4(R, repo):
  ax = repo.mod(AX)
  for q in ('scan.scan_fn', 'scan.simple_scan_fn'):
    f = ax.func(q)
    c = cfg_of(f)
    pre = [n for n in c.nodes if isinstance(n.stmt, ast.Assign) and astu.src(n.stmt) == 'xs = jax.tree_util.tree_map(transpose_to_front, in_axes, args)']
    post = [n for n in c.nodes if isinstance(n.stmt, ast.Assign) and astu.src(n.stmt) == 'ys = jax.tree_util.tree_map(transpose_from_front, out_axes, ys)']
    scans = [n for n in c.nodes if isinstance(n.stmt, ast.Assign) and isinstance(n.stmt.value, ast.Call) and astu.call_name(n.stmt.value) == 'lax.scan']
    ok = len(pre) == 1 and len(post) == 1 and len(scans) == 2 and all(c.dominated(s, pre) for s in scans) and all(post[0] in c.reach([s]) and s not in c.reach(post) for s in scans)
    R.check(ok, key_of(f, 'to_front(in_axes) -> lax.scan -> from_front(out_axes)'), f, '%s must transpose the inputs to the front with in_axes before lax.scan and the outputs back with out_axes after it' % q)
    for s in scans:
      call = s.stmt.value
      ok = [astu.src(a) for a in call.args] == ['body_fn', 'init', 'xs'] and all(flow.kw_forwarded(call, k) for k in ('length', 'reverse', 'unroll'))
      R.check(ok, key_of(f, 'lax.scan(body_fn, init, xs, length, reverse, unroll)', 'with _split_transpose' if astu.kwarg(call, '_split_transpose') is not None else 'legacy'), (f, call),
              'every lax.scan call of %s must pass length, reverse and unroll unchanged' % q)
  tf, tt = ax.func('scan.transpose_from_front'), ax.func('scan.transpose_to_front')
  for g in (tf, tt):
    t = astu.src(g.node)
    ok = 'if ax is broadcast:\n        return ()' in t and 'if ax == 0:\n        return xs' in t and 'return jax.tree_util.tree_map(trans, xs)' in t
    R.check(ok, key_of(g, 'broadcast -> (), axis 0 -> unchanged, else per-leaf transpose'), g, '%s must return () for broadcast axes, the input for axis 0 and otherwise tree_map(trans, xs)' % g.name)
  tr = ax.func('scan.transpose_from_front.trans')
  xp = astu.params(tr.node)[0]
  pdefs = flow.defs(tr, 'pax')
  outer_defs = flow.defs(tf, 'pax')
  nd = [n for n in ast.walk(tf.node) if isinstance(n, ast.Attribute) and n.attr == 'ndim']
  ok = len(pdefs) >= 1 and not outer_defs and all(isinstance(n.value, ast.Name) and n.value.id == xp and ax.func_of_node(n).qual.endswith('.trans') for n in nd)
  R.check(ok, key_of(tr, 'negative axis normalised per leaf (x.ndim of the leaf being transposed)'), tr,
          'a negative out_axes must be normalised with the rank of *each* leaf inside trans(x): out_axes is a prefix that can cover leaves of different rank, so a position computed once from another leaf misplaces the axis')
  R.check('perm = tuple(range(1, pax + 1)) + (0,) + tuple(range(pax + 1, x.ndim))' in astu.src(tr.node), key_of(tr, 'front axis moved to position pax'), tr, 'transpose_from_front must move axis 0 to position pax')
  R.check('perm = (ax,) + tuple(np.delete(perm, ax))' in astu.src(ax.func('scan.transpose_to_front.trans').node), key_of(tt, 'axis ax moved to the front'), tt, 'transpose_to_front must move axis ax to position 0')
  sf = ax.func('scan.scan_fn')
  R.check("raise ValueError('broadcasted variable has a data dependency on the scan body.')" in astu.src(sf.node), key_of(sf, 'broadcast outputs must be loop-invariant'), sf, 'scan_fn must reject broadcast variables that depend on the loop body')


@rule('C06.R5', 'K6', 7, 'options of nn.scan / nn.vmap / nn.remat_scan reach lift.*, axes_scan.scan, lax.scan and jax.vmap unchanged')
def r5(R, repo):
  _c05.check_lift_plumbing(R, repo, 'scan', 'lift.scan', ['variable_axes', 'variable_broadcast', 'variable_carry', 'split_rngs', 'in_axes', 'out_axes', 'length', 'reverse', 'unroll', '_split_transpose', 'data_transform', 'metadata_params', 'check_constancy_invariants'])
  _c05.check_lift_plumbing(R, repo, 'vmap', 'lift.vmap', ['variable_axes', 'split_rngs', 'in_axes', 'out_axes', 'axis_size', 'axis_name', 'spmd_axis_name', 'metadata_params'])
  _c05.check_lift_plumbing(R, repo, 'remat_scan', 'lift.remat_scan', ['lengths', 'policy', 'variable_broadcast', 'variable_carry', 'variable_axes', 'split_rngs'])
  mod = repo.mod(LI)
  sd = mod.func('scan.inner.scanned')
  d = [x for x in sd.node.decorator_list if 'axes_scan.scan' in astu.src(x)][0]
  miss = [k for k in ('length', 'reverse', 'unroll', '_split_transpose', 'check_constancy_invariants') if not flow.kw_forwarded(d, k)]
  R.check(not miss, key_of(sd, 'axes_scan.scan(length, reverse, unroll, _split_transpose, check_constancy_invariants)'), (sd, d), 'lift.scan does not forward %s to axes_scan.scan' % miss)
  mp = mod.func('vmap.inner.mapped')
  d = [x for x in mp.node.decorator_list if 'jax.vmap' in astu.src(x)][0]
  miss = [k for k in ('axis_name', 'axis_size', 'spmd_axis_name') if not flow.kw_forwarded(d, k)]
  R.check(not miss, key_of(mp, 'jax.vmap(axis_name, axis_size, spmd_axis_name)'), (mp, d), 'lift.vmap does not forward %s to jax.vmap' % miss)
  rs = mod.func('remat_scan')
  opts = [p for p in astu.params(rs.node) if p not in ('body_fn', 'lengths')]
  pos = astu.pos_params(rs.node)
  recs = [x for x in ast.walk(rs.node) if isinstance(x, ast.Call) and astu.call_name(x) == 'remat_scan']
  R.require(len(recs) == 1, 'remat_scan: recursive call not found')
  miss = [o for o in opts if not flow.kw_forwarded(recs[0], o, pos=pos.index(o))]
  R.check(not miss, key_of(rs, 'inner levels receive every option'), (rs, recs[0]),
          'the recursive remat_scan call for the inner levels does not forward %s: inner levels silently fall back to the defaults (e.g. split every rng stream)' % miss)
  R.check(astu.src(recs[0].args[1]) == 'lengths[1:]' and astu.src(recs[0].args[0]) == 'body_fn', key_of(rs, 'recursion on lengths[1:] with the same body'), (rs, recs[0]), 'the recursion must continue with the same body and lengths[1:]')
  sf = types.single_def(rs.node, 'scan_fn')
  miss = [o for o in ('variable_broadcast', 'variable_carry', 'variable_axes', 'split_rngs') if sf is None or not flow.kw_forwarded(sf, o)]
  R.check(not miss, key_of(rs, 'every level scans with the user\'s variable/rng options'), rs, 'remat_scan must build its scan with %s' % miss)


@rule('C06.R6', 'K2', 14, 'scopes are repacked and published exactly once around the mapped / scanned call (shared with C05.R1, C05.R2)')
def r6(R, repo):
  _c05.r1(R, repo)


@rule('C06.R7', 'K1', 8, 'partition metadata follows the stacked axis (shared with C19.R2)')
def r7(R, repo):
  _c19.r2(R, repo)


meta('C06',
     explanation='Positional role routing of broadcast / carry / per-step collections through lift.scan -> scanned -> axes_scan, in/out axis routing for jax.vmap and axes_scan.scan, '
     'rng split flag <-> mapped axis agreement, transposition pairing (to_front(in_axes) before lax.scan, from_front(out_axes) after, per-leaf normalisation of negative axes) in both '
     'axes_scan siblings, and keyword plumbing from nn.scan / nn.vmap / nn.remat_scan down to lax.scan / jax.vmap including the recursive remat_scan call.',
     not_decided=['equality with the unrolled loop / the per-example stack (values)', 'broadcast "initialised once" (jax partial evaluation)', 'unroll factors', 'key values'],
     mutants=[
         Mutant('C06-m1', AX, "    def trans(x):\n      if ax < 0:\n        pax = x.ndim + ax\n      else:\n        pax = ax\n      assert pax < x.ndim",
                "    leaves = jax.tree_util.tree_leaves(xs)\n    pax = leaves[0].ndim + ax if ax < 0 else ax\n\n    def trans(x):\n      assert pax < x.ndim", 'C06.R4', why='seed C06-A'),
         Mutant('C06-m2', LI, "      carry = remat_scan(\n        body_fn,\n        lengths[1:],\n        policy,\n        variable_broadcast,\n        variable_carry,\n        variable_axes,\n        split_rngs,\n      )(scope, carry)",
                "      carry = remat_scan(\n        body_fn,\n        lengths[1:],\n        policy=policy,\n        variable_broadcast=variable_broadcast,\n        variable_carry=variable_carry,\n        variable_axes=variable_axes,\n      )(scope, carry)", 'C06.R5', why='seed C06-B'),
         Mutant('C06-m3', LI, "        out_axes=(out_axes, variable_out_axes),\n        axis_name=axis_name,", "        out_axes=(out_axes, variable_in_axes),\n        axis_name=axis_name,", 'C06.R2'),
         Mutant('C06-m4', LI, "  rng_axes = tuple(0 if rng_split else None for rng_split in rng_splits)", "  rng_axes = tuple(None if rng_split else 0 for rng_split in rng_splits)", 'C06.R3'),
         Mutant('C06-m5', AX, "      c, ys = lax.scan(\n          body_fn, init, xs, length=length, reverse=reverse, unroll=unroll\n      )\n    ys = jax.tree_util.tree_map(transpose_from_front, out_axes, ys)\n    return broadcast_in, c, ys",
                "      c, ys = lax.scan(\n          body_fn, init, xs, length=length, unroll=unroll\n      )\n    ys = jax.tree_util.tree_map(transpose_from_front, out_axes, ys)\n    return broadcast_in, c, ys", 'C06.R4'),
         Mutant('C06-m6', LI, "    broadcast_vars = variable_groups[0]\n    carry_vars = variable_groups[1]", "    broadcast_vars = variable_groups[1]\n    carry_vars = variable_groups[0]", 'C06.R1'),
     ])
