"""C06 — lifted scan and vmap equal the explicit loop and the per-example stack (routing, axes, options)."""
from __future__ import annotations

import ast

from .. import astu, evid, flow, types
from ..cfg import cfg_of
from ..model import AnalysisError
from ..report import key_of
from . import Mutant, meta, rule
from . import c05 as _c05
from . import c19 as _c19

LI = 'flax/core/lift.py'
AX = 'flax/core/axes_scan.py'
TR = 'flax/linen/transforms.py'


def _kw_forward(R, f, call, names, key, msg):
  """Keywords of a located call/decorator must pass the same-named variable on."""
  for k in names:
    v = astu.kwarg(call, k)
    kk = '%s :: %s' % (key, k)
    if v is None:
      if astu.has_star_kwargs(call):
        R.unsure(kk, (f, call), 'cannot tell whether `%s` is forwarded through **kwargs' % k)
      else:
        R.fail(kk, (f, call), '%s: `%s` is not passed on in `%s`, so it silently falls back to its default' % (msg, k, astu.short(call, 80)))
    else:
      evid.judge_expr(R, f, v, k, kk, (f, call), msg)


@rule('C06.R1', 'K4', 6, 'scan: broadcast, carry and per-step collections keep their positional roles end to end')
def r1(R, repo):
  mod = repo.mod(LI)
  sc = mod.func('scan')
  pk = [x for x in astu.func_calls(sc) if astu.call_name(x) == 'pack']
  R.require(len(pk) == 1, 'lift.scan: pack(...) not found')
  evid.judge_call_args(R, repo, sc, pk[0], [None, '(variable_broadcast, variable_carry) + variable_in_groups', '(variable_broadcast, variable_carry) + variable_out_groups', 'rng_groups'],
                       key_of(sc, 'filters = (broadcast, carry) + per-step groups, in and out'), (sc, pk[0]), 'lift.scan must lift (variable_broadcast, variable_carry) + scan groups in this order, for inputs and outputs')
  inner = mod.func('scan.inner')
  evid.judge_stmts(R, inner, ['broadcast_vars = variable_groups[0]', 'carry_vars = variable_groups[1]', 'scan_vars = variable_groups[2:]'], key_of(inner, 'group 0 = broadcast, 1 = carry, 2: = per-step'), inner,
                   'scan.inner must read variable_groups[0] as broadcast, [1] as carry and [2:] as scanned collections')
  call = [n for n in astu.body_walk(inner.node) if isinstance(n, ast.Assign) and isinstance(n.value, ast.Call) and astu.call_name(n.value) == 'scanned']
  R.require(len(call) == 1, 'scan.inner: call of scanned not found')
  key = key_of(inner, 'scanned(broadcast, (carry vars, init), scan vars, rngs, args) -> (broadcast, (carry vars, c), (ys, scan vars))')
  evid.judge_call_args(R, repo, inner, call[0].value, ['broadcast_vars', '(carry_vars, init)', 'tuple(new_scan_vars)', 'rng_groups', 'args'], key, (inner, call[0]),
                       'the scanned function must be called with (broadcast, (carry variables, init), scanned variables, rngs, args)')
  evid.judge_expr(R, inner, call[0].targets[0], '(broadcast_vars, (carry_vars, c), (ys, scan_vars))', key + ' :: result', (inner, call[0]), 'the result of scanned must be destructured in the mirrored layout', follow=False)
  sd = mod.func('scan.inner.scanned')
  evid.judge_stmts(R, sd, ['carry_vars, c = carry', 'variable_groups = (broadcast_vars, carry_vars) + scan_variable_groups', 'broadcast_vars_out = out_vars[0]', 'carry_vars = out_vars[1]', 'scan_vars = out_vars[2:]',
                           'return (broadcast_vars_out, (carry_vars, c), (y, scan_vars))', 'c, y = fn(scope, c, *args)'], key_of(sd, 'per-step body keeps the same positions'), sd,
                   'scanned must rebuild the groups as (broadcast, carry) + scanned, call fn(scope, c, *args) -> (c, y), and return (broadcast out, (carry vars, c), (y, scanned vars))')
  evid.judge_stmts(R, inner, ['out_vars = (broadcast_vars, carry_vars) + scan_vars', 'return ((c, ys), out_vars)'], key_of(inner, 'result = ((final carry, stacked ys), (broadcast, carry) + scanned)'), inner,
                   'scan.inner must return ((c, ys), (broadcast_vars, carry_vars) + scan_vars)')
  ax = repo.mod(AX)
  for q in ('scan.scan_fn', 'scan.simple_scan_fn'):
    f = ax.func(q)
    body = ax.func(q + '.body_fn')
    calls = [x for x in astu.func_calls(body) if astu.src(x.func) == 'fn']
    key = key_of(f, 'fn(broadcast, carry, *xs)')
    if len(calls) == 1 and len(calls[0].args) >= 2:
      evid.judge_call_args(R, repo, body, calls[0], ['broadcast_in', 'c'], key, (body, calls[0]), '%s must call the body as fn(broadcast_in, c, *xs)' % q)
    else:
      R.unsure(key, f, 'fn(...) call in body_fn not recognised')


AXV = ('variable_in_axes', 'variable_out_axes', 'in_axes', 'out_axes', 'rng_axes')


@rule('C06.R2', 'K7', 6, 'in-axes are used on the way in, out-axes on the way out, for variables and for arguments')
def r2(R, repo):
  mod = repo.mod(LI)
  for q, inner_q, deco_name in (('vmap', 'vmap.inner.mapped', 'jax.vmap'), ('scan', 'scan.inner.scanned', 'axes_scan.scan')):
    f = mod.func(q)
    evid.judge_stmts(R, f, ['variable_in_axes, variable_out_axes = _split_in_out_axes(variable_axes)', 'variable_in_groups, variable_in_axes = _unzip2(variable_in_axes.items())',
                            'variable_out_groups, variable_out_axes = _unzip2(variable_out_axes.items())'], key_of(f, 'in/out halves of variable_axes unzipped into (groups, axes)'), f,
                     'lift.%s must split variable_axes into its in and out halves and unzip each into (filters, axes)' % q)
    g = mod.func(inner_q)
    deco = [d for d in g.node.decorator_list if deco_name in astu.src(d)]
    R.require(len(deco) == 1, '%s: %s decorator not found' % (inner_q, deco_name))
    d = deco[0]
    key = key_of(g, '%s(in_axes=(variable_in_axes, rng_axes, in_axes), out_axes=(out_axes, variable_out_axes))' % deco_name)
    evid.judge_expr(R, f, astu.kwarg(d, 'in_axes'), '(variable_in_axes, rng_axes, in_axes)', key + ' :: in_axes', (g, d), '%s must receive in_axes=(variable_in_axes, rng_axes, in_axes)' % deco_name, vocab=AXV)
    evid.judge_expr(R, f, astu.kwarg(d, 'out_axes'), '(out_axes, variable_out_axes)', key + ' :: out_axes', (g, d), '%s must receive out_axes=(out_axes, variable_out_axes)' % deco_name, vocab=AXV)
    if q == 'vmap':
      pk = [x for x in astu.func_calls(f) if astu.call_name(x) == 'pack']
      evid.judge_call_args(R, repo, f, pk[0] if len(pk) == 1 else None, [None, 'variable_in_groups', 'variable_out_groups', 'rng_groups'], key_of(f, 'pack(inner, in groups, out groups, rng groups)'), f, 'lift.vmap must lift the in-groups in and the out-groups out')
  sp = mod.func('_split_in_out_axes')
  ia, oa = types.single_def(sp.node, 'in_axes'), types.single_def(sp.node, 'out_axes')
  key = key_of(sp, 'In(...) only in, Out(...) only out, plain axes both')
  if isinstance(ia, ast.DictComp) and isinstance(oa, ast.DictComp) and len(ia.generators[0].ifs) == 1 and len(oa.generators[0].ifs) == 1:
    evid.judge_expr(R, sp, ia.generators[0].ifs[0], 'not isinstance(v, Out)', key + ' :: in', sp, '_split_in_out_axes must route In(axis) to the in half only', follow=False)
    evid.judge_expr(R, sp, oa.generators[0].ifs[0], 'not isinstance(v, In)', key + ' :: out', sp, '_split_in_out_axes must route Out(axis) to the out half only', follow=False)
    evid.judge_stmts(R, sp, ['return (in_axes, out_axes)'], key + ' :: order', sp, '_split_in_out_axes must return (in half, out half)')
  else:
    R.unsure(key, sp, '_split_in_out_axes is not a pair of filtered dict comprehensions')


@rule('C06.R3', 'K4', 5, 'an rng stream is split along the mapped axis iff it is declared split')
def r3(R, repo):
  mod = repo.mod(LI)
  for q, bc in (('vmap', 'None'), ('scan', 'axes_scan.broadcast')):
    f = mod.func(q)
    d = types.single_def(f.node, 'rng_axes')
    evid.judge_expr(R, f, d, 'tuple((0 if rng_split else %s for rng_split in rng_splits))' % bc, key_of(f, 'rng axis 0 iff split'), f, 'lift.%s must map split streams over axis 0 and share the others (%s)' % (q, bc), follow=False)
    evid.judge_stmts(R, f, ['rng_groups, rng_splits = _unzip2(split_rngs.items())'], key_of(f, 'rng filters and split flags from the same dict order'), f, 'rng_groups and rng_splits must come from one pass over split_rngs.items()')
    inner = mod.func(q + '.inner')
    dd = [x[0] for x in flow.defs(inner, 'rng_groups') if not isinstance(x[0], tuple)]
    key = key_of(inner, 'keys split iff declared split')
    if len(dd) == 1:
      evid.judge_expr(R, inner, dd[0], 'tuple((tree_map_rngs(split_fn, rng_group) if split else rng_group for rng_group, split in zip(rng_groups, rng_splits)))', key, inner,
                      '%s.inner must apply split_fn exactly to the streams flagged in rng_splits (same order as rng_axes)' % q, follow=False)
    else:
      R.unsure(key, inner, 'rebinding of rng_groups not recognised')
    size = 'd_axis_size' if q == 'vmap' else 'd_length'
    sf = [x[0] for x in flow.defs(inner, 'split_fn') if isinstance(x[0], ast.Lambda)]
    R.check(len(sf) == 2 and all(('random.split(' in astu.src(x) and astu.src(x).rstrip(')').endswith(size)) for x in sf), key_of(inner, 'split into one key per index'), inner, 'split_fn must split each key into %s keys' % size)
  wl = mod.func('while_loop.inner.make_loop_rngs')
  t = astu.src(wl.node)
  R.check('if rng_split:' in t and 'random.fold_in(rng, i)' in t and 'zip(rng_groups, rng_splits)' in t, key_of(wl, 'iteration index folded into split streams only'), wl, 'while_loop must fold the iteration index into exactly the streams declared split')


@rule('C06.R4', 'K1+K4', 7, 'scanned inputs are moved to the front by in_axes before lax.scan and outputs moved back by out_axes after it, per leaf')
def r4(R, repo):
  ax = repo.mod(AX)
  for q in ('scan.scan_fn', 'scan.simple_scan_fn'):
    f = ax.func(q)
    c = cfg_of(f)
    tm = lambda n, fn_: isinstance(n.stmt, ast.Assign) and isinstance(n.stmt.value, ast.Call) and astu.call_tail(n.stmt.value) == 'tree_map' and n.stmt.value.args and astu.src(n.stmt.value.args[0]) == fn_
    pre = [n for n in c.nodes if tm(n, 'transpose_to_front')]
    post = [n for n in c.nodes if tm(n, 'transpose_from_front')]
    scans = [n for n in c.nodes if isinstance(n.stmt, ast.Assign) and isinstance(n.stmt.value, ast.Call) and astu.call_name(n.stmt.value) == 'lax.scan']
    key = key_of(f, 'to_front(in_axes) -> lax.scan -> from_front(out_axes)')
    if len(pre) == 1 and len(post) == 1 and scans:
      ok = all(c.dominated(s, pre) for s in scans) and all(post[0] in c.reach([s]) and s not in c.reach(post) for s in scans)
      R.check(ok, key, f, '%s must transpose the inputs to the front with in_axes before lax.scan and the outputs back with out_axes after it' % q, evidence=True)
      evid.judge_call_args(R, repo, f, pre[0].stmt.value, [None, 'in_axes', 'args'], key + ' :: in', (f, pre[0].stmt), 'the inputs must be transposed with in_axes')
      evid.judge_call_args(R, repo, f, post[0].stmt.value, [None, 'out_axes', 'ys'], key + ' :: out', (f, post[0].stmt), 'the stacked outputs must be transposed back with out_axes')
    else:
      R.unsure(key, f, 'tree_map(transpose_to_front/transpose_from_front, …) / lax.scan not found')
    for s in scans:
      call = s.stmt.value
      key = key_of(f, 'lax.scan(body_fn, init, xs, length, reverse, unroll)', 'with _split_transpose' if astu.kwarg(call, '_split_transpose') is not None else 'legacy')
      evid.judge_call_args(R, repo, f, call, ['body_fn', 'init', 'xs'], key, (f, call), 'every lax.scan call of %s must scan body_fn over xs from init' % q)
      _kw_forward(R, f, call, ('length', 'reverse', 'unroll'), key, 'every lax.scan call of %s must pass length, reverse and unroll unchanged' % q)
  tf, tt = ax.func('scan.transpose_from_front'), ax.func('scan.transpose_to_front')
  for g in (tf, tt):
    ifs_ = {astu.src(n_.test): [astu.src(s_) for s_ in n_.body if isinstance(s_, ast.Return)] for n_ in astu.body_walk(g.node) if isinstance(n_, ast.If)}
    ok = ifs_.get('ax is broadcast') == ['return ()'] and ifs_.get('ax == 0') == ['return %s' % astu.params(g.node)[1]] and any(isinstance(n_, ast.Return) and astu.src(n_) == 'return jax.tree_util.tree_map(trans, %s)' % astu.params(g.node)[1] for n_ in astu.body_walk(g.node))
    R.check(ok, key_of(g, 'broadcast -> (), axis 0 -> unchanged, else per-leaf transpose'), g, '%s must return () for broadcast axes, the input for axis 0 and otherwise tree_map(trans, xs)' % g.name)
  for g in (tf, tt):
    sw = [x for x in ast.walk(g.node) if isinstance(x, ast.Call) and astu.call_tail(x) == 'swapaxes']
    R.check(not sw, key_of(g, 'axis moved, not swapped'), (g, sw[0]) if sw else g, '`%s` exchanges the scan axis with axis 0; that equals moving it to / from the front only for axis 0 or 1 - for a scan axis >= 2 (or -1 on rank >= 3) '
            'the remaining axes are permuted as well, so the body sees transposed slices and outputs are stacked transposed' % (astu.short(sw[0]) if sw else ''), evidence=True)
  tr = ax.func('scan.transpose_from_front.trans')
  xp = astu.params(tr.node)[0]
  pdefs = flow.defs(tr, 'pax')
  outer_defs = flow.defs(tf, 'pax')
  nd = [n for n in ast.walk(tf.node) if isinstance(n, ast.Attribute) and n.attr == 'ndim']
  key = key_of(tr, 'negative axis normalised per leaf (x.ndim of the leaf being transposed)')
  foreign = [n for n in nd if not (isinstance(n.value, ast.Name) and n.value.id == xp and ax.func_of_node(n).qual.endswith('.trans'))]
  if outer_defs and foreign:
    R.fail(key, (tf, foreign[0]), 'a negative out_axes must be normalised with the rank of *each* leaf inside trans(x): out_axes is a prefix that can cover leaves of different rank, but `%s` computes the position once from another leaf' % astu.short(astu.enclosing_stmt(foreign[0])))
  elif pdefs and not outer_defs and not foreign:
    R.ok(key, tr)
  else:
    R.unsure(key, tr, 'normalisation of negative axes not recognised')
  R.check('perm = tuple(range(1, pax + 1)) + (0,) + tuple(range(pax + 1, x.ndim))' in astu.src(tr.node), key_of(tr, 'front axis moved to position pax'), tr, 'transpose_from_front must move axis 0 to position pax')
  R.check('perm = (ax,) + tuple(np.delete(perm, ax))' in astu.src(ax.func('scan.transpose_to_front.trans').node), key_of(tt, 'axis ax moved to the front'), tt, 'transpose_to_front must move axis ax to position 0')
  sf = ax.func('scan.scan_fn')
  R.check("raise ValueError('broadcasted variable has a data dependency on the scan body.')" in astu.src(sf.node), key_of(sf, 'broadcast outputs must be loop-invariant'), sf, 'scan_fn must reject broadcast variables that depend on the loop body')


@rule('C06.R8', 'K3', 1, 'scan: immutable broadcast collections are fed back without overriding what the body produced')
def r8(R, repo):
  f = repo.func(LI, 'scan.inner.scanned')
  key = key_of(f, 'broadcast re-injection keeps the collections the body returned')
  ps = astu.params(f.node)
  R.require(len(ps) >= 1, 'scanned: parameters changed')
  bin_ = ps[0]
  # the (in group, out group) pairs come from zip(<broadcast in>, <broadcast out>)
  zips = [n for n in ast.walk(f.node) if isinstance(n, (ast.For, ast.comprehension)) and isinstance(n.iter, ast.Call) and astu.call_name(n.iter) == 'zip' and len(n.iter.args) == 2
          and isinstance(n.target, ast.Tuple) and len(n.target.elts) == 2 and all(isinstance(e, ast.Name) for e in n.target.elts) and astu.src(n.iter.args[0]) == bin_]
  if len(zips) != 1:
    R.unsure(key, f, 'loop over zip(%s, <broadcast out>) not found' % bin_)
    return
  z = zips[0]
  gin, gout = z.target.elts[0].id, z.target.elts[1].id
  scope = z if isinstance(z, ast.For) else astu.parent(z)
  merges = [d for d in ast.walk(scope) if isinstance(d, ast.Dict) and d.keys and all(k is None for k in d.keys) and {astu.src(v) for v in d.values} == {gin, gout}]
  stores = [n for n in ast.walk(scope) if isinstance(n, ast.Assign) and len(n.targets) == 1 and isinstance(n.targets[0], ast.Subscript) and astu.src(n.targets[0].value) == gout]
  upd = [x for x in ast.walk(scope) if isinstance(x, ast.Call) and astu.src(x.func) == gout + '.update' and x.args and astu.src(x.args[0]) == gin]
  if merges:
    d = merges[0]
    last = astu.src(d.values[-1])
    R.check(last == gout, key, (f, d), 'in `%s` the incoming broadcast group is unpacked last, so a stale input collection overrides the one the scan body just produced (e.g. freshly initialised broadcast parameters are dropped)' % astu.short(d), evidence=True)
  elif upd:
    R.fail(key, (f, upd[0]), '`%s` overwrites the collections the body produced with the incoming broadcast group' % astu.short(upd[0]))
  elif stores and isinstance(z, ast.For):
    c = cfg_of(f)
    nodes = [n for st in stores for n in c.nodes_for(st)]
    col = astu.src(stores[0].targets[0].slice)
    p_notin = lambda t, _col=col, _g=gout: isinstance(t, ast.Compare) and len(t.ops) == 1 and isinstance(t.ops[0], ast.NotIn) and astu.src(t.left) == _col and astu.src(t.comparators[0]) == _g
    p_in = lambda t, _col=col, _g=gout: isinstance(t, ast.Compare) and len(t.ops) == 1 and isinstance(t.ops[0], ast.In) and astu.src(t.left) == _col and astu.src(t.comparators[0]) == _g
    if all(evid.guarded(c, nd, p_in, negative=True) == 'yes' for nd in nodes):
      R.ok(key, f)   # `if col in out_group: continue` before the store
    else:
      evid.judge_guard(R, c, nodes, p_notin, key, f,
                       'a collection may be copied from the incoming broadcast group only when the body did not return it (`if col not in out_group`): otherwise the stale input overrides the fresh output')
  else:
    R.unsure(key, f, 're-injection of the immutable broadcast collections not recognised')


@rule('C06.R9', 'K4', 2, 'class transforms: options given per method (methods={...}) are not overridden by the options of the transform itself')
def r9(R, repo):
  tr = repo.mod(TR)
  for q in ('module_class_lift_transform', 'module_class_lift_transform_cached'):
    f = tr.func(q)
    key = key_of(f, 'per-method options win')
    comps = [n for n in astu.body_walk(f.node) if isinstance(n, ast.DictComp) and isinstance(n.generators[0].iter, ast.Call) and astu.src(n.generators[0].iter) == 'methods.items()']
    if len(comps) != 1 or not isinstance(comps[0].value, ast.Tuple) or len(comps[0].value.elts) != 2:
      R.unsure(key, f, 'the {method: (args, kwargs)} table built from methods.items() was not recognised')
      continue
    v = astu.src(comps[0].generators[0].target.elts[1]) if isinstance(comps[0].generators[0].target, ast.Tuple) else None
    kw = comps[0].value.elts[1]
    if astu.src(kw) == v:
      R.ok(key, (f, comps[0]))
    elif isinstance(kw, ast.Dict) and all(k is None for k in kw.keys) and v in [astu.src(x) for x in kw.values]:
      R.check(astu.src(kw.values[-1]) == v, key, (f, kw), evidence=True, msg_fail='`%s` unpacks the per-method options before the transform-wide ones: the wrapper\'s defaults (in_axes=0, out_axes=0, ...) override what was asked for a method, so e.g. nn.vmap(Cls, methods={\'f\': dict(in_axes=1)}) maps axis 0' % astu.short(kw))
    else:
      R.unsure(key, (f, kw), 'per-method options expression `%s` not recognised' % astu.short(kw))


@rule('C06.R5', 'K6', 7, 'options of nn.scan / nn.vmap / nn.remat_scan reach lift.*, axes_scan.scan, lax.scan and jax.vmap unchanged')
def r5(R, repo):
  _c05.check_lift_plumbing(R, repo, 'scan', 'lift.scan', ['variable_axes', 'variable_broadcast', 'variable_carry', 'split_rngs', 'in_axes', 'out_axes', 'length', 'reverse', 'unroll', '_split_transpose', 'data_transform', 'metadata_params', 'check_constancy_invariants'])
  _c05.check_lift_plumbing(R, repo, 'vmap', 'lift.vmap', ['variable_axes', 'split_rngs', 'in_axes', 'out_axes', 'axis_size', 'axis_name', 'spmd_axis_name', 'metadata_params'])
  _c05.check_lift_plumbing(R, repo, 'remat_scan', 'lift.remat_scan', ['lengths', 'policy', 'variable_broadcast', 'variable_carry', 'variable_axes', 'split_rngs'])
  mod = repo.mod(LI)
  sd = mod.func('scan.inner.scanned')
  d = [x for x in sd.node.decorator_list if 'axes_scan.scan' in astu.src(x)]
  R.require(len(d) == 1, 'scan.inner.scanned: axes_scan.scan decorator not found')
  _kw_forward(R, mod.func('scan'), d[0], ('length', 'reverse', 'unroll', '_split_transpose', 'check_constancy_invariants'), key_of(sd, 'axes_scan.scan(length, reverse, unroll, _split_transpose, check_constancy_invariants)'), 'lift.scan must forward its options to axes_scan.scan')
  mp = mod.func('vmap.inner.mapped')
  d = [x for x in mp.node.decorator_list if 'jax.vmap' in astu.src(x)]
  R.require(len(d) == 1, 'vmap.inner.mapped: jax.vmap decorator not found')
  _kw_forward(R, mod.func('vmap'), d[0], ('axis_name', 'axis_size', 'spmd_axis_name'), key_of(mp, 'jax.vmap(axis_name, axis_size, spmd_axis_name)'), 'lift.vmap must forward its options to jax.vmap')
  rs = mod.func('remat_scan')
  opts = [p for p in astu.params(rs.node) if p not in ('body_fn', 'lengths')]
  pos = astu.pos_params(rs.node)
  recs = [x for x in ast.walk(rs.node) if isinstance(x, ast.Call) and astu.call_name(x) == 'remat_scan']
  R.require(len(recs) == 1, 'remat_scan: recursive call not found')
  evid.judge_forward(R, repo, rs, recs[0], opts, key_of(rs, 'inner levels receive every option'),
                     'the recursive remat_scan call for the inner levels must forward every option: inner levels otherwise silently fall back to the defaults (e.g. split every rng stream)', pos={o: pos.index(o) for o in opts})
  evid.judge_call_args(R, repo, rs, recs[0], ['body_fn', 'lengths[1:]'], key_of(rs, 'recursion on lengths[1:] with the same body'), (rs, recs[0]), 'the recursion must continue with the same body and lengths[1:]')
  sf = types.single_def(rs.node, 'scan_fn')
  if isinstance(sf, ast.Call):
    _kw_forward(R, rs, sf, ('variable_broadcast', 'variable_carry', 'variable_axes', 'split_rngs'), key_of(rs, 'every level scans with the user\'s variable/rng options'), 'remat_scan must build its scan with the user\'s options')
  else:
    R.unsure(key_of(rs, 'every level scans with the user\'s variable/rng options'), rs, 'scan_fn = functools.partial(scan, …) not found')


@rule('C06.R6', 'K2', 14, 'scopes are repacked and published exactly once around the mapped / scanned call (shared with C05.R1, C05.R2)')
def r6(R, repo):
  _c05.r1(R, repo)
  _c05.check_put_merges(R, repo)


@rule('C06.R7', 'K1', 8, 'partition metadata follows the stacked axis (shared with C19.R2)')
def r7(R, repo):
  _c19.r2(R, repo)


meta('C06',
     explanation='Positional role routing of broadcast / carry / per-step collections through lift.scan -> scanned -> axes_scan, in/out axis routing for jax.vmap and axes_scan.scan, '
     'rng split flag <-> mapped axis agreement, transposition pairing (to_front(in_axes) before lax.scan, from_front(out_axes) after, per-leaf normalisation of negative axes) in both '
     'axes_scan siblings, and keyword plumbing from nn.scan / nn.vmap / nn.remat_scan down to lax.scan / jax.vmap including the recursive remat_scan call.',
     not_decided=['equality with the unrolled loop / the per-example stack (values)', 'broadcast "initialised once" (jax partial evaluation)', 'unroll factors', 'key values'],
     mutants=[
         Mutant('C06-m1', AX, "    def trans(x):\n      if ax < 0:\n        pax = x.ndim + ax\n      else:\n        pax = ax\n      assert pax < x.ndim",
                "    leaves = jax.tree_util.tree_leaves(xs)\n    pax = leaves[0].ndim + ax if ax < 0 else ax\n\n    def trans(x):\n      assert pax < x.ndim", 'C06.R4', why='seed C06-A'),
         Mutant('C06-m2', LI, "      carry = remat_scan(\n        body_fn,\n        lengths[1:],\n        policy,\n        variable_broadcast,\n        variable_carry,\n        variable_axes,\n        split_rngs,\n      )(scope, carry)",
                "      carry = remat_scan(\n        body_fn,\n        lengths[1:],\n        policy=policy,\n        variable_broadcast=variable_broadcast,\n        variable_carry=variable_carry,\n        variable_axes=variable_axes,\n      )(scope, carry)", 'C06.R5', why='seed C06-B'),
         Mutant('C06-m3', LI, "        out_axes=(out_axes, variable_out_axes),\n        axis_name=axis_name,", "        out_axes=(out_axes, variable_in_axes),\n        axis_name=axis_name,", 'C06.R2'),
         Mutant('C06-m4', LI, "  rng_axes = tuple(0 if rng_split else None for rng_split in rng_splits)", "  rng_axes = tuple(None if rng_split else 0 for rng_split in rng_splits)", 'C06.R3'),
         Mutant('C06-m5', AX, "      c, ys = lax.scan(\n          body_fn, init, xs, length=length, reverse=reverse, unroll=unroll\n      )\n    ys = jax.tree_util.tree_map(transpose_from_front, out_axes, ys)\n    return broadcast_in, c, ys",
                "      c, ys = lax.scan(\n          body_fn, init, xs, length=length, unroll=unroll\n      )\n    ys = jax.tree_util.tree_map(transpose_from_front, out_axes, ys)\n    return broadcast_in, c, ys", 'C06.R4'),
         Mutant('C06-m7', AX, "      perm = (ax,) + tuple(np.delete(perm, ax))\n      return jnp.transpose(x, perm)", "      return jnp.swapaxes(x, ax, 0)", 'C06.R4', why='seed C06-C (round 2)'),
         Mutant('C06-m6', LI, "    broadcast_vars = variable_groups[0]\n    carry_vars = variable_groups[1]", "    broadcast_vars = variable_groups[1]\n    carry_vars = variable_groups[0]", 'C06.R1'),
     ])
