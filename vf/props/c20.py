"""C20 — host-side data helpers: iterators deliver every item once, in order, then the error / stop."""
from __future__ import annotations

import ast

from .. import astu, evid, types
from ..cfg import cfg_of
from ..report import key_of
from . import Mutant, meta, rule

PI = 'flax/training/prefetch_iterator.py'
JU = 'flax/jax_utils.py'
MUT = {'append', 'pop', 'popleft', 'appendleft', 'clear', 'extend', 'insert', 'remove'}


def _self_attr(n, selfname='self'):
  return isinstance(n, ast.Attribute) and isinstance(n.value, ast.Name) and n.value.id == selfname


def _with_locks(node, lock_src, method=None):
  """True if `node` is lexically inside `with <lock_src>:`, or sits in a nested def/lambda that is only ever
  handed to `<lock>.wait_for(...)` from inside such a block (the condition evaluates it with the lock held)."""
  for a in astu.ancestors(node):
    if isinstance(a, ast.With) and any(astu.src(i.context_expr) == lock_src or
                                       (isinstance(i.context_expr, ast.Name) and method is not None and astu.src(types.single_def(method, i.context_expr.id) or ast.Constant(value=0)) == lock_src)
                                       for i in a.items):
      return True
    if isinstance(a, astu.FUNC_TYPES) and method is not None and a is not method:
      uses = [n for n in ast.walk(method) if isinstance(n, ast.Name) and n.id == a.name and isinstance(n.ctx, ast.Load)]
      if not uses:
        return False
      for u in uses:
        par = astu.parent(u)
        if not (isinstance(par, ast.Call) and u in par.args and astu.src(par.func) == lock_src + '.wait_for' and _with_locks(par, lock_src)):
          return False
      return True
  return False


def _cls_info(repo):
  mod = repo.mod(PI)
  cls = mod.cls('PrefetchIterator')
  meths = mod.methods('PrefetchIterator')
  init = meths.get('__init__')
  if init is None:
    from ..model import AnalysisError
    raise AnalysisError('PrefetchIterator.__init__ vanished')
  # thread target
  target = None
  for c in astu.func_calls(init):
    if (astu.call_name(c) or '').endswith('Thread'):
      t = astu.kwarg(c, 'target')
      if t is not None and _self_attr(t):
        target = t.attr
  return mod, cls, meths, init, target


def _accesses(mod, qual_prefix):
  """All self.X accesses in a method including its nested defs/lambdas: (attr, node, kind)."""
  out = []
  fnode = mod.func(qual_prefix).node
  for n in ast.walk(fnode):
    if _self_attr(n):
      kind = 'store' if isinstance(n.ctx, (ast.Store, ast.Del)) else 'load'
      par = astu.parent(n)
      if isinstance(par, ast.Attribute) and par.value is n and par.attr in MUT and isinstance(astu.parent(par), ast.Call):
        kind = 'mutate'
      out.append((n.attr, n, kind))
  return out


@rule('C20.R1', 'K11', 8, 'PrefetchIterator: shared mutable fields are touched only under the condition lock')
def r1(R, repo):
  mod, cls, meths, init, target = _cls_info(repo)
  R.require(target is not None and target in meths, 'thread target method not found')
  lock = None
  for n in astu.body_walk(init.node):
    if isinstance(n, ast.Assign) and _self_attr(n.targets[0]) and isinstance(n.value, ast.Call) and \
        (astu.call_name(n.value) or '').split('.')[-1] in ('Condition', 'Lock', 'RLock'):
      lock = n.targets[0].attr
  R.require(lock is not None, 'no lock/condition attribute initialised in __init__')
  lock_src = 'self.' + lock
  producer = {a for a, n, k in _accesses(mod, 'PrefetchIterator.' + target)}
  written = set()
  per_method = {}
  for name in meths:
    if name == '__init__':
      continue
    acc = _accesses(mod, 'PrefetchIterator.' + name)
    per_method[name] = acc
    written |= {a for a, n, k in acc if k in ('store', 'mutate')}
  consumer = {a for name, acc in per_method.items() if name != target for a, n, k in acc}
  shared = sorted((producer & consumer & written) - {lock})
  R.require(len(shared) >= 3, 'expected shared mutable fields (_buffer, _active, _error), found %s' % shared)
  R.note('lock=%s shared mutable fields=%s thread target=%s' % (lock, shared, target))
  # methods used only as predicates of <lock>.wait_for(...) inside a locked block run with the lock held
  pred_methods = set()
  for name in meths:
    uses = [(m2, n) for m2 in meths for n in ast.walk(mod.func('PrefetchIterator.' + m2).node) if _self_attr(n) and n.attr == name and isinstance(n.ctx, ast.Load)]
    if uses and all(isinstance(astu.parent(n), ast.Call) and n in astu.parent(n).args and astu.src(astu.parent(n).func) == lock_src + '.wait_for' and
                    _with_locks(astu.parent(n), lock_src, mod.func('PrefetchIterator.' + m2).node) for m2, n in uses):
      pred_methods.add(name)
  for name, acc in sorted(per_method.items()):
    for a, n, k in acc:
      if a not in shared:
        continue
      if name in pred_methods:
        R.ok(key_of('PrefetchIterator.' + name, '%s of self.%s' % (k, a), astu.short(astu.enclosing_stmt(n), 60)), (mod.func('PrefetchIterator.' + name), n), 'predicate evaluated by wait_for under the lock')
        continue
      key = key_of('PrefetchIterator.' + name, '%s of self.%s' % (k, a), astu.short(astu.enclosing_stmt(n), 60))
      R.check(_with_locks(n, lock_src, mod.func('PrefetchIterator.' + name).node), key, (mod.func('PrefetchIterator.' + name), n), evidence=True, msg_fail=
              'self.%s is shared between the prefetch thread and the consumer but is accessed (%s) outside `with %s:`' % (a, k, lock_src))


@rule('C20.R2', 'K1', 4, 'PrefetchIterator: every field the thread uses is initialised before the thread starts')
def r2(R, repo):
  mod, cls, meths, init, target = _cls_info(repo)
  R.require(target is not None, 'thread target not found')
  used = {a for a, n, k in _accesses(mod, 'PrefetchIterator.' + target)}
  for name in meths:
    if name not in ('__init__', target):
      pass
  # fields any method reads (the consumer may run right after __init__ returns; the producer right after start())
  c = cfg_of(init)
  starts = [n for n in c.nodes if any(isinstance(x, ast.Call) and astu.call_tail(x) == 'start' for x in ast.walk(n.stmt or ast.Pass()))
            and n.kind == 'stmt']
  R.require(len(starts) == 1, 'Thread.start() call not found in __init__')
  st = starts[0]
  after = c.reach([st])
  stores = [n for n in c.nodes if n.kind == 'stmt' and isinstance(n.stmt, ast.Assign) and _self_attr(n.stmt.targets[0])]
  R.require(len(stores) >= 5, 'field initialisations not found in __init__')
  # every field written by the thread target or read by it must be initialised before start
  written_by_thread = {a for a, n, k in _accesses(mod, 'PrefetchIterator.' + target) if k in ('store', 'mutate')}
  for s in stores:
    attr = s.stmt.targets[0].attr
    if attr not in used and attr not in written_by_thread:
      continue
    key = key_of(init, 'self.%s initialised before the thread starts' % attr)
    R.check(s not in after and c.dominated(st, [s]), key, (init, s.stmt), evidence=True, msg_fail=
            'self.%s is assigned after self._thread.start(): the prefetch thread can run first, and this late assignment can overwrite '
            'what the thread stored (e.g. an exception raised by the very first item is lost) or the thread can read an unset field' % attr,
            witness=c.witness(c.entry, s))
  init_attrs = {s.stmt.targets[0].attr for s in stores}
  missing = sorted((used | written_by_thread) - init_attrs - set(meths))
  R.check(not missing, key_of(init, 'all thread-visible fields initialised'), init, 'fields used by the thread but never initialised: %s' % missing, evidence=True)


@rule('C20.R3', 'K4+K2', 6, 'FIFO discipline: items are appended at one end, consumed from the other, each exactly once')
def r3(R, repo):
  mod, cls, meths, init, target = _cls_info(repo)
  prod = mod.func('PrefetchIterator.' + target)
  nxt = mod.func('PrefetchIterator.__next__')
  apps = [c for c in astu.func_calls(prod) if astu.call_tail(c) == 'append' and astu.src(c.func.value) == 'self._buffer']
  pops = [c for c in astu.func_calls(nxt) if astu.call_tail(c) in ('pop', 'popleft') and astu.src(c.func.value) == 'self._buffer']
  R.require(len(apps) == 1 and len(pops) == 1, 'append/pop on self._buffer not found')
  pop = pops[0]
  fifo = (astu.call_tail(pop) == 'popleft') or (len(pop.args) == 1 and astu.is_const(pop.args[0], 0))
  R.check(fifo, key_of(nxt, 'consumes the oldest item'), (nxt, pop), evidence=not pop.args or isinstance(pop.args[0], ast.Constant), msg_fail= 'items are appended at the end of the buffer, so the consumer must take index 0 '
          '(`%s` takes another element: order is not preserved)' % astu.short(pop))
  # returned item is the popped one
  st = astu.enclosing_stmt(pop)
  ok = isinstance(st, ast.Assign) and isinstance(st.targets[0], ast.Name)
  if ok:
    v = st.targets[0].id
    c = cfg_of(nxt)
    rets = [n for n in c.nodes if isinstance(n.stmt, ast.Return)]
    ok = len(rets) == 1 and astu.src(rets[0].stmt.value) == v and c.dominated(rets[0], c.nodes_of_stmt(st))
  R.judge(isinstance(st, ast.Assign) and isinstance(st.targets[0], ast.Name) and len([n for n in cfg_of(nxt).nodes if isinstance(n.stmt, ast.Return)]) == 1, ok, key_of(nxt, 'returns the popped item'), (nxt, pop), '__next__ must return exactly the item it removed from the buffer')
  # producer: item = next(source); appended exactly once per fetched item
  c = cfg_of(prod)
  nx = [n for n in c.nodes if isinstance(n.stmt, ast.Assign) and isinstance(n.stmt.value, ast.Call) and astu.call_name(n.stmt.value) == 'next']
  R.require(len(nx) == 1, 'item = next(self._data_iter) not found')
  item = astu.src(nx[0].stmt.targets[0])
  an = c.nodes_for(apps[0])
  ok = astu.src(apps[0].args[0]) == item and astu.src(nx[0].stmt.value.args[0]) == 'self._data_iter'
  # every non-exceptional path from the fetch passes the append before fetching again / returning
  nonexc = c.exc_edges()
  ok = ok and an and c.must_pass(nx[0], nx[0], an, avoid_edges=nonexc) and c.must_pass(nx[0], c.exit, an, avoid_edges=nonexc) and \
      not any(x in c.reach([a], avoid=[nx[0]]) for a in an for x in an)
  R.judge(bool(an) and astu.src(apps[0].args[0]) == item, ok, key_of(prod, 'each fetched item appended exactly once'), (prod, apps[0]),
          'the prefetch loop must append every item it fetched exactly once before fetching the next one')
  src_uses = [n for n in ast.walk(prod.node) if _self_attr(n) and n.attr == '_data_iter']
  R.check(len(src_uses) == 1, key_of(prod, 'source consumed only by next()'), prod, 'the source iterator must be consumed in exactly one place')
  # prefetch_to_device
  m2 = repo.mod(JU)
  f = m2.func('prefetch_to_device')
  enq = m2.func('prefetch_to_device.enqueue')
  qa = [c_ for c_ in astu.func_calls(enq) if astu.call_tail(c_) == 'append' and astu.src(c_.func.value) == 'queue']
  qp = [c_ for c_ in astu.func_calls(f) if astu.call_tail(c_) in ('popleft', 'pop') and astu.src(c_.func.value) == 'queue']
  q = types.single_def(f.node, 'queue')
  is_deque = isinstance(q, ast.Call) and (astu.call_name(q) or '').endswith('deque')
  ok = len(qa) == 1 and len(qp) == 1 and ((is_deque and astu.call_tail(qp[0]) == 'popleft') or (astu.call_tail(qp[0]) == 'pop' and qp[0].args and astu.is_const(qp[0].args[0], 0)))
  R.judge(len(qa) == 1 and len(qp) == 1 and q is not None, ok, key_of(f, 'queue.append <-> queue.popleft'), f, 'prefetch_to_device must yield the oldest queued item (append / popleft)')
  loops = [n for n in astu.body_walk(enq.node) if isinstance(n, ast.For)]
  ok = len(loops) == 1 and isinstance(loops[0].iter, ast.Call) and astu.call_name(loops[0].iter) == 'itertools.islice' and \
      [astu.src(a) for a in loops[0].iter.args] == [astu.params(f.node)[0], astu.params(enq.node)[0]] and \
      len(qa) == 1 and astu.src(loops[0].target) in astu.src(qa[0].args[0])
  uses = [n for n in ast.walk(f.node) if isinstance(n, ast.Name) and n.id == astu.params(f.node)[0] and isinstance(n.ctx, ast.Load)]
  R.check(ok and len(uses) == 1, key_of(enq, 'source consumed only through islice(iterator, n), each item queued'), enq,
          'enqueue must take up to n items from the source with itertools.islice and queue each of them; the source may not be consumed elsewhere')
  c = cfg_of(f)
  ys = [n for n in c.nodes if n.kind == 'stmt' and isinstance(n.stmt, ast.Expr) and isinstance(n.stmt.value, ast.Yield)]
  enq_calls = [n for n in c.nodes if n.kind == 'stmt' and isinstance(n.stmt, ast.Expr) and isinstance(n.stmt.value, ast.Call) and astu.call_name(n.stmt.value) == 'enqueue']
  wl = [n for n in c.nodes if n.kind == 'while']
  ok = len(ys) == 1 and len(enq_calls) == 2 and len(wl) == 1 and astu.src(wl[0].ast) == 'queue'
  if ok:
    first = [e for e in enq_calls if e not in c.loop_body_nodes(wl[0].stmt)]
    inner = [e for e in enq_calls if e in c.loop_body_nodes(wl[0].stmt)]
    ok = len(first) == 1 and len(inner) == 1 and astu.src(first[0].stmt.value.args[0]) == astu.params(f.node)[1] and \
        astu.is_const(inner[0].stmt.value.args[0], 1) and c.dominated(wl[0], first) and inner[0] in c.reach([ys[0]], avoid=[wl[0]]) and \
        isinstance(ys[0].stmt.value.value, ast.Call) and ys[0].stmt.value.value is qp[0]
  R.judge(len(ys) == 1 and len(enq_calls) == 2 and len(wl) == 1 and astu.src(wl[0].ast) == 'queue' and len(qp) == 1, ok, key_of(f, 'fill with enqueue(size); per yield refill enqueue(1); stop when queue empties'), f,
          'prefetch_to_device must fill the buffer once, then yield queue.popleft() and refill one item per yield until the queue is empty')


@rule('C20.R4', 'K1', 7, 'PrefetchIterator: buffered items first, then the source error, then StopIteration; state changes are signalled')
def r4(R, repo):
  mod, cls, meths, init, target = _cls_info(repo)
  nxt = mod.func('PrefetchIterator.__next__')
  c = cfg_of(nxt)
  POS_B, NEG_B = ('self._buffer', 'len(self._buffer) > 0', 'len(self._buffer)', 'len(self._buffer) != 0'), ('not self._buffer', 'len(self._buffer) == 0')
  POS_E, NEG_E = ('self._error', 'self._error is not None'), ('not self._error', 'self._error is None')
  tb = [n for n in c.nodes if n.kind == 'if' and astu.src(n.ast) in POS_B + NEG_B]
  te = [n for n in c.nodes if n.kind == 'if' and astu.src(n.ast) in POS_E + NEG_E]
  R.require(len(tb) == 1 and len(te) >= 1, '__next__: buffer / error tests not found')
  te = te[-1:]

  def holds(node, t, truth, pos):
    """node is reached only when the tested condition (in its positive reading) has the given truth value"""
    positive = astu.src(t.ast) in pos
    return c.edge_guarded(node, t, 'T' if truth == positive else 'F')
  raises = [n for n in c.nodes if isinstance(n.stmt, ast.Raise)]
  rerr = [n for n in raises if astu.src(n.stmt.exc) == 'self._error']
  rstop = [n for n in raises if astu.raised_name(n.stmt) == 'StopIteration']
  R.require(len(rerr) >= 1 and len(rstop) == 1, '__next__: raise self._error / raise StopIteration not found')
  tb_all = [n for n in c.nodes if n.kind == 'if' and astu.src(n.ast) in POS_B + NEG_B]
  for r_ in rerr:
    drained = any(holds(r_, t_, False, POS_B) for t_ in tb_all)
    R.check(drained, key_of(nxt, 'error only after the buffer is drained'), (nxt, r_.stmt), evidence=True, msg_fail=
            'the source error must be raised only when no buffered item is left (items that preceded the error come first): this `raise self._error` can run while items are still buffered')
  R.check(holds(rstop[0], tb[0], False, POS_B) and holds(rstop[0], te[0], False, POS_E), key_of(nxt, 'StopIteration only without items and without error'), (nxt, rstop[0].stmt), evidence=True, msg_fail=
          'StopIteration must be raised only when the buffer is empty and no error was recorded')
  waits = [x for x in astu.func_calls(nxt) if astu.call_tail(x) == 'wait_for']
  ok = len(waits) == 1 and isinstance(waits[0].args[0], ast.Lambda)
  if ok:
    b = waits[0].args[0].body
    ok = isinstance(b, ast.BoolOp) and isinstance(b.op, ast.Or) and sorted(astu.src(v) for v in b.values) == ['not self._active', 'self._buffer']
    ok = ok and all(c.dominated(t, c.nodes_for(waits[0])) for t in tb)
  R.check(ok, key_of(nxt, 'waits for an item or the end of the producer'), nxt,
          '__next__ must wait for `self._buffer or not self._active` before looking at the buffer')
  prod = mod.func('PrefetchIterator.' + target)
  handlers = [n for n in ast.walk(prod.node) if isinstance(n, ast.ExceptHandler)]
  R.require(len(handlers) == 1 and handlers[0].name, 'prefetch loop: `except Exception as e` handler not found')
  h = handlers[0]
  txt = [astu.src(s) for s in ast.walk(h) if isinstance(s, ast.stmt)]
  ok = 'self._error = %s' % h.name in txt and 'self._active = False' in txt and any(isinstance(s, ast.Return) for s in ast.walk(h))
  tr = [n for n in ast.walk(prod.node) if isinstance(n, ast.Try)][0]
  ok = ok and any('next(self._data_iter)' in astu.src(s) for s in tr.body)
  R.check(ok, key_of(prod, 'source exception recorded, producer deactivated, loop left'), (prod, h),
          'an exception raised by the source must be stored in self._error, clear self._active and end the loop')
  # every locked block that changes shared state notifies afterwards
  n_blocks = 0
  for name, f in sorted(meths.items()):
    if name == '__init__':
      continue
    for w in [n for n in ast.walk(f.node) if isinstance(n, ast.With) and any(astu.src(i.context_expr) == 'self._cond' for i in w_items(n))]:
      changes = []
      for n in ast.walk(w):
        if _self_attr(n) and n.attr in ('_buffer', '_active', '_error'):
          par = astu.parent(n)
          if isinstance(n.ctx, ast.Store) or (isinstance(par, ast.Attribute) and par.attr in MUT):
            changes.append(n)
      if not changes:
        continue
      n_blocks += 1
      cf = cfg_of(f)
      nots = [x for x in ast.walk(w) if isinstance(x, ast.Call) and astu.src(x.func) == 'self._cond.notify_all']
      nn = [y for x in nots for y in cf.nodes_for(x)]
      ok = bool(nn)
      for ch in changes:
        for cn in cf.nodes_for(ch):
          wx = [x for x in cf.nodes if x.kind == 'withexit' and x.stmt is w]
          for x in wx:
            if x in cf.reach([cn], avoid_edges=cf.exc_edges()) and not cf.must_pass(cn, x, nn, avoid_edges=cf.exc_edges()):
              ok = False
      R.check(ok, key_of(f, 'state change followed by notify_all', astu.short(astu.enclosing_stmt(changes[0]), 50)), (f, w), evidence=True, msg_fail=
              'a change of the shared state under the lock must be followed by self._cond.notify_all() before the lock is released '
              '(otherwise the other side can wait forever)')
  R.require(n_blocks >= 4, 'expected >= 4 locked blocks that change shared state')


@rule('C20.R5', 'K1+K4', 4, 'pad_shard_unpad: padding rows are appended after the real rows in flat order; unpad keeps the first b flat rows')
def r5(R, repo):
  m2 = repo.mod(JU)
  pad = m2.func('pad_shard_unpad.pad_shard_unpad_wrapper.pad')
  unpad = m2.func('pad_shard_unpad.pad_shard_unpad_wrapper.unpad')
  c = cfg_of(pad)
  x = astu.params(pad.node)[0]
  cats = [n for n in c.nodes if isinstance(n.stmt, ast.Assign) and isinstance(n.stmt.value, ast.Call) and astu.call_name(n.stmt.value) == 'np.concatenate']
  resh = [n for n in c.nodes if n.kind == 'stmt' and any(isinstance(y, ast.Call) and astu.call_tail(y) == 'reshape' for y in ast.walk(n.stmt))]
  R.require(len(cats) >= 1 and len(resh) == 1, 'pad: np.concatenate / reshape not found')
  for n in cats:
    call = n.stmt.value
    ax = astu.kwarg(call, 'axis') or (call.args[1] if len(call.args) > 1 else None)
    lst = call.args[0]
    ok = (ax is None or astu.is_const(ax, 0)) and isinstance(lst, ast.List) and len(lst.elts) == 2 and astu.src(lst.elts[0]) == x and astu.src(n.stmt.targets[0]) == x and \
        isinstance(lst.elts[1], ast.Call) and astu.call_name(lst.elts[1]) == 'np.zeros'
    zero_like = isinstance(lst, ast.List) and len(lst.elts) == 2 and any(isinstance(e_, ast.Call) and astu.call_tail(e_) in ('zeros', 'zeros_like', 'full', 'ones') for e_ in evid.expand(pad, lst.elts[1]) if isinstance(e_, ast.AST))
    ok = ok or ((ax is None or astu.is_const(ax, 0)) and isinstance(lst, ast.List) and len(lst.elts) == 2 and astu.src(lst.elts[0]) == x and astu.src(n.stmt.targets[0]) == x and zero_like)
    swapped = isinstance(lst, ast.List) and len(lst.elts) == 2 and astu.src(lst.elts[1]) == x
    R.judge(ok or swapped or (isinstance(ax, ast.Constant) and ax.value != 0), ok, key_of(pad, 'zeros appended after the real rows along axis 0', astu.short(call, 50)), (pad, n.stmt),
            'padding must be appended *after* the real rows along the flat batch axis (`np.concatenate([x, zeros], axis=0)`); `%s` places padding elsewhere, so the first b rows of the flattened output are no longer the real rows' % astu.short(call, 90))
  ok = all(resh[0] in c.reach([n]) and n not in c.reach(resh) for n in cats)
  R.check(ok, key_of(pad, 'flat padding first, reshape to (devices, per-device batch) last'), pad, evidence=True, msg_fail= 'the array must be padded while still flat and reshaped to (d, db, ...) only afterwards: padding after the reshape interleaves zero rows between the devices\' real rows')
  rs = [y for y in ast.walk(resh[0].stmt) if isinstance(y, ast.Call) and astu.call_tail(y) == 'reshape'][0]
  R.judge(sorted(astu.src(a) for a in rs.args) == sorted(['d', 'db', '*shape']), [astu.src(a) for a in rs.args] == ['d', 'db', '*shape'], key_of(pad, 'reshape(d, db, *shape)'), pad, 'pad must reshape to (d, db, *shape)')
  t = astu.src(unpad.node)
  R.check('.reshape([np.prod(x.shape[:2]), *x.shape[2:]])[:b]' in t, key_of(unpad, 'flatten the two leading axes, keep the first b rows'), unpad, 'unpad must merge the (device, per-device) axes and keep exactly the first b rows')


@rule('C20.R6', 'K4', 1, 'scan_in_dim: the permutation is inverted entry by entry (valid for negative axes)')
def r6(R, repo):
  m2 = repo.mod(JU)
  f = m2.func('_invert_perm')
  arg = [x for x in astu.func_calls(f) if astu.call_tail(x) == 'argsort']
  st = [n for n in astu.body_walk(f.node) if isinstance(n, ast.Assign) and isinstance(n.targets[0], ast.Subscript)]
  key = key_of(f, 'perm_inv[j] = i for every (i, j)')
  if arg:
    R.fail(key, (f, arg[0]), '_invert_perm uses `%s`: scan_in_dim builds the permutation from the user\'s axes, which may be negative, and argsort of a permutation with negative entries is not its inverse '
           '(the entry-by-entry assignment perm_inv[j] = i is, through negative indexing)' % astu.short(arg[0]))
  elif len(st) == 1:
    lp = [n for n in astu.body_walk(f.node) if isinstance(n, ast.For)]
    ok = len(lp) == 1 and isinstance(lp[0].iter, ast.Call) and astu.call_name(lp[0].iter) == 'enumerate' and isinstance(lp[0].target, ast.Tuple) and \
        astu.src(st[0].targets[0].slice) == astu.src(lp[0].target.elts[1]) and astu.src(st[0].value) == astu.src(lp[0].target.elts[0])
    R.judge(len(lp) == 1 and isinstance(lp[0].target, ast.Tuple) and len(lp[0].target.elts) == 2, ok, key, f, '_invert_perm must set perm_inv[j] = i for every (i, j) in enumerate(perm)')
  else:
    R.unsure(key, f, '_invert_perm not recognised')


def w_items(w):
  return w.items



@rule('C20.R7', 'K4', 2, 'scan_in_dim moves the scanned axes to the front on the way in and back to their place on the way out (inverse permutations)')
def r7(R, repo):
  mod = repo.mod(JU)
  f = mod.func('scan_in_dim')
  kinds = {}
  for q, g in mod.funcs.items():
    if q.startswith('scan_in_dim.') and q.count('.') == 1:
      tr = [x for x in astu.func_calls(g) if astu.call_tail(x) == 'transpose' and x.args]
      if len(tr) == 1:
        inv = any(isinstance(y, ast.Call) and astu.call_name(y) == '_invert_perm' for a_ in tr[0].args for e_ in evid.expand(g, a_) if isinstance(e_, ast.AST) for y in ast.walk(e_))
        kinds[g.name] = 'inverse' if inv else 'forward'
  R.require(sorted(kinds.values()) == ['forward', 'inverse'], 'scan_in_dim: the forward / inverse transpose helpers were not recognised (%s)' % kinds)
  c = cfg_of(f)
  scan = [nd for x in astu.func_calls(f) if astu.call_name(x) == '_scan_nd' for nd in c.nodes_for(x)]
  R.require(len(scan) == 1, 'scan_in_dim: _scan_nd call not found')
  maps = [(nd, x) for x in astu.func_calls(f) if astu.call_tail(x) == 'tree_map' and len(x.args) == 2 and isinstance(x.args[0], ast.Name) and x.args[0].id in kinds for nd in c.nodes_for(x)
          if astu.enclosing_func(x) is f.node]
  before = [(nd, x) for nd, x in maps if scan[0] in c.reach([nd]) and nd not in c.reach(scan)]
  after = [(nd, x) for nd, x in maps if nd in c.reach(scan)]
  for label, group, want in (('inputs moved to the front before the scan', before, 'forward'), ('outputs moved back after the scan', after, 'inverse')):
    key = key_of(f, label)
    if len(group) != 1:
      R.unsure(key, f, 'transposition of the %s not recognised' % ('inputs' if want == 'forward' else 'outputs'))
      continue
    nd, x = group[0]
    R.check(kinds[x.args[0].id] == want, key, (f, x), evidence=True, msg_fail='`%s` applies the %s permutation where the %s one is needed: for axis choices whose permutation is not its own inverse (e.g. axis=2 of a 3-D array) the result comes back with rotated axes' % (
        astu.short(x), kinds[x.args[0].id], want))


@rule('C20.R8', 'K8', 1, 'onehot: hot entries equal on_value and all others off_value')
def r8(R, repo):
  from .. import ratpoly
  f = repo.func('flax/training/common_utils.py', 'onehot')
  key = key_of(f, 'on_value where the index matches, off_value elsewhere')
  ps = astu.params(f.node)
  R.require(len(ps) >= 4, 'onehot: signature changed')
  on, off = ps[2], ps[3]
  sel = [x for x in astu.func_calls(f) if astu.call_tail(x) in ('select', 'where') and len(x.args) == 3]
  if sel:
    a, b = sel[0].args[1], sel[0].args[2]
    ta, tb = ' '.join(astu.src(e) for e in evid.expand(f, a) if isinstance(e, ast.AST)), ' '.join(astu.src(e) for e in evid.expand(f, b) if isinstance(e, ast.AST))
    R.judge((on in ta or off in ta) and (on in tb or off in tb), on in ta and off not in ta and off in tb and on not in tb, key, (f, sel[0]), '`%s` must select on_value where the comparison holds and off_value elsewhere' % astu.short(sel[0]))
    return

  def run(hot):
    def atom_of(e):
      if isinstance(e, ast.Name) and e.id in (on, off):
        return e.id
      if isinstance(e, ast.Call) and (astu.call_tail(e) in ('one_hot',) or astu.call_tail(e) == 'astype'):
        return None
      return None
    ex = ratpoly.SymExec(atom_of, lambda e: None)
    orig = ex.ev

    def ev(e):
      if isinstance(e, ast.Call) and astu.call_tail(e) == 'one_hot':
        return ratpoly.Rat.const(hot)
      if isinstance(e, ast.Compare):
        return ratpoly.Rat.const(hot)
      if isinstance(e, ast.Call) and astu.call_tail(e) == 'astype' and isinstance(e.func, ast.Attribute):
        return ev(e.func.value)
      return orig(e)
    ex.ev = ev
    body = astu.strip_docstring(f.node.body)
    ex.run([st for st in body if not isinstance(st, ast.Return)])
    ret = [st for st in body if isinstance(st, ast.Return)]
    if len(ret) != 1:
      raise ratpoly.Unsupported('returns')
    return ex.ev(ret[0].value)
  try:
    v1, v0 = run(1), run(0)
  except ratpoly.Unsupported as e:
    R.unsure(key, f, 'onehot is neither a select(...) nor straight-line arithmetic over the indicator (%s)' % e)
    return
  ok = v1 == ratpoly.Rat.atom(on) and v0 == ratpoly.Rat.atom(off)
  R.check(ok, key, f, evidence=True, msg_fail='with the indicator equal to 1 the result is %s and with 0 it is %s: it must be %s and %s' % (v1.show(), v0.show(), on, off))

meta('C20',
     explanation='PrefetchIterator: lock-set analysis (every access to the fields shared with the prefetch thread is lexically under `with self._cond`, '
     'including predicates handed to wait_for), publication order in __init__ (every field the thread uses is assigned on all paths before Thread.start()), '
     'FIFO discipline and exactly-once append per fetched item (CFG), delivery order items -> error -> StopIteration and notify-after-change in every locked '
     'block. prefetch_to_device: deque append/popleft pairing, initial fill, one refill per yield, source consumed only through itertools.islice.',
     not_decided=['pad_shard_unpad beyond the flat-order clause of R5, scan_in_dim, replicate/unreplicate/shard/stack_forest/onehot: array arithmetic and shapes (values)',
                  'liveness (absence of deadlock) under all interleavings: lock-set and publication order are necessary conditions only'],
     mutants=[
         Mutant('C20-m1', PI, "        item = self._buffer.pop(0)", "        item = self._buffer.pop()", 'C20.R3'),
         Mutant('C20-m2', PI, "      if self._buffer:\n        item = self._buffer.pop(0)\n        self._cond.notify_all()\n        return item\n      if self._error:\n        raise self._error  # pylint: disable=raising-bad-type\n",
                "      if self._error:\n        raise self._error  # pylint: disable=raising-bad-type\n      if self._buffer:\n        item = self._buffer.pop(0)\n        self._cond.notify_all()\n        return item\n", 'C20.R4'),
         Mutant('C20-m3', PI, "  def close(self):\n    with self._cond:\n      self._active = False\n      self._cond.notify_all()", "  def close(self):\n    self._active = False\n    with self._cond:\n      self._cond.notify_all()", 'C20.R1'),
         Mutant('C20-m4', PI, "          self._buffer.append(item)\n          self._cond.notify_all()\n", "          self._buffer.append(item)\n", 'C20.R4'),
         Mutant('C20-m5', JU, "    yield queue.popleft()\n    enqueue(1)", "    yield queue.pop()\n    enqueue(1)", 'C20.R3'),
         Mutant('C20-m6', PI, "    self._active = True\n    self._error = None\n    self._thread = threading.Thread(target=self._prefetch_loop, daemon=True)\n    self._thread.start()\n",
                "    self._error = None\n    self._thread = threading.Thread(target=self._prefetch_loop, daemon=True)\n    self._thread.start()\n    self._active = True\n", 'C20.R2'),
         Mutant('C20-m8', PI, "    self._active = True\n    self._error = None\n    self._thread = threading.Thread(target=self._prefetch_loop, daemon=True)\n    self._thread.start()\n",
                "    self._active = True\n    self._thread = threading.Thread(target=self._prefetch_loop, daemon=True)\n    self._thread.start()\n    self._error = None\n", 'C20.R2',
                why='the original defect F4'),
         Mutant('C20-b1', PI, "    self._buffer = []\n    self._active = True\n    self._error = None\n", "    self._error = None\n    self._active = True\n    self._buffer = []\n", kind='benign'),
         Mutant('C20-b2', PI, "  def close(self):\n    with self._cond:\n      self._active = False\n      self._cond.notify_all()",
                "  def close(self):\n    cond = self._cond\n    with self._cond:\n      self._active = False\n      self._cond.notify_all()", kind='benign'),
         Mutant('C20-m7', JU, "  enqueue(size)  # Fill up the buffer.\n  while queue:\n    yield queue.popleft()\n    enqueue(1)", "  enqueue(size)  # Fill up the buffer.\n  while queue:\n    enqueue(1)\n    yield queue.popleft()", 'C20.R3',
                why='still order preserving? no: with size=0 nothing is yielded... kept as structure drift'),
         Mutant('C20-m10', JU, "  perm_inv = [0] * len(perm)\n  for i, j in enumerate(perm):\n    perm_inv[j] = i\n  return tuple(perm_inv)", "  return tuple(np.argsort(perm))", 'C20.R6', why='seed C20-C (round 2)'),
         Mutant('C20-m9', JU, "      return x.reshape(d, db, *shape)", "      return np.swapaxes(x.reshape(db, d, *shape), 0, 1)", 'C20.R5'),
     ])
