"""C10 — state-dict / msgpack serialization round-trips exactly and rejects mismatches."""
from __future__ import annotations

import ast

from .. import astu, evid, flow, types
from ..cfg import cfg_of
from ..model import AnalysisError, Func
from ..report import key_of
from . import Mutant, meta, rule

SE = 'flax/serialization.py'
ST = 'flax/struct.py'
FD = 'flax/core/frozen_dict.py'
MARK = '__msgpack_chunked_array__'


def _registrations(repo):
  """[(mod, call, ty_src, to_fn, from_fn)] with to_fn/from_fn resolved to Func or ast.Lambda."""
  out = []
  for m in repo.mods_with('register_serialization_state'):
    for n in ast.walk(m.tree):
      if isinstance(n, ast.Call) and astu.call_tail(n) == 'register_serialization_state' and len(n.args) >= 3:
        scope = m.func_of_node(n)

        def res(e):
          if isinstance(e, ast.Lambda):
            return e
          d = astu.dotted(e)
          r = repo.resolve_dotted(m, d, scope) if d else None
          return r if isinstance(r, Func) else None
        out.append((m, n, astu.src(n.args[0]), res(n.args[1]), res(n.args[2])))
  return out


def _returns(fn):
  node = getattr(fn, 'node', fn)
  if isinstance(node, ast.Lambda):
    return [node.body]
  return [n.value for n in astu.body_walk(node) if isinstance(n, ast.Return)]


@rule('C10.R1', 'K4', 9, 'msgpack extension codes: every member is produced, handled, and paired with its inverse codec')
def r1(R, repo):
  mod = repo.mod(SE)
  enum = mod.cls('_MsgpackExtType')
  members = sorted(t.id for st in enum.body if isinstance(st, ast.Assign) for t in st.targets if isinstance(t, ast.Name))
  R.require(len(members) >= 3, 'enum _MsgpackExtType lost members')
  pack, unpack = mod.func('_msgpack_ext_pack'), mod.func('_msgpack_ext_unpack')
  produced = {}
  for c in astu.func_calls(pack):
    if astu.call_name(c) == 'msgpack.ExtType' and c.args and astu.src(c.args[0]).startswith('_MsgpackExtType.'):
      produced[c.args[0].attr] = c
  handled = {}
  cu = cfg_of(unpack)
  for n in cu.nodes:
    if n.kind == 'if' and isinstance(n.ast, ast.Compare) and astu.src(n.ast.left) == astu.params(unpack.node)[0] and isinstance(n.ast.ops[0], ast.Eq) and \
        astu.src(n.ast.comparators[0]).startswith('_MsgpackExtType.'):
      handled[n.ast.comparators[0].attr] = n
  for m_ in members:
    R.judge(len(produced) >= 2, m_ in produced, key_of(pack, 'produces %s' % m_), pack, 'extension type %s is never written' % m_)
    R.judge(len(handled) >= 2, m_ in handled, key_of(unpack, 'handles %s' % m_), unpack, 'extension type %s is written but not decoded: it would come back as a raw msgpack.ExtType' % m_)
  extra = sorted((set(produced) | set(handled)) - set(members))
  R.check(not extra, key_of(mod.rel, 'no unknown extension codes'), mod, evidence=True, msg_fail= 'codes %s are used but are not members of _MsgpackExtType' % extra)
  # codec pairing per member
  data = astu.params(unpack.node)[1]

  def branch_ret(name):
    n = handled.get(name)
    if n is None:
      return None
    rets = [x for x in cu.nodes if isinstance(x.stmt, ast.Return) and cu.edge_guarded(x, n, 'T')]
    return rets[0].stmt.value if len(rets) == 1 else None
  if 'ndarray' in produced and 'ndarray' in handled:
    w = produced['ndarray'].args[1]
    r = branch_ret('ndarray')
    ok = isinstance(w, ast.Call) and astu.call_name(w) == '_ndarray_to_bytes' and isinstance(r, ast.Call) and astu.call_name(r) == '_ndarray_from_bytes' \
        and astu.src(r.args[0]) == data and astu.src(w.args[0]) == astu.params(pack.node)[0]
    R.judge(isinstance(w, ast.Call) and isinstance(r, ast.Call), ok, key_of(mod.rel, 'ndarray codec pair'), (pack, produced['ndarray']), 'ndarray must be written with _ndarray_to_bytes(x) and read with _ndarray_from_bytes(data)')
  if 'npscalar' in produced and 'npscalar' in handled:
    w = produced['npscalar'].args[1]
    r = branch_ret('npscalar')
    rr = r
    if isinstance(r, ast.Subscript):
      base = r.value
      if isinstance(base, ast.Name):
        base = types.single_def(unpack.node, base.id)
      rr = base
    ok = isinstance(w, ast.Call) and astu.call_name(w) == '_ndarray_to_bytes' and isinstance(r, ast.Subscript) and astu.src(r.slice) == '()' and \
        isinstance(rr, ast.Call) and astu.call_name(rr) == '_ndarray_from_bytes'
    R.judge(isinstance(w, ast.Call) and r is not None and astu.call_name(w) == '_ndarray_to_bytes' and (isinstance(r, (ast.Name, ast.Call)) or isinstance(rr, ast.Call)), ok, key_of(mod.rel, 'npscalar codec pair'), (pack, produced['npscalar']), 'numpy scalars must be written as rank-0 arrays and read back with ar[()]')
  if 'native_complex' in produced and 'native_complex' in handled:
    w = produced['native_complex'].args[1]
    r = branch_ret('native_complex')
    x = astu.params(pack.node)[0]
    ok = isinstance(w, ast.Call) and astu.call_name(w) == 'msgpack.packb' and isinstance(w.args[0], ast.Tuple) and \
        [astu.src(e) for e in w.args[0].elts] == ['%s.real' % x, '%s.imag' % x]
    if ok and isinstance(r, ast.Call) and astu.call_name(r) == 'complex' and len(r.args) == 2:
      a0, a1 = r.args
      ok = isinstance(a0, ast.Subscript) and isinstance(a1, ast.Subscript) and astu.src(a0.value) == astu.src(a1.value) and \
          astu.is_const(a0.slice, 0) and astu.is_const(a1.slice, 1)
    else:
      ok = False
    R.judge(isinstance(w, ast.Call) and isinstance(r, ast.Call) and astu.call_name(r) == 'complex' and len(r.args) == 2 and astu.call_name(w) == 'msgpack.packb' and isinstance(w.args[0], ast.Tuple), ok, key_of(mod.rel, 'complex codec pair'), (pack, produced['native_complex']), 'complex must be written as (real, imag) and rebuilt as complex(t[0], t[1])')
  # fall-through
  last = unpack.node.body[-1]
  R.check(isinstance(last, ast.Return) and astu.src(last.value) == 'msgpack.ExtType(%s)' % ', '.join(astu.params(unpack.node)), key_of(unpack, 'unknown codes pass through'), unpack,
          'unknown extension codes must be returned as msgpack.ExtType(code, data)')
  last = pack.node.body[-1]
  R.check(isinstance(last, ast.Return) and astu.src(last.value) == astu.params(pack.node)[0], key_of(pack, 'other values pass through'), pack, 'values of other types must be returned unchanged')


def _order_const(call, pos=0):
  """The memory-order argument of tobytes/reshape/ravel/flatten: 'C' when absent."""
  v = astu.kwarg(call, 'order')
  if v is None and astu.call_tail(call) in ('tobytes', 'ravel', 'flatten') and call.args:
    v = call.args[pos]
  if v is None:
    return 'C'
  return v.value if isinstance(v, ast.Constant) else astu.src(v)


@rule('C10.R2', 'K4', 4, 'ndarray wire layout: (shape, dtype name, C-order bytes) written and read in the same roles')
def r2(R, repo):
  mod = repo.mod(SE)
  w, r = mod.func('_ndarray_to_bytes'), mod.func('_ndarray_from_bytes')
  packs = [c for c in astu.func_calls(w) if astu.call_name(c) == 'msgpack.packb']
  R.require(len(packs) == 1, '_ndarray_to_bytes: msgpack.packb call not found')
  tpl = packs[0].args[0]
  if isinstance(tpl, ast.Name):
    tpl = types.single_def(w.node, tpl.id)
  R.require(isinstance(tpl, ast.Tuple), '_ndarray_to_bytes: packed value is not a tuple display')
  roles = []
  tob = None
  for e in tpl.elts:
    s = astu.src(e)
    if s.endswith('.shape'):
      roles.append('shape')
    elif s.endswith('.dtype.name') or s.endswith('.dtype.str'):
      roles.append('dtype')
    elif isinstance(e, ast.Call) and astu.call_tail(e) == 'tobytes':
      roles.append('bytes')
      tob = e
    else:
      roles.append('?' + s)
  ups = [n for n in astu.body_walk(r.node) if isinstance(n, ast.Assign) and isinstance(n.value, ast.Call) and astu.call_name(n.value) == 'msgpack.unpackb']
  R.require(len(ups) == 1 and isinstance(ups[0].targets[0], ast.Tuple), '_ndarray_from_bytes: tuple unpacking of msgpack.unpackb not found')
  names = [astu.src(e) for e in ups[0].targets[0].elts]
  fb = [c for c in astu.func_calls(r) if astu.call_tail(c) == 'frombuffer']
  rs = [c for c in astu.func_calls(r) if astu.call_tail(c) == 'reshape']
  R.require(len(fb) == 1 and len(rs) == 1, '_ndarray_from_bytes: frombuffer/reshape not found')
  read_roles = {}
  read_roles[astu.src(fb[0].args[0])] = 'bytes'
  dt = astu.kwarg(fb[0], 'dtype') or (fb[0].args[1] if len(fb[0].args) > 1 else None)
  for nme in names:
    if dt is not None and nme in astu.names_loaded(dt):
      read_roles[nme] = 'dtype'
  read_roles[astu.src(rs[0].args[0])] = 'shape'
  got = [read_roles.get(nme, '?') for nme in names]
  R.judge(sorted(roles) == ['bytes', 'dtype', 'shape'] and sorted(got) == ['bytes', 'dtype', 'shape'], roles == got, key_of(mod.rel, 'tuple roles writer == reader'), (r, ups[0]),
          'writer packs %s but the reader uses the elements as %s' % (roles, got))
  wo = _order_const(tob) if tob is not None else None
  ro = _order_const(rs[0], pos=99)
  R.judge(tob is not None and isinstance(wo, str) and isinstance(ro, str) and len(wo) == 1 and len(ro) == 1, wo == 'C' and ro == 'C', key_of(mod.rel, 'same memory order on both sides'), (w, tpl),
          'bytes are written in order %r but reshaped in order %r: non C-contiguous arrays would come back permuted' % (wo, ro))
  R.check(isinstance(rs[0].func.value, ast.Call) and rs[0].func.value is fb[0], key_of(r, 'reshape(frombuffer(...))'), r, 'the buffer must be reshaped to the stored shape')
  conv = [n for n in astu.body_walk(w.node) if isinstance(n, ast.If) and 'jax.Array' in astu.src(n.test)]
  R.check(len(conv) == 1 and 'np.array' in astu.src(conv[0]) or 'np.asarray' in astu.src(conv[0]) if conv else False, key_of(w, 'jax arrays converted to numpy first'), w,
          '_ndarray_to_bytes must convert jax arrays to numpy before reading shape/dtype/bytes')


@rule('C10.R3', 'K4', 8, 'chunk protocol: same keys, same marker, same C flatten order, index-string tuples are inverse')
def r3(R, repo):
  mod = repo.mod(SE)
  ch, un = mod.func('_chunk'), mod.func('_unchunk')
  cs = lambda n: astu.const_str(n) or (astu.const_str(mod.assigns.get(n.id)) if isinstance(n, ast.Name) and mod.assigns.get(n.id) is not None else None)
  written = set()
  for n in astu.body_walk(ch.node):
    if isinstance(n, ast.Dict):
      written |= {cs(k) for k in n.keys if cs(k)}
    if isinstance(n, ast.Subscript) and isinstance(n.ctx, ast.Store) and cs(n.slice):
      written.add(cs(n.slice))
  read = {cs(n.slice) for n in astu.body_walk(un.node) if isinstance(n, ast.Subscript) and isinstance(n.ctx, ast.Load) and cs(n.slice)}
  tested = {cs(n.left) for n in astu.body_walk(un.node) if isinstance(n, ast.Compare) and cs(n.left)}
  # the marker test may live in a small predicate the reader calls (`_is_chunked(data)`)
  for x_ in astu.func_calls(un):
    g_ = repo.resolve_call(mod, x_, un)
    if isinstance(g_, Func) and g_.mod is mod and g_ is not un:
      tested |= {cs(n.left) for n in astu.body_walk(g_.node) if isinstance(n, ast.Compare) and cs(n.left)}
  R.judge(len(written) >= 2 and len(read) >= 1, written == read | tested and MARK in written, key_of(mod.rel, 'chunk dict keys writer == reader'), ch,
          '_chunk writes keys %s, _unchunk reads %s and tests %s' % (sorted(written), sorted(read), sorted(tested)))
  ul = mod.func('_unchunk_array_leaves_in_place')
  marks = [cs(n.left) for n in astu.body_walk(ul.node) if isinstance(n, ast.Compare) and cs(n.left)]
  R.judge(len(marks) >= 2 and MARK in written, marks and all(m_ == MARK for m_ in marks), key_of(ul, 'same marker key'), ul, 'the chunk marker tested when restoring differs from the one written')
  # the marker test is applied to the root and to every nested dict value, recursing otherwise
  rec = [c for c in astu.func_calls(ul) if astu.call_name(c) == '_unchunk_array_leaves_in_place']
  unc = [c for c in astu.func_calls(ul) if astu.call_name(c) == '_unchunk']
  R.check(len(rec) == 1 and len(unc) == 2, key_of(ul, 'unchunks root and nested leaves, recurses into other dicts'), ul,
          '_unchunk_array_leaves_in_place must un-chunk a chunked root, un-chunk chunked values and recurse into other dict values')
  # threshold read at call time on both sides, same comparison
  cl = mod.func('_chunk_array_leaves_in_place')
  cmps = [n for n in astu.body_walk(cl.node) if isinstance(n, ast.Compare) and 'MAX_CHUNK_SIZE' in astu.src(n)]
  ok = len(cmps) == 2 and len({astu.src(c.ops[0].__class__.__name__) for c in cmps}) == 1 and all(astu.src(c.comparators[0]) == 'MAX_CHUNK_SIZE' for c in cmps) and \
      'MAX_CHUNK_SIZE' in astu.names_loaded(ch.node) and 'MAX_CHUNK_SIZE' not in astu.params(ch.node) and 'MAX_CHUNK_SIZE' in mod.assigns
  lhs = {astu.src(c.left).replace(astu.src(c.left).split('.')[0], 'v', 2) for c in cmps}
  R.check(ok and len(lhs) == 1, key_of(cl, 'one threshold, read at call time'), cl,
          'the chunk threshold must be the module constant MAX_CHUNK_SIZE, compared the same way for nested and root arrays')
  rec = [c for c in astu.func_calls(cl) if astu.call_name(c) == '_chunk_array_leaves_in_place']
  R.check(len(rec) == 1, key_of(cl, 'recurses into nested dicts'), cl, '_chunk_array_leaves_in_place must recurse into nested dicts')
  # flatten order
  flat = types.single_def(ch.node, 'flatarr')
  ok = isinstance(flat, ast.Call) and astu.call_tail(flat) in ('reshape', 'ravel', 'flatten') and _order_const(flat, pos=0 if astu.call_tail(flat) != 'reshape' else 99) == 'C'
  if ok and astu.call_tail(flat) == 'reshape':
    ok = astu.src(flat.args[0]) in ('-1', '(-1,)')
  rsh = [c for c in astu.func_calls(un) if astu.call_tail(c) == 'reshape']
  ok2 = len(rsh) == 1 and _order_const(rsh[0], pos=99) == 'C'
  R.judge(isinstance(flat, ast.Call) and astu.call_tail(flat) in ('reshape', 'ravel', 'flatten') and len(rsh) == 1, ok and ok2, key_of(mod.rel, 'chunks flattened and restored in C order'), (ch, flat if flat is not None else ch.node),
          '_chunk must flatten in C order (`%s`) because _unchunk reshapes the concatenated chunks in C order' % astu.short(flat))
  # slices cover the flat array without gaps/overlap
  comps = [n for n in astu.body_walk(ch.node) if isinstance(n, ast.ListComp)]
  ok = False
  if len(comps) == 1 and isinstance(comps[0].elt, ast.Subscript) and isinstance(comps[0].elt.slice, ast.Slice):
    sl = comps[0].elt.slice
    g = comps[0].generators[0]
    i = astu.src(g.target)
    if isinstance(g.iter, ast.Call) and astu.call_name(g.iter) == 'range' and len(g.iter.args) == 3:
      start, stop, step = [astu.src(a) for a in g.iter.args]
      ok = start == '0' and stop in ('flatarr.size', 'len(flatarr)') and astu.src(sl.lower) == i and astu.src(sl.upper) in ('%s + %s' % (i, step), '%s + %s' % (step, i)) \
          and astu.src(comps[0].elt.value) == 'flatarr' and not g.ifs
  R.check(ok, key_of(ch, 'consecutive slices of width chunksize'), ch, '_chunk must cut flatarr[i:i+chunksize] for i in range(0, size, chunksize)')
  t2d, d2t = mod.assigns.get('_tuple_to_dict'), mod.assigns.get('_dict_to_tuple')
  if not isinstance(d2t, ast.Lambda) and '_dict_to_tuple' in mod.funcs:
    # turned into a def: the one thing that can be said without the lambda shape is how the entries are ordered
    g_ = mod.funcs['_dict_to_tuple']
    lex_ = [x for x in ast.walk(g_.node) if isinstance(x, ast.Call) and astu.call_name(x) == 'sorted' and astu.src(astu.kwarg(x, 'key')) not in ('int',) and 'int(' not in astu.src(x)]
    if lex_:
      R.fail(key_of(mod.rel, '_tuple_to_dict / _dict_to_tuple are inverse'), (g_, lex_[0]), '_dict_to_tuple orders the entries with `%s`: the keys are the decimal strings str(0..n-1), whose lexicographic order (\'0\', \'1\', \'10\', \'11\', \'2\', ...) '
             'differs from the index order as soon as there are more than 10 entries, so the chunks of a large array are concatenated in the wrong order' % astu.short(lex_[0]))
    else:
      R.unsure(key_of(mod.rel, '_tuple_to_dict / _dict_to_tuple are inverse'), g_, '_dict_to_tuple is no longer the recognised lambda')
    return
  R.require(isinstance(t2d, ast.Lambda) and isinstance(d2t, ast.Lambda), '_tuple_to_dict/_dict_to_tuple lambdas not found')
  ok = astu.src(t2d.body) == '{str(x): y for x, y in enumerate(%s)}' % t2d.args.args[0].arg
  d = d2t.args.args[0].arg
  ok = ok and astu.src(d2t.body) == 'tuple((%s[str(i)] for i in range(len(%s))))' % (d, d)
  lex = [x for x in ast.walk(d2t.body) if isinstance(x, ast.Call) and astu.call_name(x) == 'sorted' and astu.src(astu.kwarg(x, 'key')) not in ('int',)]
  if lex:
    R.fail(key_of(mod.rel, '_tuple_to_dict / _dict_to_tuple are inverse'), (mod, d2t), '_dict_to_tuple orders the entries with `%s`: the keys are the decimal strings str(0..n-1), whose lexicographic order (\'0\', \'1\', \'10\', \'11\', \'2\', ...) '
           'differs from the index order as soon as there are more than 10 entries, so the chunks of a large array are concatenated in the wrong order' % astu.short(lex[0]))
  else:
    R.check(ok, key_of(mod.rel, '_tuple_to_dict / _dict_to_tuple are inverse'), mod, 'tuples must be stored under the keys str(0..n-1) and rebuilt in index order')
  shp = [n for n in astu.body_walk(ch.node) if isinstance(n, ast.Dict)]
  ok = any(astu.src(v) == '_tuple_to_dict(%s.shape)' % astu.params(ch.node)[0] for d_ in shp for v in d_.values)
  ok = ok and 'np.concatenate(_dict_to_tuple(data[\'chunks\']))' in astu.src(un.node) and '_dict_to_tuple(data[\'shape\'])' in astu.src(un.node)
  R.check(ok, key_of(mod.rel, 'shape and chunks converted symmetrically'), ch, 'shape and chunks must go through _tuple_to_dict when written and _dict_to_tuple when read')


def _fresh_dict_return(fn, regs_to, depth=0):
  """Every return of a to-state-dict handler is a freshly built dict."""
  node = getattr(fn, 'node', fn)
  rets = _returns(fn)
  if not rets:
    return False, 'no return'
  for v in rets:
    if isinstance(v, ast.Name) and not isinstance(node, ast.Lambda):
      d = types.single_def(node, v.id)
      v = d if d is not None else v
    if isinstance(v, (ast.Dict, ast.DictComp)):
      continue
    return False, 'returns `%s`, which is not a freshly constructed dict' % astu.short(v)
  return True, ''


@rule('C10.R4', 'K1+K7+K3', 10, 'serialising never modifies the caller\'s tree')
def r4(R, repo):
  mod = repo.mod(SE)
  ms = mod.func('msgpack_serialize')
  c = cfg_of(ms)
  p = astu.params(ms.node)[0]
  copies = [n for n in c.nodes if isinstance(n.stmt, ast.Assign) and astu.src(n.stmt.targets[0]) == p and isinstance(n.stmt.value, ast.Call)
            and (astu.call_name(n.stmt.value) or '').endswith('tree_map') and n.stmt.value.args and isinstance(n.stmt.value.args[0], ast.Lambda)
            and astu.src(n.stmt.value.args[0].body) == n.stmt.value.args[0].args.args[0].arg and astu.src(n.stmt.value.args[1]) == p]
  tests = [n for n in c.nodes if n.kind == 'if' and 'in_place' in astu.names_loaded(n.ast)]
  inpl = [n for n in c.nodes if n.kind == 'stmt' and any(isinstance(x, ast.Call) and (astu.call_name(x) or '').endswith('_in_place') for x in ast.walk(n.stmt))]
  R.require(len(inpl) >= 2, 'msgpack_serialize: *_in_place calls not found')
  ok = len(copies) == 1 and len(tests) == 1 and c.edge_guarded(copies[0], tests[0], 'T' if astu.src(tests[0].ast) == 'not in_place' else 'F')
  if ok:
    # every path on which in_place is false passes the copy before any in-place call
    lab = 'T' if astu.src(tests[0].ast) == 'not in_place' else 'F'
    other = [(tests[0], m, l) for m, l in c.succ[tests[0]] if l != lab]
    ok = all(c.must_pass(c.entry, n, copies, avoid_edges=other) for n in inpl)
  R.judge(len(copies) == 1 and len(tests) == 1, ok, key_of(ms, 'copy before in-place passes unless in_place'), ms,
          'msgpack_serialize must rebind the tree to a tree_map copy before any *_in_place pass when in_place is false')
  R.check(astu.is_const(astu.param_default(ms.node, 'in_place'), False), key_of(ms, 'in_place defaults to False'), ms, 'in_place must default to False', evidence='in_place' in astu.params(ms.node))
  pk = [x for x in astu.func_calls(ms) if astu.call_name(x) == 'msgpack.packb']
  R.check(len(pk) == 1 and astu.is_const(astu.kwarg(pk[0], 'strict_types'), True) and astu.src(astu.kwarg(pk[0], 'default')) == '_msgpack_ext_pack',
          key_of(ms, 'packb(default=_msgpack_ext_pack, strict_types=True)'), ms, 'msgpack.packb must use the ext packer and strict_types=True (dict subclasses are rejected, not silently aliased)')
  # callers with in_place=True
  n_true = 0
  for m in repo.mods_with('msgpack_serialize'):
    for f in m.funcs.values():
      for call in astu.func_calls(f):
        if astu.call_tail(call) == 'msgpack_serialize':
          v = astu.arg_or_kw(call, 1, 'in_place')
          if v is not None and not astu.is_const(v, False):
            n_true += 1
            arg = astu.arg_or_kw(call, 0, 'pytree')
            d = types.single_def(f.node, arg.id) if isinstance(arg, ast.Name) else arg
            ok = f.fq == 'flax.serialization:to_bytes' and isinstance(d, ast.Call) and astu.call_name(d) == 'to_state_dict'
            R.check(ok, key_of(f, 'msgpack_serialize(..., in_place=%s)' % astu.src(v)), (f, call), evidence=astu.is_const(v, True) and f.fq != 'flax.serialization:to_bytes', msg_fail=
                    'in_place serialisation rewrites its argument; it is only safe on the fresh state dict built by to_state_dict inside to_bytes')
  R.require(n_true >= 1, 'to_bytes no longer serialises in place (table out of date)')
  regs = _registrations(repo)
  R.require(len(regs) >= 7, 'expected >= 7 register_serialization_state calls, found %d' % len(regs))
  for m, call, ty, to_fn, from_fn in regs:
    key = key_of(m.rel, 'to_state_dict handler of %s returns a fresh dict' % ty)
    if to_fn is None:
      raise AnalysisError('cannot resolve the to_state_dict handler registered for %s' % ty)
    ok, msg = _fresh_dict_return(to_fn, regs)
    tn = getattr(to_fn, 'node', to_fn)
    p0 = (tn.args.args[0].arg if tn.args.args else None)
    aliased = p0 is not None and any(v_ is not None and (evid.raw3(to_fn, v_, p0) == evid.RAW if not isinstance(tn, ast.Lambda) else (isinstance(v_, ast.Name) and v_.id == p0)) for v_ in _returns(to_fn))
    R.judge(ok or aliased, ok, key, (m, call), 'the handler registered for %s %s: to_bytes would then rewrite the caller\'s own container in place' % (ty, msg))
  ts = mod.func('to_state_dict')
  rets = _returns(ts)
  ok = len(rets) == 2 and astu.src(rets[0]) == astu.params(ts.node)[0]
  R.check(ok, key_of(ts, 'unregistered values pass through; handler result returned'), ts, 'to_state_dict must return unregistered values unchanged and otherwise the handler result')
  # the in-place helpers only assign into dicts they were given (no hidden globals)
  for name in ('_np_convert_in_place', '_chunk_array_leaves_in_place'):
    f = mod.func(name)
    p0 = astu.params(f.node)[0]
    st = [n for n in astu.body_walk(f.node) if isinstance(n, ast.Subscript) and isinstance(n.ctx, ast.Store)]
    R.judge(bool(st), all(astu.src(s.value) == p0 for s in st), key_of(f, 'writes only into its argument'), f, '%s must only assign into the dict it was given' % name)


HANDLERS = [(SE, '_restore_list'), (SE, '_restore_dict'), (SE, '_restore_namedtuple'), (ST, 'dataclass.from_state_dict'), (FD, '_restore_frozen_dict')]


def _fsd_calls(f):
  return [c for c in astu.func_calls(f) if astu.call_tail(c) == 'from_state_dict' and len(c.args) >= 2]


@rule('C10.R5', 'K1', 5, 'restoring containers: a mismatch check naming the path dominates construction')
def r5(R, repo):
  for rel, qual in HANDLERS:
    f = repo.func(rel, qual)
    c = cfg_of(f)
    raises = [n for n in c.nodes if isinstance(n.stmt, ast.Raise) and astu.raised_name(n.stmt) == 'ValueError']
    named = [n for n in raises if 'current_path()' in astu.src(n.stmt)]
    calls = _fsd_calls(f)
    R.require(calls, '%s: no child from_state_dict call' % qual)
    ok = bool(named)
    msg = 'no `raise ValueError(... current_path() ...)`'
    if ok:
      # the raise is conditional on a comparison between target and state, and that test precedes every child restore
      guards = []
      for r_ in named:
        ts = [t for t in c.nodes if t.kind == 'if' and (c.edge_guarded(r_, t, 'T') or c.edge_guarded(r_, t, 'F'))]
        guards += ts
      cn = [x for call in calls for x in c.nodes_for(call)]
      ok = bool(guards) and all(c.dominated(x, guards) for x in cn)
      msg = 'the mismatch test does not precede every child restore'
      tp, sp = astu.params(f.node)[0], astu.params(f.node)[1]
      if ok:
        involved = set()
        for g in guards:
          involved |= astu.names_loaded(g.ast)
          for nm in list(astu.names_loaded(g.ast)):
            d = types.single_def(f.node, nm)
            if d is not None:
              involved |= astu.names_loaded(d)
        ok = tp in involved and sp in involved or (sp in involved and any(x in involved for x in ('data_fields', 'name')))
        msg = 'the mismatch test does not compare the target with the saved state'
    one_sided = [x for n_ in c.nodes if n_.kind == 'if' and any(c.edge_guarded(r_, n_, 'T') or c.edge_guarded(r_, n_, 'F') for r_ in named) for x in ast.walk(n_.ast)
                 if (isinstance(x, ast.Call) and astu.call_tail(x) in ('issubset', 'issuperset')) or (isinstance(x, ast.Compare) and isinstance(x.ops[0], (ast.LtE, ast.GtE, ast.Lt, ast.Gt)) and 'keys' in astu.src(x))]
    if qual == '_restore_namedtuple' and one_sided:
      R.fail(key_of(f, 'mismatch raises with the path before restoring children'), (f, one_sided[0]), '_restore_namedtuple compares the field sets one-sidedly (`%s`): a field of the target that is missing from the saved state no longer raises, '
             'it silently keeps the template\'s value' % astu.short(one_sided[0]))
      continue
    tp_, sp_ = astu.params(f.node)[0], astu.params(f.node)[1]
    # a handler may never hand the template back as the restored value: whatever was saved (including nothing) must be consumed or rejected
    keep = [n_ for n_ in c.nodes if isinstance(n_.stmt, ast.Return) and isinstance(n_.stmt.value, ast.Name) and n_.stmt.value.id == tp_ and not [d_ for d_ in flow.defs(f, tp_) if isinstance(d_[0], ast.AST)]]
    if keep:
      g_ = [t_ for t_ in c.nodes if t_.kind == 'if' and (c.edge_guarded(keep[0], t_, 'T') or c.edge_guarded(keep[0], t_, 'F'))]
      R.fail(key_of(f, 'mismatch raises with the path before restoring children'), (f, keep[0].stmt), '%s returns its template argument `%s` unchanged%s: a saved state that does not match the target (e.g. None saved for a populated node) is accepted silently and the template\'s values are kept' % (
          qual, tp_, (' when `%s`' % astu.short(g_[-1].ast)) if g_ else ''))
      continue
    size_one_sided = [x for n_ in c.nodes if n_.kind == 'if' and any(c.edge_guarded(r_, n_, 'T') or c.edge_guarded(r_, n_, 'F') for r_ in named) for x in ast.walk(n_.ast)
                      if isinstance(x, ast.Compare) and len(x.ops) == 1 and isinstance(x.ops[0], (ast.LtE, ast.GtE, ast.Lt, ast.Gt))
                      and any(({'len(%s)' % a_} & {astu.src(e_) for e_ in evid.expand(f, x.left) if isinstance(e_, ast.AST)}) and ({'len(%s)' % b_} & {astu.src(e_) for e_ in evid.expand(f, x.comparators[0]) if isinstance(e_, ast.AST)})
                              for a_, b_ in ((tp_, sp_), (sp_, tp_)))]
    if size_one_sided:
      R.fail(key_of(f, 'mismatch raises with the path before restoring children'), (f, size_one_sided[0]), '%s rejects a size mismatch in one direction only (`%s`): a saved state that is shorter (or longer) than the target is restored silently, '
             'leaving part of the target at its template values or dropping saved entries' % (qual, astu.short(size_one_sided[0])))
      continue
    if not named and not raises and not evid.raises_deep(repo, f, 'ValueError'):
      R.fail(key_of(f, 'mismatch raises with the path before restoring children'), f, '%s no longer raises ValueError for a target/state mismatch' % qual)
    else:
      R.judge(bool(named) and (ok or msg == 'the mismatch test does not precede every child restore'), ok, key_of(f, 'mismatch raises with the path before restoring children'), f, '%s: %s' % (qual, msg))


@rule('C10.R6', 'K7', 5, 'restoring matches children by key / field / index, never by position')
def r6(R, repo):
  for rel, qual in HANDLERS:
    f = repo.func(rel, qual)
    tp, sp = astu.params(f.node)[0], astu.params(f.node)[1]
    calls = _fsd_calls(f)
    bad = None
    for call in calls:
      T, S = call.args[0], call.args[1]
      # loop variables in scope of this call and where they come from
      binds = []  # (names bound together, iter expr)
      for a in astu.ancestors(call):
        if isinstance(a, (ast.For,)):
          binds.append((astu.names_stored(a.target), a.iter))
        if isinstance(a, (ast.DictComp, ast.ListComp, ast.GeneratorExp, ast.SetComp)):
          for g in a.generators:
            binds.append((astu.names_stored(g.target), g.iter))
        if isinstance(a, astu.FUNC_TYPES):
          break
      zips = [x for _, it in binds for x in ast.walk(it) if isinstance(x, ast.Call) and 'zip' in (astu.call_name(x) or '')]
      # zip(target, state...) pairs children by position; zip(target, <index keys>) is just an enumerate
      if any(sp in {nm_ for a_ in z_.args for e_ in evid.expand(f, a_) if isinstance(e_, ast.AST) for nm_ in astu.names_loaded(e_)} and not all(
          isinstance(e_, ast.AST) and any(isinstance(y_, ast.Call) and astu.call_name(y_) in ('range', 'len') for y_ in ast.walk(e_)) and not any(isinstance(y_, ast.Call) and astu.call_tail(y_) in ('values', 'items') for y_ in ast.walk(e_))
          for a_ in z_.args for e_ in evid.expand(f, a_) if isinstance(e_, ast.AST) and sp in astu.names_loaded(e_)) for z_ in zips):
        bad = (call, 'target and state are paired positionally with zip()')
        break
      S_def = S
      if isinstance(S, ast.Name) and not any(S.id in ns for ns, _ in binds):
        d = types.single_def(f.node, S.id)
        S_def = d if d is not None else S
      T_def = T
      if isinstance(T, ast.Name) and not any(T.id in ns for ns, _ in binds):
        d = types.single_def(f.node, T.id)
        T_def = d if d is not None else T
      ok = False
      keyvars = set()
      if isinstance(S_def, ast.Subscript) and sp in astu.names_loaded(S_def.value):
        keyvars = astu.names_loaded(S_def.slice)
      elif isinstance(S_def, ast.Call) and astu.call_tail(S_def) in ('pop', 'get') and sp in astu.names_loaded(S_def.func):
        keyvars = astu.names_loaded(S_def.args[0]) if S_def.args else set()
      elif isinstance(S_def, ast.Name):
        # state value bound by iterating <state>.items(): its key is the sibling loop variable
        for ns, it in binds:
          if S_def.id in ns and isinstance(it, ast.Call) and astu.call_tail(it) == 'items' and sp in astu.names_loaded(it.func):
            keyvars = ns - {S_def.id}
      if keyvars:
        tn = astu.names_loaded(T_def)
        if tn & keyvars:
          ok = True   # xs[i] / getattr(xs, k) with the same key
        else:
          # target value bound together with the key by iterating <target>.items() / enumerate(<target>)
          for ns, it in binds:
            if (tn & ns) and (keyvars & ns) and tp in astu.names_loaded(it) and isinstance(it, ast.Call) and astu.call_tail(it) in ('items', 'enumerate', 'zip'):
              ok = True
      if not ok:
        bad = (call, 'child state `%s` and child target `%s` are not tied by one key/index/field name' % (astu.short(S), astu.short(T)))
        break
    R.judge(bad is None or 'zip()' in bad[1], bad is None, key_of(f, 'children matched by key'), (f, bad[0]) if bad else f,
            '%s: %s — entries could be mis-assigned when the saved state is ordered differently' % (qual, bad[1] if bad else ''))
    if qual == '_restore_namedtuple':
      # the restored fields must reach the constructor by name (or in the target's own field order), not in the order of the saved dict
      key = key_of(f, 'named tuple rebuilt by field name')
      rets = [n for n in astu.body_walk(f.node) if isinstance(n, ast.Return) and isinstance(n.value, ast.Call)]
      verdict = None
      for r_ in rets:
        call = r_.value
        if any(k.arg is None for k in call.keywords) and not call.args:
          verdict = verdict or 'ok'
          continue
        positional = astu.call_tail(call) == '_make' or any(isinstance(a_, ast.Starred) for a_ in call.args)
        if positional:
          src_args = [a_.value if isinstance(a_, ast.Starred) else a_ for a_ in call.args]
          iters = [g_.iter for a_ in src_args for e_ in evid.expand(f, a_) if isinstance(e_, ast.AST) for n_ in ast.walk(e_) if isinstance(n_, (ast.GeneratorExp, ast.ListComp)) for g_ in n_.generators]
          if iters and all(sp in astu.names_loaded(it_) and tp not in astu.names_loaded(it_) for it_ in iters):
            R.fail(key, (f, call), '`%s` fills the named tuple positionally in the iteration order of the saved state dict: when that order differs from the target\'s field order (msgpack dicts, older checkpoints) values land in the wrong fields' % astu.short(call))
            verdict = 'failed'
          else:
            verdict = verdict or 'unknown'
      if verdict == 'ok':
        R.ok(key, f)
      elif verdict != 'failed':
        R.unsure(key, f, 'construction of the restored named tuple not recognised')


@rule('C10.R7', 'K5', 5, 'to_state_dict / from_state_dict dispatch symmetrically; the error path is recorded and unwound')
def r7(R, repo):
  mod = repo.mod(SE)
  a, b = mod.func('to_state_dict'), mod.func('from_state_dict')

  def dispatch(f):
    ifs = [s for s in astu.strip_docstring(f.node.body) if isinstance(s, ast.If)]
    return astu.src(ifs[0]) if ifs else None
  ia = [s_ for s_ in astu.strip_docstring(a.node.body) if isinstance(s_, ast.If)]
  ib = [s_ for s_ in astu.strip_docstring(b.node.body) if isinstance(s_, ast.If)]
  dl = evid.delta(ia[0], ib[0], {'_NamedTuple', 'type', 'target', '_is_namedtuple', 'ty'}) if ia and ib else 'other'
  R.judge(dl in ('same', 'swap'), dl == 'same', key_of(mod.rel, 'registry key computed identically'), a,
          'to_state_dict and from_state_dict must compute the registry key the same way (namedtuple -> _NamedTuple, else type(target))')
  sa = [astu.src(n.slice) for n in astu.body_walk(a.node) if isinstance(n, ast.Subscript) and astu.src(n.value).startswith('_STATE_DICT_REGISTRY[')]
  sb = [astu.src(n.slice) for n in astu.body_walk(b.node) if isinstance(n, ast.Subscript) and astu.src(n.value).startswith('_STATE_DICT_REGISTRY[')]
  R.judge(len(sa) == 1 and len(sb) == 1, sa == ['0'] and sb == ['1'], key_of(mod.rel, 'slot 0 writes, slot 1 reads'), a, 'to_state_dict must use registry slot [0] and from_state_dict slot [1] (got %s / %s)' % (sa, sb))
  reg = mod.func('register_serialization_state')
  st = [n for n in astu.body_walk(reg.node) if isinstance(n, ast.Assign) and astu.src(n.targets[0]).startswith('_STATE_DICT_REGISTRY[')]
  ps = astu.params(reg.node)
  evid.judge_expr(R, reg, st[0].value if len(st) == 1 else None, '(%s, %s)' % (ps[1], ps[2]), key_of(reg, 'stores (to, from)'), reg, 'the registry must store (ty_to_state_dict, ty_from_state_dict) in that order')
  cb = cfg_of(b)
  withs = [n for n in cb.nodes if n.kind == 'with' and '_record_path' in astu.src(n.ast)]
  calls = [n for n in cb.nodes if isinstance(n.stmt, ast.Return) and isinstance(n.stmt.value, ast.Call) and astu.src(n.stmt.value.func) == 'ty_from_state_dict']
  R.judge(len(withs) == 1 and len(calls) == 1, len(withs) == 1 and len(calls) == 1 and cb.dominated(calls[0], withs) and astu.src(withs[0].ast) == '_record_path(%s)' % astu.params(b.node)[2], key_of(b, 'handler runs under _record_path(name)'), b,
          'from_state_dict must run the handler inside `with _record_path(name)` so errors name the path')
  rp = mod.func('_record_path')
  tr = [n for n in astu.body_walk(rp.node) if isinstance(n, ast.Try)]
  ok = len(tr) == 1 and tr[0].finalbody and any('path.pop()' in astu.src(s_) for s_ in tr[0].finalbody) and 'path.append(%s)' % astu.params(rp.node)[0] in astu.src(tr[0])
  R.judge(len(tr) == 1 and bool(tr[0].finalbody), ok, key_of(rp, 'append / pop in finally'), rp, '_record_path must pop the path component in a finally block')
  nt = mod.func('_is_namedtuple')
  R.check("isinstance(x, tuple) and hasattr(x, '_fields')" in astu.src(nt.node), key_of(nt, 'tuple with _fields'), nt, '_is_namedtuple must be `isinstance(x, tuple) and hasattr(x, "_fields")`')


meta('C10',
     explanation='Table-agreement and dataflow rules over flax/serialization.py and the handlers registered from flax/struct.py and flax/core/frozen_dict.py: '
     'extension codes written == handled with inverse codecs; ndarray tuple roles and memory order agree between writer and reader; chunk keys/marker/threshold/'
     'flatten order agree; serialising copies before any in-place pass, in_place=True only on the fresh dict of to_bytes, every registered to-state handler returns '
     'a fresh dict; every container restore handler raises a path-naming ValueError before restoring children and ties each child state to its target by one key.',
     not_decided=['bit-identity of tobytes/frombuffer for every dtype (numpy / ml_dtypes)', 'msgpack\'s own round trip', 'numpy tobytes("C") contract for strided inputs'],
     mutants=[
         Mutant('C10-m1', SE, "  flatarr = arr.reshape(-1)", "  flatarr = arr.ravel(order='K')", 'C10.R3'),
         Mutant('C10-m2', SE, "  ys = []\n  for i in range(len(state_dict)):\n    y = from_state_dict(xs[i], state_dict[str(i)], name=str(i))\n    ys.append(y)\n  return ys",
                "  return [from_state_dict(x, value, name=key) for x, (key, value) in zip(xs, state_dict.items())]", 'C10.R6'),
         Mutant('C10-m3', SE, "  return {str(key): to_state_dict(value) for key, value in xs.items()}", "  if all(isinstance(k, str) for k in xs):\n    return xs\n  return {str(key): to_state_dict(value) for key, value in xs.items()}", 'C10.R4'),
         Mutant('C10-m4', SE, "  tpl = (arr.shape, arr.dtype.name, arr.tobytes('C'))", "  tpl = (arr.shape, arr.dtype.name, arr.tobytes('A'))", 'C10.R2'),
         Mutant('C10-m5', SE, "  elif code == _MsgpackExtType.npscalar:\n    ar = _ndarray_from_bytes(data)\n    return ar[()]  # unpack ndarray to scalar\n", "", 'C10.R1'),
         Mutant('C10-m6', SE, "  if not in_place:\n    pytree = jax.tree_util.tree_map(lambda x: x, pytree)\n  pytree = _np_convert_in_place(pytree)", "  pytree = _np_convert_in_place(pytree)\n  if not in_place:\n    pytree = jax.tree_util.tree_map(lambda x: x, pytree)", 'C10.R4'),
         Mutant('C10-m7', SE, "  diff = set(map(str, xs.keys())).difference(states.keys())\n  if diff:\n    raise ValueError(\n      'The target dict keys and state dict keys do not match, target dict'\n      f' contains keys {diff} which are not present in state dict at path'\n      f' {current_path()}'\n    )\n\n", "", 'C10.R5'),
         Mutant('C10-m8', SE, "  ty_from_state_dict = _STATE_DICT_REGISTRY[ty][1]", "  ty_from_state_dict = _STATE_DICT_REGISTRY[ty][0]", 'C10.R7'),
         Mutant('C10-m9', SE, "      if isinstance(v, dict) and '__msgpack_chunked_array__' in v:", "      if isinstance(v, dict) and '__chunked_array__' in v:", 'C10.R3'),
         Mutant('C10-m10', SE, "_dict_to_tuple = lambda dct: tuple(dct[str(i)] for i in range(len(dct)))", "_dict_to_tuple = lambda dct: tuple(dct[k] for k in sorted(dct))", 'C10.R3', why='seed C10-C (round 2)'),
         Mutant('C10-m11', SE, "  if sd_keys != nt_keys:", "  if not sd_keys.issubset(nt_keys):", 'C10.R5', why='seed C10-D (round 2)'),
         Mutant('C10-b1', SE, "  ys = []\n  for i in range(len(state_dict)):\n    y = from_state_dict(xs[i], state_dict[str(i)], name=str(i))\n    ys.append(y)\n  return ys",
                "  return [from_state_dict(x, state_dict[str(i)], name=str(i)) for i, x in enumerate(xs)]", kind='benign'),
     ])
