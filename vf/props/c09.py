"""C09 — random keys are deterministic, position-addressed and never reused."""
from __future__ import annotations

import ast

from .. import astu, evid, flow, types
from ..cfg import cfg_of
from ..model import AnalysisError, Func
from ..report import key_of
from . import Mutant, meta, rule

SC = 'flax/core/scope.py'
LI = 'flax/core/lift.py'
RN = 'flax/nnx/rnglib.py'
TR = 'flax/linen/transforms.py'


def _aug_plus_one(n):
  return isinstance(n, ast.AugAssign) and isinstance(n.op, ast.Add) and astu.is_const(n.value, 1)


@rule('C09.R1', 'K2+K1', 4, 'every draw advances its counter exactly once and the key is a function of (stream key, counter)')
def r1(R, repo):
  mod = repo.mod(SC)
  f = mod.func('Scope.make_rng')
  c = cfg_of(f)
  def _is_counter(t):
    base = t.value if isinstance(t, ast.Subscript) else t
    return 'rng_counters' in astu.src(t) or any('rng_counters' in x for x in evid.arg_text(f, base))
  incs = [n for n in c.nodes if _aug_plus_one(n.stmt) and _is_counter(n.stmt.target)]
  any_aug = [n for n in c.nodes if isinstance(n.stmt, ast.AugAssign) or (isinstance(n.stmt, ast.Assign) and isinstance(n.stmt.value, ast.BinOp) and isinstance(n.stmt.value.op, ast.Add))]
  rets = [n for n in c.nodes if isinstance(n.stmt, ast.Return)]
  R.require(len(rets) == 1, 'Scope.make_rng: single return expected')
  if not incs and any_aug:
    R.unsure(key_of(f, 'counter += 1 exactly once before the key is built'), f, 'the counter increment of make_rng was not recognised')
  elif not incs:
    R.fail(key_of(f, 'counter += 1 exactly once before the key is built'), f, 'make_rng no longer increments the per-scope counter: every call would return the same key')
  else:
    ok, why = c.exactly_once_to_exit(incs)
    ok = ok and c.dominated(rets[0], incs)
    R.check(ok, key_of(f, 'counter += 1 exactly once before the key is built'), f, evidence=True, msg_fail=
            'on every returning path self.rng_counters[name] must be incremented exactly once, before the key is derived: %s' % why)
    name = astu.src(incs[0].stmt.target.slice)
    rv = rets[0].stmt.value
    mk = [x for x in ast.walk(rv) if isinstance(x, ast.Call) and astu.call_name(x) == 'LazyRng.create']
    mk = mk or [x for e in evid.expand(f, rv) if isinstance(e, ast.AST) for x in ast.walk(e) if isinstance(x, ast.Call) and astu.call_name(x) == 'LazyRng.create']
    evid.judge_call_args(R, repo, f, mk[0] if len(mk) == 1 else None, ['self.rngs[%s]' % name, 'self.rng_counters[%s]' % name], key_of(f, 'key = LazyRng.create(rngs[name], rng_counters[name]).as_jax_rng()'), (f, rets[0].stmt),
                         'the returned key must be derived from this stream\'s rng and its (incremented) counter for the same `name`')
  m2 = repo.mod(RN)
  g = m2.func('RngStream.__call__')
  c = cfg_of(g)
  incs = [n for n in c.nodes if _aug_plus_one(n.stmt) and astu.src(n.stmt.target) == 'self.count.value']
  rets = [n for n in c.nodes if isinstance(n.stmt, ast.Return)]
  any_aug = [n for n in c.nodes if isinstance(n.stmt, ast.AugAssign) or (isinstance(n.stmt, ast.Assign) and isinstance(n.stmt.value, ast.BinOp) and isinstance(n.stmt.value.op, ast.Add))]
  if not incs and any_aug:
    R.unsure(key_of(g, 'count += 1 exactly once per draw'), g, 'the counter increment of RngStream.__call__ was not recognised')
  elif not incs:
    R.fail(key_of(g, 'count += 1 exactly once per draw'), g, 'RngStream.__call__ no longer advances its counter: the stream would repeat its key')
  else:
    ok, why = c.exactly_once_to_exit(incs)
    R.check(ok, key_of(g, 'count += 1 exactly once per draw'), g, 'self.count.value must be incremented exactly once on every returning path: %s' % why, evidence=True)
  R.require(len(rets) == 1 and isinstance(rets[0].stmt.value, ast.Name), 'RngStream.__call__: `return key` expected')
  kd = types.single_def(g.node, rets[0].stmt.value.id)
  ok = isinstance(kd, ast.Call) and astu.call_name(kd) == 'jax.random.fold_in' and [astu.src(a) for a in kd.args] == ['self.key.value', 'self.count.value']
  evid.judge_call_args(R, repo, g, kd if isinstance(kd, ast.Call) and astu.call_tail(kd) == 'fold_in' else None, ['self.key.value', 'self.count.value'], key_of(g, 'key = fold_in(stream key, count)'), g, 'the drawn key must be jax.random.fold_in(self.key.value, self.count.value)')
  if incs and ok:
    kn = [n for n in c.nodes if isinstance(n.stmt, ast.Assign) and n.stmt.value is kd]
    R.judge(bool(kn), bool(kn) and c.dominated(incs[0], kn), key_of(g, 'key computed from the count before it advances'), g,
            'the key must be computed before the counter is advanced (first draw uses count 0; split_rngs/restore rely on it)')


NONDET = {'hash', 'id', 'uuid', 'uuid.uuid4', 'uuid4', 'time.time', 'time.time_ns', 'os.urandom', 'random.random', 'random.randint', 'random.getrandbits',
          'secrets.token_bytes', 'os.getpid', 'time.monotonic', 'time.perf_counter', 'datetime.now', 'datetime.datetime.now', 'builtins.hash', 'builtins.id'}
DERIVATION = [
    (SC, 'Scope.make_rng'), (SC, 'LazyRng.create'), (SC, 'LazyRng.as_jax_rng'), (SC, 'LazyRng.clear_suffix'), (SC, '_fold_in_static'), (SC, 'Scope.push'),
    (SC, 'Scope.rewound'), (SC, 'Scope.default_name'), (LI, 'tree_map_rngs'), (LI, 'vmap'), (LI, 'scan'), (LI, 'while_loop'), (LI, '_partial_pack'),
    (LI, 'jit'), (LI, 'fold_rngs'), (LI, '_restore_rng_counters'), (TR, 'fork_rngs'), (RN, 'RngStream.__call__'), (RN, 'RngStream.__init__'), (RN, 'Rngs.__init__'),
    (RN, 'Rngs._get_stream'), (RN, 'split_rngs'), (RN, 'fork'), (RN, 'reseed'), (RN, 'restore_rngs'), (RN, 'backup_keys'),
]


@rule('C09.R2', 'K10', 20, 'key derivation uses no process-dependent source (hash(), id(), uuid, time, set iteration)')
def r2(R, repo):
  seen = set()
  work = []
  for rel, q in DERIVATION:
    work.append((repo.func(rel, q), 0))
  while work:
    f, d = work.pop()
    if f.fq in seen:
      continue
    seen.add(f.fq)
    bad = []
    for n in ast.walk(f.node):
      if isinstance(n, ast.Call):
        nm = astu.call_name(n) or ''
        if nm in NONDET or (nm == 'hash') or nm.endswith('.urandom'):
          # importing `random` from jax is fine: resolve the head
          head = nm.split('.')[0]
          tgt = f.mod.imports.get(head, '')
          if head == 'random' and tgt.startswith('jax'):
            continue
          bad.append((n, 'call of `%s`' % nm))
        r = repo.resolve_call(f.mod, n, f)
        if isinstance(r, Func) and d < 2 and r.mod.rel in (SC, LI, RN, TR):
          work.append((r, d + 1))
      if isinstance(n, (ast.For, ast.comprehension)):
        it = n.iter
        if isinstance(it, ast.Call) and astu.call_name(it) in ('set', 'frozenset') or isinstance(it, (ast.Set, ast.SetComp)):
          bad.append((n, 'iteration over a set (order depends on string hashing)'))
    key = key_of(f, 'deterministic')
    if bad:
      R.fail(key, (f, bad[0][0]), '%s in the key-derivation call graph: keys would differ between processes / runs (%s)' % (bad[0][1], astu.short(bad[0][0])))
    else:
      R.ok(key, f)
  fs = repo.func(SC, '_fold_in_static')
  h = [x for x in astu.func_calls(fs) if (astu.call_name(x) or '').startswith('hashlib.')]
  h_deep = evid.calls_deep(repo, fs, lambda y: (astu.call_name(y) or '').startswith('hashlib.'))
  builtin = [x for x in astu.func_calls(fs) if astu.call_name(x) == 'hash'] + [y for _g, y in evid.calls_deep(repo, fs, lambda y: astu.call_name(y) == 'hash')]
  R.judge(bool(h) or bool(h_deep) or bool(builtin), (len(h) == 1 or bool(h_deep)) and not builtin, key_of(fs, 'digest from hashlib'), fs, '_fold_in_static must hash with hashlib (a process-independent digest)')


@rule('C09.R3', 'K1', 4, '_fold_in_static feeds every path element into the digest, separated when the separator fix is enabled')
def r3(R, repo):
  f = repo.func(SC, '_fold_in_static')
  c = cfg_of(f)
  loops = [n for n in c.nodes if n.kind == 'for']
  R.require(len(loops) == 1 and astu.src(loops[0].ast) == astu.params(f.node)[1], '_fold_in_static: loop over data not found')
  lp = loops[0]
  x = astu.src(lp.stmt.target)
  body = c.loop_body_nodes(lp.stmt)
  ups = [n for n in body if n.kind == 'stmt' and isinstance(n.stmt, ast.Expr) and isinstance(n.stmt.value, ast.Call) and astu.call_tail(n.stmt.value) == 'update']
  seps = [n for n in ups if isinstance(n.stmt.value.args[0], ast.Constant) and isinstance(n.stmt.value.args[0].value, bytes)]
  elems = [n for n in ups if x in astu.names_loaded(n.stmt.value.args[0])]
  flag = [n for n in c.nodes if n.kind == 'if' and 'flax_fix_rng_separator' in astu.src(n.ast)]
  ok = len(seps) == 1 and len(flag) == 1 and c.edge_guarded(seps[0], flag[0], 'T') and len(seps[0].stmt.value.args[0].value) >= 1
  # under the flag every element update is preceded by the separator in the same iteration
  if ok:
    cut = [(flag[0], m, l) for m, l in c.succ[flag[0]] if l != 'T']
    for e in elems:
      ok = ok and c.must_pass(lp, e, seps, avoid_edges=cut)
    guarded = [n for n in body if n.kind == 'stmt' and c.edge_guarded(n, flag[0], 'T')]
    hashing = [n for n in guarded if n not in seps and any(isinstance(x, ast.Call) and astu.call_tail(x) == 'update' for x in ast.walk(n.stmt))]
    ok = ok and not hashing  # the flag changes nothing about what is hashed but the separator
  R.judge(len(flag) == 1 and bool(elems), ok, key_of(f, 'separator before each element when flax_fix_rng_separator'), f,
          'with the separator fix enabled a separator byte must be hashed before every element (so ("ab","c") and ("a","bc") differ)')
  # every element contributes: str and int branches update, anything else raises
  ts = [n for n in c.nodes if n.kind == 'if' and astu.isinstance_test_pol(n.ast, x)]
  kinds = sorted(t for n in ts for t in astu.isinstance_test_pol(n.ast, x)[1])
  raises = [n for n in body if isinstance(n.stmt, ast.Raise)]
  firsts = [m for m, lab in c.succ[lp] if lab == 'T']
  ok = kinds == ['int', 'str'] and len(elems) == 2 and len(raises) == 1 and all(s in elems or lp not in c.reach([s], avoid=elems) for s in firsts)
  R.judge(len(ts) >= 1 and bool(elems), ok, key_of(f, 'every element hashed (str / int), others rejected'), f, 'each element of the path must be fed to the digest (str and int) or rejected with an error; none may be skipped')
  enc = [astu.src(n.stmt.value.args[0]) for n in elems]
  R.check(any('.encode(' in e for e in enc) and any('.to_bytes(' in e for e in enc), key_of(f, 'str.encode / int.to_bytes'), f, 'strings must be encoded and ints converted to bytes before hashing')
  early = [n for n in c.nodes if n.kind == 'if' and astu.src(n.ast) == 'not %s' % astu.params(f.node)[1]]
  rets = [n for n in c.nodes if isinstance(n.stmt, ast.Return)]
  final = [r for r in rets if isinstance(r.stmt.value, ast.Call) and astu.call_name(r.stmt.value) == 'random.fold_in']
  ok = len(early) == 1 and len(final) == 1 and astu.src(final[0].stmt.value.args[0]) == astu.params(f.node)[0] and flow.may_derive(f, final[0].stmt.value.args[1], lambda e: isinstance(e, ast.Call) and astu.call_tail(e) == 'digest')
  R.judge(len(final) == 1, ok, key_of(f, 'fold_in(rng, digest)'), f, '_fold_in_static must fold the digest of the path into the given rng (and return rng unchanged for an empty path)')


@rule('C09.R4', 'K7', 6, 'child keys and counters are addressed by name; lifted and rewound scopes share the counter dict')
def r4(R, repo):
  mod = repo.mod(SC)
  p = mod.func('Scope.push')
  rd = types.single_def(p.node, 'rngs')
  ok = isinstance(rd, ast.DictComp) and astu.src(rd.generators[0].iter) == 'self.rngs.items()' and isinstance(rd.value, ast.Call) and astu.call_name(rd.value) == 'LazyRng.create' and \
      [astu.src(a) for a in rd.value.args] == [astu.src(rd.generators[0].target.elts[1]), 'name'] and astu.src(rd.key) == astu.src(rd.generators[0].target.elts[0])
  if isinstance(rd, ast.DictComp) and isinstance(rd.value, ast.Call) and astu.call_name(rd.value) == 'LazyRng.create' and isinstance(rd.generators[0].target, ast.Tuple):
    evid.judge_call_args(R, repo, p, rd.value, [astu.src(rd.generators[0].target.elts[1]), 'name'], key_of(p, 'child rng = LazyRng.create(parent rng, name)'), p, 'a child scope\'s streams must be the parent\'s streams folded with the child *name* (not a position or count)', vocab=('prefix', 'name'))
  else:
    R.check(ok, key_of(p, 'child rng = LazyRng.create(parent rng, name)'), p, 'a child scope\'s streams must be the parent\'s streams folded with the child *name* (not a position or count)')
  rk = types.single_def(p.node, 'rng_key')
  c = cfg_of(p)
  ok = isinstance(rk, ast.Tuple) and astu.src(rk.elts[-1]) == 'name'
  st = [n for n in c.nodes if isinstance(n.stmt, ast.Assign) and astu.src(n.stmt.targets[0]) == 'self.rng_counters[rng_key]']
  t = [n for n in c.nodes if n.kind == 'if' and astu.src(n.ast) in ('rng_key in self.rng_counters', 'rng_key not in self.rng_counters')]
  ok = ok and len(st) == 1 and len(t) == 1 and c.edge_guarded(st[0], t[0], 'F' if ' not ' not in astu.src(t[0].ast) else 'T')
  fin = [n for n in c.nodes if isinstance(n.stmt, ast.Assign) and astu.src(n.stmt.targets[0]) == 'scope.rng_counters' and astu.src(n.stmt.value) == 'rng_counters']
  over = None
  for env in ({'rng_key in self.rng_counters': True, 'rng_key not in self.rng_counters': False, 'reuse': False}, {'rng_key in self.rng_counters': True, 'rng_key not in self.rng_counters': False, 'reuse': True}):
    for s_ in st:
      may_, must_ = evid.reach_env(c, env)
      if s_ in must_:
        over = (env, s_)
  if over is not None:
    R.fail(key_of(p, 'child counters stored under (token, name) and reused'), (p, over[1].stmt), 'Scope.push replaces the counters already stored for this child (`%s` is reached with the key present%s): a child that is '
           'pushed again - a shared block applied twice - restarts its counters at zero and draws the same keys again' % (astu.short(over[1].stmt), '' if over[0]['reuse'] else ' and reuse=False'))
  else:
    R.judge(isinstance(rk, ast.Tuple) and len(st) == 1 and len(t) == 1, ok and len(fin) == 1, key_of(p, 'child counters stored under (token, name) and reused'), p,
            'child counters must be kept in the parent under (child_rng_token, name), reused when the child is pushed again, and installed on the child scope')
  uses_len = [n for n in astu.body_walk(p.node) if isinstance(n, ast.Call) and astu.call_name(n) == 'len']
  R.check(not uses_len, key_of(p, 'no dependence on creation order'), p, 'Scope.push must not derive rng state from len(...) / creation order', evidence=True)
  cr = mod.func('LazyRng.create')
  evid.judge_stmts(R, cr, ['return LazyRng(rng, suffix)', 'return LazyRng(rng.rng, rng.suffix + suffix)'], key_of(cr, 'suffix only appended'), cr, 'LazyRng.create must only append to the suffix (never drop or reorder path elements)')
  rw = mod.func('Scope.rewound')
  c = cfg_of(rw)
  st = [n for n in c.nodes if isinstance(n.stmt, ast.Assign) and astu.src(n.stmt.targets[0]) == 'scope.rng_counters' and astu.src(n.stmt.value) == 'self.rng_counters']
  t = [n for n in c.nodes if n.kind == 'if' and 'rewind_rngs' in astu.src(n.ast)]
  R.judge(len(st) == 1 and len(t) == 1, len(st) == 1 and len(t) == 1 and c.edge_guarded(st[0], t[0], 'T' if astu.src(t[0].ast).startswith('not') else 'F') and astu.is_const(astu.param_default(rw.node, 'rewind_rngs'), False),
          key_of(rw, 'rewound scope shares the counters unless rewind_rngs'), rw, 'Scope.rewound must share self.rng_counters (the counts keep advancing across compact re-entry) unless rewind_rngs is requested')
  li = repo.mod(LI)
  pp = li.func('_partial_pack')
  sf = li.func('_partial_pack.scope_fn')
  sets = [n for n in astu.body_walk(sf.node) if isinstance(n, ast.Assign) and isinstance(n.targets[0], ast.Attribute) and n.targets[0].attr == 'rng_counters']
  upd = [x for x in astu.func_calls(sf) if isinstance(x.func, ast.Attribute) and 'rng_counters' in astu.src(x.func.value) and x.func.attr in ('update', 'copy')]
  ok = len(sets) == 1 and isinstance(sets[0].value, ast.Name) and not upd
  if ok:
    v = sets[0].value.id
    loops = [n for n in astu.body_walk(sf.node) if isinstance(n, ast.For) and v in astu.names_stored(n.target)]
    ok = len(loops) == 1 and isinstance(loops[0].iter, ast.Call) and astu.call_name(loops[0].iter) == 'zip' and 'inner_rng_counters' in [astu.src(a) for a in loops[0].iter.args]
    if ok:
      idx = [astu.src(a) for a in loops[0].iter.args].index('inner_rng_counters')
      ok = astu.src(loops[0].target.elts[idx]) == v and astu.src(loops[0].target.elts[[astu.src(a) for a in loops[0].iter.args].index('scopes')]) == 'scope'
  apps = [x for x in astu.func_calls(pp) if astu.src(x.func) == 'inner_rng_counters.append']
  comp = [d_[0] for d_ in flow.defs(pp, 'inner_rng_counters') if isinstance(d_[0], ast.ListComp)]
  if not apps and len(comp) == 1:
    # built by a comprehension over the scopes: its element is what each inner scope gets
    kind_, src_, wit_ = evid.copy_depth(pp, comp[0].elt)
    if kind_ in (evid.SHALLOW, evid.DEEP) and src_ is not None and astu.src(src_).endswith('.rng_counters'):
      R.fail(key_of(sf, 'inner scope shares the outer scope\'s rng counter dict'), (pp, comp[0]), '`%s` hands every inner scope a *copy* of the outer scope\'s rng counters: draws made inside the lifted transform no longer advance the caller\'s stream, so the next draw outside (or a second call of the lifted layer) repeats a key' % astu.short(comp[0]))
      return
    if kind_ == evid.ALIAS and astu.src(comp[0].elt).endswith('.rng_counters') and ok:
      R.ok(key_of(sf, 'inner scope shares the outer scope\'s rng counter dict'), (pp, comp[0]))
      return
  ok = ok and len(apps) == 1
  if ok:
    a = apps[0].args[0]
    d = a
    if isinstance(a, ast.Name):
      ds = [x[0] for x in flow.defs(pp, a.id)]
      d = ds[0] if len(ds) == 1 else None
    ok = d is not None and astu.src(d) == 'scope.rng_counters'
  copied = bool(upd) or (len(sets) == 1 and isinstance(sets[0].value, ast.Call) and astu.call_tail(sets[0].value) in ('dict', 'copy', 'deepcopy'))
  R.judge(ok or copied, ok and not copied, key_of(sf, 'inner scope shares the outer scope\'s rng counter dict'), sf,
          'the scope created inside a lifted transform must use the *same* rng_counters dict as the outer scope (assigned by reference); a copy makes draws inside the transform invisible outside, so the next draw repeats a key')


@rule('C09.R5', 'K4', 2, 'a missing stream falls back to params (Linen) / default (NNX), else raises')
def r5(R, repo):
  f = repo.func(SC, 'Scope.make_rng')
  c = cfg_of(f)
  name = astu.params(f.node)[1]
  t1 = [n for n in c.nodes if n.kind == 'if' and astu.src(n.ast) == 'not self.has_rng(%s)' % name]
  t2 = [n for n in c.nodes if n.kind == 'if' and astu.src(n.ast) == "self.has_rng('params')"]
  rb = [n for n in c.nodes if isinstance(n.stmt, ast.Assign) and astu.src(n.stmt) == "%s = 'params'" % name]
  rs = [n for n in c.nodes if isinstance(n.stmt, ast.Raise) and astu.raised_name(n.stmt) == 'InvalidRngError']
  ok = len(t1) == 1 and len(t2) == 1 and len(rb) == 1 and len(rs) == 1 and c.edge_guarded(rb[0], t1[0], 'T') and c.edge_guarded(rb[0], t2[0], 'T') and c.edge_guarded(rs[0], t2[0], 'F') and c.edge_guarded(rs[0], t1[0], 'T')
  if not rs and not evid.raises_deep(repo, f, 'InvalidRngError'):
    R.fail(key_of(f, "missing stream -> 'params' else InvalidRngError"), f, "make_rng no longer raises InvalidRngError when neither the requested stream nor 'params' exists")
  else:
    R.judge(len(t1) == 1 and len(t2) == 1 and len(rb) == 1 and len(rs) == 1, ok, key_of(f, "missing stream -> 'params' else InvalidRngError"), f, "make_rng   must fall back to the 'params' stream only when the requested stream is missing, and raise InvalidRngError when neither exists")
  g = repo.func(RN, 'Rngs._get_stream')
  c = cfg_of(g)
  name = astu.params(g.node)[1]
  t1 = [n for n in c.nodes if n.kind == 'if' and astu.src(n.ast) == '%s not in rngs_vars' % name]
  t2 = [n for n in c.nodes if n.kind == 'if' and astu.src(n.ast) == "'default' not in rngs_vars"]
  fb = [n for n in c.nodes if isinstance(n.stmt, ast.Assign) and astu.src(n.stmt.value) == "rngs_vars['default']"]
  ex = [n for n in c.nodes if isinstance(n.stmt, ast.Assign) and astu.src(n.stmt.value) == 'rngs_vars[%s]' % name]
  rs = [n for n in c.nodes if isinstance(n.stmt, ast.Raise)]
  _in = lambda what: (lambda e: isinstance(e, ast.Compare) and len(e.ops) == 1 and isinstance(e.ops[0], ast.In) and astu.src(e.left) == what and astu.src(e.comparators[0]) == 'rngs_vars')
  _nin = lambda what: (lambda e: isinstance(e, ast.Compare) and len(e.ops) == 1 and isinstance(e.ops[0], ast.NotIn) and astu.src(e.left) == what and astu.src(e.comparators[0]) == 'rngs_vars')
  has = lambda what, n_: evid.guarded(c, n_, _in(what)) == 'yes' or evid.guarded(c, n_, _nin(what), negative=True) == 'yes'
  lacks = lambda what, n_: evid.guarded(c, n_, _nin(what)) == 'yes' or evid.guarded(c, n_, _in(what), negative=True) == 'yes'
  found_ = len(fb) == 1 and len(ex) == 1 and len(rs) == 1 and any(evid.mentions(n_.ast, lambda e: _in(name)(e) or _nin(name)(e)) for n_ in c.nodes if n_.kind == 'if')
  ok = found_ and lacks(name, fb[0]) and has(name, ex[0]) and lacks("'default'", rs[0]) and lacks(name, rs[0])
  R.judge(found_, ok, key_of(g, "missing stream -> 'default' else raise"), g, "Rngs must return the named stream when it exists, fall back to 'default' otherwise, and raise when neither exists")


@rule('C09.R6', 'K1+K4', 6, 'split / restore / reseed never replay a key')
def r6(R, repo):
  mod = repo.mod(RN)
  f = mod.func('split_rngs')
  c = cfg_of(f)
  loops = [n for n in c.nodes if n.kind == 'for' and 'iter_graph' in astu.src(n.ast)]
  R.require(len(loops) == 1, 'split_rngs: loop over graph.iter_graph(node) not found')
  lp = loops[0]
  stream = astu.src(lp.stmt.target.elts[1])
  body = c.loop_body_nodes(lp.stmt)
  draws = [n for n in body if isinstance(n.stmt, ast.Assign) and isinstance(n.stmt.value, ast.Call) and astu.src(n.stmt.value) == '%s()' % stream]
  if not draws:
    # the draw nested in another expression: key = jax.random.split(stream(), n)
    draws = [n for n in body if n.kind == 'stmt' and n.stmt is not None and any(isinstance(x, ast.Call) and astu.src(x) == '%s()' % stream for x in ast.walk(n.stmt))]
  nested_draw = bool(draws) and not (isinstance(draws[0].stmt, ast.Assign) and astu.src(draws[0].stmt.value) == '%s()' % stream)
  apps = [n for n in body if isinstance(n.stmt, ast.Expr) and isinstance(n.stmt.value, ast.Call) and astu.src(n.stmt.value.func) == 'backups.append']
  R.require(len(apps) == 1, 'split_rngs: backups.append not found')
  if not draws:
    handed = [x for n_ in body if n_.stmt is not None for x in ast.walk(n_.stmt) if isinstance(x, ast.Call) and any(isinstance(a_, ast.Name) and a_.id == stream for a_ in x.args) and astu.call_name(x) not in ('isinstance', 'type', 'id', 'hasattr')]
    if handed:
      R.unsure(key_of(f, 'draw before backup'), f, 'the stream is handed to `%s`: the draw may happen there' % astu.short(handed[0]))
    else:
      R.fail(key_of(f, 'draw before backup'), f, 'split_rngs no longer draws a key from the stream before splitting it: the split keys would coincide with the stream\'s own next keys')
  else:
    R.check(c.must_pass(lp, apps[0], draws), key_of(f, 'draw before backup'), (f, apps[0].stmt), evidence=True, msg_fail=
            'the backup must be taken after `key = stream()`: it then holds the advanced count, so restoring resumes the stream after the key that was split (otherwise that key is replayed)',
            witness=c.witness(lp, apps[0], avoid=draws))
    if nested_draw:
      tup0 = apps[0].stmt.value.args[0]
      layout0 = [astu.src(e) for e in tup0.elts] if isinstance(tup0, ast.Tuple) else None
      R.judge(layout0 is not None and len(layout0) == 3, layout0 == [stream, '%s.key.value' % stream, '%s.count.value' % stream], key_of(f, 'backup = (stream, key, count)'), (f, apps[0].stmt), 'the backup tuple must be (stream, stream.key.value, stream.count.value)')
      return
    drawn = astu.src(draws[0].stmt.targets[0])
    sp = [n for n in body if isinstance(n.stmt, ast.Assign) and isinstance(n.stmt.value, ast.Call) and astu.call_name(n.stmt.value) == 'jax.random.split']
    ok = len(sp) == 1 and astu.src(sp[0].stmt.value.args[0]) == drawn and c.must_pass(lp, sp[0], draws)
    R.judge(len(sp) == 1, ok, key_of(f, 'split the drawn key'), f, 'the split keys must come from the key just drawn from the stream')
  tup = apps[0].stmt.value.args[0]
  layout = [astu.src(e) for e in tup.elts] if isinstance(tup, ast.Tuple) else None
  R.judge(layout is not None and len(layout) == 3, layout == [stream, '%s.key.value' % stream, '%s.count.value' % stream], key_of(f, 'backup = (stream, key, count)'), (f, apps[0].stmt), 'the backup tuple must be (stream, stream.key.value, stream.count.value)')
  rs = mod.func('restore_rngs')
  txt = astu.src(rs.node)
  evid.judge_stmts(R, rs, ['stream = backup[0]', 'stream.key.value = backup[1]', 'stream.count.value = backup[2]'], key_of(rs, 'reads (stream, key, count) in the writer\'s layout'), rs, 'restore_rngs must restore key from [1] and count from [2] (when present) onto the stream in [0]')
  bk = mod.func('backup_keys')
  apps2 = [x for x in astu.func_calls(bk) if astu.src(x.func) == 'backups.append']
  evid.judge_call_args(R, repo, bk, apps2[0] if len(apps2) == 1 else None, ['(stream, stream.key.value)'], key_of(bk, 'backup = (stream, key)'), bk, 'backup_keys must record (stream, stream.key.value)')
  rsd = mod.func('reseed')
  c = cfg_of(rsd)
  ks = [n for n in c.nodes if isinstance(n.stmt, ast.Assign) and astu.src(n.stmt.targets[0]) == 'stream.key.value']
  cs = [n for n in c.nodes if isinstance(n.stmt, ast.Assign) and astu.src(n.stmt.targets[0]) == 'stream.count.value']
  def _zero(e):
    """True: certainly zero; False: certainly something else; None: unknown"""
    if isinstance(e, ast.Constant):
      return e.value == 0 and not isinstance(e.value, bool)
    if isinstance(e, ast.Call):
      t_ = astu.call_tail(e) or ''
      if t_ in ('zeros', 'zeros_like'):
        return True
      if t_ in ('array', 'asarray', 'uint32', 'int32', 'uint64', 'int64') and e.args:
        return _zero(e.args[0])
    if isinstance(e, (ast.Attribute, ast.Name)) and 'count' in astu.src(e):
      return False
    return None
  located = len(ks) == 1 and len(cs) == 1
  z_ = _zero(cs[0].stmt.value) if located else None
  if located and z_ is None:
    R.unsure(key_of(rsd, 'new key and count 0 together'), rsd, 'cannot tell whether `%s` is zero' % astu.short(cs[0].stmt.value))
  else:
    R.judge(located, located and bool(z_) and c.must_pass(ks[0], c.exit, cs), key_of(rsd, 'new key and count 0 together'), rsd, 'reseed must reset the count to 0 whenever it installs a new key')
  fr = repo.func(TR, 'fork_rngs')
  tr = [n for n in astu.body_walk(fr.node) if isinstance(n, ast.Try)]
  ok = len(tr) == 1 and any(astu.src(s) == 'module.scope.rngs = current_rngs' for s in tr[0].finalbody) and 'current_rngs = module.scope.rngs.copy()' in astu.src(fr.node)
  if not ok and len(tr) == 1:
    # what is put back must be the rngs saved before they were replaced (a copy or the dict itself: the scope's dict is rebound, not mutated)
    back = [s.value for s in tr[0].finalbody if isinstance(s, ast.Assign) and astu.src(s.targets[0]) == 'module.scope.rngs']
    if len(back) == 1:
      kind, src_, _w = evid.copy_depth(fr, back[0])
      if kind is not None and src_ is not None and astu.src(src_) == 'module.scope.rngs' and not (isinstance(back[0], ast.Attribute)):
        ok = True
  R.judge(len(tr) == 1 and 'current_rngs' in astu.src(fr.node), ok, key_of(fr, 'rngs restored in finally'), fr, 'fork_rngs must restore the module scope\'s rngs in a finally block')


@rule('C09.R7', 'K1', 2, 'lifted jit / fold_rngs: counters captured before and restored after the traced call')
def r7(R, repo):
  mod = repo.mod(LI)
  for q, callee in (('jit.inner', 'jitted'), ('fold_rngs.inner_fold_rngs', 'wrapped_fold_rngs')):
    f = mod.func(q)
    c = cfg_of(f)
    cap = [n for n in c.nodes if isinstance(n.stmt, ast.Assign) and astu.src(n.stmt.targets[0]) == 'capture_old_counts']
    call = [n for n in c.nodes if isinstance(n.stmt, ast.Assign) and isinstance(n.stmt.value, ast.Call) and astu.call_name(n.stmt.value) == callee]
    rst = [n for n in c.nodes if isinstance(n.stmt, ast.Expr) and isinstance(n.stmt.value, ast.Call) and astu.call_name(n.stmt.value) == '_restore_rng_counters']
    ok = len(cap) == 1 and len(call) == 1 and len(rst) == 1 and c.dominated(call[0], cap) and c.must_pass(call[0], c.exit, rst, avoid_edges=c.exc_edges()) and \
        [astu.src(a) for a in rst[0].stmt.value.args] == ['scopes', 'fingerprint', 'capture_old_counts'] and astu.src(call[0].stmt.value.args[0]) == 'fingerprint'
    R.judge(len(cap) == 1 and len(call) == 1 and len(rst) == 1, ok, key_of(f, 'capture counts -> traced call -> _restore_rng_counters(scopes, fingerprint, old)'), f,
            '%s must capture the rng counters before the traced call and restore/advance them afterwards with the same fingerprint' % q)


meta('C09',
     explanation='Exactly-once counter increments dominating key construction (Scope.make_rng, RngStream.__call__), a determinism scan (no hash/id/uuid/time/set iteration) over the '
     'key-derivation call graph, structure of _fold_in_static (every element hashed, separator under the flag), name-addressed child keys/counters and shared counter '
     'dicts for rewound and lifted scopes, fallback tables, draw-before-backup ordering in split_rngs with the backup tuple layout shared by restore_rngs, and '
     'capture/restore pairing around the traced call in lifted jit / fold_rngs.',
     not_decided=['distinctness of key values (collision freedom of the sha1 prefix and of threefry): a probabilistic value statement'],
     mutants=[
         Mutant('C09-m1', LI, "      inner_scope.rng_counters = rng_counters", "      inner_scope.rng_counters.update(rng_counters)", 'C09.R4', why='seed C09-A'),
         Mutant('C09-m2', RN, "      key = stream()\n      backups.append((stream, stream.key.value, stream.count.value))\n      key = jax.random.split(key, splits)",
                "      backups.append((stream, stream.key.value, stream.count.value))\n      key = jax.random.split(stream(), splits)", 'C09.R6', why='seed C09-B'),
         Mutant('C09-m3', SC, "    self.rng_counters[name] += 1\n    return LazyRng.create(self.rngs[name], self.rng_counters[name]).as_jax_rng()",
                "    rng = LazyRng.create(self.rngs[name], self.rng_counters[name]).as_jax_rng()\n    if self.is_mutable_collection('params'):\n      self.rng_counters[name] += 1\n    return rng", 'C09.R1'),
         Mutant('C09-m4', SC, "  m = hashlib.sha1()\n  for x in data:", "  m = hashlib.sha1()\n  m.update(str(hash(tuple(data))).encode())\n  for x in data:", 'C09.R2'),
         Mutant('C09-m5', SC, "    elif isinstance(x, int):\n      m.update(x.to_bytes((x.bit_length() + 7) // 8, byteorder='big'))", "    elif isinstance(x, int):\n      pass", 'C09.R3'),
         Mutant('C09-m6', SC, "    rngs = {key: LazyRng.create(rng, name) for key, rng in self.rngs.items()}", "    rngs = {key: LazyRng.create(rng, len(self.reservations)) for key, rng in self.rngs.items()}", 'C09.R4'),
         Mutant('C09-m7', RN, "    if len(backup) == 3:\n      stream.count.value = backup[2]", "    if len(backup) == 3:\n      stream.count.value = backup[1]", 'C09.R6'),
         Mutant('C09-m8', SC, "      if self.has_rng('params'):\n        name = 'params'\n      else:\n        raise errors.InvalidRngError(f'{self.name} needs PRNG for \"{name}\"')", "      name = 'params'", 'C09.R5'),
         Mutant('C09-m9', RN, "    key = jax.random.fold_in(self.key.value, self.count.value)\n    self.count.value += 1\n    return key", "    key = jax.random.fold_in(self.key.value, self.count.value)\n    return key", 'C09.R1'),
         Mutant('C09-m10', SC, "    if rng_key in self.rng_counters:", "    if reuse and rng_key in self.rng_counters:", 'C09.R4', why='seed C09-C (round 2)'),
         Mutant('C09-b1', SC, "    self._check_valid()\n    self._validate_trace_level()\n    self.rng_counters[name] += 1\n    return LazyRng", "    self._validate_trace_level()\n    self._check_valid()\n    self.rng_counters[name] += 1\n    return LazyRng", kind='benign'),
     ])
