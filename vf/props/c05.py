"""C05 — lifted jit/remat/cond/switch/while_loop/map_variables act like the plain code (structure of the lifting machinery)."""
from __future__ import annotations

import ast

from .. import astu, evid, flow, types
from ..cfg import cfg_of
from ..model import AnalysisError
from ..report import key_of
from . import Mutant, meta, rule
from . import c14 as _c14

LI = 'flax/core/lift.py'
TR = 'flax/linen/transforms.py'
SC = 'flax/core/scope.py'
MO = 'flax/linen/module.py'

USER_FN_NAMES = {'fn', 'body_fn', 'branch_fn', 'forward_fn', 'cond_fn', 'prewrapped_fn'}
READ_ONLY_SCOPES = {
    'while_loop.inner.cond_wrapper': 'scope created with mutable_filter=False (the loop condition may not write)',
}


def scope_sites(mod):
  """(func, assign stmt, scope name) for every `x = scope_fn(...)` in lift.py."""
  out = []
  for q, f in mod.funcs.items():
    for n in astu.body_walk(f.node):
      if isinstance(n, ast.Assign) and isinstance(n.value, ast.Call) and astu.call_name(n.value) == 'scope_fn' and isinstance(n.targets[0], ast.Name):
        out.append((f, n, n.targets[0].id))
  return out


@rule('C05.R1', 'K2', 14, 'every scope handed to user code is repacked on every path and the repacked variables are returned')
def r1(R, repo):
  mod = repo.mod(LI)
  sites = scope_sites(mod)
  R.require(len(sites) >= 14, 'expected >= 14 scope_fn sites, found %d' % len(sites))
  for f, st, name in sites:
    c = cfg_of(f)
    used_by_user = [x for x in astu.func_calls(f) if isinstance(x.func, ast.Name) and x.func.id in USER_FN_NAMES and x.args and astu.src(x.args[0]) == name]
    key = key_of(f, '%s = scope_fn(...)' % name)
    if not used_by_user:
      R.ok(key + ' (not passed to user code)', (f, st))
      continue
    if f.qual in READ_ONLY_SCOPES:
      mf = astu.kwarg(st.value, 'mutable_filter')
      R.check(astu.is_const(mf, False), key + ' read-only', (f, st), evidence=mf is None or isinstance(mf, ast.Constant), msg_ok=READ_ONLY_SCOPES[f.qual], msg_fail='%s does not repack its scope, which is only sound with mutable_filter=False' % f.qual)
      continue
    rp = [x for x in astu.func_calls(f) if astu.call_name(x) in ('repack_fn', 'repack') and x.args and astu.src(x.args[0]) == name]
    un = [n for u in used_by_user for n in c.nodes_for(u)]
    rn = [n for x in rp for n in c.nodes_for(x)]
    # map_variables re-creates `scopes` a second time; evaluate per definition: the last user call of each definition
    ok = bool(rn) and all(c.must_pass(u, c.exit, rn, avoid_edges=c.exc_edges()) for u in un)
    rp_any = [x for x in astu.func_calls(f) if astu.call_name(x) in ('repack_fn', 'repack')]
    R.judge(bool(rp_any) or not evid.calls_deep(repo, f, evid.call_named('repack_fn', 'repack')), ok, key + ' repacked on every path', (f, st),
            'a scope passed to user code in %s does not reach repack_fn(%s) on every path: variable updates made by the user function would be dropped (and the inner scope left valid)' % (f.qual, name),
            witness=c.witness(un[0], c.exit, avoid=rn) if un and not ok else None)
    if ok:
      # the repack result is part of what the function returns
      rets = [n for n in astu.body_walk(f.node) if isinstance(n, ast.Return) and n.value is not None]
      names = set()
      for x in rp:
        stx = astu.enclosing_stmt(x)
        if isinstance(stx, ast.Assign):
          names |= astu.names_stored(stx.targets[0])
      okr = any(any(y is x for y in ast.walk(r.value)) for r in rets for x in rp) or any(astu.names_loaded(r.value) & names for r in rets) or \
          any(flow.may_derive(f, r.value, lambda e: any(e is x for x in rp)) for r in rets)
      R.check(okr, key + ' repacked variables returned', (f, st), 'the variables repacked in %s are not part of its return value' % f.qual)


@rule('C05.R2', 'K2+K3', 7, 'results are published exactly once, only into collections that are mutable outside, merging into existing nested dicts')
def r2(R, repo):
  mod = repo.mod(LI)
  w = mod.func('pack.wrapper')
  c = cfg_of(w)
  pubs = [n for x in astu.func_calls(w) if astu.call_name(x) == 'publish_results_fn' for n in c.nodes_for(x)]
  if not pubs and evid.calls_deep(repo, w, evid.call_named('publish_results_fn')):
    R.unsure(key_of(w, 'publish exactly once'), w, 'publish_results_fn is called from a helper')
  elif not pubs:
    R.fail(key_of(w, 'publish exactly once'), w, 'pack.wrapper never calls publish_results_fn: updates made inside a lifted transform are lost')
  else:
    ok, why = c.exactly_once_to_exit(pubs)
    R.check(ok, key_of(w, 'publish exactly once'), w, 'pack.wrapper must call publish_results_fn exactly once on every path: %s' % why, evidence=True)
    calls = [x for x in astu.func_calls(w) if astu.src(x.func) == 'fn']
    outs = {astu.src(astu.enclosing_stmt(x).targets[0].elts[1]) for x in calls if isinstance(astu.enclosing_stmt(x), ast.Assign) and isinstance(astu.enclosing_stmt(x).targets[0], ast.Tuple)}
    pc = [x for x in astu.func_calls(w) if astu.call_name(x) == 'publish_results_fn']
    R.check(len(outs) == 1 and all(astu.src(p.args[0]) in outs for p in pc) and len(calls) == 2, key_of(w, 'publishes the second result of fn'), w, 'publish_results_fn must receive the variable groups returned by the lifted function')
    for x in calls:
      R.check([astu.src(a) for a in x.args[:4]] == ['scope_fn', 'repack_fn', 'variable_groups_xs_t', 'rng_groups_xs_t'], key_of(w, 'fn(scope_fn, repack_fn, variables, rngs, …)', 'kwargs' if astu.has_star_kwargs(x) else 'no kwargs'), (w, x),
              'the lifted inner function must be called with (scope_fn, repack_fn, variable_groups, rng_groups, …) from _partial_pack')
  others = [f.qual for f in mod.funcs.values() for x in astu.func_calls(f) if astu.call_name(x) == 'publish_results_fn' and f.qual != 'pack.wrapper']
  R.check(not others, key_of(mod.rel, 'publish_results_fn has one caller'), mod, 'publish_results_fn is also called from %s' % others, evidence=True)
  pf = mod.func('_partial_pack.publish_results_fn')
  c = cfg_of(pf)
  puts = [n for x in astu.func_calls(pf) if astu.src(x.func) == 'scope.put_variable' for n in c.nodes_for(x)]
  tests = [n for n in c.nodes if n.kind == 'if' and 'scope.is_mutable_collection(col_name)' in astu.src(n.ast)]
  R.require(len(puts) == 1, 'publish_results_fn: scope.put_variable not found')
  evid.judge_guard(R, c, puts, evid.call_named('is_mutable_collection'), key_of(pf, 'skips collections immutable in the outer scope'), pf,
                   'publish_results_fn must skip collections that are immutable in the outer scope (writes to them would raise or take effect)')
  st = [n for n in astu.body_walk(pf.node) if isinstance(n, ast.Subscript) and isinstance(n.ctx, ast.Store)]
  R.check(not [x for x in st if 'scope' in astu.src(x.value)], key_of(pf, 'writes only through scope.put_variable'), pf, 'publish_results_fn must write through scope.put_variable (mutability and trace-level guards), not by item assignment', evidence=True)
  rf = mod.func('_partial_pack.repack_fn')
  src = astu.src(rf.node)
  ok = 'inner_scope.invalidate()' in src and "raise ValueError(f'unmapped output variables: {remainder}')" in src and 'in_filter(inner_scope.mutable, key)' in src
  R.check(ok, key_of(rf, 'invalidates inner scopes, rejects unmapped outputs'), rf, 'repack_fn must invalidate every inner scope, collect only its mutable collections and reject variables that match no out filter')
  check_put_merges(R, repo)


def check_put_merges(R, repo):
  """Scope.put_variable merges a mapping into an existing nested dict key by key, at every depth (shared with C06)."""
  pv = repo.func(SC, 'Scope.put_variable')
  try:
    put = repo.func(SC, 'Scope.put_variable.put')
  except AnalysisError:
    put = None
  if put is None:
    # no recursive helper any more: a one-level `existing.update(value)` (or plain replacement) is what the helper exists to avoid
    vpar = astu.params(pv.node)[-1]
    upd = [x for x in astu.func_calls(pv) if astu.call_tail(x) == 'update' and x.args and astu.src(x.args[0]) == vpar]
    key = key_of(pv, 'nested dicts merged key by key (identity of child dicts kept)')
    if upd:
      R.fail(key, (pv, upd[0]), '`%s` merges only one level: a nested sub-dict of the stored value is replaced by the new one, while child scopes (and lifted transforms that publish results) still hold references to the old sub-dict — their reads go stale and their writes are lost' % astu.short(upd[0]))
    else:
      R.unsure(key, pv, 'the recursive merge helper of put_variable was not found')
    return
  rec = [x for x in astu.func_calls(put) if astu.call_name(x) == 'put']
  loops = [n for n in astu.body_walk(put.node) if isinstance(n, ast.For) and astu.src(n.iter) == '%s.items()' % astu.params(put.node)[2]]
  ok = len(rec) == 1 and len(loops) == 1 and any(x is rec[0] for x in ast.walk(loops[0])) and astu.src(rec[0].args[0]) == '%s[%s]' % tuple(astu.params(put.node)[:2])
  upd = [x for x in astu.func_calls(put) if astu.call_tail(x) in ('update',) and isinstance(x.func.value, ast.Subscript)]
  has_merge_branch = any(isinstance(n, ast.Call) and astu.call_name(n) == 'isinstance' and 'dict' in astu.src(n) for n in ast.walk(put.node))
  R.judge(ok or bool(upd) or (not rec and has_merge_branch), ok, key_of(put, 'nested dicts merged key by key (identity of child dicts kept)'), put,
          'put must merge a mapping into an existing dict entry recursively, key by key: child scopes hold references to their sub-dicts, and replacing or shallow-updating one leaves them stale')


def _filter_leaves(e, fnode=None, depth=0):
  """Leaves of a nest of intersect_filters(...) calls (a local bound once to such a nest counts as the nest), or None."""
  if isinstance(e, ast.Call) and astu.call_name(e) == 'intersect_filters' and len(e.args) == 2:
    a, b = _filter_leaves(e.args[0], fnode, depth), _filter_leaves(e.args[1], fnode, depth)
    return None if a is None or b is None else a + b
  if isinstance(e, ast.Call):
    return None
  if isinstance(e, ast.Name) and fnode is not None and depth < 4:
    d = types.single_def(fnode, e.id)
    if isinstance(d, ast.Call) and astu.call_name(d) == 'intersect_filters':
      return _filter_leaves(d, fnode, depth + 1)
  return [astu.src(e)]


def check_inner_variables_cloned(R, repo):
  """The variable dicts handed to a lifted function's inner scope are a deep copy of the outer ones (shared by C01)."""
  mod = repo.mod(LI)
  sf = mod.func('_partial_pack.scope_fn')
  key = key_of(sf, 'Scope(<deep copy of the lifted variables>, …)')
  ctor = [x for x in astu.func_calls(sf) if astu.call_name(x) == 'Scope']
  if len(ctor) != 1 or not ctor[0].args or isinstance(ctor[0].args[0], ast.Starred):
    R.unsure(key, sf, 'Scope(variables, …) not found in scope_fn')
    return
  kind, src_, wit = evid.copy_depth(sf, ctor[0].args[0])
  if kind == evid.DEEP:
    R.ok(key, (sf, wit))
  elif kind == evid.SHALLOW:
    R.fail(key, (sf, wit), '`%s` copies only the outer level(s): the nested variable dicts stay shared with the outer scope, so a write made while tracing one lifted call / branch is visible in the others and in the caller\'s variables' % astu.short(wit))
  else:
    a = ctor[0].args[0]
    ds = [d[0] for d in flow.defs(sf, a.id)] if isinstance(a, ast.Name) else []
    fresh = [d for d in ds if isinstance(d, ast.Dict) and not d.keys or (isinstance(d, ast.Call) and astu.call_name(d) == 'dict' and not d.args and not d.keywords)]
    upd = [x for x in astu.func_calls(sf) if isinstance(a, ast.Name) and astu.src(x.func) == a.id + '.update']
    if ds and len(fresh) == len(ds) and upd:
      R.fail(key, (sf, upd[0]), '`%s` is filled with the outer scope\'s own collection dicts and never cloned: the inner scope writes into the caller\'s variables by reference' % a.id)
    else:
      R.unsure(key, (sf, ctor[0]), 'cannot tell how `%s` is copied' % astu.short(a))


def check_inner_mutability(R, repo):
  """scope_mutable = intersect(scope.mutable, out filters, mutable_filter) and is what the inner Scope gets (shared by C01)."""
  mod = repo.mod(LI)
  sf = mod.func('_partial_pack.scope_fn')
  d = types.single_def(sf.node, 'scope_mutable')
  inline = None
  if d is None and not flow.defs(sf, 'scope_mutable'):
    # the intersection may be written directly in the Scope(...) call
    for x in astu.func_calls(sf):
      if astu.call_name(x) == 'Scope':
        st_, v_ = evid.passed_value(repo, sf.mod, sf, x, 'mutable')
        if st_ == evid.YES and isinstance(v_, ast.Call) and astu.call_name(v_) == 'intersect_filters':
          d = inline = v_
  if d is None:
    # built in steps: a step that applies one of the three filters only `if <that filter>:` treats False ("nothing") as "no restriction"
    c = cfg_of(sf)
    for nd in c.nodes:
      if isinstance(nd.stmt, ast.Assign) and astu.src(nd.stmt.targets[0]) == 'scope_mutable':
        for t in c.nodes:
          if t.kind == 'if' and isinstance(t.ast, ast.Name) and t.ast.id in astu.names_loaded(nd.stmt.value) and c.edge_guarded(nd, t, 'T'):
            R.fail(key_of(sf, 'scope_mutable = intersect(scope.mutable, out filters, mutable_filter)'), (sf, t.stmt),
                   'the intersection with `%s` is applied only `if %s:` — but a filter that is False means "nothing is mutable", not "no filter": with %s=False (e.g. the cond function of nn.while_loop) the inner scope stays writable' % (t.ast.id, t.ast.id, t.ast.id))
            return
  leaves = _filter_leaves(d, sf.node) if d is not None else None
  widened = d is not None and any(isinstance(x, ast.Call) and astu.call_tail(x) == 'union_filters' for x in ast.walk(d))
  R.judge(leaves is not None or widened, leaves is not None and sorted(leaves) == ['mutable', 'mutable_filter', 'scope.mutable'], key_of(sf, 'scope_mutable = intersect(scope.mutable, out filters, mutable_filter)'), sf,
          'the inner scope\'s mutability must be the intersection of the outer scope\'s mutability, the union of the out filters and mutable_filter (got `%s`): anything wider makes non-lifted collections writable' % astu.short(d))
  ctor = [x for x in astu.func_calls(sf) if astu.call_name(x) == 'Scope']
  if len(ctor) == 1 and inline is not None:
    R.ok(key_of(sf, 'Scope(mutable=scope_mutable)') + ' :: mutable', (sf, ctor[0]))
  elif len(ctor) == 1:
    evid.judge_args(R, repo, sf, ctor[0], {'mutable': (None, {'scope_mutable'} | ({astu.src(d)} if d is not None else set()))}, key_of(sf, 'Scope(mutable=scope_mutable)'), 'the inner Scope must be created with mutable=scope_mutable')
  else:
    R.unsure(key_of(sf, 'Scope(mutable=scope_mutable)'), sf, 'Scope(...) not found in scope_fn')


@rule('C05.R3', 'K7', 4, 'inner scopes are mutable only for (outer mutable) AND (lifted out collections) AND (mutable_filter)')
def r3(R, repo):
  mod = repo.mod(LI)
  sf = mod.func('_partial_pack.scope_fn')
  check_inner_mutability(R, repo)
  _r3_rest(R, repo, mod, sf)


@rule('C05.R11', 'K7', 1, 'the inner scope of a lifted transform works on a deep copy of the variable dicts')
def r11(R, repo):
  check_inner_variables_cloned(R, repo)


def _r3_rest(R, repo, mod, sf):
  defs_m = [x for x in flow.defs(sf, 'mutable')]
  ok = len(defs_m) == 2 and any(astu.is_const(x[0], False) for x in defs_m if not isinstance(x[0], tuple)) and any(astu.src(x[0]) == 'union_filters(mutable, out_filter)' for x in defs_m if not isinstance(x[0], tuple))
  R.check(ok, key_of(sf, 'mutable = union of the out filters'), sf, '`mutable` must start at False and accumulate union_filters over out_variable_filters')
  pp = mod.func('_partial_pack')
  c = cfg_of(pp)
  fz = [n for n in c.nodes if isinstance(n.stmt, ast.Assign) and isinstance(n.stmt.value, ast.Call) and astu.call_name(n.stmt.value) == 'freeze' and isinstance(n.stmt.targets[0], ast.Subscript)]
  t = [n for n in c.nodes if n.kind == 'if' and astu.src(n.ast) == 'not col_in_out']
  dd = types.single_def(pp.node, 'col_in_out')
  ok = len(fz) == 1 and len(t) == 1 and c.edge_guarded(fz[0], t[0], 'T') and dd is not None and 'in_filter(col_filter, col_name)' in astu.src(dd) and 'out_variable_filters' in astu.src(dd)
  R.check(ok, key_of(pp, 'in-only collections are frozen'), pp, 'collections that match no out filter must be handed to the inner scope frozen')
  gc = [x for x in astu.func_calls(pp) if astu.call_name(x) == 'group_collections' and astu.src(x.args[0]) == 'scope._variables']
  R.check(len(gc) == 1 and astu.src(gc[0].args[1]) == 'in_variable_filters', key_of(pp, 'variables grouped (copied) by the in filters'), pp, 'the outer variables must be partitioned with group_collections(scope._variables, in_variable_filters) (which copies each collection)')


def _literal_tuple_len(f, e):
  if isinstance(e, ast.Name):
    d = types.single_def(f.node, e.id)
    if d is not None:
      e = d
  if isinstance(e, ast.IfExp):
    a, b = _literal_tuple_len(f, e.body), _literal_tuple_len(f, e.orelse)
    return a if a == b else None
  if isinstance(e, ast.Tuple) and not any(isinstance(x, ast.Starred) for x in e.elts):
    return len(e.elts)
  return None


@rule('C05.R4', 'K4', 10, 'each lifted function unpacks as many variable groups as it declares in-filters and returns as many as out-filters')
def r4(R, repo):
  mod = repo.mod(LI)
  n = 0
  for q, f in mod.funcs.items():
    if '.' in q:
      continue
    for x in astu.func_calls(f):
      if astu.call_name(x) != 'pack' or len(x.args) < 4:
        continue
      inner = repo.resolve_dotted(mod, astu.src(x.args[0]), f)
      from ..model import Func
      if not isinstance(inner, Func):
        raise AnalysisError('%s: cannot resolve the function given to pack()' % q)
      n_in, n_out = _literal_tuple_len(f, x.args[1]), _literal_tuple_len(f, x.args[2])
      vg = astu.params(inner.node)[2]
      unp = [s for s in astu.body_walk(inner.node) if isinstance(s, ast.Assign) and astu.src(s.value) == vg and isinstance(s.targets[0], ast.Tuple)]
      n += 1
      if unp and n_in is not None:
        got = len(unp[0].targets[0].elts)
        R.check(got == n_in, key_of(inner, 'unpacks %d in-groups' % n_in), (inner, unp[0]), evidence=True, msg_fail= '%s declares %d in-filters but unpacks variable_groups into %d names' % (q, n_in, got))
      else:
        R.ok(key_of(inner, 'in-groups passed through'), inner)
      # returned groups
      if n_out is not None:
        rets = [s for s in astu.body_walk(inner.node) if isinstance(s, ast.Return) and isinstance(s.value, ast.Tuple) and len(s.value.elts) == 2]
        for r_ in rets:
          g = r_.value.elts[1]
          ln = _literal_tuple_len(inner, g)
          if ln is not None:
            R.check(ln == n_out, key_of(inner, 'returns %d out-groups' % n_out), (inner, r_), evidence=True, msg_fail= '%s declares %d out-filters but returns %d variable groups' % (q, n_out, ln))
  R.require(n >= 12, 'expected >= 12 pack() uses, found %d' % n)


@rule('C05.R5', 'K4+K1', 14, 'the jit cache key covers mutability, module fields, exported state and scope bookkeeping')
def r5(R, repo):
  mod = repo.mod(LI)
  for q, jitted in (('jit', 'jit.jitted'), ('fold_rngs', 'fold_rngs.wrapped_fold_rngs')):
    inner = mod.func(q + ('.inner' if q == 'jit' else '.inner_fold_rngs'))
    fp = types.single_def(inner.node, 'fingerprint')
    mu = types.single_def(inner.node, 'mutable')
    ok = isinstance(fp, ast.Tuple) and [astu.src(e) for e in fp.elts] == ['mutable', 'module_hash_key'] and mu is not None and 'scope.mutable' in astu.src(mu) and 'for scope in scopes' in astu.src(mu)
    R.judge(isinstance(fp, ast.Tuple) and mu is not None, ok, key_of(inner, 'fingerprint = (every scope\'s mutable, module hash key)'), inner, 'the lifted jit fingerprint must contain the mutability of every scope and the module hash key')
    j = mod.func(jitted)
    R.check(astu.params(j.node)[0] == 'fingerprint' and 'hash_key = fingerprint[1]' in astu.src(j.node), key_of(j, 'fingerprint is the first (static) argument'), j, 'the traced function must take the fingerprint as its first argument')
  jf = mod.func('jit')
  sa = [d for d in flow.defs(jf, 'static_argnums') if not isinstance(d[0], tuple)]
  ok = any(isinstance(d[0], ast.BinOp) and astu.src(d[0].left) == '(0,)' for d in sa)
  deco = [d for d in mod.func('jit.jitted').node.decorator_list if 'jax.jit' in astu.src(d)]
  ok = ok and len(deco) == 1 and 'static_argnums=static_argnums' in astu.src(deco[0])
  R.check(ok, key_of(jf, 'argument 0 is static'), jf, 'lift.jit must mark argument 0 (the fingerprint) static: static_argnums = (0,) + …')
  tr = repo.mod(TR)
  f = tr.func('_fingerprint_recursive')
  src = astu.src(f.node)
  # module fields: everything but parent, name
  excl = [n for n in ast.walk(f.node) if isinstance(n, ast.Compare) and astu.src(n.left) == 'field.name' and isinstance(n.ops[0], ast.NotIn)]
  ok = len(excl) == 1 and sorted(ast.literal_eval(excl[0].comparators[0])) == ['name', 'parent']
  R.judge(len(excl) == 1, ok, key_of(f, 'all dataclass fields except parent, name'), f, 'the module fingerprint must cover every dataclass field except exactly `parent` and `name`')
  # exported state fields are fingerprinted
  exp = repo.func(MO, '_ModuleInternalState.export')
  ctor = [x for x in astu.func_calls(exp) if astu.call_name(x) == '_ModuleInternalState']
  R.require(len(ctor) == 1, '_ModuleInternalState.export: constructor call not found')
  exported = sorted(k.arg for k in ctor[0].keywords)
  fps = sorted(astu.const_str(x.args[0]) for x in ast.walk(f.node) if isinstance(x, ast.Call) and astu.call_name(x) == '_get_fingerprint' and x.args and astu.const_str(x.args[0]) and len(x.args) == 2 and 'obj._state.' in astu.src(x.args[1]))
  for fld in exported:
    R.judge(len(fps) >= 2, fld in fps, key_of(f, 'exported state field %s fingerprinted' % fld), f, '_ModuleInternalState.export carries `%s` across a transform boundary but the jit fingerprint ignores it: a changed value would reuse a stale trace' % fld)
  for fld in fps:
    m_ = [x for x in ast.walk(f.node) if isinstance(x, ast.Call) and astu.call_name(x) == '_get_fingerprint' and astu.const_str(x.args[0]) == fld]
    R.check(astu.src(m_[0].args[1]) == 'obj._state.%s' % fld, key_of(f, 'state field %s fingerprints its own value' % fld), f, evidence=astu.src(m_[0].args[1]).startswith('obj._state.'), msg_fail= 'fingerprint entry %r must hash obj._state.%s' % (fld, fld))
  want = {'mutable': 'scope.mutable', 'flags': 'scope.flags', 'rng_counts': 'scope.rng_counters', 'reservations': 'scope.reservations'}
  for nm, expr in want.items():
    m_ = [x for x in ast.walk(f.node) if isinstance(x, ast.Call) and astu.call_name(x) == '_get_fingerprint' and astu.const_str(x.args[0]) == nm]
    got_ = m_[0].args[1] if len(m_) == 1 else None
    partial = got_ is not None and any(isinstance(g_, ast.AST) and astu.src(g_) != expr and expr in astu.src(g_) and any(isinstance(x, (ast.DictComp, ast.ListComp, ast.SetComp, ast.GeneratorExp, ast.Subscript)) or (isinstance(x, ast.Call) and astu.call_tail(x) in ('get', 'pop')) for x in ast.walk(g_))
                                       for g_ in evid.expand(f, got_))
    R.judge(got_ is not None and (expr in evid.arg_text(f, got_) or partial), got_ is not None and expr in evid.arg_text(f, got_), key_of(f, 'scope.%s fingerprinted in full' % nm), f,
            'the scope part of the jit fingerprint must hash the whole `%s` (found `%s`): call-dependent bookkeeping such as child rng counters is baked into the trace as static data' % (expr, astu.short(m_[0].args[1]) if m_ else 'nothing'))
  rc = repo.func(MO, '_ModuleInternalState.reimport')
  got = sorted(n.attr for n in astu.body_walk(rc.node) if isinstance(n, ast.Attribute) and isinstance(n.ctx, ast.Store))
  R.judge(len(got) >= 2, set(got) >= {'autoname_cursor', 'in_compact_method', 'in_setup', 'is_initialized'}, key_of(rc, 'reimport copies the transient fields back'), rc, 'reimport must copy in_compact_method, in_setup, is_initialized and autoname_cursor back (got %s)' % got)


WRAPPERS = ['module_class_lift_transform', 'decorator_lift_transform', 'module_class_lift_transform_cached', 'decorator_lift_transform_cached']


def _events(repo, mod, top):
  """Ordered protocol events of one lift wrapper (own body + nested defs, in source order)."""
  f = mod.func(top)
  ev = []
  for n in ast.walk(f.node):
    if isinstance(n, ast.Call):
      s = astu.src(n)
      nm = astu.call_name(n) or ''
      if s == 'self._state.export()':
        ev.append((n.lineno, n.col_offset, 'export'))
      elif nm == 'set_module_scopes':
        ev.append((n.lineno, n.col_offset, 'set_module_scopes'))
      elif nm == 'object.__setattr__' and "'_state'" in s and 'state.export()' in s:
        ev.append((n.lineno, n.col_offset, 'install_state'))
      elif s.startswith('self._state.reimport('):
        ev.append((n.lineno, n.col_offset, 'reimport'))
      elif nm == '_test_transformed_return_values':
        ev.append((n.lineno, n.col_offset, 'check_return'))
      elif nm == 'get_module_scopes':
        ev.append((n.lineno, n.col_offset, 'get_module_scopes'))
      elif nm == 'fork_rngs':
        ev.append((n.lineno, n.col_offset, 'fork_rngs'))
      elif nm == '_HashableProxy.from_module':
        ev.append((n.lineno, n.col_offset, 'hash_proxy'))
      elif isinstance(n.func, ast.Name) and n.func.id in ('prewrapped_fn', 'fn') and n.args and astu.src(n.args[0]) == 'cloned':
        ev.append((n.lineno, n.col_offset, 'call'))
      elif isinstance(n.func, ast.Name) and n.func.id == 'trafo_fn':
        ev.append((n.lineno, n.col_offset, 'trafo'))
  return [e[2] for e in sorted(ev)]


@rule('C05.R6', 'K5', 4, 'the four lift wrappers agree on the export / set scopes / install state / call / reimport protocol')
def r6(R, repo):
  mod = repo.mod(TR)
  base = ['export', 'set_module_scopes', 'install_state', 'call', 'reimport', 'check_return', 'get_module_scopes', 'trafo']
  for w in WRAPPERS:
    f = mod.func(w)
    ev = _events(repo, mod, w)
    core = [e for e in ev if e in base]
    key = key_of(f, 'protocol event order')
    missing = [e for e in base if e not in core]
    marker = {'export': 'export(', 'set_module_scopes': 'set_module_scopes(', 'install_state': "'_state'", 'call': 'cloned', 'reimport': 'reimport(', 'check_return': '_test_transformed_return_values(', 'get_module_scopes': 'get_module_scopes(', 'trafo': 'trafo_fn('}
    helpers = [r_ for r_ in (repo.resolve_call(mod, x, f) for x in ast.walk(f.node) if isinstance(x, ast.Call)) if r_ is not None and getattr(r_, 'mod', None) is mod and r_.qual.split('.')[0] not in WRAPPERS]
    moved = any(marker[e] in astu.src(h.node) for e in missing for h in helpers)
    R.judge(core == base or (bool(missing) and not moved), core == base, key, f, '%s deviates from the shared protocol %s: got %s (e.g. a missing reimport loses the auto-name cursors, so init trees differ)' % (w, base, core))
    if w.endswith('_cached'):
      ok = 'fork_rngs' in ev and 'hash_proxy' in ev and ev.index('fork_rngs') < ev.index('set_module_scopes') and ev.index('hash_proxy') > ev.index('get_module_scopes')
      R.check(ok, key_of(f, 'cached variant forks rngs around everything and hashes after collecting scopes'), f, '%s must run under fork_rngs(self) and build the hash proxy after get_module_scopes' % w)
    # install_state must hand the clone its own export, and the call must use the clone
    inst = [n for n in ast.walk(f.node) if isinstance(n, ast.Call) and astu.call_name(n) == 'object.__setattr__' and "'_state'" in astu.src(n)]
    R.judge(len(inst) == 1 and len(inst[0].args) == 3, len(inst) == 1 and astu.src(inst[0].args[0]) == 'cloned' and any(t.endswith('.export()') for t in evid.arg_text(f, inst[0].args[2])), key_of(f, 'clone gets a fresh export of the state'), f, 'the clone must receive state.export(), not the shared state object')


@rule('C05.R7', 'K5', 5, 'get_module_scopes and set_module_scopes enumerate scopes in the same order')
def r7(R, repo):
  mod = repo.mod(TR)
  g, s = mod.func('get_module_scopes'), mod.func('set_module_scopes')
  gs, ss = mod.func('get_module_scopes.get_scopes'), mod.func('set_module_scopes.set_scopes')
  ga, sa = types.single_def(gs.node, 'attrs'), types.single_def(ss.node, 'attrs')
  R.judge(isinstance(ga, ast.DictComp) and isinstance(sa, ast.DictComp), ga is not None and sa is not None and astu.src(ga) == astu.src(sa), key_of(mod.rel, 'same attribute dict on both sides'), gs,
          'get_scopes and set_scopes must build the same `attrs` dict (same fields, same filter): `%s` vs `%s`' % (astu.short(ga), astu.short(sa)))
  # both traverse that dict with jax.tree_util (sorted-key order), not in field-declaration order
  gl = [n for n in astu.body_walk(gs.node) if isinstance(n, ast.For)]
  okg = len(gl) == 1 and astu.src(gl[0].iter) == 'jax.tree_util.tree_leaves(attrs)'
  sm = [x for x in astu.func_calls(ss) if astu.call_name(x) == 'jax.tree_util.tree_map' and astu.src(x.args[-1]) == 'attrs']
  decl_order = [n for n in gl if 'dataclasses.fields' in astu.src(n.iter) or '__dataclass_fields__' in astu.src(n.iter)]
  R.judge((okg and len(sm) == 1) or bool(decl_order), okg and len(sm) == 1 and astu.src(sm[0].args[0]) == 'set_scopes_inner' and not decl_order, key_of(mod.rel, 'both traverse attrs through jax.tree_util'), gs,
          'scopes of attribute sub-modules must be collected with jax.tree_util.tree_leaves(attrs) and re-bound with jax.tree_util.tree_map(…, attrs): the same (sorted-key) order on both sides; '
          'iterating dataclass fields in declaration order on one side binds sub-modules to each other\'s scopes')
  # module itself: attributes first, own scope last (both)
  c = cfg_of(gs)
  own = [n for n in c.nodes if n.kind == 'stmt' and astu.src(n.stmt) == 'scopes.append(module.scope)']
  lp = [n for n in c.nodes if n.kind == 'for']
  okg = len(own) == 1 and len(lp) == 1 and own[0] in c.reach([lp[0]]) and lp[0] not in c.reach(own)
  cs = cfg_of(ss)
  mp = [n for n in cs.nodes if isinstance(n.stmt, ast.Assign) and astu.src(n.stmt.targets[0]) == 'new_attrs']
  cl = [n for n in cs.nodes if isinstance(n.stmt, ast.Assign) and 'module.clone(parent=scopes[idx]' in astu.src(n.stmt.value)]
  inc = [n for n in cs.nodes if isinstance(n.stmt, ast.AugAssign) and astu.src(n.stmt) == 'idx += 1']
  oks = len(mp) == 1 and len(cl) == 1 and len(inc) == 1 and cl[0] in cs.reach(mp) and inc[0] in cs.reach(cl)
  R.check(okg and oks, key_of(mod.rel, 'module: attributes first, own scope last'), gs, 'both sides must handle a module\'s attributes before the module\'s own scope')
  # argument modules: own scope first, then attributes (both)
  ga_ = mod.func('get_module_scopes.get_arg_scope')
  sa_ = mod.func('set_module_scopes.set_arg_scope')
  lines = {astu.src(n): n.lineno for n in ast.walk(ga_.node) if isinstance(n, ast.stmt)}
  okg = 'scopes.append(x.scope)' in lines and any('tree_map(get_arg_scope, attrs)' in k for k in lines)
  if okg:
    ap = max(n.lineno for n in ast.walk(ga_.node) if isinstance(n, ast.stmt) and astu.src(n) == 'scopes.append(x.scope)')
    rc = [n.lineno for n in ast.walk(ga_.node) if isinstance(n, ast.stmt) and 'tree_map(get_arg_scope, attrs)' in astu.src(n) and not isinstance(n, (ast.If, ast.FunctionDef))]
    okg = bool(rc) and ap < min(rc)
  t = astu.src(sa_.node)
  oks = 'instance_scope = scopes[idx]' in t and t.index('instance_scope = scopes[idx]') < t.index('tree_map(set_arg_scope, x.attrs)')
  R.check(okg and oks, key_of(mod.rel, 'argument module: own scope first, then attributes'), ga_, 'for modules passed as arguments both sides must take the module\'s own scope before descending into its attributes')
  R.check('assert len(scopes) == idx' in astu.src(s.node), key_of(s, 'all scopes consumed'), s, 'set_module_scopes must assert that every collected scope was consumed')
  n_idx = len([n for n in ast.walk(s.node) if isinstance(n, ast.AugAssign) and astu.src(n) == 'idx += 1'])
  n_app = len([n for n in ast.walk(g.node) if isinstance(n, ast.Call) and astu.src(n.func) == 'scopes.append'])
  R.check(n_idx == n_app, key_of(mod.rel, 'as many producer as consumer sites'), g, 'get_module_scopes appends at %d sites, set_module_scopes consumes at %d' % (n_app, n_idx))


PLUMBING = {
    # linen wrapper -> (lift callee, options forwarded by keyword)
    'jit': ('lift.jit', ['variables', 'rngs', 'static_argnums', 'static_argnames', 'donate_argnums', 'device', 'backend']),
    'checkpoint': ('lift.checkpoint', ['variables', 'rngs', 'concrete', 'prevent_cse', 'static_argnums', 'policy']),
    'map_variables': ('lift.map_variables', ['mapped_collections', 'trans_in_fn', 'trans_out_fn', 'init', 'mutable', 'rngs', 'variables']),
}


def check_lift_plumbing(R, repo, name, callee, opts, alias=None):
  """nn.<name>(…) forwards each option unchanged (by keyword, or positionally after `target`) to lift.<callee>."""
  alias = dict({'trans_in_fn': 'map_in_fn', 'trans_out_fn': 'map_out_fn'}, **(alias or {}))
  tr, li = repo.mod(TR), repo.mod(LI)
  f = tr.func(name)
  ps = set(astu.params(f.node))
  sub = ast.Module(body=[f.node], type_ignores=[])
  calls = [x for x in ast.walk(sub) if isinstance(x, ast.Call) and (callee in [astu.src(a) for a in x.args[:1]] or astu.call_name(x) == callee)]
  R.require(calls, 'nn.%s: use of %s not found' % (name, callee))
  call = calls[0]
  lf = li.func(callee.split('.')[1])
  lps = set(astu.params(lf.node))
  lpos = astu.pos_params(lf.node)
  missing = []
  for o in opts:
    if o not in ps:
      missing.append(o + ' (not a parameter of nn.%s)' % name)
      continue
    a = alias.get(o, o)
    v = astu.kwarg(call, o)
    v = v if v is not None else astu.kwarg(call, a)
    if v is None and a in lpos:
      i = lpos.index(a) + 1   # lift_transform(lift.f, target, a1, …) -> lift.f(fn, a1, …)
      if i < len(call.args) and not any(isinstance(x, ast.Starred) for x in call.args[:i + 1]):
        v = call.args[i]
    if not (isinstance(v, ast.Name) and v.id == o) or a not in lps:
      missing.append(o)
  R.check(not missing, key_of(f, 'forwards %s' % ', '.join(opts)), (f, call), evidence=not astu.has_star_kwargs(call), msg_fail='nn.%s does not forward %s unchanged to %s (or the callee has no such parameter)' % (name, missing, callee))


@rule('C05.R8', 'K6', 6, 'options of nn.jit / checkpoint / map_variables / cond / switch / while_loop reach the lifted core and jax unchanged')
def r8(R, repo):
  tr, li = repo.mod(TR), repo.mod(LI)
  for name, (callee, opts) in PLUMBING.items():
    check_lift_plumbing(R, repo, name, callee, opts)
  ck = li.func('checkpoint.inner')
  deco = [d for d in li.func('checkpoint.inner.rematted').node.decorator_list if 'jax.remat' in astu.src(d)]
  ok = len(deco) == 1 and all(k in astu.src(deco[0]) for k in ('concrete=concrete', 'prevent_cse=prevent_cse', 'policy=policy', 'static_argnums=static_argnums_')) and 'lambda x: x + 2' in astu.src(ck.node)
  R.check(ok, key_of(ck, 'jax.remat(concrete, prevent_cse, policy, static_argnums + 2)'), ck, 'lift.checkpoint must pass concrete, prevent_cse, policy and static_argnums shifted by the two leading group arguments to jax.remat')
  for name in ('cond', 'switch'):
    f = li.func(name)
    pk = [x for x in astu.func_calls(f) if astu.call_name(x) == 'pack']
    ok = len(pk) == 1 and [astu.src(a) for a in pk[0].args[1:4]] == ['(variables,)', '(variables,)', '(rngs,)']
    R.check(ok, key_of(f, 'pack(inner, (variables,), (variables,), (rngs,))'), f, 'lift.%s must lift the same `variables` filter in and out and the `rngs` filter' % name)
  wl = li.func('while_loop')
  pk = [x for x in astu.func_calls(wl) if astu.call_name(x) == 'pack']
  ok = len(pk) == 1 and [astu.src(a) for a in pk[0].args[1:4]] == ['(carry_variables, broadcast_variables)', '(carry_variables,)', 'rng_groups']
  R.check(ok, key_of(wl, 'carry collections in and out, broadcast collections in only'), wl, 'lift.while_loop must lift (carry, broadcast) in and only the carry collections out')


@rule('C05.R10', 'K4', 3, 'jit side-effect replay: cached counter deltas are added onto the counters captured before the call; map_variables discards the init pre-pass')
def r10(R, repo):
  mod = repo.mod(LI)
  f = mod.func('_restore_rng_counters')
  maps = [x for x in astu.func_calls(f) if astu.call_tail(x) in ('map', 'tree_map') and x.args and isinstance(x.args[0], ast.Lambda)]
  adds = [(x, y) for x in maps for y in ast.walk(x.args[0].body) if isinstance(y, ast.Call) and astu.call_tail(y) == 'add' and isinstance(y.func, ast.Attribute)]
  key = key_of(f, 'delta.add(old): every counter recorded in the cached delta is replayed')
  if len(adds) == 1:
    m_, a_ = adds[0]
    ps = [p.arg for p in m_.args[0].args.args]
    role = {}
    for p_, arg in zip(ps, m_.args[1:]):
      t = astu.src(arg)
      role[p_] = 'delta' if ('_side_effect_cache.cache' in t or (isinstance(arg, ast.Subscript) and astu.src(arg.slice) == astu.params(f.node)[1])) else ('old' if 'old' in t else '?')
    recv = astu.src(a_.func.value)
    argn = astu.src(a_.args[0]) if a_.args else None
    R.judge(set(role.values()) == {'delta', 'old'} and recv in role and argn in role, role.get(recv) == 'delta' and role.get(argn) == 'old', key, (f, m_),
            '`%s` walks the keys of the counters captured *before* the call and adds the cached delta to them (CountsHolder.add iterates over self): counters first created inside the jitted function '
            '(e.g. those of child scopes) are dropped when the trace is served from the cache, so later draws depend on whether the cache was warm' % astu.short(a_))
  else:
    R.unsure(key, f, 'tree.map(lambda x, y: x.add(y)...) not found in _restore_rng_counters')
  subs = [(x, y) for x in maps for y in ast.walk(x.args[0].body) if isinstance(y, ast.Call) and astu.call_tail(y) == 'sub' and isinstance(y.func, ast.Attribute)]
  key = key_of(f, 'delta = new.sub(old)')
  if len(subs) == 1:
    m_, s_ = subs[0]
    ps = [p.arg for p in m_.args[0].args.args]
    role = {p_: ('old' if 'old' in astu.src(arg) else ('new' if 'new' in astu.src(arg) else '?')) for p_, arg in zip(ps, m_.args[1:])}
    recv, argn = astu.src(s_.func.value), (astu.src(s_.args[0]) if s_.args else None)
    R.judge(set(role.values()) == {'old', 'new'} and recv in role and argn in role, role.get(recv) == 'new' and role.get(argn) == 'old', key, (f, m_), 'the recorded delta must be new counters minus old counters, not `%s`' % astu.short(s_))
  else:
    R.unsure(key, f, 'tree.map(lambda old, new: new.sub(old)) not found')
  w = mod.func('map_variables.wrapper')
  rp = [n for n in astu.body_walk(w.node) if isinstance(n, ast.Assign) and isinstance(n.value, ast.Call) and astu.call_name(n.value) == 'repack' and isinstance(n.targets[0], ast.Tuple) and len(n.targets[0].elts) == 2]
  key = key_of(w, 'init pre-pass: only the mapped target is taken from repack')
  unp = [n for n in astu.body_walk(w.node) if isinstance(n, ast.Assign) and astu.src(n.value) == astu.params(w.node)[2] and isinstance(n.targets[0], ast.Tuple) and len(n.targets[0].elts) == 2]
  if rp and len(unp) == 1:
    other = astu.src(unp[0].targets[0].elts[1])
    for n in rp:
      R.check(astu.src(n.targets[0].elts[1]) != other, key, (w, n), '`%s` lets the throw-away initialisation pass overwrite `%s`, the non-mapped variable group handed to the real pass: every update to a non-mapped mutable collection is applied twice' % (astu.short(n), other), evidence=True)
  else:
    R.unsure(key, w, '`target, _ = repack(scopes)` not found in map_variables.wrapper')


def _attr_reads(e):
  return {(astu.src(n.value), n.attr) for n in ast.walk(e) if isinstance(n, ast.Attribute) and isinstance(n.ctx, ast.Load) and isinstance(n.value, ast.Name)}


@rule('C05.R12', 'K4', 8, 'module bookkeeping crosses a transform boundary field by field: export reads self.F, reimport writes self.F from other.F')
def r12(R, repo):
  mod = repo.mod(MO)
  ex, ri = mod.func('_ModuleInternalState.export'), mod.func('_ModuleInternalState.reimport')
  ctor = [x for x in astu.func_calls(ex) if astu.call_name(x) == '_ModuleInternalState']
  rep = [x for x in astu.func_calls(ex) if astu.call_name(x) in ('dataclasses.replace', 'replace') and x.args and astu.src(x.args[0]) == astu.params(ex.node)[0]]
  if not ctor and len(rep) == 1 and not astu.has_star_kwargs(rep[0]):
    # dataclasses.replace copies every field that is not named *by reference*: a mutable field must be named and copied
    cls = mod.classes.get('_ModuleInternalState')
    mut = [st.target.id for st in (cls.body if cls is not None else []) if isinstance(st, ast.AnnAssign) and isinstance(st.target, ast.Name)
           and any(isinstance(y, ast.Name) and y.id in ('dict', 'list', 'set', 'Dict', 'List') for y in ast.walk(st.annotation))]
    named = {k.arg for k in rep[0].keywords}
    shared = [m_ for m_ in mut if m_ not in named and m_ != 'children']
    if shared:
      R.fail(key_of(ex, 'export %s from self.%s' % (shared[0], shared[0])), (ex, rep[0]), '`%s` leaves `%s` (a mutable dict) shared between the module and its transformed copy: names handed out while tracing one branch / one call advance the counters of the others, so auto-generated submodule names differ from the plain code' % (astu.short(rep[0]), shared[0]))
      return
  R.require(len(ctor) == 1 and not astu.has_star_kwargs(ctor[0]) and not ctor[0].args, 'export: _ModuleInternalState(field=...) constructor call not found')
  exported = []
  for k in ctor[0].keywords:
    key = key_of(ex, 'export %s from self.%s' % (k.arg, k.arg))
    reads = set()
    for e in evid.expand(ex, k.value):
      reads |= _attr_reads(e)
    exported.append(k.arg)
    if ('self', k.arg) in reads and all(b != 'self' or a == k.arg for b, a in reads):
      R.ok(key, (ex, k.value))
    elif reads and all(b == 'self' for b, a in reads) and ('self', k.arg) not in reads:
      R.fail(key, (ex, k.value), 'export fills `%s` from `%s`: the transformed copy of the module would start from another field\'s value' % (k.arg, astu.short(k.value)))
    else:
      R.unsure(key, (ex, k.value), 'source of exported field `%s` not recognised' % k.arg)
  op = astu.params(ri.node)
  R.require(len(op) == 2, 'reimport(self, other) signature changed')
  me, other = op
  written = {}
  for st in astu.body_walk(ri.node):
    if isinstance(st, ast.Assign) and len(st.targets) == 1 and isinstance(st.targets[0], ast.Attribute) and astu.src(st.targets[0].value) == me:
      written[st.targets[0].attr] = st
  for fld, st in sorted(written.items()):
    key = key_of(ri, 'reimport %s from other.%s' % (fld, fld))
    reads = _attr_reads(st.value)
    if reads == {(other, fld)}:
      R.ok(key, (ri, st))
    elif reads and all(b in (me, other) for b, a in reads):
      R.fail(key, (ri, st), '`%s`: the field must be taken from `%s.%s` — the state changed inside the transform (e.g. the auto-name counters) would otherwise be lost and the next submodule would reuse a name' % (astu.short(st), other, fld))
    else:
      R.unsure(key, (ri, st), 'source of re-imported field `%s` not recognised' % fld)
  only_assign = all(isinstance(st, (ast.Assign, ast.Expr, ast.Pass)) for st in ri.node.body)
  for fld in exported:
    if fld == 'setup_called':
      continue  # deliberately one-way: the transformed copy only learns that setup already ran
    key = key_of(ri, 'exported field %s is re-imported' % fld)
    if fld in written:
      R.ok(key, (ri, written[fld]))
    elif only_assign and written:
      R.fail(key, ri, 'field `%s` is exported into the transformed copy but never re-imported: its value after the transformed call is dropped' % fld)
    else:
      R.unsure(key, ri, 're-import of `%s` not recognised' % fld)


@rule('C05.R13', 'K4', 2, 'the jit fingerprint never identifies objects by name; cached class transforms keep one cache slot per method')
def r13(R, repo):
  tr = repo.mod(TR)
  fp = tr.func('_fingerprint_recursive')
  named = [n for n in ast.walk(fp.node) if isinstance(n, ast.Attribute) and n.attr in ('__qualname__', '__name__') and not any(isinstance(a, (ast.Raise,)) for a in astu.ancestors(n))
           and any(isinstance(a, ast.Return) for a in astu.ancestors(n))]
  if named:
    R.fail(key_of(fp, 'objects fingerprinted by identity / value, not by name'), (fp, named[0]), '`%s` enters the fingerprint in place of the object: two different functions with the same qualified name (closures made by one factory, lambdas) get the same cache key, so nn.jit reuses a trace made for another function' % astu.short(named[0]))
  else:
    R.ok(key_of(fp, 'objects fingerprinted by identity / value, not by name'), fp)
  f = tr.func('module_class_lift_transform_cached')
  key = key_of(f, 'one cached transform per method')
  users = [g for q, g in tr.funcs.items() if q.startswith('module_class_lift_transform_cached.') and any(isinstance(n, ast.Nonlocal) and 'trafo_fn' in n.names for n in astu.body_walk(g.node))]
  if not users:
    R.unsure(key, f, 'the wrapper that fills the cache slot (`nonlocal trafo_fn`) was not found')
  for u in users:
    parent_q = u.qual.rsplit('.', 1)[0]
    parent = tr.funcs.get(parent_q)
    init_here = parent is not None and [n for n in astu.body_walk(parent.node) if isinstance(n, ast.Assign) and astu.src(n.targets[0]) == 'trafo_fn' and astu.enclosing_func(n) is parent.node]
    init_outer = [n for n in astu.body_walk(f.node) if isinstance(n, ast.Assign) and astu.src(n.targets[0]) == 'trafo_fn' and astu.enclosing_func(n) is f.node]
    if parent is not None and parent is not f and init_here:
      R.ok(key, (parent, init_here[0]))
    elif parent is not None and parent is not f and init_outer:
      R.fail(key, (f, init_outer[0]), '`trafo_fn = None` was moved out of `%s` (which runs once per method) into the enclosing function: all methods now share one cache slot, so with nn.jit(Cls, methods=[...]) every method runs whichever method was transformed first' % parent.name)
    else:
      R.unsure(key, u, 'the per-method cache slot was not recognised')


@rule('C05.R9', 'K8', 16, 'collection filters used by the lifting machinery are exact (in_filter is membership)')
def r9(R, repo):
  _c14.check_in_filter(R, repo)


meta('C05',
     explanation='Pairing of scope_fn / repack_fn in every lifted inner function of flax/core/lift.py (exactly-once / must-pass on the CFG), publish-exactly-once in pack.wrapper and the '
     'guards of publish_results_fn / repack_fn / Scope.put_variable.put, intersection structure of the inner scope mutability, group arity against literal filter tuples, contents of the '
     'lifted-jit fingerprint (lift.jit and linen._fingerprint_recursive against the fields exported by _ModuleInternalState.export), sibling agreement of the four lift wrappers, '
     'lock-step of get_module_scopes / set_module_scopes, and option plumbing to lift.* and jax.remat.',
     not_decided=['numerical equality with the plain program', 'reproducibility of random draws as values', "jax's own compilation cache"],
     mutants=[
         Mutant('C05-m1', SC, "        for k, v in val.items():\n          put(target[key], k, v)", "        target[key].update(val)", 'C05.R2', why='seed C05-A'),
         Mutant('C05-m2', TR, "          _get_fingerprint('rng_counts', scope.rng_counters),", "          _get_fingerprint('rng_counts', {name: scope.rng_counters.get(name, 0) for name in scope.rngs}),", 'C05.R5', why='seed C05-B'),
         Mutant('C05-m3', LI, "      scope_mutable = intersect_filters(\n          intersect_filters(scope.mutable, mutable), mutable_filter\n      )", "      scope_mutable = intersect_filters(\n          union_filters(scope.mutable, mutable), mutable_filter\n      )", 'C05.R3'),
         Mutant('C05-m4', LI, "    publish_results_fn(out_variable_groups_xs_t)\n    return y", "    if enable_kwargs:\n      publish_results_fn(out_variable_groups_xs_t)\n    return y", 'C05.R2'),
         Mutant('C05-m5', LI, "          if not scope.is_mutable_collection(col_name):\n            # Some lifted transforms like scan return redundant variables.\n            continue\n", "", 'C05.R2'),
         Mutant('C05-m6', TR, "    for leaf in jax.tree_util.tree_leaves(attrs):\n      get_scopes_inner(leaf)\n    scopes.append(module.scope)", "    for f in dataclasses.fields(module):\n      if f.name != 'parent' and f.init:\n        for leaf in jax.tree_util.tree_leaves(getattr(module, f.name)):\n          get_scopes_inner(leaf)\n    scopes.append(module.scope)", 'C05.R7', why='seed C07-A'),
         Mutant('C05-m7', LI, "      y = branch_fn(scope, *operands)\n      return y, repack_fn(scope)\n\n    pure_branches = [\n      functools.partial(branch_wrapper, branch_fn) for branch_fn in branches\n    ]\n    return jax.lax.switch(",
                "      y = branch_fn(scope, *operands)\n      return y, repack_fn(scope_fn(variable_groups, rng_groups))\n\n    pure_branches = [\n      functools.partial(branch_wrapper, branch_fn) for branch_fn in branches\n    ]\n    return jax.lax.switch(", 'C05.R1'),
         Mutant('C05-m8', TR, "      res = prewrapped_fn(cloned, *args, **kwargs)\n      self._state.reimport(cloned._state)\n      _test_transformed_return_values(res, getattr(class_fn, '__name__', None))\n      return res\n\n    core_fns = [\n      functools.partial(core_fn, prewrapped_fn, class_fn)",
                "      res = prewrapped_fn(cloned, *args, **kwargs)\n      _test_transformed_return_values(res, getattr(class_fn, '__name__', None))\n      return res\n\n    core_fns = [\n      functools.partial(core_fn, prewrapped_fn, class_fn)", 'C05.R6'),
         Mutant('C05-m9', LI, "        lambda x, y: x.add(y).unflat(),", "        lambda x, y: y.add(x).unflat(),", 'C05.R10', why='seed C05-C (round 2)'),
         Mutant('C05-m10', LI, "        target, _ = repack(scopes)", "        target, variables = repack(scopes)", 'C05.R10', why='seed C05-D (round 2)'),
         Mutant('C05-b1', LI, "      scope = scope_fn(variable_groups, rng_groups)\n      y = branch_fn(scope, *operands)\n      return y, repack_fn(scope)\n\n    pure_branches = [\n      functools.partial(branch_wrapper, branch_fn) for branch_fn in branches\n    ]\n    return jax.lax.switch(",
                "      scope = scope_fn(variable_groups, rng_groups)\n      y = branch_fn(scope, *operands)\n      out_vars = repack_fn(scope)\n      return y, out_vars\n\n    pure_branches = [\n      functools.partial(branch_wrapper, branch_fn) for branch_fn in branches\n    ]\n    return jax.lax.switch(", kind='benign'),
     ])
