"""Rule registry. Property modules decorate rule functions with @rule(...)."""
from __future__ import annotations

REGISTRY: dict = {}   # 'C01' -> [RuleSpec]
META: dict = {}       # 'C01' -> dict(explanation=..., not_decided=[...], mutants=[...], benign=[...])


class RuleSpec:

  def __init__(self, rid, kind, floor, title, fn):
    self.id, self.kind, self.floor, self.title, self.fn = rid, kind, floor, title, fn
    self.prop = rid.split('.')[0]


def rule(rid, kind, floor, title):

  def deco(fn):
    spec = RuleSpec(rid, kind, floor, title, fn)
    REGISTRY.setdefault(spec.prop, []).append(spec)
    return fn

  return deco


class Mutant:
  """A textual edit of one file used to validate a rule (thorough tier).

  kind='break': the edited tree must make `expect` (rule id) fire.
  kind='benign': behaviour-preserving edit; every rule of the property must stay silent.
  If `old` is not found exactly once in the file the mutant is skipped (the tree
  under analysis differs from the one the mutant was written for).
  """

  def __init__(self, mid, file, old, new, expect=None, kind='break', why='', count=1):
    self.id, self.file, self.old, self.new, self.expect, self.kind, self.why = mid, file, old, new, expect, kind, why
    self.count = count


def meta(prop, **kw):
  META.setdefault(prop, {}).update(kw)
