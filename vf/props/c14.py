"""C14 — Linen filters form a Boolean algebra; grouping/splitting by filters is a first-match partition."""
from __future__ import annotations

import ast
import itertools

from .. import astu, evid, filteralg as fa, flow, patterns
from ..cfg import cfg_of
from ..model import AnalysisError
from ..report import key_of
from . import Mutant, meta, rule

SC = 'flax/core/scope.py'
FL = 'flax/nnx/filterlib.py'
FUNCS = ['in_filter', 'is_filter_empty', 'filter_to_set', 'union_filters', 'intersect_filters', 'subtract_filters']


def _funcs(repo):
  mod = repo.mod(SC)
  return mod, {n: mod.func(n).node for n in FUNCS}


@rule('C14.R1', 'K8', 150, 'union / intersect / subtract denote or / and / and-not for every pair of filter shapes')
def r1(R, repo):
  mod, funcs = _funcs(repo)
  sa, sb = fa.shapes(2, 'a'), fa.shapes(2, 'b')
  for name, op in fa.ALGEBRA.items():
    f = mod.func(name)
    for a, b in itertools.product(sa, sb):
      key = key_of(f, '%s(%s, %s)' % (name, fa.show(a), fa.show(b)))
      it = fa.Interp(funcs)
      try:
        res = it.run(name, [a, b])
        got = fa.result_membership(res)
      except fa.Obligation as e:
        R.fail(key, f, 'for these well-formed filters the function does not return a filter: %s' % e)
        continue
      except fa.Unsupported as e:
        raise AnalysisError('%s left the analysable fragment: %s' % (name, e))
      want = op(fa.member(a), fa.member(b))
      ok, cex = fa.equivalent(got, want)
      wf = True
      wmsg = ''
      for callee, srcs, shp in it.rec_calls:
        ms = [fa.measure(s) for s in shp]
        if None in ms or sum(ms) >= fa.measure(a) + fa.measure(b):
          wf, wmsg = False, 'recursive call %s(%s) does not decrease the DenyList nesting (not well-founded)' % (callee, ', '.join(srcs))
      if not ok:
        R.fail(key, f, '%s(%s, %s) matches a collection name differently from `%s` of its operands; counterexample membership %s' % (
            name, fa.show(a), fa.show(b), {'union_filters': 'or', 'intersect_filters': 'and', 'subtract_filters': 'and-not'}[name], cex))
      elif not wf:
        R.fail(key, f, wmsg)
      else:
        R.ok(key, f)


def check_in_filter(R, repo):
  """in_filter(f, col) is exactly membership of col in f for every filter shape (shared with C01/C05)."""
  mod, funcs = _funcs(repo)
  F = mod.func('in_filter')
  for s in fa.shapes(3, 'a'):
    key = key_of(F, 'in_filter(%s, col)' % fa.show(s))
    try:
      res = fa.Interp(funcs).run('in_filter', [s, ('COL',)])
      got = fa.Interp(funcs).truth(res)
    except fa.Obligation as e:
      R.fail(key, F, 'in_filter rejects a well-formed filter: %s' % e)
      continue
    except fa.Unsupported as e:
      raise AnalysisError('in_filter left the analysable fragment: %s' % e)
    ok, cex = fa.equivalent(got, fa.member(s))
    R.check(ok, key, F, evidence=True, msg_fail='in_filter(%s, col) is not membership of col in the filter (e.g. substring instead of equality, or a wrong '
            'negation); counterexample %s' % (fa.show(s), cex))


@rule('C14.R2', 'K8', 30, 'in_filter is membership; is_filter_empty holds exactly when no name can match; filter_to_set is exact')
def r2(R, repo):
  check_in_filter(R, repo)
  mod, funcs = _funcs(repo)
  E = mod.func('is_filter_empty')
  for s in fa.shapes(3, 'a'):
    key = key_of(E, 'is_filter_empty(%s)' % fa.show(s))
    try:
      res = fa.Interp(funcs).run('is_filter_empty', [s])
      got = fa.Interp(funcs).truth(res)
    except fa.Obligation as e:
      R.fail(key, E, 'is_filter_empty rejects a well-formed filter: %s' % e)
      continue
    except fa.Unsupported as e:
      raise AnalysisError('is_filter_empty left the analysable fragment: %s' % e)
    want = fa.spec_empty(s)
    ok, cex = fa.equivalent(got, want)
    R.check(ok, key, E, evidence=True, msg_fail='is_filter_empty(%s) disagrees with "no collection name can match": reported %s, but the filter is %s%s' % (
        fa.show(s), got, 'empty' if want is True else ('not empty' if want is False else 'empty iff the collection is empty'),
        (' (assignment %s)' % cex) if cex else ''))
  S = mod.func('filter_to_set')
  for s in fa.shapes(1, 'a'):
    key = key_of(S, 'filter_to_set(%s)' % fa.show(s))
    finite = s[0] in ('F', 'S', 'C')
    try:
      res = fa.Interp(funcs).run('filter_to_set', [s])
      if not finite:
        R.fail(key, S, 'filter_to_set accepts the infinite filter %s' % fa.show(s))
        continue
      ok, cex = fa.equivalent(fa.result_membership(res), fa.member(s))
      R.check(ok and res[0] == 'SET', key, S, 'filter_to_set(%s) is not the set of names the filter matches' % fa.show(s), evidence=True)
    except fa.Obligation as e:
      R.check(not finite, key, S, 'filter_to_set rejects the finite filter %s: %s' % (fa.show(s), e), evidence=True)
    except fa.Unsupported as e:
      raise AnalysisError('filter_to_set left the analysable fragment: %s' % e)


@rule('C14.R3', 'K1', 4, 'every filter function ends in InvalidFilterError; str is tested before Collection')
def r3(R, repo):
  mod = repo.mod(SC)
  for name in ('in_filter', 'is_filter_empty', 'filter_to_set'):
    f = mod.func(name)
    last = f.node.body[-1]
    R.check(isinstance(last, ast.Raise) and astu.raised_name(last) == 'InvalidFilterError', key_of(f, 'falls through to InvalidFilterError'), f,
            '%s must raise InvalidFilterError for anything that is not a filter' % name)
  # K1 ordering is implied semantically by C14.R2 (a str shape answers True to the Collection test); recorded as an instance
  for name in ('in_filter', 'is_filter_empty', 'filter_to_set'):
    f = mod.func(name)
    c = cfg_of(f)
    ts = [n for n in c.nodes if n.kind == 'if' and astu.isinstance_test(n.ast)]
    order = [astu.isinstance_test(n.ast)[1][0].split('.')[-1] for n in ts]
    if name != 'in_filter' and not ('str' in order and 'Collection' in order):
      continue
    # order along the control flow: the Collection test must not be reachable before the str test has been answered "no"
    s_t = [n for n in ts if astu.isinstance_test(n.ast)[1][0].split('.')[-1] == 'str']
    c_t = [n for n in ts if astu.isinstance_test(n.ast)[1][0].split('.')[-1] == 'Collection']
    ok = bool(s_t) and bool(c_t) and all(c.edge_guarded(ct, s_t[0], 'F') for ct in c_t)
    R.judge(bool(s_t) and bool(c_t), ok, key_of(f, 'str before Collection'), f,
            '%s must test str before typing.Collection (a str is a Collection of its characters: in the other order a name filter matches by character / substring)' % name)


@rule('C14.R4', 'K2', 3, 'group_collections: each collection lands in exactly the first matching group')
def r4(R, repo):
  mod = repo.mod(SC)
  f = mod.func('group_collections')
  outer = [n for n in f.node.body if isinstance(n, ast.For)]
  R.require(len(outer) == 1, 'group_collections: outer loop over filters not found')
  outer = outer[0]
  inner = [n for n in outer.body if isinstance(n, ast.For)]
  R.require(len(inner) == 1, 'group_collections: inner loop over collections not found')
  inner = inner[0]
  c = cfg_of(f)
  col = inner.target.id
  filt = outer.target.id
  tests = [n for n in c.nodes if n.kind == 'if' and isinstance(n.ast, ast.Call) and astu.call_name(n.ast) == 'in_filter']
  ok = len(tests) == 1 and [astu.src(a) for a in tests[0].ast.args] == [filt, col]
  R.judge(len(tests) == 1 and len(tests[0].ast.args) == 2, ok, key_of(f, 'in_filter(col_filter, col) decides'), (f, inner), 'the group test must be in_filter(<this filter>, <this collection>)')
  if ok:
    t = tests[0]
    stores = [n for n in c.nodes if isinstance(n.stmt, ast.Assign) and isinstance(n.stmt.targets[0], ast.Subscript)
              and astu.src(n.stmt.targets[0].slice) == col and n in c.loop_body_nodes(inner)]
    apps = [n for n in c.nodes if n in c.loop_body_nodes(inner) and isinstance(n.stmt, ast.Expr) and isinstance(n.stmt.value, ast.Call)
            and astu.call_tail(n.stmt.value) == 'append' and astu.src(n.stmt.value.args[0]) == col]
    head = c.nodes_of_stmt(inner)[0]
    ok2 = len(stores) == 1 and len(apps) == 1 and c.edge_guarded(stores[0], t, 'T') and c.edge_guarded(apps[0], t, 'F')
    # every iteration passes exactly one of them
    firsts = [m for m, lab in c.succ[head] if lab == 'T']
    ev = stores + apps
    ok2 = ok2 and all(s in ev or head not in c.reach([s], avoid=ev) for s in firsts)
    R.judge(len(stores) >= 1 and len(apps) >= 1, ok2, key_of(f, 'store into group XOR append to remaining'), (f, inner),
            'per collection exactly one of `group[col] = …` (filter matches) / `remaining.append(col)` (does not) must happen')
    # cols is rebound to the remainder; a fresh group/remaining per filter; one group appended per filter
    rem = apps[0].stmt.value.func.value.id if apps else None
    grp = astu.src(stores[0].stmt.targets[0].value) if stores else None
    rebinds = [st for st in outer.body if isinstance(st, ast.Assign) and astu.src(st.targets[0]) == astu.src(inner.iter) and astu.src(st.value) == rem]
    fresh = [st for st in outer.body if isinstance(st, ast.Assign) and astu.src(st.targets[0]) in (rem, grp)
             and isinstance(st.value, (ast.List, ast.Dict)) and outer.body.index(st) < outer.body.index(inner)]
    gapp = [st for st in outer.body if isinstance(st, ast.Expr) and isinstance(st.value, ast.Call) and astu.call_tail(st.value) == 'append'
            and astu.src(st.value.args[0]) == grp]
    ok3 = len(rebinds) == 1 and outer.body.index(rebinds[0]) > outer.body.index(inner) and len(fresh) == 2 and len(gapp) == 1
    rb_any = [st for st in outer.body if isinstance(st, ast.Assign) and astu.src(st.targets[0]) == astu.src(inner.iter)]
    R.judge(bool(rem) and bool(grp) and (len(rebinds) == 1 or not rb_any) and len(fresh) == 2 and len(gapp) == 1, ok3, key_of(f, 'remaining collections carried to the next filter; one fresh group per filter'), (f, outer),
            'after each filter the candidate collections must be rebound to the unmatched remainder, with a fresh group and remainder per filter')
    # the stored value is a copy of the collection (shared with C01: lifted transforms must not alias the outer dict)
    val = stores[0].stmt.value if stores else None
    okc = isinstance(val, ast.Call) and astu.call_tail(val) in ('tree_map', 'unfreeze', 'dict', 'copy', 'deepcopy')
    xs_p = astu.params(f.node)[0]
    aliased = val is not None and evid.raw3(f, val, xs_p, ('tree_map', 'unfreeze', 'dict', 'copy', 'deepcopy')) == evid.RAW
    R.judge(okc or aliased, okc, key_of(f, 'group holds a copy of the collection'), (f, inner), 'group[col] must be a structural copy (tree_map) of xs[col], not xs[col] itself')


def _alias_members(mod, name):
  v = mod.assigns.get(name)
  if v is None:
    raise AnalysisError('alias %s vanished from %s' % (name, mod.rel))
  if isinstance(v, ast.Subscript):
    sl = v.slice
    return [astu.src(e) for e in (sl.elts if isinstance(sl, ast.Tuple) else [sl])]
  raise AnalysisError('alias %s is not a Union[...]' % name)


@rule('C14.R5', 'K4', 9, 'to_predicate handles every alternative of the Filter type and rejects the rest')
def r5(R, repo):
  mod = repo.mod(FL)
  f = mod.func('to_predicate')
  lits = _alias_members(mod, 'FilterLiteral')
  top = _alias_members(mod, 'Filter')
  alts = set(lits) | {t.split('[')[0] for t in top if t != 'FilterLiteral'}
  c = cfg_of(f)
  # collect the dispatch chain: test source -> returned constructor
  chain = []
  st = [s for s in f.node.body if isinstance(s, ast.If)]
  R.require(len(st) == 1, 'to_predicate: single if/elif chain expected')
  class _Br:   # one arm of the dispatch, polarity-normalised: `if not T: A else: B` reads as `if T: B else: A`
    def __init__(self, test, body, node):
      self.test, self.body, self.node, self.lineno = test, body, node, node.lineno
  cur = st[0]
  final_else = None
  while True:
    test, body, orelse = cur.test, cur.body, cur.orelse
    if isinstance(test, ast.UnaryOp) and isinstance(test.op, ast.Not) and orelse:
      test, body, orelse = test.operand, orelse, body
    chain.append(_Br(test, body, cur))
    if len(orelse) == 1 and isinstance(orelse[0], ast.If):
      cur = orelse[0]
    else:
      final_else = orelse
      break
  P = lambda n: filter_param
  filter_param = astu.params(f.node)[0]

  def handles(test):
    s = astu.src(test)
    out = set()
    it = astu.isinstance_test(test, filter_param)
    if it:
      for t in it[1]:
        out.add(t)
    if s in ('%s is Ellipsis' % filter_param, '%s is ...' % filter_param):
      out.add('ellipsis')
    if s == '%s is None' % filter_param:
      out.add('None')
    if s == 'callable(%s)' % filter_param:
      out.add('Predicate')
    return out

  handled = {}
  for i, node in enumerate(chain):
    for h in handles(node.test):
      handled.setdefault(h, i)
  want = {'type': 'type', 'str': 'str', 'Predicate': 'Predicate', 'bool': 'bool', 'ellipsis': 'ellipsis', 'None': 'None',
          'tuple': 'tuple', 'list': 'list'}
  for a in sorted(alts):
    k = want.get(a)
    R.require(k is not None, 'Filter alias has an alternative this rule does not know: %s' % a)
    R.judge(len(handled) >= 4, k in handled, key_of(f, 'alternative %s handled' % a), f, 'to_predicate has no branch for Filter alternative `%s`' % a)
  # order constraints: type (and str, bool) before callable — classes are callable
  if 'Predicate' in handled:
    for a in ('type',):
      R.judge(a in handled, a in handled and handled[a] < handled['Predicate'], key_of(f, '%s tested before callable' % a), f,
              '`isinstance(filter, %s)` must be tested before `callable(filter)`: a class is callable and would be used as a predicate' % a)
  R.check(bool(final_else) and any(isinstance(s_, ast.Raise) for s_ in final_else), key_of(f, 'else raises'), f, 'to_predicate must raise for non-filters')
  # which predicate each branch builds
  table = {'str': 'WithTag', 'type': 'OfType', 'ellipsis': 'Everything', 'None': 'Nothing', 'tuple': 'Any', 'list': 'Any'}
  for a, ctor in sorted(table.items()):
    if a not in handled:
      continue
    node = chain[handled[a]]
    rets = [n for s in node.body for n in astu.walk_shallow(s) if isinstance(n, ast.Return)]
    ok = len(rets) == 1 and isinstance(rets[0].value, ast.Call) and astu.call_name(rets[0].value) == ctor
    if ok and ctor in ('WithTag', 'OfType'):
      ok = [astu.src(x) for x in rets[0].value.args] == [filter_param]
    if ok and ctor == 'Any':
      ok = len(rets[0].value.args) == 1 and isinstance(rets[0].value.args[0], ast.Starred) and astu.src(rets[0].value.args[0].value) == filter_param
    R.judge(len(rets) == 1 and isinstance(rets[0].value, ast.Call) and astu.call_name(rets[0].value) in set(table.values()) | {'Not', 'All'}, ok, key_of(f, '%s -> %s' % (a, ctor)), (f, node.node), 'a %s filter must become %s(...)' % (a, ctor))
  if 'bool' in handled:
    node = chain[handled['bool']]
    inner = [s for s in node.body if isinstance(s, ast.If)]
    _rets = lambda blk: [astu.src(s_) for s_ in blk if isinstance(s_, ast.Return)]
    if len(inner) == 1 and isinstance(inner[0].test, ast.UnaryOp) and isinstance(inner[0].test.op, ast.Not):
      inner = [ast.If(test=inner[0].test.operand, body=inner[0].orelse, orelse=inner[0].body)]
    ok = len(inner) == 1 and astu.src(inner[0].test) == filter_param and \
        _rets(inner[0].body) == ['return Everything()'] and _rets(inner[0].orelse) == ['return Nothing()']
    R.judge(len(inner) == 1 and astu.src(inner[0].test) == filter_param and len(_rets(inner[0].body)) == 1 and len(_rets(inner[0].orelse)) == 1, ok, key_of(f, 'bool -> Everything/Nothing'), (f, node.node), 'True must become Everything() and False Nothing()')
  if 'Predicate' in handled:
    node = chain[handled['Predicate']]
    R.check([astu.src(s_) for s_ in node.body if isinstance(s_, ast.Return)] == ['return %s' % filter_param], key_of(f, 'callable passes through'), (f, node.node),
            'a predicate must be returned unchanged')


def _ret_expr(mod, qual):
  f = mod.func(qual)
  rets = [n for n in astu.body_walk(f.node) if isinstance(n, ast.Return)]
  if len(rets) != 1:
    raise AnalysisError('%s: single return expected' % qual)
  return f, rets[0].value


@rule('C14.R6', 'K4', 9, 'NNX combinators denote the corresponding predicate combinations')
def r6(R, repo):
  mod = repo.mod(FL)
  for cls, red in (('Any', 'any'), ('All', 'all')):
    f, e = _ret_expr(mod, cls + '.__call__')
    ps = astu.params(f.node)
    ok = isinstance(e, ast.Call) and astu.call_name(e) == red and len(e.args) == 1 and isinstance(e.args[0], ast.GeneratorExp)
    if ok:
      g = e.args[0]
      ok = len(g.generators) == 1 and not g.generators[0].ifs and astu.src(g.generators[0].iter) == 'self.predicates' and \
          isinstance(g.elt, ast.Call) and astu.src(g.elt.func) == astu.src(g.generators[0].target) and \
          [astu.src(a) for a in g.elt.args] == ps[1:3]
    if isinstance(e, ast.Call) and len(e.args) == 1 and isinstance(e.args[0], ast.GeneratorExp) and len(e.args[0].generators) == 1:
      pv = astu.src(e.args[0].generators[0].target)
      evid.judge_expr(R, f, e, '%s((%s(%s, %s) for %s in self.predicates))' % (red, pv, ps[1], ps[2], pv), key_of(f, '%s over all sub-predicates on (path, x)' % red), f, '%s.__call__ must be %s(p(path, x) for p in self.predicates)' % (cls, red), follow=False, vocab=('any', 'all', ps[1], ps[2]))
    else:
      R.unsure(key_of(f, '%s over all sub-predicates on (path, x)' % red), f, '%s.__call__ is not a single reduction over a generator' % cls)
    init = mod.func(cls + '.__init__')
    calls = [c for c in astu.func_calls(init) if astu.call_name(c) == 'to_predicate']
    st = [n for n in astu.body_walk(init.node) if isinstance(n, ast.Attribute) and isinstance(n.ctx, ast.Store) and n.attr == 'predicates']
    gens = [n for n in astu.body_walk(init.node) if isinstance(n, (ast.GeneratorExp, ast.ListComp))]
    ok = len(calls) == 1 and len(st) == 1 and len(gens) == 1 and not gens[0].generators[0].ifs and \
        astu.src(gens[0].generators[0].iter) == astu.params(init.node)[1]
    R.check(ok, key_of(init, 'every sub-filter converted'), init, '%s.__init__ must convert every given filter with to_predicate' % cls)
  # sibling cross-check: Any and All are the same code up to the combinator (any / all) and their own class name
  for meth in ('__init__', '__call__'):
    fa_, fb_ = mod.func('Any.' + meth), mod.func('All.' + meth)
    norm = lambda fn_, own, red: ' '.join(astu.src(ast.Module(body=astu.strip_docstring(fn_.node.body), type_ignores=[])).replace(own, '<SELF>').replace(red + '(', '<RED>(').split())
    a_, b_ = norm(fa_, 'Any', 'any'), norm(fb_, 'All', 'all')
    key = key_of(mod.rel, 'Any.%s and All.%s agree up to the combinator' % (meth, meth))
    if a_ == b_:
      R.ok(key, fb_)
    elif 'Any' in b_ or 'any(' in b_:
      R.fail(key, fb_, 'All.%s refers to the sibling combinator (`%s`): nested filters are combined with the semantics of Any inside an All' % (meth, 'Any' if 'Any' in b_ else 'any('))
    elif 'All' in a_ or 'all(' in a_:
      R.fail(key, fa_, 'Any.%s refers to the sibling combinator (`%s`)' % (meth, 'All' if 'All' in a_ else 'all('))
    else:
      R.unsure(key, fb_, 'Any.%s and All.%s differ beyond the combinator' % (meth, meth))
  f, e = _ret_expr(mod, 'Not.__call__')
  ps = astu.params(f.node)
  ok = isinstance(e, ast.UnaryOp) and isinstance(e.op, ast.Not) and isinstance(e.operand, ast.Call) and \
      astu.src(e.operand.func) == 'self.predicate' and [astu.src(a) for a in e.operand.args] == ps[1:3]
  evid.judge_expr(R, f, e, 'not self.predicate(%s, %s)' % (ps[1], ps[2]), key_of(f, 'negation'), f, 'Not.__call__ must be `not self.predicate(path, x)`', follow=False)
  for cls, val in (('Everything', True), ('Nothing', False)):
    f, e = _ret_expr(mod, cls + '.__call__')
    R.check(astu.is_const(e, val), key_of(f, 'constant %s' % val), f, '%s.__call__ must return %s' % (cls, val), evidence=isinstance(e, ast.Constant))
  f, e = _ret_expr(mod, 'WithTag.__call__')
  x = astu.params(f.node)[2]
  ok = isinstance(e, ast.BoolOp) and isinstance(e.op, ast.And) and astu.src(e.values[-1]) in ('%s.tag == self.tag' % x, 'self.tag == %s.tag' % x)
  R.check(ok, key_of(f, 'tag equality'), f, 'WithTag must test x.tag == self.tag (guarded by the has-tag test)')
  f, e = _ret_expr(mod, 'PathContains.__call__')
  evid.judge_expr(R, f, e, 'self.key in %s' % astu.params(f.node)[1], key_of(f, 'key in path'), f, 'PathContains must test `self.key in path`', follow=False)
  f, e = _ret_expr(mod, 'PathIn.__call__')
  evid.judge_expr(R, f, e, '%s in self.paths' % astu.params(f.node)[1], key_of(f, 'path in paths'), f, 'PathIn must test `path in self.paths`', follow=False)
  check_oftype(R, repo)


def check_oftype(R, repo):
  """OfType(T) matches instances of T and states whose recorded .type is a subclass of T (shared with C03)."""
  mod = repo.mod(FL)
  f0 = mod.func('OfType.__call__')
  x0 = astu.params(f0.node)[2]
  # roles of the two issubclass arguments, whatever the surrounding shape: (type recorded on the candidate, the filter's type)
  subs = [c_ for c_ in astu.func_calls(f0) if astu.call_name(c_) == 'issubclass' and len(c_.args) == 2]
  def _role(e_):
    txt = ' '.join(astu.src(y_) for y_ in evid.expand(f0, e_) if isinstance(y_, ast.AST))
    cand = (x0 + '.type') in txt or ("getattr(%s, 'type'" % x0) in txt
    filt = 'self.type' in txt
    return 'cand' if cand and not filt else ('filter' if filt and not cand else None)
  if len(subs) == 1 and _role(subs[0].args[0]) == 'filter' and _role(subs[0].args[1]) == 'cand':
    R.fail(key_of(f0, 'isinstance or issubclass of .type'), (f0, subs[0]), '`%s` asks whether the *filter\'s* type is a subclass of the type recorded on the state: a filter for a subclass (LoRAParam) then matches every base-class state (Param), and a base-class filter misses the subclasses it should include' % astu.short(subs[0]))
    return
  if len(subs) == 1 and _role(subs[0].args[0]) == 'cand' and _role(subs[0].args[1]) == 'filter' and any(isinstance(c_, ast.Call) and astu.call_name(c_) == 'isinstance' and astu.src(c_.args[0]) == x0 and astu.src(c_.args[1]) == 'self.type' for c_ in astu.func_calls(f0)):
    R.ok(key_of(f0, 'isinstance or issubclass of .type'), (f0, subs[0]))
    return
  exact = [c_ for c_ in ast.walk(f0.node) if isinstance(c_, ast.Compare) and len(c_.ops) == 1 and isinstance(c_.ops[0], (ast.Is, ast.Eq)) and
           {_role(c_.left), _role(c_.comparators[0])} == {'cand', 'filter'}]
  if not subs and exact:
    R.fail(key_of(f0, 'isinstance or issubclass of .type'), (f0, exact[0]), '`%s` matches a state only when its recorded type *is* the filter\'s type: states of subclasses (a LoRAParam for a Param filter) are no longer selected, while Variable objects of the same subclass still are (isinstance)' % astu.short(exact[0]))
    return
  f, e = _ret_expr(mod, 'OfType.__call__')
  x = astu.params(f.node)[2]
  evid.judge_expr(R, f, e, "isinstance(%s, self.type) or (hasattr(%s, 'type') and issubclass(%s.type, self.type))" % (x, x, x), key_of(f, 'isinstance or issubclass of .type'), f,
                  'OfType must test isinstance(x, T) or issubclass(x.type, T): the recorded type of a state must be a *subclass of the filter\'s type*, not the other way round', follow=False)


def _memoised_group(f):
  """(node, table, key) when the index of the group a leaf is appended to comes from a local table looked up by a key that does
  not contain the leaf's path."""
  for lp in [n for n in astu.body_walk(f.node) if isinstance(n, ast.For) and isinstance(n.target, ast.Tuple) and len(n.target.elts) == 2 and all(isinstance(e, ast.Name) for e in n.target.elts)]:
    path_v = lp.target.elts[0].id
    for x in ast.walk(lp):
      if isinstance(x, ast.Call) and isinstance(x.func, ast.Attribute) and x.func.attr == 'append' and isinstance(x.func.value, ast.Subscript) and isinstance(x.func.value.slice, ast.Name):
        idx = x.func.value.slice.id
        for d in flow.defs(f, idx):
          for e in ([d[0]] if isinstance(d[0], ast.AST) else []):
            for y in ast.walk(e):
              tbl = key = None
              if isinstance(y, ast.Call) and isinstance(y.func, ast.Attribute) and y.func.attr == 'get' and isinstance(y.func.value, ast.Name) and y.args:
                tbl, key = y.func.value.id, y.args[0]
              elif isinstance(y, ast.Subscript) and isinstance(y.value, ast.Name) and isinstance(y.ctx, ast.Load):
                tbl, key = y.value.id, y.slice
              if tbl is None:
                continue
              tdefs = [t[0] for t in flow.defs(f, tbl) if isinstance(t[0], ast.AST)]
              if not tdefs or not all(isinstance(t, ast.Dict) or (isinstance(t, ast.Call) and astu.call_name(t) in ('dict', 'collections.defaultdict', 'defaultdict')) for t in tdefs):
                continue
              knames = set()
              for k_ in evid.expand(f, key):
                if isinstance(k_, ast.AST):
                  knames |= astu.names_loaded(k_)
              if path_v not in knames:
                return y, tbl, astu.short(key)
  return None


@rule('C14.R7', 'K2+K5', 5, 'NNX splits are first-match partitions; `...` may only come last')
def r7(R, repo):
  sites = [('flax/nnx/statelib.py', '_split_state', 'store'), ('flax/nnx/variablelib.py', 'split_flat_state', 'raise'),
           ('flax/nnx/graph.py', '_graph_pop', 'drop')]
  for rel, qual, want_else in sites:
    f = repo.func(rel, qual)
    loops = [n for n in astu.body_walk(f.node) if isinstance(n, ast.For) and
             any(isinstance(x, ast.If) and any(isinstance(y, ast.Call) and isinstance(y.func, ast.Name) and
                                                y.func.id in astu.names_stored(n.target) for y in ast.walk(x.test)) for x in ast.walk(n))]
    if len(loops) != 1:
      memo = _memoised_group(f)
      if memo is not None:
        R.fail(key_of(f, 'first-match loop'), (f, memo[0]), '%s: the group of a leaf is looked up in `%s`, a table keyed by `%s`, instead of being decided by the predicates for this very (path, value): filters that depend on the path or on anything but that key (PathContains, WithTag, Not/All, lambdas) no longer give a first-match partition' % (qual, memo[1], memo[2]))
        continue
    R.require(len(loops) == 1, '%s: predicate loop not found' % qual)
    ok, msg, info = patterns.first_match_loop(f, loops[0])
    R.judge(ok is not None, ok, key_of(f, 'first-match loop'), (f, loops[0]), '%s: %s' % (qual, msg))
    if ok:
      R.check(info['else'] == want_else, key_of(f, 'unmatched items: %s' % want_else), (f, loops[0]), evidence=True, msg_fail=
              '%s: items matching no filter must be handled by `%s` in the for-else, found `%s`' % (qual, want_else, info['else']))
  # `...`-must-be-last validation dominates predicate construction in both siblings
  for rel, qual in (('flax/nnx/statelib.py', '_split_state'), (FL, 'filters_to_predicates')):
    f = repo.func(rel, qual)
    v = patterns.ellipsis_last_validation(f)
    conv = [c for c in astu.func_calls(f) if astu.call_name(c) in ('map', 'to_predicate', 'filterlib.to_predicate') or
            'to_predicate' in astu.src(c)]
    ok = v is not None and bool(conv) and v.lineno < conv[0].lineno
    R.check(ok, key_of(f, '`...`/True only as trailing filters, checked before conversion'), f,
            '%s must reject `...`/True in a non-trailing position before building predicates (a catch-all in front would swallow later groups)' % qual)


meta('C14',
     explanation='Linen half: exact abstract interpretation (vf/filteralg.py) of in_filter, is_filter_empty, filter_to_set, union/intersect/'
     'subtract_filters as parsed from flax/core/scope.py, over filter shapes True | False | str | Collection | DenyList^k (k<=2 per operand '
     'for the algebra, k<=3 for membership/emptiness) with symbolic contents; results are compared with the Boolean specification by truth '
     'table over membership/emptiness atoms, recursive calls are discharged by the induction hypothesis plus a decreasing-measure check. '
     'group_collections, the NNX to_predicate dispatch, the combinator classes and the three first-match split loops are checked on AST/CFG.',
     not_decided=['user-supplied NNX predicates are opaque', 'DenyList nesting deeper than the enumerated shapes relies on the induction argument'],
     mutants=[
         Mutant('C14-m1', SC, "    return DenyList(intersect_filters(a.deny, b.deny))", "    return DenyList(union_filters(a.deny, b.deny))", 'C14.R1'),
         Mutant('C14-m2', SC, "  if a is True:\n    return DenyList(b)", "  if a is True:\n    return b", 'C14.R1'),
         Mutant('C14-m3', SC, "  if isinstance(filter_like, str):\n    return col == filter_like\n  if isinstance(filter_like, typing.Collection):\n    return col in filter_like\n",
                "  if isinstance(filter_like, typing.Collection):\n    return col in filter_like\n  if isinstance(filter_like, str):\n    return col == filter_like\n", 'C14.R2'),
         Mutant('C14-m4', SC, "        remaining_cols.append(col)\n    cols = remaining_cols\n", "        remaining_cols.append(col)\n", 'C14.R4'),
         Mutant('C14-m5', 'flax/nnx/statelib.py', "        flat_states[i].append((path, value))  # type: ignore[index] # mypy is wrong here?\n        break\n",
                "        flat_states[i].append((path, value))  # type: ignore[index] # mypy is wrong here?\n", 'C14.R7'),
         Mutant('C14-m6', FL, "  elif isinstance(filter, type):\n    return OfType(filter)\n  elif isinstance(filter, bool):", "  elif isinstance(filter, bool):", 'C14.R5'),
         Mutant('C14-m7', FL, "    return all(predicate(path, x) for predicate in self.predicates)", "    return any(predicate(path, x) for predicate in self.predicates)", 'C14.R6'),
         Mutant('C14-m8', SC, "  if isinstance(b, DenyList):\n    return intersect_filters(a, b.deny)", "  if isinstance(b, DenyList):\n    return subtract_filters(a, b.deny)", 'C14.R1'),
         Mutant('C14-b1', SC, "  a = filter_to_set(a)\n  b = filter_to_set(b)\n  return a.union(b)", "  return filter_to_set(a) | filter_to_set(b)", kind='benign'),
         Mutant('C14-b2', SC, "  if a is True or b is True:\n    return True\n  if isinstance(a, DenyList) and isinstance(b, DenyList):",
                "  if a is True:\n    return True\n  if b is True:\n    return True\n  if isinstance(a, DenyList) and isinstance(b, DenyList):", kind='benign'),
     ])
