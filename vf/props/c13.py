"""C13 — attention and RNNs: masks applied before softmax, decode-cache protocol, valid-length carries (both APIs)."""
from __future__ import annotations

import ast

from .. import evid, astu, flow, types
from ..cfg import cfg_of
from ..model import AnalysisError
from ..report import key_of
from . import Mutant, meta, rule

LA = 'flax/linen/attention.py'
NA = 'flax/nnx/nn/attention.py'
LR = 'flax/linen/recurrent.py'
NR = 'flax/nnx/nn/recurrent.py'


@rule('C13.R1', 'K1+K7', 6, 'attention weights: bias added, then masked positions set to -inf-like, then softmax — whatever combination of bias / mask is given')
def r1(R, repo):
  for rel in (LA, NA):
    f = repo.func(rel, 'dot_product_attention_weights')
    c = cfg_of(f)
    _none = lambda v, neg: (lambda e: isinstance(e, ast.Compare) and len(e.ops) == 1 and isinstance(e.ops[0], ast.IsNot if neg else ast.Is) and astu.src(e.left) == v and astu.is_const(e.comparators[0], None))
    given = lambda v, n_: evid.guarded(c, n_, _none(v, True)) == 'yes' or evid.guarded(c, n_, _none(v, False), negative=True) == 'yes'
    tb = [n for n in c.nodes if n.kind == 'if' and (evid.mentions(n.ast, _none('bias', True)) or evid.mentions(n.ast, _none('bias', False)))]
    tm = [n for n in c.nodes if n.kind == 'if' and (evid.mentions(n.ast, _none('mask', True)) or evid.mentions(n.ast, _none('mask', False)))]
    add = [n for n in c.nodes if isinstance(n.stmt, ast.Assign) and astu.src(n.stmt) == 'attn_weights = attn_weights + bias']
    where = [n for n in c.nodes if isinstance(n.stmt, ast.Assign) and astu.src(n.stmt.targets[0]) == 'attn_weights' and isinstance(n.stmt.value, ast.Call) and astu.call_tail(n.stmt.value) == 'where']
    soft = [n for n in c.nodes if isinstance(n.stmt, ast.Assign) and astu.src(n.stmt.targets[0]) == 'attn_weights' and 'softmax' in astu.src(n.stmt.value)]
    R.require(len(tb) == 1 and len(add) == 1 and len(soft) >= 1, '%s: bias / softmax statements not found' % rel)
    if not where or not tm:
      anywhere = [x for x in ast.walk(f.node) if isinstance(x, ast.Call) and astu.call_tail(x) == 'where'] or evid.calls_deep(repo, f, lambda y: astu.call_tail(y) == 'where')
      if anywhere:
        R.unsure(key_of(f, 'mask applied before softmax'), f, 'the masking statement of dot_product_attention_weights was not recognised')
      else:
        R.fail(key_of(f, 'mask applied before softmax'), f, 'dot_product_attention_weights no longer masks the logits')
      continue
    w = where[0]
    args = [astu.src(a) for a in w.stmt.value.args]
    ok = args[:2] == ['mask', 'attn_weights'] and given('mask', w) and all(c.dominated(s, tm) for s in soft) and all(s in c.reach([w]) for s in soft) and not any(w in c.reach([s]) for s in soft)
    R.check(ok, key_of(f, 'where(mask, logits, big_neg) before softmax'), f, evidence=len(args) >= 2 and sorted(args[:2]) == ['attn_weights', 'mask'], msg_fail= 'when a mask is given the logits must pass through where(mask, attn_weights, <most negative value>) before the softmax')
    fill = types.single_def(f.node, args[2]) if len(args) > 2 and args[2].isidentifier() else None
    R.check(fill is not None and 'finfo' in astu.src(fill) and astu.src(fill).endswith('.min'), key_of(f, 'masked logits = finfo(dtype).min'), f, 'masked positions must be filled with the most negative finite value of the dtype')
    # the mask must be applied whether or not a bias is given, and after the bias
    may_b, must_b = evid.reach_env(c, {'bias is not None': True, 'bias is None': False, 'mask is not None': True, 'mask is None': False})
    ok = w in may_b and w in c.reach(add) and add[0] not in c.reach([w])
    R.check(ok, key_of(f, 'mask applied also when a bias is given, after the bias'), (f, w.stmt), evidence=True, msg_fail=
            'with both `bias` and `mask` given the mask must still be applied (after the bias addition): an `elif mask` skips it, so masked / future positions receive weight')
    rescale = [n for n in c.nodes if isinstance(n.stmt, (ast.Assign, ast.AugAssign)) and astu.src(n.stmt.targets[0] if isinstance(n.stmt, ast.Assign) else n.stmt.target) == 'attn_weights' and
               ((isinstance(n.stmt, ast.Assign) and isinstance(n.stmt.value, ast.BinOp) and isinstance(n.stmt.value.op, (ast.Div, ast.Mult)) and astu.src(n.stmt.value.left) == 'attn_weights') or
                (isinstance(n.stmt, ast.AugAssign) and isinstance(n.stmt.op, (ast.Div, ast.Mult)))) and ('depth' in astu.src(n.stmt) or 'sqrt' in astu.src(n.stmt) or 'scale' in astu.src(n.stmt))]
    late = [n for n in rescale if n in c.reach(add)]
    R.check(not late, key_of(f, 'logits scaled before the bias is added'), (f, late[0].stmt) if late else f, '`%s` rescales the logits after the bias was added: the weights become softmax((q.k + bias)/sqrt(d)) instead of softmax(q.k/sqrt(d) + bias)' % (astu.short(late[0].stmt) if late else ''), evidence=True)
    rets = [n for n in c.nodes if isinstance(n.stmt, ast.Return)]
    R.judge(len(rets) == 1 and astu.src(rets[0].stmt.value) == 'attn_weights', len(rets) == 1 and c.must_pass(c.entry, rets[0], soft), key_of(f, 'returns the softmaxed weights'), f, 'the returned weights must have passed through the softmax')


def _decode_block(repo, rel, qual, cache_expr):
  f = repo.func(rel, qual)
  c = cfg_of(f)
  cur = [n for n in c.nodes if isinstance(n.stmt, ast.Assign) and astu.src(n.stmt.targets[0]) == 'cur_index']
  return f, c, cur


@rule('C13.R2', 'K1+K2', 8, 'decode cache: index read, key/value written at that index, index advanced once, mask = positions <= index')
def r2(R, repo):
  for rel, qual, idx, ck, cv in ((LA, 'MultiHeadDotProductAttention.__call__', 'cache_index.value', 'cached_key.value', 'cached_value.value'),
                               (NA, 'MultiHeadAttention.__call__', 'self.cache_index.value', 'self.cached_key.value', 'self.cached_value.value')):
    f = repo.func(rel, qual)
    c = cfg_of(f)
    cur = [n for n in c.nodes if isinstance(n.stmt, ast.Assign) and astu.src(n.stmt) == 'cur_index = %s' % idx]
    R.require(len(cur) == 1, '%s: cur_index = %s not found' % (qual, idx))
    inc = [n for n in c.nodes if (isinstance(n.stmt, ast.AugAssign) and astu.src(n.stmt.target) == idx and astu.is_const(n.stmt.value, 1)) or
           (isinstance(n.stmt, ast.Assign) and astu.src(n.stmt) == '%s = %s + 1' % (idx, idx))]
    sk = [n for n in c.nodes if isinstance(n.stmt, ast.Assign) and astu.src(n.stmt.targets[0]) == ck]
    sv = [n for n in c.nodes if isinstance(n.stmt, ast.Assign) and astu.src(n.stmt.targets[0]) == cv]
    ok = len(inc) == 1 and len(sk) == 1 and len(sv) == 1 and c.dominated(inc[0], cur) and cur[0] not in c.reach(inc)
    any_store = [n for n in c.nodes if isinstance(n.stmt, (ast.Assign, ast.AugAssign)) and astu.src(n.stmt.targets[0] if isinstance(n.stmt, ast.Assign) else n.stmt.target) == idx]
    if not any_store and sk and sv:
      R.fail(key_of(f, 'index read before it is advanced; advanced exactly once'), f, 'the cache index `%s` is never advanced: every decode step would overwrite position 0' % idx)
    else:
      R.judge(len(inc) >= 1 and len(sk) == 1 and len(sv) == 1, ok, key_of(f, 'index read before it is advanced; advanced exactly once'), f, 'the cache index must be read into cur_index before the single `+ 1` update')
    if ok:
      ok2 = c.must_pass(cur[0], c.exit, inc, avoid_edges=c.exc_edges()) and c.must_pass(cur[0], c.exit, sk, avoid_edges=c.exc_edges()) and c.must_pass(cur[0], c.exit, sv, avoid_edges=c.exc_edges())
      R.check(ok2, key_of(f, 'key, value and index all stored on every decode step'), f, evidence=True, msg_fail= 'every decode step must store the updated key cache, value cache and index')
    upd = [n for n in c.nodes if isinstance(n.stmt, ast.Assign) and isinstance(n.stmt.value, ast.Call) and astu.call_name(n.stmt.value) == 'lax.dynamic_update_slice']
    ok = len(upd) == 2 and sorted(astu.src(u.stmt.value.args[0]) for u in upd) == sorted([ck, cv]) and all(astu.src(u.stmt.value.args[2]) == 'indices' for u in upd)
    ind = types.single_def(f.node, 'indices')
    ok = ok and ind is not None and 'cur_index' in astu.names_loaded(ind)
    R.judge(len(upd) == 2 and ind is not None, ok, key_of(f, 'new key/value written at cur_index'), f, 'the new key/value slices must be written into the caches at position cur_index')
    masks = [n for n in c.nodes if isinstance(n.stmt, ast.Assign) and astu.src(n.stmt.targets[0]) == 'mask' and isinstance(n.stmt.value, ast.Call) and astu.call_name(n.stmt.value) == 'combine_masks' and n in c.reach(cur)]
    ok = len(masks) == 1 and 'jnp.arange(max_length) <= cur_index' in astu.src(masks[0].stmt.value) and astu.src(masks[0].stmt.value.args[0]) == 'mask'
    cmps = [x for m_ in masks for x in ast.walk(m_.stmt.value) if isinstance(x, ast.Compare) and 'cur_index' in astu.names_loaded(x) and 'arange' in astu.src(x)]
    R.judge(len(masks) == 1 and len(cmps) == 1 and astu.src(cmps[0].left) == 'jnp.arange(max_length)', ok, key_of(f, 'mask combined with arange(max_length) <= cur_index'), f, 'the decode step must attend only to cached positions: combine_masks(mask, arange(max_length) <= cur_index) with the index read before the update')
    shp = [n for n in c.nodes if isinstance(n.stmt, ast.Raise) and 'Autoregressive cache shape error' in astu.src(n.stmt)]
    R.judge(len(shp) == 1, len(shp) == 1 and all(shp[0] not in c.reach([s]) for s in sk + sv + inc), key_of(f, 'shape check raises before anything is stored'), f, 'a query of the wrong shape must raise before the caches are touched')


@rule('C13.R3', 'K7', 4, 'with seq_lengths the returned carry is the carry at each sequence\'s last valid step')
def r3(R, repo):
  for rel in (LR, NR):
    f = repo.func(rel, 'RNN.__call__')
    c = cfg_of(f)
    sl = types.single_def(f.node, 'slice_carry')
    evid.judge_expr(R, f, sl, ['seq_lengths is not None and return_carry', 'return_carry and seq_lengths is not None'], key_of(f, 'slice_carry = seq_lengths given and carry requested'), f, 'the per-step carries must be collected exactly when seq_lengths is given and the carry is returned', follow=False)
    sel = [n for n in c.nodes if isinstance(n.stmt, ast.Assign) and astu.src(n.stmt) == 'carry = _select_last_carry(carries, seq_lengths)']
    t = [n for n in c.nodes if n.kind == 'if' and astu.src(n.ast) == 'slice_carry' and n.stmt.body and any('_select_last_carry' in astu.src(s) for s in n.stmt.body)]
    rets = [n for n in c.nodes if isinstance(n.stmt, ast.Return) and astu.src(n.stmt.value) == '(carry, outputs)']
    ok = len(sel) == 1 and len(t) == 1 and c.edge_guarded(sel[0], t[0], 'T') and len(rets) == 1
    if ok:
      cut = [(t[0], m, l) for m, l in c.succ[t[0]] if l != 'T']
      ok = c.must_pass(t[0], rets[0], sel, avoid_edges=cut)
    sel_any = [x for x in astu.func_calls(f) if astu.call_name(x) == '_select_last_carry']
    if not sel_any and not evid.calls_deep(repo, f, evid.call_named('_select_last_carry')) and len(t) == 0 and sl is not None:
      R.fail(key_of(f, 'carry = _select_last_carry(carries, seq_lengths)'), f, 'RNN.__call__ no longer selects the carry at each sequence\'s last valid step (_select_last_carry is not called): with seq_lengths the carry after the padding steps is returned')
    else:
      R.judge(len(sel) == 1 and len(t) == 1 and len(rets) == 1, ok, key_of(f, 'carry = _select_last_carry(carries, seq_lengths)'), f,   'with seq_lengths the returned carry must be selected from the per-step carries at the last valid step, not the scan\'s final carry')
    g = repo.func(rel, '_select_last_carry')
    evid.judge_stmts(R, g, ['last_idx = seq_lengths - 1'], key_of(g, 'index seq_lengths - 1 per batch element'), g, '_select_last_carry must take, per batch element, the carry at index seq_lengths - 1')


@rule('C13.R4', 'K4', 6, 'reversal is applied within each valid length, before the scan and (keep_order) again after it, with the same arguments; Bidirectional treats both directions alike')
def r4(R, repo):
  for rel in (LR, NR):
    f = repo.func(rel, 'RNN.__call__')
    c = cfg_of(f)
    flips = [x for x in ast.walk(f.node) if isinstance(x, ast.Call) and astu.call_name(x) == 'flip_sequences']
    R.require(len(flips) == 2, '%s RNN.__call__: two flip_sequences calls expected' % rel)
    a, b = flips
    same = [astu.src(x) for x in a.args[1:]] == [astu.src(x) for x in b.args[1:]] and {k.arg: astu.src(k.value) for k in a.keywords} == {k.arg: astu.src(k.value) for k in b.keywords}
    R.judge(len(a.args) >= 2 and len(b.args) >= 2 and set(k.arg for k in a.keywords) == set(k.arg for k in b.keywords), same and astu.src(a.args[1]) == 'seq_lengths', key_of(f, 'both flips use seq_lengths, num_batch_dims, time_major'), f, 'the pre-scan and post-scan flip_sequences calls must use the same seq_lengths / num_batch_dims / time_major')
    na, nb = c.nodes_for(a), c.nodes_for(b)
    t1 = [n for n in c.nodes if n.kind == 'if' and astu.src(n.ast) == 'reverse']
    t2 = [n for n in c.nodes if n.kind == 'if' and astu.src(n.ast) == 'reverse and keep_order']
    scan = [n for n in c.nodes if isinstance(n.stmt, ast.Assign) and astu.src(n.stmt.targets[0]) == 'scan_output']
    ok = len(t1) == 1 and len(t2) == 1 and len(scan) == 1 and all(c.edge_guarded(x, t1[0], 'T') for x in na) and all(c.edge_guarded(x, t2[0], 'T') for x in nb) and \
        all(scan[0] in c.reach([x]) for x in na) and all(x in c.reach(scan) for x in nb)
    R.judge(len(t1) == 1 and len(t2) == 1 and len(scan) == 1, ok, key_of(f, 'flip before the scan under `reverse`, after it under `reverse and keep_order`'), f, 'inputs must be flipped before the scan when reverse, and outputs flipped back after it when reverse and keep_order')
    fs = repo.func(rel, 'flip_sequences')
    t = astu.src(fs.node)
    R.check('idxs = (idxs + seq_lengths) % max_steps' in t and 'jnp.arange(max_steps - 1, -1, -1)' in t and 'jnp.take_along_axis(inputs, idxs, axis=time_axis)' in t, key_of(fs, 'reversal within the valid length'), fs,
            'flip_sequences must reverse each sequence within its own valid length: indices (reversed arange + seq_lengths) mod max_steps')
    bd = repo.func(rel, 'Bidirectional.__call__')
    fw = [x for x in astu.func_calls(bd) if astu.src(x.func) == 'self.forward_rnn']
    bw = [x for x in astu.func_calls(bd) if astu.src(x.func) == 'self.backward_rnn']
    R.require(len(fw) == 1 and len(bw) == 1, '%s Bidirectional.__call__: forward / backward calls not found' % rel)
    def _kws(call):
      # explicit keywords plus the contents of a `**opts` whose definition `opts = dict(...)` is known
      out = {k.arg: astu.src(k.value) for k in call.keywords if k.arg is not None}
      if astu.has_star_kwargs(call):
        sp = evid.splat_keywords(bd, call)
        if sp is None:
          return None
        for k_, v_ in sp.items():
          out.setdefault(k_, astu.src(v_))
      return out
    kf, kb = _kws(fw[0]), _kws(bw[0])
    if kf is None or kb is None:
      R.unsure(key_of(bd, 'backward RNN gets the same inputs, seq_lengths, time_major; reverse=True, keep_order=True'), (bd, bw[0]), 'keyword arguments passed through an unresolvable **mapping')
      continue
    shared = ['seq_lengths', 'time_major', 'return_carry']
    ok = all(kf.get(k) == kb.get(k) and k in kf for k in shared) and kf.get('reverse') == 'False' and kb.get('reverse') == 'True' and kb.get('keep_order') == 'True' and \
        set(kb) - set(kf) <= {'keep_order'} and set(kf) <= set(kb) and astu.src(fw[0].args[0]) == astu.src(bw[0].args[0])
    R.judge(bool(fw[0].args) and bool(bw[0].args) and all(k in kf for k in shared), ok, key_of(bd, 'backward RNN gets the same inputs, seq_lengths, time_major; reverse=True, keep_order=True'), (bd, bw[0]),
            'Bidirectional must call the backward RNN with the same inputs / seq_lengths / time_major as the forward one plus reverse=True, keep_order=True (forward %s, backward %s): without seq_lengths the backward pass consumes the padding first' % (sorted(kf), sorted(kb)))
  for name in ('flip_sequences', '_select_last_carry'):
    a, b = repo.func(LR, name), repo.func(NR, name)
    if ast.dump(a.node) != ast.dump(b.node):
      R.note('%s differs textually between Linen and NNX (drift, not a violation)' % name)


@rule('C13.R5', 'K6', 2, 'RNN forwards unroll / variable_* / split_rngs and the time axis to the scan')
def r5(R, repo):
  f = repo.func(LR, 'RNN.__call__')
  sc = [x for x in astu.func_calls(f) if astu.call_name(x) == 'transforms.scan']
  R.require(len(sc) == 1, 'linen RNN.__call__: transforms.scan not found')
  kw = {k.arg: astu.src(k.value) for k in sc[0].keywords}
  ok = kw.get('in_axes') == 'time_axis' and kw.get('out_axes') == '(0, time_axis) if slice_carry else time_axis' and all(kw.get(k) == 'self.' + k for k in ('unroll', 'variable_axes', 'variable_broadcast', 'variable_carry', 'split_rngs'))
  R.check(ok, key_of(f, 'scan(in_axes=time_axis, out_axes per slice_carry, self.unroll/variable_*/split_rngs)'), (f, sc[0]), 'linen RNN must scan over the time axis forwarding unroll, variable_axes, variable_broadcast, variable_carry and split_rngs')
  g = repo.func(NR, 'RNN.__call__')
  t = astu.src(g.node)
  R.check('time_axis' in t and 'slice_carry' in t and ('nnx.scan' in t or 'iteration.scan' in t or 'scan(' in t), key_of(g, 'scan over the time axis'), g, 'nnx RNN must scan over the time axis')



def _order_source(f, e, mapping):
  """'insertion' / 'sorted' for an iterable over the keys / values / items of `mapping`; None if not recognised."""
  for x in evid.expand(f, e):
    if not isinstance(x, ast.AST):
      continue
    t = astu.src(x)
    if t in (mapping, mapping + '.keys()', mapping + '.values()', mapping + '.items()', 'list(%s)' % mapping, 'tuple(%s)' % mapping):
      return 'insertion'
    if isinstance(x, ast.Call) and astu.call_name(x) == 'sorted' and x.args and astu.src(x.args[0]) in (mapping, mapping + '.keys()', mapping + '.items()'):
      return 'sorted'
  return None


@rule('C13.R6', 'K4', 1, 'OptimizedLSTMCell: gate kernels are concatenated and the result is split and labelled in one and the same key order')
def r6(R, repo):
  f = repo.func(LR, 'OptimizedLSTMCell.__call__._concat_dense')
  mp = astu.params(f.node)[1]
  key = key_of(f, 'concatenation order == labelling order')
  gather = None
  for d in flow.defs(f, 'kernels'):
    if isinstance(d[0], (ast.ListComp, ast.GeneratorExp)):
      gather = d[0].generators[0].iter
  lab = None
  for r_ in [n for n in astu.body_walk(f.node) if isinstance(n, ast.Return)]:
    for x in ast.walk(r_.value):
      if isinstance(x, ast.Call) and astu.call_name(x) == 'zip' and len(x.args) == 2:
        lab = x.args[0]
  if gather is None or lab is None:
    R.unsure(key, f, 'gathering comprehension / labelling zip not recognised')
    return
  a, b = _order_source(f, gather, mp), _order_source(f, lab, mp)
  if a is None or b is None:
    R.unsure(key, f, 'iteration order of `%s` / `%s` not recognised' % (astu.short(gather), astu.short(lab)))
  else:
    R.check(a == b, key, (f, gather), 'the gate kernels are gathered in %s order of `%s` (`%s`) but the split result is labelled in %s order (`%s`): the gates are permuted, so the cell no longer computes the LSTM recurrence (nor matches LSTMCell)' % (a, mp, astu.short(gather), b, astu.short(lab)), evidence=True)

meta('C13',
     explanation='CFG rules on both implementations of dot_product_attention_weights (bias -> mask select -> softmax, the mask being applied for every bias/mask combination), the decode-cache '
     'protocol of both multi-head attention modules (read index, write key/value at it, advance once, mask <= index, shape check first), the valid-length carry selection and flip pairing of both '
     'RNN.__call__s, and sibling agreement of the forward/backward calls in Bidirectional.',
     not_decided=['incremental = whole-sequence equality', 'softmax values', "each cell's recurrence", 'Bidirectional merge function', 'Linen/NNX numerical agreement'],
     mutants=[
         Mutant('C13-m1', LA, "  # apply attention mask\n  if mask is not None:", "  # apply attention mask\n  elif mask is not None:", 'C13.R1', why='seed C13-A'),
         Mutant('C13-m2', LR, "      init_key=key_backward,\n      seq_lengths=seq_lengths,\n", "      init_key=key_backward,\n", 'C13.R4', why='seed C13-B'),
         Mutant('C13-m3', NA, "      self.cache_index.value += 1\n", "", 'C13.R2'),
         Mutant('C13-m4', LA, "            jnp.arange(max_length) <= cur_index,", "            jnp.arange(max_length) < cur_index,", 'C13.R2'),
         Mutant('C13-m6', LA, "    attn_weights = attn_weights + bias\n", "    attn_weights = attn_weights + bias\n  attn_weights = attn_weights / jnp.sqrt(depth).astype(dtype)\n", 'C13.R1', why='seed C13-D (round 2)'),
         Mutant('C13-m7', LR, "    slice_carry = seq_lengths is not None and return_carry", "    slice_carry = seq_lengths is not None and self.return_carry", 'C13.R3', why='seed C13-C (round 2)'),
         Mutant('C13-m5', LR, "      carry = _select_last_carry(carries, seq_lengths)", "      carry = jax.tree_util.tree_map(lambda x: x[-1], carries)", 'C13.R3'),
     ])
