"""C01 — Linen init/apply are pure functions with an explicit mutability contract."""
from __future__ import annotations

import ast
import itertools

from .. import astu, flow, types
from ..cfg import cfg_of
from ..model import AnalysisError
from ..report import key_of
from . import Mutant, meta, rule
from . import c15 as _c15
from . import c14 as _c14

SC = 'flax/core/scope.py'
MO = 'flax/linen/module.py'
TR = 'flax/linen/transforms.py'


def _is_call(e, name):
  return isinstance(e, ast.Call) and astu.call_name(e) == name


@rule('C01.R1', 'K7+K1', 6, 'bind works on a copy of the mutable collections, filtered by the same `mutable`')
def r1(R, repo):
  mod = repo.mod(SC)
  b = mod.func('bind')
  ctor = [c for c in astu.func_calls(b) if astu.call_name(c) == 'Scope']
  R.require(len(ctor) == 1, 'bind: Scope(...) construction not found')
  ps = astu.params(b.node)
  first = ctor[0].args[0] if ctor[0].args else astu.kwarg(ctor[0], 'variables')
  ok = flow.must_derive(b, first, lambda e: _is_call(e, '_unfreeze_variables') and [astu.src(a) for a in e.args] == [ps[0], 'mutable'])
  R.check(ok, key_of(b, 'Scope built from _unfreeze_variables(variables, mutable)'), (b, ctor[0]),
          'bind must give the Scope the dict built by _unfreeze_variables(variables, mutable), never the caller\'s `variables` itself')
  R.check(flow.kw_forwarded(ctor[0], 'mutable'), key_of(b, 'Scope(mutable=mutable)'), (b, ctor[0]),
          'the Scope must be mutable for exactly the filter the copy was made for')
  u = mod.func('_unfreeze_variables')
  c = cfg_of(u)
  vp, mp = astu.params(u.node)[:2]
  loops = [n for n in c.nodes if n.kind == 'for']
  R.require(len(loops) == 1 and astu.src(loops[0].ast) == '%s.items()' % vp, '_unfreeze_variables: loop over variables.items() not found')
  k, v = [astu.src(e) for e in loops[0].stmt.target.elts]
  tests = [n for n in c.nodes if n.kind == 'if' and _is_call(n.ast, 'in_filter') and [astu.src(a) for a in n.ast.args] == [mp, k]]
  stores = [n for n in c.nodes if isinstance(n.stmt, ast.Assign) and isinstance(n.stmt.targets[0], ast.Subscript)]
  R.require(len(tests) == 1 and stores, '_unfreeze_variables: in_filter(mutable, key) test / stores not found')
  out = astu.src(stores[0].stmt.targets[0].value)
  bad = [s for s in stores if astu.src(s.stmt.targets[0].value) != out or astu.src(s.stmt.targets[0].slice) != k]
  fresh = types.single_def(u.node, out)
  ok = not bad and isinstance(fresh, ast.Dict) and not fresh.keys and out != vp
  ok = ok and any(astu.src(n.stmt.value) == out for n in c.nodes if isinstance(n.stmt, ast.Return))
  R.check(ok, key_of(u, 'builds and returns a fresh top-level dict'), u, '_unfreeze_variables must fill and return a new dict and never assign into the caller\'s mapping')
  for s in stores:
    if c.edge_guarded(s, tests[0], 'T'):
      val = s.stmt.value
      okc = isinstance(val, ast.Call) and astu.call_name(val) in ('unfreeze',) and astu.src(val.args[0]) == v
      R.check(okc, key_of(u, 'mutable collection copied with unfreeze'), (u, s.stmt),
              'a collection selected by `mutable` must be stored as unfreeze(value) (a structural copy); `%s` aliases the caller\'s collection, so apply would write into its input' % astu.short(s.stmt))
  mut_stores = [s for s in stores if c.edge_guarded(s, tests[0], 'T')]
  head = loops[0]
  firsts = [m for m, lab in c.succ[head] if lab == 'T']
  ok = len(mut_stores) >= 1 and all(s in stores or head not in c.reach([s], avoid=stores) for s in firsts)
  R.check(ok, key_of(u, 'every collection stored once, mutable ones on the copying branch'), u, 'every collection must be stored; the ones matching `mutable` on the copying branch')
  _c15.check_unfreeze(R, repo)


SCOPE_STORE_TABLE = {
    ('Scope._mutable_collection', 'self._variables'): 'guarded-or-cache',
    ('Scope._mutable_collection', 'parent_col'): 'guarded',
    ('Scope._collection', 'self._variables'): 'cache',
    ('Scope.put_variable.put', 'target'): 'put',
    ('Scope.push', 'self.rng_counters'): 'rng bookkeeping',
    ('Scope.make_rng', 'self.rng_counters'): 'rng bookkeeping',
    ('_unfreeze_variables', 'new_variables'): 'fresh dict',
    ('group_collections', 'group'): 'fresh group dict',
}


@rule('C01.R2', 'K1+K3', 8, 'every write into a variable collection is guarded by the mutability test')
def r2(R, repo):
  mod = repo.mod(SC)
  for q, f in mod.funcs.items():
    for n in astu.body_walk(f.node):
      tgt = None
      if isinstance(n, ast.Subscript) and isinstance(n.ctx, (ast.Store, ast.Del)):
        tgt = n
      if tgt is None:
        continue
      base = astu.src(tgt.value)
      key = key_of(f, 'store into %s[...]' % base)
      kind = SCOPE_STORE_TABLE.get((q, base))
      if kind is None:
        R.fail(key, (f, n), 'new in-place store `%s` in scope.py is not in the table of reviewed variable-dict writers' % astu.short(astu.enclosing_stmt(n)))
        continue
      c = cfg_of(f)
      nodes = c.nodes_for(n)
      if q == 'Scope._mutable_collection':
        asserts = [x for x in c.nodes if isinstance(x.stmt, ast.Assert) and 'is_mutable_collection' in astu.src(x.stmt.test)]
        is_cache = isinstance(astu.enclosing_stmt(n).value, ast.Subscript)
        ok = bool(asserts) and all(c.dominated(x, asserts) for x in nodes)
        if is_cache:
          R.ok(key + ' (cache of parent reference)', (f, n), 'child scope caches a reference in its private dict')
        else:
          R.check(ok, key + ' = {}', (f, n), 'creating a collection entry must be dominated by `assert self.is_mutable_collection(col)`')
      elif kind == 'put':
        R.ok(key, (f, n), 'checked through put_variable')
      else:
        R.ok(key, (f, n), kind)
  pv = mod.func('Scope.put_variable')
  c = cfg_of(pv)
  tests = [n for n in c.nodes if n.kind == 'if' and 'is_mutable_collection' in astu.src(n.ast)]
  raises = [n for n in c.nodes if isinstance(n.stmt, ast.Raise) and astu.raised_name(n.stmt) == 'ModifyScopeVariableError']
  writes = [n for x in astu.func_calls(pv) if astu.call_name(x) in ('put', 'self._mutable_collection') for n in c.nodes_for(x)]
  R.require(len(writes) >= 2, 'put_variable: _mutable_collection / put calls not found')
  if not tests or not raises:
    R.fail(key_of(pv, 'immutable collection raises'), pv, 'put_variable no longer raises ModifyScopeVariableError for an immutable collection: the write would take effect')
  else:
    t = tests[0]
    neg = isinstance(t.ast, ast.UnaryOp)
    R.check(c.edge_guarded(raises[0], t, 'T' if neg else 'F') and all(c.edge_guarded(w, t, 'F' if neg else 'T') for w in writes), key_of(pv, 'immutable collection raises'), pv,
            'put_variable must raise ModifyScopeVariableError unless is_mutable_collection(col), before touching the collection')
  for guard in ('self._check_valid', 'self._validate_trace_level'):
    g = [n for x in astu.func_calls(pv) if astu.call_name(x) == guard for n in c.nodes_for(x)]
    R.check(bool(g) and all(c.dominated(w, g) for w in writes), key_of(pv, '%s before the write' % guard), pv, 'put_variable must call %s() before writing (leaked / stale scopes cannot write)' % guard)
  put = mod.func('Scope.put_variable.put')
  st = [n for n in astu.body_walk(put.node) if isinstance(n, ast.Subscript) and isinstance(n.ctx, ast.Store)]
  R.check(len(st) == 1 and astu.src(st[0].value) == astu.params(put.node)[0], key_of(put, 'writes only into its target'), put, 'put must only assign into the dict it was given')
  imc = mod.func('Scope.is_mutable_collection')
  ret = [n for n in astu.body_walk(imc.node) if isinstance(n, ast.Return)]
  R.check(len(ret) == 1 and astu.src(ret[0].value) == 'in_filter(self.mutable, %s)' % astu.params(imc.node)[1], key_of(imc, 'in_filter(self.mutable, col)'), imc,
          'is_mutable_collection must be in_filter(self.mutable, col)')
  # outside scope.py nobody writes through ._variables
  for m in repo.mods_with('._variables'):
    if m.rel == SC:
      continue
    for f in m.funcs.values():
      for n in astu.body_walk(f.node):
        if isinstance(n, ast.Subscript) and isinstance(n.ctx, (ast.Store, ast.Del)) and '._variables' in astu.src(n.value) and 'scope' in astu.src(n.value).lower():
          R.fail(key_of(f, 'store through ._variables outside scope.py'), (f, n), '`%s` bypasses Scope.put_variable' % astu.short(astu.enclosing_stmt(n)))


@rule('C01.R3', 'K1+K4', 5, 'apply runs on a temporary scope and returns exactly the collections selected by `mutable`')
def r3(R, repo):
  mod = repo.mod(SC)
  w = mod.func('apply.wrapper')
  c = cfg_of(w)
  withs = [n for n in c.nodes if n.kind == 'with']
  R.require(len(withs) == 1, 'apply.wrapper: with-block not found')
  ctx = withs[0].ast
  ok = isinstance(ctx, ast.Call) and astu.call_tail(ctx) == 'temporary' and _is_call(ctx.func.value, 'bind')
  bind_call = ctx.func.value if ok else None
  R.check(ok and astu.src(bind_call.args[0]) == astu.params(w.node)[0] and all(flow.kw_forwarded(bind_call, k) for k in ('rngs', 'mutable', 'flags')), key_of(w, 'with bind(variables, rngs, mutable, flags).temporary()'), (w, withs[0].stmt),
          'apply must run the function on bind(variables, rngs=rngs, mutable=mutable, flags=flags).temporary()')
  root = astu.src(withs[0].stmt.items[0].optional_vars)
  calls = [n for n in c.nodes if isinstance(n.stmt, ast.Assign) and isinstance(n.stmt.value, ast.Call) and astu.src(n.stmt.value.func) == 'fn']
  exits = [n for n in c.nodes if n.kind == 'withexit' and n.stmt is withs[0].stmt]
  ok = len(calls) == 1 and astu.src(calls[0].stmt.value.args[0]) == root and c.dominated(calls[0], withs) and all(calls[0] not in c.reach([x]) for x in exits)
  R.check(ok, key_of(w, 'fn(root, …) inside the with-block'), w, 'the user function must be called with the temporary root scope inside the with-block')
  y = astu.src(calls[0].stmt.targets[0]) if calls else 'y'
  rets = [n for n in c.nodes if isinstance(n.stmt, ast.Return)]
  tests = [n for n in c.nodes if n.kind == 'if' and astu.src(n.ast) in ('mutable is not False', 'mutable is False')]
  ok = len(rets) == 2 and len(tests) == 1
  if ok:
    pos = 'T' if 'not' in astu.src(tests[0].ast) else 'F'
    for r_ in rets:
      if c.edge_guarded(r_, tests[0], pos):
        ok = ok and astu.src(r_.stmt.value) == '(%s, %s.mutable_variables())' % (y, root)
      else:
        ok = ok and astu.src(r_.stmt.value) == y
  R.check(ok, key_of(w, 'returns (y, mutable_variables()) iff mutable is not False'), w,
          'apply must return (y, root.mutable_variables()) exactly when mutable is not False, else y')
  t = mod.func('Scope.temporary')
  tr = [n for n in astu.body_walk(t.node) if isinstance(n, ast.Try)]
  ok = len(tr) == 1 and any('self.invalidate()' in astu.src(s) for s in tr[0].finalbody) and 'contextlib.contextmanager' in astu.decorator_names(t.node)
  R.check(ok, key_of(t, 'invalidates in finally'), t, 'Scope.temporary must invalidate the scope in a finally block')
  mv = mod.func('Scope.mutable_variables')
  comps = [n for n in astu.body_walk(mv.node) if isinstance(n, ast.DictComp)]
  ok = len(comps) == 1 and astu.src(comps[0].generators[0].iter) == 'self._variables.items()' and len(comps[0].generators[0].ifs) == 1
  if ok:
    k = astu.src(comps[0].generators[0].target.elts[0])
    ok = astu.src(comps[0].generators[0].ifs[0]) == 'in_filter(self.mutable, %s)' % k and astu.src(comps[0].key) == k and \
        astu.src(comps[0].value) == astu.src(comps[0].generators[0].target.elts[1])
  pop = [x for x in astu.func_calls(mv) if astu.call_name(x) == 'self._populate_collections']
  R.check(ok and len(pop) == 1, key_of(mv, 'every collection matching self.mutable and no other'), mv,
          'mutable_variables must return {k: v for every collection k with in_filter(self.mutable, k)}')
  # core.init -> apply with flags / rngs
  iw = mod.func('init.wrapper')
  ac = [x for x in astu.func_calls(iw) if astu.call_name(x) == 'apply']
  ok = len(ac) == 1 and flow.kw_forwarded(ac[0], 'mutable') and astu.src(ac[0].args[0]) == 'fn'
  outer = [x for x in astu.func_calls(iw) if isinstance(x.func, ast.Call) and x.func is ac[0]] if ac else []
  ok = ok and len(outer) == 1 and astu.src(outer[0].args[0]) == '{}' and flow.kw_forwarded(outer[0], 'rngs')
  R.check(ok, key_of(iw, 'init = apply(fn, mutable)({}, …, rngs=rngs)'), iw, 'core.init must be apply(fn, mutable=mutable, flags=…)({}, *args, rngs=rngs, **kwargs)')


def _abs_truth(expr, name, val):
  """Truth of `expr` when variable `name` holds abstract value val in {'False','True','EmptyMapping','Mapping'}."""
  if isinstance(expr, ast.Name) and expr.id == name:
    return {'False': False, 'True': True, 'EmptyMapping': False, 'Mapping': True}[val]
  if isinstance(expr, ast.UnaryOp) and isinstance(expr.op, ast.Not):
    return not _abs_truth(expr.operand, name, val)
  if isinstance(expr, ast.BoolOp):
    vs = [_abs_truth(e, name, val) for e in expr.values]
    return all(vs) if isinstance(expr.op, ast.And) else any(vs)
  if isinstance(expr, ast.Compare) and len(expr.ops) == 1 and isinstance(expr.left, ast.Name) and expr.left.id == name and isinstance(expr.comparators[0], ast.Constant):
    cst = expr.comparators[0].value
    op = expr.ops[0]
    if cst is False or cst is True:
      eq = (val == 'False') if cst is False else (val == 'True')
      if isinstance(op, (ast.Eq, ast.Is)):
        return eq
      if isinstance(op, (ast.NotEq, ast.IsNot)):
        return not eq
  if isinstance(expr, ast.Call) and astu.call_name(expr) == 'isinstance' and astu.src(expr.args[0]) == name:
    t = astu.src(expr.args[1])
    if t == 'bool':
      return val in ('False', 'True')
  raise AnalysisError('deep-clone test `%s` is outside the analysable fragment' % astu.src(expr))


@rule('C01.R4', 'K7', 7, 'user functions run on a deep clone of the module, never on the caller\'s instance')
def r4(R, repo):
  mod = repo.mod(MO)
  for q in ('apply.scope_fn', 'init_with_output.scope_fn'):
    f = mod.func(q)
    calls = [x for x in astu.func_calls(f) if astu.src(x.func) == 'fn']
    R.require(len(calls) == 1, '%s: fn(...) call not found' % q)
    a0 = calls[0].args[0] if calls[0].args else None
    ok = isinstance(a0, ast.Call) and astu.src(a0.func) == 'module.clone' and astu.src(astu.kwarg(a0, 'parent')) == astu.params(f.node)[0] and astu.is_const(astu.kwarg(a0, '_deep_clone'), True)
    R.check(ok, key_of(f, 'fn(module.clone(parent=scope, _deep_clone=True), …)'), (f, calls[0]),
            'the user function must receive module.clone(parent=scope, _deep_clone=True); passing `%s` would bind scope/_state onto the caller\'s module' % astu.short(a0))
    tr = [n for n in astu.body_walk(f.node) if isinstance(n, ast.Try)]
    ok = len(tr) == 1 and any('capture_stack.pop()' in astu.src(s) for s in tr[0].finalbody) and any('capture_stack.append(capture_intermediates)' in astu.src(s) for s in f.node.body)
    R.check(ok, key_of(f, 'capture stack push/pop paired in finally'), f, 'the capture filter must be pushed before and popped in a finally after the call')
  b = mod.func('Module.bind')
  rets = [n for n in astu.body_walk(b.node) if isinstance(n, ast.Return)]
  ok = len(rets) == 1 and isinstance(rets[0].value, ast.Call) and astu.src(rets[0].value.func) == 'self.clone' and astu.is_const(astu.kwarg(rets[0].value, '_deep_clone'), True) and \
      astu.src(astu.kwarg(rets[0].value, 'parent')) == 'scope'
  R.check(ok, key_of(b, 'returns self.clone(parent=scope, _deep_clone=True)'), b, 'Module.bind must return a deep clone bound to the new scope')
  cl = mod.func('Module.clone')
  c = cfg_of(cl)
  tests = [n for n in c.nodes if n.kind == 'if' and '_deep_clone' in astu.names_loaded(n.ast)]
  R.require(len(tests) == 1, 'Module.clone: deep-clone test not found')
  vals = {v: _abs_truth(tests[0].ast, '_deep_clone', v) for v in ('False', 'True', 'EmptyMapping', 'Mapping')}
  R.check(vals == {'False': False, 'True': True, 'EmptyMapping': True, 'Mapping': True}, key_of(cl, 'deep clone for True and for any cache mapping, including an empty one'), (cl, tests[0].stmt),
          '`if %s:` evaluates to %s; the recursive call passes a (possibly still empty) WeakValueDictionary as _deep_clone, which must count as "deep clone"' % (astu.src(tests[0].ast), vals))
  maps = [n for n in c.nodes if isinstance(n.stmt, ast.Assign) and isinstance(n.stmt.value, ast.Call) and astu.call_name(n.stmt.value) == '_map_submodules']
  ok = len(maps) == 1 and c.edge_guarded(maps[0], tests[0], 'T') and astu.src(maps[0].stmt.value.args[0]) == 'clone_fn' and isinstance(maps[0].stmt.targets[0], ast.Subscript) and astu.src(maps[0].stmt.targets[0].value) == 'attrs'
  loop = [n for n in c.nodes if n.kind == 'for' and astu.src(n.ast) == 'attrs.items()']
  skip = [n for n in c.nodes if n.kind == 'if' and "'parent'" in astu.src(n.ast)]
  ok = ok and len(loop) == 1 and maps[0] in c.loop_body_nodes(loop[0].stmt) and len(skip) == 1
  R.check(ok, key_of(cl, 'every non-parent attribute mapped through clone_fn'), cl, 'in deep-clone mode every attribute except `parent` must pass through _map_submodules(clone_fn, value)')
  cf = mod.func('Module.clone.clone_fn')
  rec = [x for x in astu.func_calls(cf) if astu.src(x.func) == 'm.clone']
  ok = len(rec) >= 1 and all(astu.src(astu.kwarg(x, '_deep_clone')) == 'cache' for x in rec)
  cc = cfg_of(cf)
  st = [n for n in cc.nodes if isinstance(n.stmt, ast.Assign) and astu.src(n.stmt.targets[0]) == 'cache[key]']
  hit = [n for n in cc.nodes if isinstance(n.stmt, ast.Return) and astu.src(n.stmt.value) == 'cache[key]']
  ok = ok and len(st) == 1 and len(hit) == 1
  R.check(ok, key_of(cf, 'recursive clones share the cache (sharing-by-reference preserved)'), cf, 'clone_fn must clone recursively with _deep_clone=cache, store the clone under the submodule id and return cached clones')
  ctor = [n for n in c.nodes if isinstance(n.stmt, ast.Assign) and astu.src(n.stmt.value) == 'self.__class__(**attrs)']
  R.check(len(ctor) == 1 and all(c.dominated(ctor[0], [t]) for t in tests), key_of(cl, 'new instance built from the (cloned) attrs'), cl, 'clone must construct a new instance from attrs')


SETATTR_TABLE = {
    # (file, function or enclosing function, receiver, attribute): why the bypass is legitimate
    (MO, 'ParentDescriptor.__set__', 'obj', '_parent_ref'): 'descriptor storing the parent reference',
    (MO, 'Module._call_wrapped_method', 'self', 'scope'): 'rewinds the bound clone\'s scope after a compact call',
    (MO, 'Module.__setattr__', 'self', '<name>'): 'before __post_init__ finished / dunder names',
    (MO, 'Module.__post_init__', 'self', '_id'): 'construction', (MO, 'Module.__post_init__', 'self', '_state'): 'construction',
    (MO, 'Module.__post_init__', 'self', 'parent'): 'construction', (MO, 'Module.__post_init__', 'self', 'scope'): 'construction',
    (MO, 'Module._register_submodules', 'self', '<name>'): 'setup() attribute registration',
    (MO, 'Module._register_submodules', 'subvalue', 'parent'): 'adopting a parent-less submodule in setup()',
    (MO, 'Module._register_submodules', 'subvalue', 'name'): 'adopting a parent-less submodule in setup()',
    (MO, 'share_scope', 'module_to_update', 'scope'): 'explicit user request',
    (TR, 'clean_clone', 'x', 'children'): 'fresh clone', (TR, 'clean_clone', 'x', 'scope'): 'fresh clone',
    (TR, 'module_class_lift_transform', 'cloned', '_state'): 'fresh clone inside the lifted function',
    (TR, 'decorator_lift_transform', 'cloned', '_state'): 'fresh clone inside the lifted function',
    (TR, 'module_class_lift_transform_cached', 'cloned', '_state'): 'fresh clone inside the lifted function',
    (TR, 'decorator_lift_transform_cached', 'cloned', '_state'): 'fresh clone inside the lifted function',
}


@rule('C01.R5', 'K3', 16, 'frozen-module bypass writes are the reviewed ones; assignment to an initialised module raises')
def r5(R, repo):
  n_sites = 0
  for rel in (MO, TR):
    mod = repo.mod(rel)
    for q, f in mod.funcs.items():
      for x in astu.func_calls(f):
        if astu.call_name(x) == 'object.__setattr__' and len(x.args) >= 2:
          n_sites += 1
          recv = astu.src(x.args[0])
          attr = astu.const_str(x.args[1]) or '<name>'
          key = key_of(f, 'object.__setattr__(%s, %r)' % (recv, attr))
          ok = any(r_ == rel and rc == recv and at == attr and (q == qq or q.startswith(qq + '.')) for (r_, qq, rc, at) in SETATTR_TABLE)
          R.check(ok, key, (f, x), 'object.__setattr__(%s, %r, …) in %s bypasses the frozen-module check and is not in the table of reviewed sites '
                  '(post_init of self / fresh clone / adopted submodule); a write onto a caller-owned module breaks purity' % (recv, attr, q))
  R.require(n_sites >= 15, 'expected >= 15 object.__setattr__ sites')
  mod = repo.mod(MO)
  sa = mod.func('Module.__setattr__')
  c = cfg_of(sa)
  raises = [n for n in c.nodes if isinstance(n.stmt, ast.Raise) and astu.raised_name(n.stmt) == 'SetAttributeFrozenModuleError']
  t_setup = [n for n in c.nodes if n.kind == 'if' and astu.src(n.ast) == 'not self._state.in_setup']
  t_init = [n for n in c.nodes if n.kind == 'if' and astu.src(n.ast) == 'not self._state.is_initialized']
  t_dunder = [n for n in c.nodes if n.kind == 'if' and astu.src(n.ast) == "name.startswith('__')"]
  if not raises:
    R.fail(key_of(sa, 'raises on initialised module'), sa, 'Module.__setattr__ no longer raises SetAttributeFrozenModuleError')
  else:
    R.require(len(t_setup) == 1 and len(t_init) == 1 and len(t_dunder) == 1, 'Module.__setattr__: state tests not found')
    # with in_setup false, is_initialized true, non-dunder name: every path reaches the raise (no store first)
    cut = [(t_setup[0], m, l) for m, l in c.succ[t_setup[0]] if l != 'T'] + [(t_init[0], m, l) for m, l in c.succ[t_init[0]] if l != 'F'] + \
        [(t_dunder[0], m, l) for m, l in c.succ[t_dunder[0]] if l != 'F']
    sets = [n for x in astu.func_calls(sa) if astu.call_name(x) in ('object.__setattr__', 'self._register_submodules') for n in c.nodes_for(x)]
    reach = c.reach([c.entry], avoid_edges=cut)
    ok = raises[0] in reach and not any(s in reach for s in sets) and c.exit not in reach
    R.check(ok, key_of(sa, 'raises on initialised module'), sa, 'for an initialised module outside setup and a non-dunder name, __setattr__ must raise before any attribute is set')


@rule('C01.R6', 'K1+K7', 5, 'sow, capture_intermediates and perturb never change the primary output')
def r6(R, repo):
  mod = repo.mod(MO)
  sow = [f for q, f in mod.funcs.items() if q.startswith('Module.sow') and not any('overload' in d for d in astu.decorator_names(f.node))]
  R.require(len(sow) == 1, 'Module.sow implementation not found')
  sow = sow[0]
  c = cfg_of(sow)
  tests = [n for n in c.nodes if n.kind == 'if' and 'is_mutable_collection' in astu.src(n.ast)]
  effects = [n for x in astu.func_calls(sow) if astu.call_name(x) in ('self.scope.put_variable', 'self.scope.reserve') for n in c.nodes_for(x)]
  effects += [n for n in c.nodes if isinstance(n.stmt, ast.Assign) and 'self._state.children' in astu.src(n.stmt.targets[0])]
  R.require(effects, 'Module.sow: put_variable / reserve not found')
  if not tests:
    R.fail(key_of(sow, 'no effect on an immutable collection'), sow, 'Module.sow no longer tests is_mutable_collection(col): sowing into an immutable collection would raise or write')
  else:
    neg = isinstance(tests[0].ast, ast.UnaryOp)
    rets = [n for n in c.nodes if isinstance(n.stmt, ast.Return) and astu.is_const(n.stmt.value, False)]
    ok = len(rets) == 1 and c.edge_guarded(rets[0], tests[0], 'T' if neg else 'F') and all(c.edge_guarded(e, tests[0], 'F' if neg else 'T') for e in effects)
    R.check(ok, key_of(sow, 'no effect on an immutable collection'), sow, 'sow must return False for an immutable collection before reserving or writing anything')
  vals = [n.value for n in astu.body_walk(sow.node) if isinstance(n, ast.Return)]
  R.check(all(isinstance(v, ast.Constant) and isinstance(v.value, bool) for v in vals), key_of(sow, 'returns only True/False'), sow, 'sow must return only a success flag, never a value derived from the sown value')
  cw = mod.func('Module._call_wrapped_method')
  ydefs = flow.defs(cw, 'y')
  ok = len(ydefs) >= 1 and all(isinstance(d[0], ast.Call) and astu.src(d[0].func) == 'run_fun' for d in ydefs)
  sows = [x for x in astu.func_calls(cw) if astu.src(x.func) == 'self.sow']
  ok = ok and len(sows) == 1 and isinstance(astu.parent(sows[0]), ast.Expr) and astu.const_str(sows[0].args[0]) == 'intermediates' and astu.src(sows[0].args[2]) == 'y'
  rets = [n for n in astu.body_walk(cw.node) if isinstance(n, ast.Return)]
  ok = ok and len(rets) == 1 and astu.src(rets[0].value) == 'y'
  R.check(ok, key_of(cw, 'capture_intermediates only observes y'), cw,
          '_call_wrapped_method must return the method result `y` unchanged; the sow of intermediates may not rebind it')
  pt = mod.func('Module.perturb')
  c = cfg_of(pt)
  vp, cp = astu.params(pt.node)[2], astu.params(pt.node)[3]
  tests = [n for n in c.nodes if n.kind == 'if' and astu.src(n.ast) == '%s in self.scope.root._variables' % cp]
  rebinds = [n for n in c.nodes if isinstance(n.stmt, ast.Assign) and astu.src(n.stmt.targets[0]) == vp]
  rets = [n for n in c.nodes if isinstance(n.stmt, ast.Return)]
  ok = len(tests) == 1 and all(c.edge_guarded(r_, tests[0], 'T') for r_ in rebinds) and len(rets) == 1 and astu.src(rets[0].stmt.value) == vp
  R.check(ok, key_of(pt, 'value returned unchanged when the collection is absent'), pt,
          'perturb may modify `value` only when the perturbation collection is present in the variables; otherwise it must return its argument unchanged')
  puts = [n for x in astu.func_calls(pt) if astu.call_name(x) in ('self.scope.put_variable', 'self.scope.reserve') for n in c.nodes_for(x)]
  mt = [n for n in c.nodes if n.kind == 'if' and 'is_mutable_collection' in astu.src(n.ast)]
  R.check(bool(puts) and len(mt) == 1 and all(c.edge_guarded(p_, mt[0], 'T') for p_ in puts), key_of(pt, 'writes only when the collection is mutable'), pt,
          'perturb may create its variable only when the collection is mutable')


def _fwd(R, f, call, names, what):
  missing = [n for n in names if not flow.kw_forwarded(call, n)]
  R.check(not missing, key_of(f, what), (f, call), '%s does not forward %s unchanged to `%s`' % (f.qual, missing, astu.short(call.func)))


@rule('C01.R7', 'K6', 6, 'mutable / capture_intermediates / method / rngs reach the functional core unchanged')
def r7(R, repo):
  mod = repo.mod(MO)
  ma = mod.func('Module.apply')
  calls = [x for x in astu.func_calls(ma) if astu.call_name(x) == 'apply']
  R.require(len(calls) == 1, 'Module.apply: apply(...) not found')
  _fwd(R, ma, calls[0], ['mutable', 'capture_intermediates'], 'forwards mutable, capture_intermediates')
  outer = [x for x in astu.func_calls(ma) if x.func is calls[0]]
  ok = len(outer) == 1 and astu.src(outer[0].args[0]) == 'variables' and flow.kw_forwarded(outer[0], 'rngs') and astu.src(calls[0].args[1]) == 'self'
  R.check(ok, key_of(ma, 'apply(method, self, …)(variables, *args, rngs=rngs, **kwargs)'), ma, 'Module.apply must call apply(method, self, …)(variables, *args, **kwargs, rngs=rngs)')
  for q, core_name in (('apply', 'core.apply'), ('init_with_output', 'core.init')):
    f = mod.func(q)
    cc = [x for x in astu.func_calls(f) if astu.call_name(x) == core_name]
    R.require(len(cc) == 1, '%s: %s(...) not found' % (q, core_name))
    ok = astu.src(cc[0].args[0]) == 'scope_fn' and flow.kw_forwarded(cc[0], 'mutable')
    widen = [d for d in flow.defs(f, 'mutable') if not (isinstance(d[0], tuple))]
    c = cfg_of(f)
    okw = len(widen) == 1 and astu.src(widen[0][0]) == "union_filters(mutable, 'intermediates')"
    if okw:
      t = [n for n in c.nodes if n.kind == 'if' and astu.src(n.ast) == 'capture_intermediates']
      okw = len(t) == 1 and all(c.edge_guarded(x, t[0], 'T') for x in c.nodes_of_stmt(widen[0][1]))
    R.check(ok and okw, key_of(f, 'mutable reaches %s, widened only by intermediates under capture_intermediates' % core_name), f,
            '%s must pass `mutable` to %s, widened only with union_filters(mutable, \'intermediates\') when capture_intermediates is set' % (q, core_name))
  mi = mod.func('Module.init_with_output')
  calls = [x for x in astu.func_calls(mi) if astu.call_name(x) == 'init_with_output']
  R.require(len(calls) == 1, 'Module.init_with_output: init_with_output(...) not found')
  _fwd(R, mi, calls[0], ['mutable', 'capture_intermediates'], 'forwards mutable, capture_intermediates')
  m2 = mod.func('Module.init')
  calls = [x for x in astu.func_calls(m2) if astu.src(x.func) == 'self.init_with_output']
  R.require(len(calls) == 1, 'Module.init: self.init_with_output(...) not found')
  _fwd(R, m2, calls[0], ['method', 'mutable', 'capture_intermediates'], 'forwards method, mutable, capture_intermediates')
  rets = [n for n in astu.body_walk(m2.node) if isinstance(n, ast.Return)]
  unp = [n for n in astu.body_walk(m2.node) if isinstance(n, ast.Assign) and n.value is calls[0]]
  ok = len(unp) == 1 and isinstance(unp[0].targets[0], ast.Tuple) and len(rets) == 1 and astu.src(rets[0].value) == astu.src(unp[0].targets[0].elts[1])
  R.check(ok, key_of(m2, 'returns the variables (second element)'), m2, 'Module.init must return the second element (the variables) of init_with_output')


@rule('C01.R8', 'K8', 16, 'the mutability filter is exact membership (a name never matches by substring or inverted DenyList)')
def r8(R, repo):
  _c14.check_in_filter(R, repo)


meta('C01',
     explanation='Copy-before-bind dataflow in flax/core/scope.py (bind/_unfreeze_variables/unfreeze), a reviewed table of every in-place store in scope.py with '
     'dominance of the mutability test/assert over each write and of ModifyScopeVariableError over put_variable, temporary-scope and return-shape rules for core.apply, '
     'clone-before-run for linen apply/init/bind including an abstract truth-table of the deep-clone test over {False, True, empty cache, cache}, the table of '
     'object.__setattr__ bypass sites, reachability of SetAttributeFrozenModuleError, inertness of sow/capture_intermediates/perturb and keyword plumbing to the core.',
     not_decided=['bit-identity of arrays and determinism of user code (values)', 'aliasing inside leaves (numpy leaves are shared by design)', 'behaviour of user reduce_fn'],
     mutants=[
         Mutant('C01-m1', SC, "      new_variables[key] = unfreeze(value)", "      new_variables[key] = value if isinstance(value, dict) else unfreeze(value)", 'C01.R1'),
         Mutant('C01-m2', SC, "    if not self.is_mutable_collection(col):\n      raise errors.ModifyScopeVariableError(col, name, self.path_text)\n    variables = self._mutable_collection(col)", "    variables = self._mutable_collection(col)", 'C01.R2'),
         Mutant('C01-m3', MO, "      return fn(module.clone(parent=scope, _deep_clone=True), *args, **kwargs)\n    finally:\n      _context.capture_stack.pop()\n\n  if capture_intermediates is True:  # pylint: disable=g-bool-id-comparison\n    capture_intermediates = capture_call_intermediates\n  if capture_intermediates:\n    mutable = union_filters(mutable, 'intermediates')\n  return core.apply(",
                "      return fn(module.clone(parent=scope), *args, **kwargs)\n    finally:\n      _context.capture_stack.pop()\n\n  if capture_intermediates is True:  # pylint: disable=g-bool-id-comparison\n    capture_intermediates = capture_call_intermediates\n  if capture_intermediates:\n    mutable = union_filters(mutable, 'intermediates')\n  return core.apply(", 'C01.R4'),
         Mutant('C01-m4', MO, "    if _deep_clone != False:", "    if _deep_clone:", 'C01.R4', why='seed C02-A: empty cache is falsy'),
         Mutant('C01-m5', MO, "    if not self.scope.is_mutable_collection(col):\n      return False\n    if self.scope.has_variable(col, name):", "    if self.scope.has_variable(col, name):", 'C01.R6'),
         Mutant('C01-m6', MO, "          self.sow('intermediates', fun_name, y)", "          y = self.sow('intermediates', fun_name, y) and y", 'C01.R6'),
         Mutant('C01-m7', SC, "    if mutable is not False:\n      return y, root.mutable_variables()\n    else:\n      return y", "    if mutable:\n      return y, root.mutable_variables()\n    else:\n      return y", 'C01.R3'),
         Mutant('C01-m8', SC, "  return Scope(new_variables, rngs=rngs, mutable=mutable, flags=flags)", "  return Scope(variables if mutable is False else new_variables, rngs=rngs, mutable=mutable, flags=flags)", 'C01.R1'),
         Mutant('C01-m9', MO, "    return apply(\n      method,\n      self,\n      mutable=mutable,\n      capture_intermediates=capture_intermediates,\n    )(variables, *args, **kwargs, rngs=rngs)",
                "    return apply(\n      method,\n      self,\n      mutable=mutable,\n    )(variables, *args, **kwargs, rngs=rngs)", 'C01.R7'),
         Mutant('C01-m10', TR, "    object.__setattr__(x, 'scope', None)", "    object.__setattr__(x, 'scope', None)\n    object.__setattr__(x, 'name', None)", 'C01.R5'),
         Mutant('C01-b1', SC, "  new_variables = _unfreeze_variables(variables, mutable)\n  return Scope(new_variables, rngs=rngs, mutable=mutable, flags=flags)", "  fresh = _unfreeze_variables(variables, mutable)\n  scope = Scope(fresh, rngs=rngs, mutable=mutable, flags=flags)\n  return scope", kind='benign'),
     ])
