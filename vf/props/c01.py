"""C01 — Linen init/apply are pure functions with an explicit mutability contract."""
from __future__ import annotations

import ast
import itertools

from .. import astu, evid, flow, types
from ..cfg import cfg_of
from ..model import AnalysisError
from ..report import key_of
from . import Mutant, meta, rule
from . import c15 as _c15
from . import c14 as _c14

SC = 'flax/core/scope.py'
MO = 'flax/linen/module.py'
TR = 'flax/linen/transforms.py'


def _is_call(e, name):
  return isinstance(e, ast.Call) and astu.call_name(e) == name


@rule('C01.R1', 'K7+K1', 6, 'bind works on a copy of the mutable collections, filtered by the same `mutable`')
def r1(R, repo):
  mod = repo.mod(SC)
  b = mod.func('bind')
  ctor = evid.find_calls(b, 'Scope')
  R.require(len(ctor) >= 1, 'bind: Scope(...) construction not found')
  ps = astu.params(b.node)
  for call in ctor:
    key = key_of(b, 'Scope built from _unfreeze_variables(variables, mutable)')
    st, first = evid.passed_value(repo, mod, b, call, 'variables', 0)
    fl = evid.raw3(b, first, ps[0], ('_unfreeze_variables',)) if st == evid.YES else evid.UNKNOWN
    if fl == evid.RAW:
      R.fail(key, (b, call), 'bind gives the Scope the caller\'s own `%s` (through `%s`): the scope would write into the input of apply; it must be the dict built by '
             '_unfreeze_variables(variables, mutable)' % (ps[0], astu.short(first)))
    elif fl == evid.CLEAN and flow.must_derive(b, first, evid.call_named('_unfreeze_variables')):
      R.ok(key, (b, call))
    else:
      R.unsure(key, (b, call), 'cannot tell where the first argument of Scope(...) in bind comes from')
    evid.judge_forward(R, repo, b, call, ['mutable'], key_of(b, 'Scope(mutable=mutable)'), 'the Scope must be mutable for exactly the filter the copy was made for')
  for call in evid.find_calls(b, '_unfreeze_variables'):
    evid.judge_forward(R, repo, b, call, [ps[0], 'mutable'], key_of(b, '_unfreeze_variables(variables, mutable)'), 'the copy must be made of `variables` for the same filter', pos={ps[0]: 0, 'mutable': 1})
  u = mod.func('_unfreeze_variables')
  c = cfg_of(u)
  vp, mp = astu.params(u.node)[:2]
  loops = [n for n in c.nodes if n.kind == 'for']
  R.require(len(loops) == 1 and astu.src(loops[0].ast) == '%s.items()' % vp and isinstance(loops[0].stmt.target, ast.Tuple), '_unfreeze_variables: loop over variables.items() not found')
  k, v = [astu.src(e) for e in loops[0].stmt.target.elts]
  is_test = lambda e: _is_call(e, 'in_filter') and [astu.src(a) for a in e.args] == [mp, k]
  stores = [n for n in c.nodes if isinstance(n.stmt, ast.Assign) and isinstance(n.stmt.targets[0], ast.Subscript)]
  R.require(stores and evid.est_edges(c, is_test), '_unfreeze_variables: in_filter(mutable, key) test / stores not found')
  out = astu.src(stores[0].stmt.targets[0].value)
  bad = [s for s in stores if astu.src(s.stmt.targets[0].value) != out or astu.src(s.stmt.targets[0].slice) != k]
  fresh = types.single_def(u.node, out)
  key = key_of(u, 'builds and returns a fresh top-level dict')
  if out == vp or evid.raw3(u, stores[0].stmt.targets[0].value, vp) == evid.RAW:
    R.fail(key, (u, stores[0].stmt), '_unfreeze_variables assigns into the caller\'s mapping `%s` instead of a new dict' % vp)
  else:
    ok = not bad and isinstance(fresh, (ast.Dict, ast.Call)) and not getattr(fresh, 'keys', None) and (not isinstance(fresh, ast.Call) or (astu.call_name(fresh) == 'dict' and not fresh.args and not fresh.keywords))
    ok = ok and any(astu.src(n.stmt.value) == out for n in c.nodes if isinstance(n.stmt, ast.Return))
    R.check(ok, key, u, '_unfreeze_variables must fill and return a new dict and never assign into the caller\'s mapping')
  mut_stores = [s for s in stores if evid.guarded(c, s, is_test) == 'yes']
  for s in mut_stores:
    val = s.stmt.value
    key = key_of(u, 'mutable collection copied with unfreeze')
    fl = evid.raw3(u, val, v, ('unfreeze', 'deepcopy'))
    if fl == evid.RAW:
      R.fail(key, (u, s.stmt), 'a collection selected by `mutable` must be stored as unfreeze(value) (a structural copy); `%s` aliases the caller\'s collection, so apply would write into its input' % astu.short(s.stmt))
    elif isinstance(val, ast.Call) and astu.call_name(val) == 'unfreeze' and astu.src(val.args[0]) == v:
      R.ok(key, (u, s.stmt))
    else:
      R.unsure(key, (u, s.stmt), 'cannot tell whether `%s` copies the collection' % astu.short(val))
  for s in stores:
    if s in mut_stores:
      continue
    if evid.raw3(u, s.stmt.value, v, ('unfreeze', 'deepcopy')) == evid.RAW:
      g_ = evid.guarded(c, s, is_test, negative=True)
      R.check(g_ == 'yes', key_of(u, 'uncopied store only for collections not selected by mutable'), (u, s.stmt),
              '`%s` binds the caller\'s own collection object into the scope; that is allowed only when in_filter(mutable, key) is false, but the statement is reached on the path %s - '
              'a collection selected by `mutable` would then be written in place in the caller\'s variables' % (astu.short(s.stmt), evid.guard_witness(c, s, is_test, negative=True)), evidence=(g_ == 'bypass'))
  head = loops[0]
  firsts = [m for m, lab in c.succ[head] if lab == 'T']
  ok = len(mut_stores) >= 1 and all(s in stores or head not in c.reach([s], avoid=stores) for s in firsts)
  R.check(ok, key_of(u, 'every collection stored once, mutable ones on the copying branch'), u, 'every collection must be stored; the ones matching `mutable` on the copying branch (a path through the loop body '
          'stores nothing, or no store happens under in_filter(mutable, key))', evidence=True)
  _c15.check_unfreeze(R, repo)


# stores whose receiver is (an alias of) a variable collection: the only functions allowed to hold one
COLLECTION_WRITERS = {
    'Scope._mutable_collection': 'creates a collection entry under `assert is_mutable_collection` / caches the parent\'s dict',
    'Scope._collection': 'caches a reference to the parent collection in the private dict',
    'Scope.put_variable.put': 'the write primitive of put_variable',
}
SCOPE_STORE_TABLE = {
    ('Scope.push', 'self.rng_counters'): 'rng bookkeeping',
    ('Scope.make_rng', 'self.rng_counters'): 'rng bookkeeping',
    ('_unfreeze_variables', 'new_variables'): 'fresh dict',
    ('group_collections', 'group'): 'fresh group dict',
}
_FRESH = lambda e: (isinstance(e, ast.Dict) and not e.keys) or (isinstance(e, ast.Call) and astu.call_name(e) in ('dict', 'collections.defaultdict', 'defaultdict', 'set', 'list')) or isinstance(e, (ast.DictComp, ast.ListComp, ast.List, ast.Dict))
_IS_MUT = lambda e: isinstance(e, ast.Call) and (astu.call_tail(e) or '') == 'is_mutable_collection'


def _collection_alias(f, base):
  """Does the receiver of a subscript store (may) denote a variable-collection dict of a Scope?"""
  txt = astu.src(base)
  if '_variables' in txt:
    return True
  hit = lambda e: isinstance(e, (ast.Attribute, ast.Call, ast.Subscript)) and ('_variables' in astu.src(e) or (isinstance(e, ast.Call) and (astu.call_tail(e) or '') in ('_mutable_collection', '_collection')))
  return flow.may_derive(f, base, hit)


@rule('C01.R2', 'K1+K3', 8, 'every write into a variable collection is guarded by the mutability test')
def r2(R, repo):
  mod = repo.mod(SC)
  for q, f in mod.funcs.items():
    for n in astu.body_walk(f.node):
      if not (isinstance(n, ast.Subscript) and isinstance(n.ctx, (ast.Store, ast.Del))):
        continue
      base = astu.src(n.value)
      key = key_of(f, 'store into %s[...]' % base)
      root = n.value
      while isinstance(root, (ast.Attribute, ast.Subscript)):
        root = root.value
      if (q, base) in SCOPE_STORE_TABLE:
        R.ok(key, (f, n), SCOPE_STORE_TABLE[(q, base)])
        continue
      if q == 'Scope.put_variable.put':
        R.ok(key, (f, n), 'checked through put_variable')
        continue
      if not _collection_alias(f, n.value):
        ds = flow.defs(f, root.id) if isinstance(root, ast.Name) else []
        if ds and all(isinstance(d[0], ast.AST) and _FRESH(d[0]) for d in ds):
          R.ok(key, (f, n), 'container created in this function')
        else:
          R.unsure(key, (f, n), 'in-place store `%s` in scope.py: cannot tell whether the receiver is a variable collection' % astu.short(astu.enclosing_stmt(n)))
        continue
      c = cfg_of(f)
      nodes = c.nodes_for(n)
      stmt = astu.enclosing_stmt(n)
      is_cache = isinstance(getattr(stmt, 'value', None), ast.Subscript) or (isinstance(getattr(stmt, 'value', None), ast.Name) and q in COLLECTION_WRITERS)
      if is_cache and q in COLLECTION_WRITERS:
        R.ok(key + ' (cache of parent reference)', (f, n), 'child scope caches a reference in its private dict')
        continue
      g = [evid.guarded(c, x, _IS_MUT) for x in nodes]
      if g and all(x == 'yes' for x in g):
        R.ok(key + ' = {}' if q == 'Scope._mutable_collection' else key, (f, n), 'dominated by the mutability test')
      elif q in COLLECTION_WRITERS or not q.split('.')[-1].startswith('_'):
        R.fail(key + ' = {}' if q == 'Scope._mutable_collection' else key, (f, n), '`%s` writes a variable collection without being dominated by an is_mutable_collection test/assert: %s' % (
            astu.short(stmt), evid.guard_witness(c, nodes[0], _IS_MUT) if nodes else ''))
      else:
        R.unsure(key, (f, n), 'new private writer of a variable collection `%s`: cannot tell whether its callers test mutability' % astu.short(stmt))
  pv = mod.func('Scope.put_variable')
  c = cfg_of(pv)
  writes = evid.nodes_of(c, evid.find_calls(pv, 'put', '_mutable_collection'))
  R.require(len(writes) >= 2, 'put_variable: _mutable_collection / put calls not found')
  key = key_of(pv, 'immutable collection raises')
  g = [evid.guarded(c, w, _IS_MUT) for w in writes]
  raises = evid.raises_deep(repo, pv, 'ModifyScopeVariableError')
  if all(x == 'yes' for x in g) and any(f_ is pv for f_, _ in raises):
    rn = [n for n in c.nodes if isinstance(n.stmt, ast.Raise) and astu.raised_name(n.stmt) == 'ModifyScopeVariableError']
    R.check(any(evid.guarded(c, r_, _IS_MUT, negative=True) == 'yes' for r_ in rn), key, pv, 'put_variable must raise ModifyScopeVariableError exactly when the collection is not mutable')
  elif not raises:
    R.fail(key, pv, 'put_variable no longer raises ModifyScopeVariableError for an immutable collection: the write would take effect')
  elif 'bypass' in g:
    w = writes[g.index('bypass')]
    R.fail(key, pv, 'put_variable reaches the write `%s` on a path that does not establish is_mutable_collection(col): %s' % (astu.short(w.stmt), evid.guard_witness(c, w, _IS_MUT)))
  else:
    R.unsure(key, pv, 'the mutability test of put_variable was moved out of the function')
  for guard in ('_check_valid', '_validate_trace_level'):
    g = evid.nodes_of(c, evid.find_calls(pv, guard))
    key = key_of(pv, 'self.%s before the write' % guard)
    if g:
      R.check(all(c.dominated(w, g) for w in writes), key, pv, 'put_variable must call %s() before writing (leaked / stale scopes cannot write)' % guard, evidence=True)
    elif not evid.calls_deep(repo, pv, evid.call_named(guard)):
      R.fail(key, pv, 'put_variable no longer calls %s(): leaked / stale scopes could write' % guard)
    else:
      R.unsure(key, pv, '%s is called from a helper of put_variable' % guard)
  put = mod.func('Scope.put_variable.put')
  st = [n for n in astu.body_walk(put.node) if isinstance(n, ast.Subscript) and isinstance(n.ctx, ast.Store)]
  R.judge(len(st) >= 1, all(astu.src(x.value) == astu.params(put.node)[0] for x in st), key_of(put, 'writes only into its target'), put, 'put must only assign into the dict it was given')
  imc = mod.func('Scope.is_mutable_collection')
  ret = [n for n in astu.body_walk(imc.node) if isinstance(n, ast.Return)]
  key = key_of(imc, 'in_filter(self.mutable, col)')
  if len(ret) == 1 and _is_call(ret[0].value, 'in_filter'):
    R.check([astu.src(a) for a in ret[0].value.args] == ['self.mutable', astu.params(imc.node)[1]], key, imc, 'is_mutable_collection must be in_filter(self.mutable, col), not `%s`' % astu.short(ret[0].value), evidence=True)
  elif ret and all(isinstance(r_.value, ast.Constant) for r_ in ret):
    R.fail(key, imc, 'is_mutable_collection returns a constant')
  else:
    R.unsure(key, imc, 'is_mutable_collection is not a single `return in_filter(self.mutable, col)`')
  # outside scope.py nobody writes through ._variables
  for m in repo.mods_with('._variables'):
    if m.rel == SC:
      continue
    for f in m.funcs.values():
      for n in astu.body_walk(f.node):
        if isinstance(n, ast.Subscript) and isinstance(n.ctx, (ast.Store, ast.Del)) and '._variables' in astu.src(n.value) and 'scope' in astu.src(n.value).lower():
          R.fail(key_of(f, 'store through ._variables outside scope.py'), (f, n), '`%s` bypasses Scope.put_variable' % astu.short(astu.enclosing_stmt(n)))


@rule('C01.R3', 'K1+K4', 5, 'apply runs on a temporary scope and returns exactly the collections selected by `mutable`')
def r3(R, repo):
  mod = repo.mod(SC)
  w = mod.func('apply.wrapper')
  c = cfg_of(w)
  withs = [n for n in c.nodes if n.kind == 'with' and isinstance(n.ast, ast.Call) and astu.call_tail(n.ast) == 'temporary']
  R.require(len(withs) == 1 and withs[0].stmt.items[0].optional_vars is not None, 'apply.wrapper: `with <scope>.temporary() as root` not found')
  ctx = withs[0].ast
  binds = [e for e in evid.expand(w, ctx.func.value) if _is_call(e, 'bind')]
  key = key_of(w, 'with bind(variables, rngs, mutable, flags).temporary()')
  if len(binds) == 1:
    evid.judge_forward(R, repo, w, binds[0], [astu.params(w.node)[0], 'rngs', 'mutable', 'flags'], key, 'apply must run the function on bind(variables, rngs=rngs, mutable=mutable, flags=flags).temporary()',
                       alias={astu.params(w.node)[0]: 'variables'}, pos={astu.params(w.node)[0]: 0})
  else:
    R.unsure(key, (w, withs[0].stmt), 'the scope entered by apply is not a direct bind(...) call')
  root = astu.src(withs[0].stmt.items[0].optional_vars)
  calls = [n for n in c.nodes if isinstance(n.stmt, ast.Assign) and isinstance(n.stmt.value, ast.Call) and astu.src(n.stmt.value.func) == 'fn']
  exits = [n for n in c.nodes if n.kind == 'withexit' and n.stmt is withs[0].stmt]
  if len(calls) == 1 and calls[0].stmt.value.args:
    ok = astu.src(calls[0].stmt.value.args[0]) == root and c.dominated(calls[0], withs) and all(calls[0] not in c.reach([x]) for x in exits)
    R.check(ok, key_of(w, 'fn(root, …) inside the with-block'), w, 'the user function must be called with the temporary root scope inside the with-block', evidence=True)
  else:
    R.unsure(key_of(w, 'fn(root, …) inside the with-block'), w, 'y = fn(root, ...) not found')
  y = astu.src(calls[0].stmt.targets[0]) if calls else 'y'
  rets = [n for n in c.nodes if isinstance(n.stmt, ast.Return)]
  tests = [n for n in c.nodes if n.kind == 'if' and 'mutable' in astu.names_loaded(n.ast)]
  key = key_of(w, 'returns (y, mutable_variables()) iff mutable is not False')
  try:
    truth = {v: _abs_truth(tests[0].ast, 'mutable', v) for v in ABS} if len(tests) == 1 else None
  except AnalysisError:
    truth = None
  if truth is None or not rets or any(r_.stmt.value is None for r_ in rets):
    R.unsure(key, w, 'the return statement(s) of apply.wrapper / the test on `mutable` were not recognised')
  else:
    def shape(e):
      if isinstance(e, ast.Tuple) and len(e.elts) == 2 and astu.src(e.elts[0]) == y and astu.src(e.elts[1]) == '%s.mutable_variables()' % root:
        return 'pair'
      if isinstance(e, ast.Tuple) and len(e.elts) == 2 and astu.src(e.elts[0]) == y and astu.src(e.elts[1]) in ('%s.variables()' % root, '%s._variables' % root, 'variables'):
        return 'all'
      return 'y' if astu.src(e) == y else 'other'
    bad = None
    for v in ABS:
      lab = 'T' if truth[v] else 'F'
      edge = [(tests[0], m, l) for m, l in c.succ[tests[0]] if l != lab]
      reach = c.reach([c.entry], avoid_edges=edge)
      got = {shape(r_.stmt.value) for r_ in rets if r_ in reach}
      want = 'y' if v == 'False' else 'pair'
      if got != {want}:
        bad = (v, got, want)
        break
    if bad is None:
      R.ok(key, w)
    elif 'all' in bad[1]:
      R.fail(key, (w, tests[0].stmt), 'apply returns (y, %s.variables()): *every* collection is handed back, not only the ones selected by `mutable` (callers that merge the result into their state overwrite e.g. params)' % root)
    elif 'other' in bad[1]:
      R.unsure(key, w, 'return value of apply.wrapper not recognised')
    else:
      R.fail(key, (w, tests[0].stmt), 'for mutable=%s apply returns %s but must return %s (`if %s`)' % (
          {'False': 'False', 'True': 'True', 'Empty': 'an empty filter such as []', 'NonEmpty': 'a collection name / list'}[bad[0]],
          sorted(bad[1]), {'y': 'y alone', 'pair': '(y, root.mutable_variables())'}[bad[2]], astu.src(tests[0].ast)))
  t = mod.func('Scope.temporary')
  tr = [n for n in astu.body_walk(t.node) if isinstance(n, ast.Try)]
  key = key_of(t, 'invalidates in finally')
  inv = evid.find_calls(t, 'invalidate')
  if not inv:
    R.fail(key, t, 'Scope.temporary no longer invalidates the scope: a leaked root scope stays writable after apply returned')
  else:
    fin = [x for tr_ in tr for s_ in tr_.finalbody for x in ast.walk(s_)]
    ys = [n for n in astu.body_walk(t.node) if isinstance(n, (ast.Yield, ast.YieldFrom))]
    R.judge(bool(ys) and len(tr) >= 1, all(any(x is i for x in fin) for i in inv) and 'contextlib.contextmanager' in astu.decorator_names(t.node), key, t, 'Scope.temporary must invalidate the scope in a finally block around the yield')
  mv = mod.func('Scope.mutable_variables')
  comps = [n for n in astu.body_walk(mv.node) if isinstance(n, ast.DictComp)]
  key = key_of(mv, 'every collection matching self.mutable and no other')
  if len(comps) == 1 and astu.src(comps[0].generators[0].iter) == 'self._variables.items()' and isinstance(comps[0].generators[0].target, ast.Tuple):
    g = comps[0].generators[0]
    k = astu.src(g.target.elts[0])
    if not g.ifs:
      R.fail(key, (mv, comps[0]), 'mutable_variables returns every collection: the in_filter(self.mutable, k) condition is gone')
    elif len(g.ifs) == 1 and _is_call(g.ifs[0], 'in_filter'):
      ok = astu.src(g.ifs[0]) == 'in_filter(self.mutable, %s)' % k and astu.src(comps[0].key) == k and astu.src(comps[0].value) == astu.src(g.target.elts[1])
      R.check(ok, key, (mv, comps[0]), 'mutable_variables must return {k: v for every collection k with in_filter(self.mutable, k)}, not `%s`' % astu.short(comps[0]), evidence=True)
    else:
      R.unsure(key, (mv, comps[0]), 'filter condition of mutable_variables not recognised')
    pop = evid.find_calls(mv, '_populate_collections')
    R.check(len(pop) >= 1, key_of(mv, 'collections populated first'), mv, 'mutable_variables must call self._populate_collections() so that lazily created child collections are included', evidence=True)
  else:
    R.unsure(key, mv, 'mutable_variables is not a dict comprehension over self._variables.items()')
  # core.init -> apply with flags / rngs
  iw = mod.func('init.wrapper')
  ac = [x for x in astu.func_calls(iw) if astu.call_name(x) == 'apply']
  key = key_of(iw, 'init = apply(fn, mutable)({}, …, rngs=rngs)')
  if len(ac) == 1:
    evid.judge_forward(R, repo, iw, ac[0], ['fn', 'mutable'], key, 'core.init must be apply(fn, mutable=mutable, flags=…)', pos={'fn': 0, 'mutable': 1})
    outer = [x for x in astu.func_calls(iw) if isinstance(x.func, ast.Call) and x.func is ac[0]]
    if len(outer) == 1:
      evid.judge_forward(R, repo, iw, outer[0], ['rngs'], key, 'core.init must pass rngs on to the apply wrapper')
      a0 = outer[0].args[0] if outer[0].args else None
      R.judge(a0 is not None and not isinstance(a0, ast.Starred), isinstance(a0, ast.Dict) and not a0.keys, key + ' :: empty variables', (iw, outer[0]), 'core.init must start from empty variables `{}`')
    else:
      R.unsure(key + ' :: call', iw, 'apply(...)(...) call shape not recognised')
  else:
    R.unsure(key, iw, 'apply(...) call in init.wrapper not found')


ABS = ('False', 'True', 'Empty', 'NonEmpty')


def _abs_truth(expr, name, val):
  """Truth of `expr` when variable `name` holds abstract value val in ABS (False, True, an empty container, a non-empty one)."""
  if isinstance(expr, ast.Name) and expr.id == name:
    return {'False': False, 'True': True, 'Empty': False, 'NonEmpty': True}[val]
  if isinstance(expr, ast.UnaryOp) and isinstance(expr.op, ast.Not):
    return not _abs_truth(expr.operand, name, val)
  if isinstance(expr, ast.BoolOp):
    vs = [_abs_truth(e, name, val) for e in expr.values]
    return all(vs) if isinstance(expr.op, ast.And) else any(vs)
  if isinstance(expr, ast.Compare) and len(expr.ops) == 1 and isinstance(expr.left, ast.Name) and expr.left.id == name and isinstance(expr.comparators[0], ast.Constant):
    cst = expr.comparators[0].value
    op = expr.ops[0]
    if cst is False or cst is True:
      eq = (val == 'False') if cst is False else (val == 'True')
      if isinstance(op, (ast.Eq, ast.Is)):
        return eq
      if isinstance(op, (ast.NotEq, ast.IsNot)):
        return not eq
  if isinstance(expr, ast.Call) and astu.call_name(expr) == 'isinstance' and astu.src(expr.args[0]) == name:
    t = astu.src(expr.args[1])
    if t == 'bool':
      return val in ('False', 'True')
  raise AnalysisError('test `%s` is outside the analysable fragment' % astu.src(expr))


def _deep_clone_call(R, f, expr, parent_name, key, where, msg):
  """expr must be (a name bound to) `<module>.clone(parent=<parent_name>, _deep_clone=True)`."""
  exprs = evid.expand(f, expr)
  clones = [e for e in exprs if isinstance(e, ast.Call) and astu.call_tail(e) == 'clone']
  if clones:
    for cl in clones:
      dc, pa = astu.kwarg(cl, '_deep_clone'), astu.kwarg(cl, 'parent')
      if astu.has_star_kwargs(cl):
        R.unsure(key, where, 'clone(**kwargs): cannot tell whether _deep_clone=True is passed')
      elif dc is None or (isinstance(dc, ast.Constant) and dc.value is not True):
        R.fail(key, where, '%s; `%s` is a shallow clone: submodules (and their scope/_state bookkeeping) stay shared with the caller\'s module' % (msg, astu.short(cl)))
      elif pa is None or isinstance(pa, ast.Constant):
        R.fail(key, where, '%s; `%s` does not bind the clone to `%s`' % (msg, astu.short(cl), parent_name))
      elif astu.is_const(dc, True) and astu.src(pa) == parent_name:
        R.ok(key, where)
      else:
        R.unsure(key, where, 'arguments of `%s` not recognised' % astu.short(cl))
    return
  if isinstance(expr, ast.Name) and not [d for d in flow.defs(f, expr.id)]:
    R.fail(key, where, '%s; passing `%s` (the caller\'s instance) would bind scope/_state onto the caller\'s module' % (msg, expr.id))
  elif isinstance(expr, ast.Name) and expr.id == 'self':
    R.fail(key, where, '%s; `self` is the caller\'s instance' % msg)
  else:
    R.unsure(key, where, 'cannot tell whether `%s` is a deep clone' % astu.short(expr))


@rule('C01.R4', 'K7', 7, 'user functions run on a deep clone of the module, never on the caller\'s instance')
def r4(R, repo):
  mod = repo.mod(MO)
  for q in ('apply.scope_fn', 'init_with_output.scope_fn'):
    f = mod.func(q)
    calls = [x for x in astu.func_calls(f) if astu.src(x.func) == 'fn']
    R.require(len(calls) == 1 and calls[0].args and not isinstance(calls[0].args[0], ast.Starred), '%s: fn(<module>, ...) call not found' % q)
    _deep_clone_call(R, f, calls[0].args[0], astu.params(f.node)[0], key_of(f, 'fn(module.clone(parent=scope, _deep_clone=True), …)'), (f, calls[0]),
                     'the user function must receive module.clone(parent=scope, _deep_clone=True)')
    tr = [n for n in astu.body_walk(f.node) if isinstance(n, ast.Try)]
    push = [x for x in astu.func_calls(f) if astu.src(x.func).endswith('capture_stack.append')]
    pop = [x for x in astu.func_calls(f) if astu.src(x.func).endswith('capture_stack.pop')]
    key = key_of(f, 'capture stack push/pop paired in finally')
    if push and not pop:
      R.fail(key, f, 'the capture filter is pushed but never popped: it would leak into later, unrelated apply calls')
    elif push and pop and tr:
      fin = [x for t_ in tr for s_ in t_.finalbody for x in ast.walk(s_)]
      body = [x for t_ in tr for s_ in t_.body for x in ast.walk(s_)]
      ok = all(any(x is p_ for x in fin) for p_ in pop) and any(x is calls[0] for x in body) and not any(x is p_ for x in body + fin for p_ in push)
      R.check(ok, key, f, 'the capture filter must be pushed before the try and popped in its finally block (an exception in the user function would otherwise leave it on the stack)', evidence=True)
    else:
      R.unsure(key, f, 'capture_stack push/pop not recognised')
  b = mod.func('Module.bind')
  rets = [n for n in astu.body_walk(b.node) if isinstance(n, ast.Return) and n.value is not None]
  R.require(len(rets) >= 1, 'Module.bind: return not found')
  scope_names = [t.id for n in astu.body_walk(b.node) if isinstance(n, ast.Assign) and isinstance(n.value, ast.Call) and astu.call_tail(n.value) == 'bind' for t in n.targets if isinstance(t, ast.Name)]
  for r_ in rets:
    _deep_clone_call(R, b, r_.value, scope_names[0] if scope_names else 'scope', key_of(b, 'returns self.clone(parent=scope, _deep_clone=True)'), (b, r_), 'Module.bind must return a deep clone bound to the new scope')
  cl = mod.func('Module.clone')
  c = cfg_of(cl)
  tests = [n for n in c.nodes if n.kind == 'if' and '_deep_clone' in astu.names_loaded(n.ast)]
  R.require(len(tests) == 1, 'Module.clone: deep-clone test not found')
  key = key_of(cl, 'deep clone for True and for any cache mapping, including an empty one')
  try:
    vals = {v: _abs_truth(tests[0].ast, '_deep_clone', v) for v in ABS}
  except AnalysisError as e:
    vals = None
    R.unsure(key, (cl, tests[0].stmt), str(e))
  if vals is not None:
    R.check(vals == {'False': False, 'True': True, 'Empty': True, 'NonEmpty': True}, key, (cl, tests[0].stmt),
            '`if %s:` evaluates to %s; the recursive call passes a (possibly still empty) WeakValueDictionary as _deep_clone, which must count as "deep clone"' % (astu.src(tests[0].ast), vals), evidence=True)
  maps = [n for n in c.nodes if isinstance(n.stmt, ast.Assign) and isinstance(n.stmt.value, ast.Call) and astu.call_name(n.stmt.value) == '_map_submodules']
  ok = len(maps) == 1 and c.edge_guarded(maps[0], tests[0], 'T') and astu.src(maps[0].stmt.value.args[0]) == 'clone_fn' and isinstance(maps[0].stmt.targets[0], ast.Subscript) and astu.src(maps[0].stmt.targets[0].value) == 'attrs'
  loop = [n for n in c.nodes if n.kind == 'for' and astu.src(n.ast) == 'attrs.items()']
  skip = [n for n in c.nodes if n.kind == 'if' and "'parent'" in astu.src(n.ast)]
  ok = ok and len(loop) == 1 and maps[0] in c.loop_body_nodes(loop[0].stmt) and len(skip) == 1
  R.check(ok, key_of(cl, 'every non-parent attribute mapped through clone_fn'), cl, 'in deep-clone mode every attribute except `parent` must pass through _map_submodules(clone_fn, value)')
  cf = mod.func('Module.clone.clone_fn')
  rec = [x for x in astu.func_calls(cf) if astu.call_tail(x) == 'clone']
  key = key_of(cf, 'recursive clones share the cache (sharing-by-reference preserved)')
  cache_names = [d for d in ('cache',) if flow.defs(cl, d)]
  if not rec:
    R.unsure(key, cf, 'recursive clone call not found in clone_fn')
  else:
    for x in rec:
      dc = astu.kwarg(x, '_deep_clone')
      if dc is None or isinstance(dc, ast.Constant):
        R.fail(key, (cf, x), '`%s` does not pass the clone cache on: a submodule reachable twice would be cloned twice (sharing lost) or not deep-cloned at all' % astu.short(x))
      elif cache_names and astu.src(dc) == cache_names[0]:
        R.ok(key, (cf, x))
      else:
        R.unsure(key, (cf, x), '_deep_clone argument `%s` not recognised' % astu.short(dc))
  cc = cfg_of(cf)
  st = [n for n in cc.nodes if isinstance(n.stmt, ast.Assign) and astu.src(n.stmt.targets[0]) == 'cache[key]']
  hit = [n for n in cc.nodes if isinstance(n.stmt, ast.Return) and astu.src(n.stmt.value) == 'cache[key]']
  R.check(len(st) == 1 and len(hit) == 1, key_of(cf, 'clone stored in and served from the cache'), cf, 'clone_fn must store the clone under the submodule id and return cached clones')
  ctor = [n for n in c.nodes if isinstance(n.stmt, (ast.Assign, ast.Return)) and n.stmt.value is not None and astu.src(n.stmt.value) == 'self.__class__(**attrs)']
  R.check(len(ctor) == 1 and all(c.dominated(ctor[0], [t]) for t in tests), key_of(cl, 'new instance built from the (cloned) attrs'), cl, 'clone must construct a new instance from attrs')


SETATTR_TABLE = {
    # (file, function or enclosing function, receiver, attribute): why the bypass is legitimate
    (MO, 'ParentDescriptor.__set__', 'obj', '_parent_ref'): 'descriptor storing the parent reference',
    (MO, 'Module._call_wrapped_method', 'self', 'scope'): 'rewinds the bound clone\'s scope after a compact call',
    (MO, 'Module.__setattr__', 'self', '<name>'): 'before __post_init__ finished / dunder names',
    (MO, 'Module.__post_init__', 'self', '_id'): 'construction', (MO, 'Module.__post_init__', 'self', '_state'): 'construction',
    (MO, 'Module.__post_init__', 'self', 'parent'): 'construction', (MO, 'Module.__post_init__', 'self', 'scope'): 'construction',
    (MO, 'Module._register_submodules', 'self', '<name>'): 'setup() attribute registration',
    (MO, 'Module._register_submodules', 'subvalue', 'parent'): 'adopting a parent-less submodule in setup()',
    (MO, 'Module._register_submodules', 'subvalue', 'name'): 'adopting a parent-less submodule in setup()',
    (MO, 'share_scope', 'module_to_update', 'scope'): 'explicit user request',
    (TR, 'clean_clone', 'x', 'children'): 'fresh clone', (TR, 'clean_clone', 'x', 'scope'): 'fresh clone',
    (TR, 'module_class_lift_transform', 'cloned', '_state'): 'fresh clone inside the lifted function',
    (TR, 'decorator_lift_transform', 'cloned', '_state'): 'fresh clone inside the lifted function',
    (TR, 'module_class_lift_transform_cached', 'cloned', '_state'): 'fresh clone inside the lifted function',
    (TR, 'decorator_lift_transform_cached', 'cloned', '_state'): 'fresh clone inside the lifted function',
}


@rule('C01.R5', 'K3', 16, 'frozen-module bypass writes are the reviewed ones; assignment to an initialised module raises')
def r5(R, repo):
  n_sites = 0
  for rel in (MO, TR):
    mod = repo.mod(rel)
    for q, f in mod.funcs.items():
      for x in astu.func_calls(f):
        if astu.call_name(x) == 'object.__setattr__' and len(x.args) >= 2:
          n_sites += 1
          recv = astu.src(x.args[0])
          attr = astu.const_str(x.args[1]) or '<name>'
          key = key_of(f, 'object.__setattr__(%s, %r)' % (recv, attr))
          ok = any(r_ == rel and rc == recv and at == attr and (q == qq or q.startswith(qq + '.')) for (r_, qq, rc, at) in SETATTR_TABLE)
          if ok:
            R.ok(key, (f, x))
          elif isinstance(x.args[0], ast.Name) and flow.defs(f, recv) and all(isinstance(d[0], ast.Call) and astu.call_tail(d[0]) in ('clone', 'clean_clone') for d in flow.defs(f, recv)):
            R.ok(key, (f, x), 'receiver is a clone made in this function')
          elif recv == 'self' and attr != '<name>' and not f.name.startswith('_'):
            R.fail(key, (f, x), 'object.__setattr__(self, %r, …) in %s bypasses the frozen-module check on the instance the caller owns and is not one of the reviewed construction-time sites' % (attr, q))
          else:
            R.unsure(key, (f, x), 'object.__setattr__(%s, %r, …) in %s is not in the table of reviewed sites; cannot tell who owns `%s`' % (recv, attr, q, recv))
  R.require(n_sites >= 15, 'expected >= 15 object.__setattr__ sites')
  mod = repo.mod(MO)
  sa = mod.func('Module.__setattr__')
  c = cfg_of(sa)
  name_p = astu.params(sa.node)[1]
  raises = [n for n in c.nodes if isinstance(n.stmt, ast.Raise) and astu.raised_name(n.stmt) == 'SetAttributeFrozenModuleError']
  p_setup = lambda e: astu.src(e) == 'self._state.in_setup'
  p_init = lambda e: astu.src(e) == 'self._state.is_initialized'
  p_dunder = lambda e: isinstance(e, ast.Call) and astu.call_tail(e) == 'startswith' and astu.src(e.func.value) == name_p and e.args and astu.const_str(e.args[0]) == '__'
  key = key_of(sa, 'raises on initialised module')
  if not raises and not evid.raises_deep(repo, sa, 'SetAttributeFrozenModuleError'):
    R.fail(key, sa, 'Module.__setattr__ no longer raises SetAttributeFrozenModuleError')
  elif not raises:
    R.unsure(key, sa, 'SetAttributeFrozenModuleError is raised from a helper')
  else:
    tests_ast = [n.ast for n in c.nodes if n.kind == 'if' and n.ast is not None]
    found = all(any(evid.mentions(t, p) for t in tests_ast) for p in (p_setup, p_init, p_dunder))
    # with in_setup false, is_initialized true, non-dunder name: every path reaches the raise (no store first)
    cut = evid.est_edges(c, p_setup) + evid.est_edges(c, p_init, negative=True) + evid.est_edges(c, p_dunder)
    sets = evid.nodes_of(c, evid.find_calls(sa, '__setattr__', '_register_submodules', 'setattr'))
    reach = c.reach([c.entry], avoid_edges=cut)
    ok = any(r_ in reach for r_ in raises) and not any(s_ in reach for s_ in sets) and c.exit not in reach
    if not ok:
      # the three tests may be combined in one condition: evaluate every test under the assumption instead
      cut2, _ = evid.env_edges(c, {'self._state.in_setup': False, 'self._state.is_initialized': True, "%s.startswith('__')" % name_p: False})
      may = c.reach([c.entry], avoid_edges=cut2)
      ok = any(r_ in may for r_ in raises) and not any(s_ in may for s_ in sets) and c.exit not in may
    if ok:
      R.ok(key, sa)
    else:
      # only a path on which every test is one of the three recognised ones is positive evidence
      other = [(n, m, l) for n in c.nodes if n.kind in ('if', 'while') and not any(evid.mentions(n.ast, p) for p in (p_setup, p_init, p_dunder)) for m, l in c.succ[n]]
      reach2 = c.reach([c.entry], avoid_edges=cut + other)
      hit = [s_ for s_ in sets if s_ in reach2] + ([c.exit] if c.exit in reach2 else [])
      R.judge(found and bool(hit), False, key, sa, 'for an initialised module outside setup and a non-dunder name, __setattr__ must raise before any attribute is set: %s' % (
          c.witness(c.entry, hit[0], avoid_edges=cut + other) if hit else ''))


@rule('C01.R6', 'K1+K7', 5, 'sow, capture_intermediates and perturb never change the primary output')
def r6(R, repo):
  mod = repo.mod(MO)
  sow = [f for q, f in mod.funcs.items() if q.startswith('Module.sow') and not any('overload' in d for d in astu.decorator_names(f.node))]
  R.require(len(sow) == 1, 'Module.sow implementation not found')
  sow = sow[0]
  c = cfg_of(sow)
  effects = evid.nodes_of(c, evid.find_calls(sow, 'put_variable', 'reserve'))
  effects += [n for n in c.nodes if isinstance(n.stmt, ast.Assign) and 'self._state.children' in astu.src(n.stmt.targets[0])]
  R.require(effects, 'Module.sow: put_variable / reserve not found')
  evid.judge_guard(R, c, effects, _IS_MUT, key_of(sow, 'no effect on an immutable collection'), sow, 'sow must return False for an immutable collection before reserving or writing anything')
  vals = [n.value for n in astu.body_walk(sow.node) if isinstance(n, ast.Return)]
  vname = astu.params(sow.node)[3]
  key = key_of(sow, 'returns only True/False')
  if all(isinstance(v, ast.Constant) and isinstance(v.value, bool) for v in vals):
    R.ok(key, sow)
  elif any(v is not None and evid.raw3(sow, v, vname) == evid.RAW for v in vals):
    R.fail(key, sow, 'sow returns (something holding) the sown value; it must return only a success flag')
  else:
    R.unsure(key, sow, 'return values of sow not recognised')
  cw = mod.func('Module._call_wrapped_method')
  rets = [n for n in astu.body_walk(cw.node) if isinstance(n, ast.Return) and n.value is not None]
  key = key_of(cw, 'capture_intermediates only observes y')
  if len(rets) == 1 and isinstance(rets[0].value, ast.Name):
    y = rets[0].value.id
    ydefs = [d for d in flow.defs(cw, y)]
    run = [d for d in ydefs if isinstance(d[0], ast.Call) and astu.src(d[0].func) in ('run_fun', 'fun')]
    other = [d for d in ydefs if d not in run]
    sows = evid.find_calls(cw, 'sow')
    if any(isinstance(d[0], ast.AST) and any(isinstance(x, ast.Call) and astu.call_tail(x) == 'sow' for x in ast.walk(d[0])) for d in other):
      R.fail(key, (cw, other[0][1]), '_call_wrapped_method rebinds the method result `%s` from the sow of intermediates: capture_intermediates would change the output' % y)
    elif run and not other and all(isinstance(astu.parent(x), ast.Expr) for x in sows):
      R.ok(key, cw)
    else:
      R.unsure(key, cw, 'definitions of the returned value not recognised')
  else:
    R.unsure(key, cw, '_call_wrapped_method does not end in a single `return y`')
  pt = mod.func('Module.perturb')
  c = cfg_of(pt)
  vp, cp = astu.params(pt.node)[2], astu.params(pt.node)[3]
  present = lambda e: isinstance(e, ast.Compare) and len(e.ops) == 1 and isinstance(e.ops[0], ast.In) and astu.src(e.left) == cp and '_variables' in astu.src(e.comparators[0])
  rebinds = [n for n in c.nodes if isinstance(n.stmt, ast.Assign) and astu.src(n.stmt.targets[0]) == vp]
  rets = [n for n in c.nodes if isinstance(n.stmt, ast.Return)]
  key = key_of(pt, 'value returned unchanged when the collection is absent')
  if rebinds and len(rets) == 1 and astu.src(rets[0].stmt.value) == vp:
    evid.judge_guard(R, c, rebinds, present, key, pt, 'perturb may modify `value` only when the perturbation collection is present in the variables')
  else:
    R.unsure(key, pt, 'perturb: rebinding of `value` / single `return value` not found')
  puts = evid.nodes_of(c, evid.find_calls(pt, 'put_variable', 'reserve'))
  evid.judge_guard(R, c, puts, _IS_MUT, key_of(pt, 'writes only when the collection is mutable'), pt, 'perturb may create its variable only when the collection is mutable')


def _fwd(R, repo, f, call, names, what, pos=None):
  evid.judge_forward(R, repo, f, call, names, key_of(f, what), '%s does not forward its options unchanged' % f.qual, pos=pos)


@rule('C01.R7', 'K6', 6, 'mutable / capture_intermediates / method / rngs reach the functional core unchanged')
def r7(R, repo):
  mod = repo.mod(MO)
  ma = mod.func('Module.apply')
  calls = [x for x in astu.func_calls(ma) if astu.call_name(x) == 'apply']
  R.require(len(calls) == 1, 'Module.apply: apply(...) not found')
  _fwd(R, repo, ma, calls[0], ['method', 'self', 'mutable', 'capture_intermediates'], 'apply(method, self, mutable, capture_intermediates)', pos={'method': 0, 'self': 1})
  outer = [x for x in astu.func_calls(ma) if x.func is calls[0]]
  if len(outer) == 1:
    _fwd(R, repo, ma, outer[0], ['variables', 'rngs'], 'apply(…)(variables, *args, rngs=rngs, **kwargs)', pos={'variables': 0})
  else:
    R.unsure(key_of(ma, 'apply(…)(variables, *args, rngs=rngs, **kwargs)'), ma, 'apply(...)(...) call shape not recognised')
  is_cap = lambda e: isinstance(e, ast.Name) and e.id == 'capture_intermediates'
  for q, core_name in (('apply', 'core.apply'), ('init_with_output', 'core.init')):
    f = mod.func(q)
    cc = [x for x in astu.func_calls(f) if astu.call_name(x) == core_name]
    R.require(len(cc) == 1, '%s: %s(...) not found' % (q, core_name))
    _fwd(R, repo, f, cc[0], ['scope_fn', 'mutable'], '%s(scope_fn, mutable=mutable)' % core_name, pos={'scope_fn': 0, 'mutable': 1})
    widen = [d for d in flow.defs(f, 'mutable') if not (isinstance(d[0], tuple))]
    c = cfg_of(f)
    key = key_of(f, 'mutable reaches %s, widened only by intermediates under capture_intermediates' % core_name)
    for d in widen:
      e = d[0]
      if isinstance(e, ast.Call) and astu.call_tail(e) == 'union_filters' and len(e.args) == 2:
        ok = astu.src(e.args[0]) == 'mutable' and astu.const_str(e.args[1]) == 'intermediates'
        if not ok:
          R.fail(key, (f, d[1]), '`%s` widens `mutable` by something other than \'intermediates\'' % astu.short(d[1]))
        else:
          evid.judge_guard(R, c, c.nodes_of_stmt(d[1]), is_cap, key, (f, d[1]), 'mutable may be widened with \'intermediates\' only when capture_intermediates is set')
      elif isinstance(e, ast.Constant):
        R.fail(key, (f, d[1]), '`%s` overrides the caller\'s `mutable`' % astu.short(d[1]))
      else:
        R.unsure(key, (f, d[1]), 'rebinding `%s` of mutable not recognised' % astu.short(d[1]))
    if not widen:
      R.ok(key, f, 'mutable is never rebound')
  mi = mod.func('Module.init_with_output')
  calls = [x for x in astu.func_calls(mi) if astu.call_name(x) == 'init_with_output']
  R.require(len(calls) == 1, 'Module.init_with_output: init_with_output(...) not found')
  _fwd(R, repo, mi, calls[0], ['method', 'self', 'mutable', 'capture_intermediates'], 'init_with_output(method, self, mutable, capture_intermediates)', pos={'method': 0, 'self': 1})
  m2 = mod.func('Module.init')
  calls = [x for x in astu.func_calls(m2) if astu.src(x.func) == 'self.init_with_output']
  R.require(len(calls) == 1, 'Module.init: self.init_with_output(...) not found')
  _fwd(R, repo, m2, calls[0], ['rngs', 'method', 'mutable', 'capture_intermediates'], 'self.init_with_output(rngs, method, mutable, capture_intermediates)', pos={'rngs': 0})
  rets = [n for n in astu.body_walk(m2.node) if isinstance(n, ast.Return)]
  unp = [n for n in astu.body_walk(m2.node) if isinstance(n, ast.Assign) and n.value is calls[0]]
  key = key_of(m2, 'returns the variables (second element)')
  if len(unp) == 1 and isinstance(unp[0].targets[0], ast.Tuple) and len(unp[0].targets[0].elts) == 2 and len(rets) == 1 and isinstance(rets[0].value, ast.Name):
    R.check(astu.src(rets[0].value) == astu.src(unp[0].targets[0].elts[1]), key, m2, 'Module.init must return the second element (the variables) of init_with_output', evidence=True)
  else:
    R.unsure(key, m2, 'Module.init: `_, v_out = self.init_with_output(...)` / `return v_out` not recognised')


@rule('C01.R9', 'K7', 3, 'lifted transforms never widen mutability and never share variable dicts with the outer scope')
def r9(R, repo):
  from . import c05 as _c05
  _c05.check_inner_mutability(R, repo)
  _c05.check_inner_variables_cloned(R, repo)


@rule('C01.R8', 'K8', 16, 'the mutability filter is exact membership (a name never matches by substring or inverted DenyList)')
def r8(R, repo):
  _c14.check_in_filter(R, repo)


meta('C01',
     explanation='Copy-before-bind dataflow in flax/core/scope.py (bind/_unfreeze_variables/unfreeze), a reviewed table of every in-place store in scope.py with '
     'dominance of the mutability test/assert over each write and of ModifyScopeVariableError over put_variable, temporary-scope and return-shape rules for core.apply, '
     'clone-before-run for linen apply/init/bind including an abstract truth-table of the deep-clone test over {False, True, empty cache, cache}, the table of '
     'object.__setattr__ bypass sites, reachability of SetAttributeFrozenModuleError, inertness of sow/capture_intermediates/perturb and keyword plumbing to the core.',
     not_decided=['bit-identity of arrays and determinism of user code (values)', 'aliasing inside leaves (numpy leaves are shared by design)', 'behaviour of user reduce_fn'],
     mutants=[
         Mutant('C01-m1', SC, "      new_variables[key] = unfreeze(value)", "      new_variables[key] = value if isinstance(value, dict) else unfreeze(value)", 'C01.R1'),
         Mutant('C01-m2', SC, "    if not self.is_mutable_collection(col):\n      raise errors.ModifyScopeVariableError(col, name, self.path_text)\n    variables = self._mutable_collection(col)", "    variables = self._mutable_collection(col)", 'C01.R2'),
         Mutant('C01-m3', MO, "      return fn(module.clone(parent=scope, _deep_clone=True), *args, **kwargs)\n    finally:\n      _context.capture_stack.pop()\n\n  if capture_intermediates is True:  # pylint: disable=g-bool-id-comparison\n    capture_intermediates = capture_call_intermediates\n  if capture_intermediates:\n    mutable = union_filters(mutable, 'intermediates')\n  return core.apply(",
                "      return fn(module.clone(parent=scope), *args, **kwargs)\n    finally:\n      _context.capture_stack.pop()\n\n  if capture_intermediates is True:  # pylint: disable=g-bool-id-comparison\n    capture_intermediates = capture_call_intermediates\n  if capture_intermediates:\n    mutable = union_filters(mutable, 'intermediates')\n  return core.apply(", 'C01.R4'),
         Mutant('C01-m4', MO, "    if _deep_clone != False:", "    if _deep_clone:", 'C01.R4', why='seed C02-A: empty cache is falsy'),
         Mutant('C01-m5', MO, "    if not self.scope.is_mutable_collection(col):\n      return False\n    if self.scope.has_variable(col, name):", "    if self.scope.has_variable(col, name):", 'C01.R6'),
         Mutant('C01-m6', MO, "          self.sow('intermediates', fun_name, y)", "          y = self.sow('intermediates', fun_name, y) and y", 'C01.R6'),
         Mutant('C01-m7', SC, "    if mutable is not False:\n      return y, root.mutable_variables()\n    else:\n      return y", "    if mutable:\n      return y, root.mutable_variables()\n    else:\n      return y", 'C01.R3'),
         Mutant('C01-m8', SC, "  return Scope(new_variables, rngs=rngs, mutable=mutable, flags=flags)", "  return Scope(variables if mutable is False else new_variables, rngs=rngs, mutable=mutable, flags=flags)", 'C01.R1'),
         Mutant('C01-m9', MO, "    return apply(\n      method,\n      self,\n      mutable=mutable,\n      capture_intermediates=capture_intermediates,\n    )(variables, *args, **kwargs, rngs=rngs)",
                "    return apply(\n      method,\n      self,\n      mutable=mutable,\n    )(variables, *args, **kwargs, rngs=rngs)", 'C01.R7'),
         Mutant('C01-m10', MO, "    del args\n    scope = core.bind(", "    del args\n    object.__setattr__(self, 'parent', None)\n    scope = core.bind(", 'C01.R5'),
         Mutant('C01-m12', SC, "    if in_filter(mutable, key):\n      new_variables[key] = unfreeze(value)", "    if in_filter(mutable, key) and isinstance(value, FrozenDict):\n      new_variables[key] = unfreeze(value)", 'C01.R1', why='seed C01-C (round 2)'),
         Mutant('C01-b1', SC, "  new_variables = _unfreeze_variables(variables, mutable)\n  return Scope(new_variables, rngs=rngs, mutable=mutable, flags=flags)", "  fresh = _unfreeze_variables(variables, mutable)\n  scope = Scope(fresh, rngs=rngs, mutable=mutable, flags=flags)\n  return scope", kind='benign'),
     ])
