"""C03 — NNX split/merge round-trips any object graph, preserving sharing and cycles."""
from __future__ import annotations

import ast
import itertools

from .. import astu, evid, flow, patterns, types
from ..cfg import cfg_of
from ..model import AnalysisError, Func
from ..report import key_of
from . import Mutant, meta, rule

GR = 'flax/nnx/graph.py'
OB = 'flax/nnx/object.py'


def _type_is_branches(fn, var):
  """Class names K of every `type(<var>) is K` test in a function."""
  out = []
  for n in astu.body_walk(fn):
    if isinstance(n, ast.Compare) and len(n.ops) == 1 and isinstance(n.ops[0], (ast.Is, ast.IsNot, ast.Eq, ast.NotEq)) and astu.src(n.left) == 'type(%s)' % var:
      out.append(astu.src(n.comparators[0]))
  return out


@rule('C03.R1', 'K4', 5, 'every attribute kind written by flatten is read by unflatten (and nothing else)')
def r1(R, repo):
  mod = repo.mod(GR)
  fl, gc = mod.func('_graph_flatten'), mod.func('_graph_unflatten._get_children')
  produced = set()
  for x in astu.func_calls(fl):
    if astu.src(x.func) == 'attributes.append' and isinstance(x.args[0], ast.Tuple):
      v = x.args[0].elts[1]
      if isinstance(v, ast.Call):
        produced.add(astu.call_name(v))
      elif isinstance(v, ast.Name):
        # a local bound in several branches stands for each of its definitions
        alts = [a for a in evid.expand(fl, v, containers=False) if isinstance(a, ast.AST)]
        for a in alts:
          if isinstance(a, ast.Call) and astu.call_name(a) in ('NodeDef', 'NodeRef', 'VariableDef', 'Static', 'ArrayAttr'):
            produced.add(astu.call_name(a))
          elif isinstance(a, ast.Name) and a.id == 'ARRAY_ATTR':
            produced.add('ArrayAttr')
        if v.id == 'ARRAY_ATTR':
          produced.add('ArrayAttr')
        elif any(isinstance(a, ast.Call) and astu.call_name(a) not in ('Static', 'ArrayAttr') for a in alts) or len(alts) == 1:
          # the recursive result: NodeDef | NodeRef | VariableDef (return annotation / constructors of the function)
          # (constructed in _graph_flatten itself or in a helper it calls)
          for _f, y in evid.calls_deep(repo, fl, lambda z: astu.call_name(z) in ('NodeDef', 'NodeRef', 'VariableDef')):
            produced.add(astu.call_name(y))
  arr = mod.assigns.get('ARRAY_ATTR')
  R.require(arr is not None and astu.src(arr) == 'ArrayAttr()', 'ARRAY_ATTR is no longer ArrayAttr()')
  read = set(_type_is_branches(gc, 'value'))
  for f_, x in evid.calls_deep(repo, fl, lambda y: astu.call_name(y) in ('NodeDef', 'NodeRef', 'VariableDef', 'Static', 'ArrayAttr')):
    if f_ is not fl and astu.call_name(x) in ('Static', 'ArrayAttr'):
      produced.add(astu.call_name(x))
  if any(isinstance(n_, ast.Name) and n_.id == 'ARRAY_ATTR' for f_ in [fl] + [r_ for r_ in (repo.resolve_call(mod, y, fl) for y in astu.func_calls(fl)) if isinstance(r_, Func) and r_.mod is mod] for n_ in ast.walk(f_.node)):
    produced.add('ArrayAttr')
  R.judge(len(produced) >= 3 and len(read) >= 3, produced == read, key_of(mod.rel, 'attribute kinds written == read'), fl,
          '_graph_flatten writes attribute kinds %s but _graph_unflatten dispatches on %s' % (sorted(produced), sorted(read)))
  last = [n for n in ast.walk(gc.node) if isinstance(n, ast.If)]
  chain_else = None
  _loops = [s for s in ast.walk(gc.node) if isinstance(s, ast.For)]
  R.require(bool(_loops), '_get_children: loop over the attributes not found')
  cur = ([s for s in _loops[0].body if isinstance(s, ast.If)] or [None])[0]
  while isinstance(cur, ast.If):
    if len(cur.orelse) == 1 and isinstance(cur.orelse[0], ast.If):
      cur = cur.orelse[0]
    else:
      chain_else = cur.orelse
      break
  R.check(bool(chain_else) and any(isinstance(s_, ast.Raise) for s_ in chain_else), key_of(gc, 'unknown attribute kind raises'), gc, '_get_children must raise for an unknown attribute kind')
  # top-level dispatch of _graph_unflatten: NodeRef / VariableDef / NodeDef
  un = mod.func('_graph_unflatten')
  top = set(_type_is_branches(un, 'nodedef'))
  R.judge(len(top) >= 2, {'NodeRef', 'VariableDef', 'NodeDef'} <= top, key_of(un, 'dispatch on NodeRef / VariableDef / NodeDef'), un, '_graph_unflatten must handle NodeRef, VariableDef and NodeDef graph definitions')
  for kind, expect in (('Static', 'value.value'), ('NodeRef', 'index_ref[value.index]')):
    ok = False
    for n in ast.walk(gc.node):
      if isinstance(n, ast.If) and astu.src(n.test) == 'type(value) is %s' % kind:
        ok = any(astu.src(x) == 'children.append((key, %s))' % expect for x in ast.walk(ast.Module(body=n.body, type_ignores=[])) if isinstance(x, ast.Call))
    R.check(ok, key_of(gc, '%s -> %s' % (kind, expect)), gc, 'a %s attribute must be rebuilt as %s under its key' % (kind, expect))


@rule('C03.R2', 'K5', 6, 'leaves are appended by flatten and popped by unflatten for the same kinds, one each, with paths in step')
def r2(R, repo):
  mod = repo.mod(GR)
  fl = mod.func('_graph_flatten')
  c = cfg_of(fl)
  la = [n for n in c.nodes if n.kind == 'stmt' and isinstance(n.stmt, ast.Expr) and isinstance(n.stmt.value, ast.Call) and astu.src(n.stmt.value.func) == 'leaves.append']
  pa = [n for n in c.nodes if n.kind == 'stmt' and isinstance(n.stmt, ast.Expr) and isinstance(n.stmt.value, ast.Call) and astu.src(n.stmt.value.func) == 'paths.append']
  if len(la) != 2 or len(pa) != 2:
    deep = evid.calls_deep(repo, fl, lambda y: astu.src(y.func) == 'leaves.append')
    if len(deep) == len(la) and len(la) < 2 and len(pa) >= len(la):
      R.fail(key_of(fl, 'one leaf per Variable, one per array attribute'), fl, '_graph_flatten (and its helpers) append leaves at %d site(s); _graph_unflatten pops one leaf per Variable and one per array attribute' % len(la))
    else:
      R.unsure(key_of(fl, 'one leaf per Variable, one per array attribute'), fl, 'leaves.append / paths.append sites not recognised')
    return
  tv = [n for n in c.nodes if n.kind == 'if' and astu.src(n.ast) == 'is_variable']
  ta = [n for n in c.nodes if n.kind == 'if' and 'jax.Array' in astu.src(n.ast) and 'isinstance(value' in astu.src(n.ast)]
  R.require(len(tv) >= 1 and len(ta) == 1, '_graph_flatten: variable / array tests not found')
  is_var = lambda e: isinstance(e, ast.Name) and e.id == 'is_variable'
  is_arr = lambda e: e is ta[0].ast or (isinstance(e, ast.Call) and astu.call_name(e) == 'isinstance' and 'jax.Array' in astu.src(e) and astu.src(e.args[0]) == 'value')
  var_leaf = [n for n in la if evid.guarded(c, n, is_var) == 'yes']
  arr_leaf = [n for n in la if evid.guarded(c, n, is_arr) == 'yes']
  R.check(len(var_leaf) == 1 and len(arr_leaf) == 1, key_of(fl, 'one leaf per Variable, one per array attribute'), fl, 'exactly Variables and array attributes must contribute one leaf each', evidence=True)
  # paths appended iff leaves are, under `path is not None` / `paths is not None`
  for leafn in la:
    sib = [p for p in pa if (c.can_reach(leafn, p) or c.can_reach(p, leafn)) and not any(c.can_reach(leafn, o) and c.can_reach(o, p) for o in la if o is not leafn)]
    R.check(len(sib) >= 1, key_of(fl, 'path recorded next to leaf', astu.short(leafn.stmt, 40)), (fl, leafn.stmt), 'every leaves.append must have its paths.append (when paths are requested)', evidence=True)
  un = mod.func('_graph_unflatten')
  pops = [x for f in (mod.func('_graph_unflatten.make_variable'), mod.func('_graph_unflatten._get_children')) for x in astu.func_calls(f) if astu.src(x) == 'leaves.popleft()']
  R.judge(len(pops) >= 1, len(pops) == 2, key_of(un, 'one pop per Variable, one per array attribute'), un, '_graph_unflatten must pop exactly one leaf per Variable (make_variable) and per ArrayAttr')
  for f in (mod.func('_graph_unflatten.make_variable'), mod.func('_graph_unflatten._get_children')):
    cf = cfg_of(f)
    pn = [n for x in astu.func_calls(f) if astu.src(x) == 'leaves.popleft()' for n in cf.nodes_for(x)]
    tg = [n for n in cf.nodes if n.kind == 'if' and astu.src(n.ast) == 'not leaves']
    rs = [n for n in cf.nodes if isinstance(n.stmt, ast.Raise) and 'Not enough leaves' in astu.src(n.stmt)]
    empty = lambda e: isinstance(e, ast.Name) and e.id == 'leaves'
    evid.judge_guard(R, cf, pn, empty, key_of(f, 'pop guarded by "not enough leaves"'), f, 'each leaves.popleft() must be preceded by the "Not enough leaves" check', absent_is_violation=False)
  uf = mod.func('unflatten')
  R.check('Incorrect number of leaves' in astu.src(uf.node) or 'leaves left' in astu.src(uf.node), key_of(uf, 'left-over leaves rejected'), uf, 'unflatten must raise when leaves remain after rebuilding the graph')


def _bool_eval(expr, env):
  if isinstance(expr, ast.Name):
    if expr.id not in env:
      raise AnalysisError('unknown flag %s in `%s`' % (expr.id, astu.src(expr)))
    return env[expr.id]
  if isinstance(expr, ast.UnaryOp) and isinstance(expr.op, ast.Not):
    return not _bool_eval(expr.operand, env)
  if isinstance(expr, ast.BoolOp):
    vs = [_bool_eval(v, env) for v in expr.values]
    return all(vs) if isinstance(expr.op, ast.And) else any(vs)
  raise AnalysisError('unsupported flag expression `%s`' % astu.src(expr))


@rule('C03.R3', 'K1', 7, 'shared objects and cycles: nodes are registered before their children, and every registered kind is looked up first')
def r3(R, repo):
  mod = repo.mod(GR)
  fl = mod.func('_graph_flatten')
  c = cfg_of(fl)
  in_ref = lambda e: isinstance(e, ast.Compare) and len(e.ops) == 1 and isinstance(e.ops[0], ast.In) and astu.src(e.left) == 'node' and astu.src(e.comparators[0]) == 'ref_index'
  look = [n for n in c.nodes if n.kind == 'if' and evid.mentions(n.ast, in_ref)]
  reg = [n for n in c.nodes if isinstance(n.stmt, ast.Assign) and astu.src(n.stmt.targets[0]) == 'ref_index[node]']
  loop = [n for n in c.nodes if n.kind == 'for' and astu.src(n.ast) == 'values']
  R.require(len(look) == 1 and len(reg) == 1 and len(loop) == 1, '_graph_flatten: ref_index lookup / registration / child loop not found')
  rets = [n for n in c.nodes if isinstance(n.stmt, ast.Return) and 'NodeRef(' in astu.src(n.stmt) and evid.guarded(c, n, in_ref) == 'yes']
  kinds = {'graph node (Module)': dict(is_pytree_node_=False, is_graph_node_=True, is_variable=False),
           'pytree node (list/dict)': dict(is_pytree_node_=True, is_graph_node_=False, is_variable=False),
           'Variable': dict(is_pytree_node_=False, is_graph_node_=False, is_variable=True)}
  # a kind that is registered is registered before the recursion into its children
  wit = None
  for kname, env in kinds.items():
    if reg[0] in evid.reach_env(c, env)[0]:
      wit = wit or evid.bypass_under(c, env, loop[0], reg)
  R.check(len(rets) >= 1 and c.dominated(reg[0], look) and wit is None, key_of(fl, 'lookup -> NodeRef, then register, then recurse'), fl, evidence=True, msg_fail=
          '_graph_flatten must return a NodeRef for an already indexed object, and index a new object before recursing into its children%s' % ((' (path around the registration: %s)' % wit) if wit else ''))
  # kinds: every kind that gets registered must be looked up first (sharing)
  for kname, env in kinds.items():
    may_r, must_r = evid.reach_env(c, dict(env, **{'node in ref_index': False}))
    registered = reg[0] in must_r
    maybe_registered = reg[0] in may_r
    may_l, must_l = evid.reach_env(c, dict(env, **{'node in ref_index': True}))
    looked = any(r_ in must_l for r_ in rets)
    maybe_looked = any(r_ in may_l for r_ in rets)
    key = key_of(fl, 'a shared %s is found again' % kname)
    if registered and not maybe_looked:
      R.fail(key, (fl, look[0].stmt), 'a %s is entered into ref_index but the lookup `%s` skips it: a %s reachable by two paths is flattened twice instead of once plus a NodeRef (sharing is lost)' % (kname, astu.src(look[0].ast), kname))
    elif (not maybe_registered) or looked:
      R.ok(key, (fl, look[0].stmt))
    else:
      R.unsure(key, (fl, look[0].stmt), 'cannot decide whether a %s is registered / looked up' % kname)
  un = mod.func('_graph_unflatten')
  cu = cfg_of(un)
  reg = [n for n in cu.nodes if isinstance(n.stmt, ast.Assign) and astu.src(n.stmt) == 'index_ref[nodedef.index] = node']
  init = [n for n in cu.nodes if n.kind == 'stmt' and 'node_impl.init(node, _get_children())' in astu.src(n.stmt)]
  R.judge(len(reg) == 1 and len(init) == 1, len(reg) == 1 and len(init) == 1 and cu.dominated(init[0], reg), key_of(un, 'index_ref registered before children are built'), un,
          'index_ref[nodedef.index] = node must come before node_impl.init(node, _get_children()): otherwise a cycle recurses forever or hits a KeyError')
  dup = [n for n in cu.nodes if n.kind == 'if' and astu.src(n.ast) == 'nodedef.index in index_ref']
  R.check(len(dup) == 1, key_of(un, 'duplicate index rejected'), un, '_graph_unflatten must reject a NodeDef whose index was already used')
  mv = mod.func('_graph_unflatten.make_variable')
  cm = cfg_of(mv)
  st = [n for n in cm.nodes if isinstance(n.stmt, ast.Assign) and astu.src(n.stmt) == 'index_ref[variabledef.index] = variable']
  rt = [n for n in cm.nodes if isinstance(n.stmt, ast.Return)]
  R.judge(len(st) >= 1 and len(rt) >= 1, all(cm.dominated(r_, st) for r_ in rt), key_of(mv, 'every rebuilt Variable is indexed'), mv, 'make_variable must record the Variable in index_ref on every path')
  for q in ('_iter_graph', '_graph_pop'):
    f = mod.func(q)
    cf = cfg_of(f)
    if q == '_iter_graph':
      seen = [n for n in cf.nodes if n.kind == 'stmt' and astu.src(n.stmt) == 'visited.add(id(node))']
      chk = [n for n in cf.nodes if n.kind == 'if' and astu.src(n.ast) == 'id(node) in visited']
    else:
      seen = [n for n in cf.nodes if isinstance(n.stmt, ast.Assign) and astu.src(n.stmt.targets[0]) == 'id_to_index[id(node)]']
      chk = [n for n in cf.nodes if n.kind == 'if' and astu.src(n.ast) == 'id(node) in id_to_index']
    lp = [n for n in cf.nodes if n.kind == 'for']
    ok = len(seen) == 1 and len(chk) == 1 and lp and cf.dominated(lp[0], seen) and cf.dominated(seen[0], chk)
    R.judge(len(seen) == 1 and len(chk) == 1 and bool(lp), ok, key_of(f, 'visited before descending'), f, '%s must mark a node as visited (after checking it) before iterating over its children' % q)


def _flatten_returns_sorted(fn_or_lambda, R, key, where):
  """The first element of the returned (nodes, metadata) pair is produced in sorted key order, without a custom key."""
  node = getattr(fn_or_lambda, 'node', fn_or_lambda)
  if isinstance(node, ast.Lambda):
    rets = [node.body]
    owner = None
  else:
    rets = [n.value for n in astu.body_walk(node) if isinstance(n, ast.Return)]
    owner = node
  for rv in rets:
    if not (isinstance(rv, ast.Tuple) and len(rv.elts) == 2):
      return None, 'does not return a (nodes, metadata) pair'
    e = rv.elts[0]
    if isinstance(e, ast.Name) and owner is not None:
      ds = [d for d in flow.defs(owner, e.id) if not isinstance(d[0], tuple)]
      sorts = [x for x in astu.func_calls(owner) if astu.src(x.func) == '%s.sort' % e.id]
      if sorts:
        if any(x.args or x.keywords for x in sorts):
          return False, '`%s` sorts with a custom key' % astu.short(sorts[0])
        continue
      e = ds[-1][0] if ds else e
    if isinstance(e, (ast.GeneratorExp, ast.ListComp)) and len(e.generators) == 1 and not e.generators[0].ifs and isinstance(e.generators[0].iter, ast.Call) and \
        astu.call_name(e.generators[0].iter) == 'sorted' and len(e.generators[0].iter.args) == 1 and not e.generators[0].iter.keywords and \
        isinstance(e.elt, ast.Tuple) and astu.src(e.elt.elts[0]) == astu.src(e.generators[0].target):
      continue  # (k, …) for k in sorted(keys): the keys' own order
    if isinstance(e, ast.Call) and astu.call_name(e) == 'sorted':
      if len(e.args) != 1 or e.keywords:
        return False, '`%s` sorts with a custom key / reversed' % astu.short(e)
      continue
    if isinstance(e, ast.Call) and astu.call_name(e) == 'list' and isinstance(e.args[0], ast.Call) and astu.call_name(e.args[0]) == 'enumerate':
      continue
    if isinstance(e, ast.List) and not e.elts:
      continue
    unsorted = lambda z: (isinstance(z, ast.Call) and astu.call_tail(z) == 'items' and not z.args) or \
        (isinstance(z, ast.Call) and astu.call_name(z) in ('list', 'tuple') and len(z.args) == 1 and unsorted(z.args[0])) or \
        (isinstance(z, (ast.ListComp, ast.GeneratorExp)) and len(z.generators) == 1 and unsorted(z.generators[0].iter))
    if unsorted(e):
      return False, 'returns `%s`, which is in insertion order, not in sorted key order' % astu.short(e)
    return None, 'returns `%s`, which is not recognised as sorted(...) / enumerate / []' % astu.short(e)
  return True, ''


@rule('C03.R4', 'K4', 9, 'every node implementation flattens in sorted key order; merge re-sorts with the same plain order')
def r4(R, repo):
  mod = repo.mod(GR)
  n = 0
  for node in ast.walk(mod.tree):
    if isinstance(node, ast.Call) and astu.call_name(node) == 'register_pytree_node_type' and node.args:
      fl = astu.kwarg(node, 'flatten')
      R.require(fl is not None, 'register_pytree_node_type without flatten=')
      n += 1
      ok, why = _flatten_returns_sorted(fl if isinstance(fl, ast.Lambda) else mod.func(astu.src(fl)), R, None, None)
      R.judge(ok is not None, ok, key_of(mod.rel, 'flatten of %s in sorted key order' % astu.src(node.args[0])), (mod, node),
              'the node implementation registered for %s %s: graph.flatten publishes its paths as already sorted, and merge sorts the merged leaves, so leaf values would be assigned to the wrong Variables' % (astu.src(node.args[0]), why))
  R.require(n >= 4, 'expected >= 4 register_pytree_node_type calls')
  pi = mod.assigns.get('PYTREE_NODE_IMPL')
  R.require(isinstance(pi, ast.Call), 'PYTREE_NODE_IMPL not found')
  fp = mod.func(astu.src(astu.kwarg(pi, 'flatten')))
  ok, why = _flatten_returns_sorted(fp, R, None, None)
  R.judge(ok is not None, ok, key_of(fp, 'generic pytree flatten in sorted key order'), fp, '_flatten_pytree %s' % why)
  # key_index records the *original* child order: it must be computed before / independently of the sort
  cfp = cfg_of(fp)
  ki = [n for n in cfp.nodes if isinstance(n.stmt, ast.Assign) and astu.src(n.stmt.targets[0]) == 'key_index']
  key = key_of(fp, 'key_index records the original (unsorted) child order')
  if len(ki) == 1:
    enum = [x for x in ast.walk(ki[0].stmt.value) if isinstance(x, ast.Call) and astu.call_name(x) == 'enumerate' and x.args]
    srcs = [e_ for x in enum for e_ in evid.expand(fp, x.args[0]) if isinstance(e_, ast.AST)]
    sorted_src = [e_ for e_ in srcs if isinstance(e_, ast.Call) and astu.call_name(e_) == 'sorted']
    # only a sorted(...) binding that is executed *before* key_index is computed matters (nodes = sorted(nodes) afterwards is the sort itself)
    def _before(e_):
      st_ = astu.enclosing_stmt(e_)
      nds = cfp.nodes_for(st_) if st_ is not None else []
      return not nds or any(ki[0] in cfp.reach([nd_]) for nd_ in nds)
    sorted_src = [e_ for e_ in sorted_src if _before(e_)]
    sort_nodes = [n for n in cfp.nodes if n.kind == 'stmt' and any(isinstance(x, ast.Call) and astu.call_tail(x) == 'sort' and isinstance(x.func, ast.Attribute) and enum and astu.src(x.func.value) == astu.src(enum[0].args[0]) for x in ast.walk(n.stmt))]
    after_sort = any(ki[0] in cfp.reach([sn]) for sn in sort_nodes)
    R.judge(bool(enum), not sorted_src and not after_sort, key, (fp, ki[0].stmt), '_flatten_pytree computes key_index from the already sorted children (`%s`): _unflatten_pytree then re-orders by an identity permutation and hands the '
            'children to treedef.unflatten in alphabetical instead of field order, so fields of a NamedTuple / dataclass are silently permuted' % astu.short(ki[0].stmt))
  else:
    R.unsure(key, fp, 'key_index assignment not found in _flatten_pytree')
  up = mod.func('_unflatten_pytree')
  R.check("sorted(nodes, key=lambda x: metadata.key_index[x[0]])" in astu.src(up.node), key_of(up, 'restores the original child order from key_index'), up, '_unflatten_pytree must put the children back in the original order recorded in key_index')
  for m in repo.mods_with('_graph_node_flatten'):
    for q, f in m.funcs.items():
      if q.endswith('._graph_node_flatten'):
        ok, why = _flatten_returns_sorted(f, R, None, None)
        R.judge(ok is not None, ok, key_of(f, 'graph node flatten in sorted key order'), f, '%s %s' % (q, why))
        cp = [x for x in astu.func_calls(f) if astu.src(x) == 'vars(self).copy()']
        R.check(len(cp) == 1, key_of(f, 'works on a copy of vars(self)'), f, '%s must not hand out or sort the live instance dict' % q)
  mt = mod.func('_merge_to_flat_state')
  sorts = [x for x in astu.func_calls(mt) if astu.call_tail(x) in ('sort', 'sorted')]
  ok = len(sorts) == 1 and not sorts[0].keywords and ((astu.call_tail(sorts[0]) == 'sort' and not sorts[0].args) or (astu.call_name(sorts[0]) == 'sorted' and len(sorts[0].args) == 1))
  deep_sorts = evid.calls_deep(repo, mt, lambda y: astu.call_tail(y) in ('sort', 'sorted'))
  R.judge(len(sorts) == 1 or not deep_sorts, ok, key_of(mt, 'merged leaves sorted by path with the plain order'), mt,
          'graph.merge must sort the merged (path, value) pairs with the plain tuple order (`%s`): flatten emits leaves in that order and unflatten consumes them positionally, so any other key (e.g. stringified paths: 10 < 2) permutes values' % (astu.short(sorts[0]) if sorts else 'no sort'))
  rets = [n_.value for n_ in astu.body_walk(mt.node) if isinstance(n_, ast.Return)]
  R.check(len(rets) == 1 and astu.src(rets[0]) == '[value for _, value in flat_state]', key_of(mt, 'values returned in sorted order'), mt, '_merge_to_flat_state must return the values in sorted path order')
  mg = mod.func('merge')
  R.check('_merge_to_flat_state((state, *states))' in astu.src(mg.node) and 'unflatten(graphdef, _state)' in astu.src(mg.node), key_of(mg, 'merge = unflatten(graphdef, sorted merged leaves)'), mg, 'merge must unflatten the graphdef with the merged, sorted leaves of all given states')


@rule('C03.R5', 'K4', 7, 'graph node registrations supply every slot; Object\'s slots act on vars(self) without running __init__')
def r5(R, repo):
  ob = repo.mod(OB)
  want = ['flatten', 'set_key', 'pop_key', 'create_empty', 'clear', 'init']
  n = 0
  for m in repo.mods_with('register_graph_node_type('):
    for node in ast.walk(m.tree):
      if isinstance(node, ast.Call) and astu.call_tail(node) == 'register_graph_node_type' and not isinstance(astu.parent(node), ast.FunctionDef) and node.keywords:
        n += 1
        sig = astu.params(repo.func(GR, 'register_graph_node_type').node)
        npos = len(node.args) if not any(isinstance(a, ast.Starred) for a in node.args) else 0
        got = sorted(set([k.arg for k in node.keywords if k.arg != 'type'] + [p_ for p_ in sig[:npos] if p_ != 'type']))
        R.check(got == sorted(want), key_of(m.rel, 'register_graph_node_type supplies all slots'), (m, node), 'graph node registration supplies %s, needs %s' % (got, sorted(want)), evidence=not any(k.arg is None for k in node.keywords) and not any(isinstance(a, ast.Starred) for a in node.args))
        for k in node.keywords:
          if k.arg in want:
            R.check(astu.src(k.value) == 'cls._graph_node_%s' % k.arg, key_of(m.rel, 'slot %s -> _graph_node_%s' % (k.arg, k.arg)), (m, node), 'slot %s is bound to %s' % (k.arg, astu.src(k.value)))
  R.require(n >= 1, 'Object.__init_subclass__ registration not found')
  ce = ob.func('Object._graph_node_create_empty')
  R.check('object.__new__(node_type)' in astu.src(ce.node), key_of(ce, 'object.__new__'), ce, 'create_empty must use object.__new__ (no __init__ side effects when rebuilding a graph)')
  for q, expr in (('Object._graph_node_clear', 'vars(self).clear()'), ('Object._graph_node_init', 'vars(self).update(attributes)'), ('Object._graph_node_pop_key', 'vars(self).pop(key)')):
    f = ob.func(q)
    R.check(expr in astu.src(f.node), key_of(f, expr), f, '%s must be `%s`' % (q, expr))


@rule('C03.R6', 'K2', 4, 'splitting by filters is a first-match partition')
def r6(R, repo):
  sites = [('flax/nnx/statelib.py', '_split_state', 'store'), ('flax/nnx/variablelib.py', 'split_flat_state', 'raise'), (GR, '_graph_pop', 'drop')]
  for rel, qual, want_else in sites:
    f = repo.func(rel, qual)
    loops = [n for n in astu.body_walk(f.node) if isinstance(n, ast.For) and
             any(isinstance(x, ast.If) and any(isinstance(y, ast.Call) and isinstance(y.func, ast.Name) and y.func.id in astu.names_stored(n.target) for y in ast.walk(x.test)) for x in ast.walk(n))]
    R.require(len(loops) == 1, '%s: predicate loop not found' % qual)
    ok, msg, info = patterns.first_match_loop(f, loops[0])
    R.judge(ok is not None, ok and info.get('else') == want_else, key_of(f, 'first-match loop, unmatched -> %s' % want_else), (f, loops[0]), '%s: %s' % (qual, msg or ('unmatched items handled by `%s`' % info.get('else'))))
  sp = repo.func(GR, 'split')
  R.check('_split_state(flat_state, filters)' in astu.src(sp.node) and 'flatten(node)' in astu.src(sp.node), key_of(sp, 'split = flatten + _split_state'), sp, 'graph.split must partition the flat state of flatten(node) with _split_state')


@rule('C03.R7', 'K3', 4, 'update changes Variables in place and never rebinds an existing Variable attribute')
def r7(R, repo):
  mod = repo.mod(GR)
  f = mod.func('_graph_update_dynamic')
  c = cfg_of(f)
  sets = [n for x in astu.func_calls(f) if astu.src(x.func) == 'node_impl.set_key' for n in c.nodes_for(x)]
  R.require(len(sets) == 2, '_graph_update_dynamic: two set_key sites expected')
  t_new = [n for n in c.nodes if n.kind == 'if' and astu.src(n.ast) == 'key not in node_dict']
  t_arr = [n for n in c.nodes if n.kind == 'if' and 'isinstance(current_value, jax.Array | np.ndarray)' in astu.src(n.ast)]
  ok = len(t_new) == 1 and len(t_arr) == 1 and all(c.edge_guarded(s, t_new[0], 'T') or c.edge_guarded(s, t_arr[0], 'T') for s in sets)
  R.judge(len(t_new) == 1 and len(t_arr) == 1, ok, key_of(f, 'set_key only for new keys or array attributes'), f, 'an existing Variable attribute must never be re-bound by update: set_key is allowed only for new keys and plain array attributes')
  uv = mod.func('_graph_update_dynamic._update_variable')
  st = [n for n in ast.walk(uv.node) if isinstance(n, (ast.Attribute, ast.Subscript)) and isinstance(n.ctx, ast.Store)]
  ok = all(astu.src(s) == 'node.raw_value' for s in st) and 'node.update_from_state(value)' in astu.src(uv.node) and len(st) == 1
  R.check(ok, key_of(uv, 'in-place update of the Variable'), uv, '_update_variable must update the existing Variable object (update_from_state / raw_value =)')
  upd = [n for x in astu.func_calls(f) if astu.call_name(x) == '_update_variable' and astu.src(x.args[0]) == 'current_value' for n in c.nodes_for(x)]
  tv = [n for n in c.nodes if n.kind == 'if' and astu.src(n.ast) == 'not isinstance(current_value, Variable)']
  R.judge(len(upd) == 1 and len(tv) == 1, len(upd) == 1 and len(tv) == 1 and c.edge_guarded(upd[0], tv[0], 'F'), key_of(f, 'only Variables are updated in place'), f, 'a non-Variable leaf may not be updated through _update_variable')
  mv = mod.func('_graph_unflatten.make_variable')
  cm = cfg_of(mv)
  reuse = [n for n in cm.nodes if isinstance(n.stmt, ast.Assign) and astu.src(n.stmt) == 'variable = outer_index_outer_ref[variabledef.outer_index]']
  fresh = [n for n in cm.nodes if isinstance(n.stmt, ast.Assign) and astu.src(n.stmt.targets[0]) == 'variable' and n not in reuse]
  ok = len(reuse) == 1 and not any(f_ in cm.reach(reuse) for f_ in fresh)
  R.judge(len(reuse) == 1, ok, key_of(mv, 'an outer Variable is updated and returned itself'), mv, 'when the caller\'s Variable is known (outer_index), make_variable must update and return that object, not a new one')


@rule('C03.R8', 'K3', 6, 'flatten / split / state / clone / iter_graph leave the source graph untouched')
def r8(R, repo):
  mod = repo.mod(GR)
  for q in ('flatten', '_graph_flatten', 'split', 'state', 'graphdef', 'clone', 'iter_graph', '_iter_graph'):
    if not mod.has_func(q):
      continue
    f = mod.func(q)
    p0 = astu.params(f.node)[0]
    bad = []
    for n in ast.walk(f.node):
      if isinstance(n, (ast.Attribute, ast.Subscript)) and isinstance(n.ctx, (ast.Store, ast.Del)) and p0 in astu.names_loaded(n.value) and astu.src(n.value).split('.')[0].split('[')[0] == p0:
        bad.append(n)
      if isinstance(n, ast.Call) and astu.call_name(n) in ('setattr', 'delattr') and n.args and astu.src(n.args[0]) == p0:
        bad.append(n)
      if isinstance(n, ast.Call) and isinstance(n.func, ast.Attribute) and n.func.attr in ('pop_key', 'set_key', 'clear', 'init') and len(n.args) >= 1 and astu.src(n.args[0]) == p0:
        bad.append(n)
    R.check(not bad, key_of(f, 'no store into the source node'), (f, bad[0]) if bad else f, '%s mutates its input: `%s`' % (q, astu.short(astu.enclosing_stmt(bad[0])) if bad else ''), evidence=True)
  cl = mod.func('clone')
  R.check('split(node)' in astu.src(cl.node) and 'merge(graphdef, state)' in astu.src(cl.node), key_of(cl, 'clone = merge(split(node))'), cl, 'clone must rebuild the graph from split(node) (no mutable object shared with the original)')
  st = mod.func('state')
  R.check('flatten(node)' in astu.src(st.node) and 'flat_state.to_nested_state()' in astu.src(st.node), key_of(st, 'state from flatten(node)'), st, 'state must list the Variables found by flatten(node) (each once, under its first path, in sorted order)')


def check_index_truthiness(R, repo):
  """An index (an int that is legitimately 0 for the first object) is compared with None / looked up by membership, never
  tested for truth (shared with C04)."""
  mod = repo.mod(GR)
  int_fields = set()
  for cls in mod.classes.values():
    for st in cls.body:
      if isinstance(st, ast.AnnAssign) and isinstance(st.target, ast.Name) and 'index' in st.target.id and 'int' in astu.src(st.annotation):
        int_fields.add(st.target.id)
  R.require(len(int_fields) >= 2, 'index fields of the graph definitions not found')
  int_maps = lambda e: (astu.dotted(e) or '').split('.')[-1] in ('ref_index', 'ref_outer_index', 'inner_ref_outer_index', 'id_to_index', 'new_ref_index')

  def index_valued(e, f, depth=0):
    if isinstance(e, ast.NamedExpr):
      return index_valued(e.value, f, depth)
    if isinstance(e, ast.Attribute) and e.attr in int_fields:
      return True
    if isinstance(e, ast.Call) and astu.call_tail(e) == 'get' and isinstance(e.func, ast.Attribute) and int_maps(e.func.value):
      return True
    if isinstance(e, ast.Subscript) and int_maps(e.value):
      return True
    if isinstance(e, ast.Name) and depth < 2:
      ds = [d[0] for d in flow.defs(f, e.id) if isinstance(d[0], ast.AST)]
      return bool(ds) and all(index_valued(d, f, depth + 1) for d in ds)
    return False
  n = 0
  for q, f in mod.funcs.items():
    for cond, node in evid.conditions(f.node):
      for e in evid.truthiness_operands(cond):
        if isinstance(e, (ast.Compare, ast.Call)) and not (isinstance(e, ast.Call) and astu.call_tail(e) == 'get'):
          continue
        if index_valued(e, f):
          R.fail(key_of(f, 'index tested for truth', astu.short(e, 60)), (f, node), '`%s` is an index (0 for the first object encountered) but is tested for truth in `%s`: object number 0 - the root module, '
                 'the first shared Variable - is treated as absent, so its sharing / identity is lost' % (astu.short(e, 60), astu.short(cond, 100)))
    for x in ast.walk(f.node):
      if isinstance(x, (ast.Attribute, ast.Subscript, ast.Call)) and index_valued(x, f):
        n += 1
  R.require(n >= 20, 'expected >= 20 index-valued expressions in graph.py, found %d' % n)
  R.ok(key_of(mod.rel, 'index-valued expressions examined'), mod, '%d index-valued expressions, none tested for truth' % n)


def _fresh_mapping(f, e, depth=0):
  """'fresh' / 'alias' / None for the expression installed as a Variable's metadata dict."""
  if depth > 4 or e is None:
    return None
  if isinstance(e, (ast.Dict, ast.DictComp)):
    return 'fresh'
  if isinstance(e, ast.BinOp) and isinstance(e.op, ast.BitOr):
    return 'fresh'  # dict | dict builds a new dict
  if isinstance(e, ast.Call):
    tail, name = astu.call_tail(e) or '', astu.call_name(e) or ''
    if name in ('dict', 'copy.copy', 'copy.deepcopy') or (tail in ('copy', 'deepcopy') and isinstance(e.func, ast.Attribute)):
      return 'fresh'
    if tail == 'get_metadata' and not e.args:
      return 'alias'  # both classes return their own dict
    return None
  if isinstance(e, ast.Attribute) and e.attr == '_var_metadata':
    return 'alias'
  if isinstance(e, ast.Name):
    a = f.node.args
    if a.kwarg is not None and a.kwarg.arg == e.id and not [d for d in flow.defs(f, e.id) if isinstance(d[0], ast.AST)]:
      return 'fresh'  # **metadata collects the keywords into a new dict
    if e.id in astu.params(f.node) and not [d for d in flow.defs(f, e.id) if isinstance(d[0], ast.AST)]:
      return 'fresh'  # a dict handed in as such (Variable.from_metadata adopts the mapping its caller built for it)
    ds = [d[0] for d in flow.defs(f, e.id) if isinstance(d[0], ast.AST)]
    if len(ds) == 1:
      return _fresh_mapping(f, ds[0], depth + 1)
    if ds and all(_fresh_mapping(f, d, depth + 1) == 'fresh' for d in ds):
      return 'fresh'
  return None


@rule('C03.R10', 'K7', 6, 'a Variable / VariableState never shares its metadata dict with the object it was built or updated from')
def r10(R, repo):
  mod = repo.mod('flax/nnx/variablelib.py')
  n = 0
  for q, f in sorted(mod.funcs.items()):
    if q.endswith('__setstate__'):
      continue  # unpickling: the state dict was just created by the unpickler
    for x in astu.func_calls(f):
      if astu.call_name(x) == 'object.__setattr__' and len(x.args) == 3 and astu.const_str(x.args[1]) == '_var_metadata':
        n += 1
        key = key_of(f, 'metadata installed on %s is a fresh dict' % astu.src(x.args[0]))
        k = _fresh_mapping(f, x.args[2])
        if k == 'fresh':
          R.ok(key, (f, x))
        elif k == 'alias':
          R.fail(key, (f, x), '`%s` installs another object\'s metadata dict itself: the two objects (e.g. a graph Variable and the State it was updated from, or two graphs updated from one State) then share one mutable dict, and editing the metadata of one silently edits the other' % astu.short(x))
        else:
          R.unsure(key, (f, x), 'cannot tell whether `%s` is a fresh dict' % astu.short(x.args[2]))
  R.require(n >= 6, 'expected >= 6 sites installing _var_metadata, found %d' % n)
  # update_from_state replaces value *and* metadata on every call: the install may not be skipped on some path
  uf = mod.func('Variable.update_from_state')
  cu = cfg_of(uf)
  inst = [nd for x in astu.func_calls(uf) if astu.call_name(x) == 'object.__setattr__' and len(x.args) == 3 and astu.const_str(x.args[1]) == '_var_metadata' for nd in cu.nodes_for(x)]
  inst += [nd for nd in cu.nodes if isinstance(nd.stmt, ast.Expr) and isinstance(nd.stmt.value, ast.Call) and astu.call_tail(nd.stmt.value) == 'update' and '_var_metadata' in astu.src(nd.stmt.value.func)]
  key = key_of(uf, 'metadata replaced on every path')
  if not inst:
    R.unsure(key, uf, 'metadata install not found in update_from_state')
  else:
    R.check(cu.must_pass(cu.entry, cu.exit, inst, avoid_edges=cu.exc_edges()), key, (uf, inst[0].stmt), evidence=True, msg_fail=
            'update_from_state can return without installing the state\'s metadata (the install is conditional): a metadata change made inside a transform, or carried by the State given to nnx.update, then never reaches the caller\'s Variable')


@rule('C03.R11', 'K4', 1, 'type filters select a Variable type together with its subclasses (shared with C14.R6)')
def r11(R, repo):
  from . import c14 as _c14
  _c14.check_oftype(R, repo)


@rule('C03.R9', 'K12', 1, 'indices (0 is a valid index) are never tested for truth')
def r9(R, repo):
  check_index_truthiness(R, repo)


meta('C03',
     explanation='Writer/reader agreement of attribute kinds and of leaf production/consumption between _graph_flatten and _graph_unflatten, register-before-recurse dominance for cycles, '
     'a truth table over node kinds showing that every kind entered into ref_index is also looked up (sharing), the sorted-traversal obligation of every registered node implementation and '
     'the plain sort in graph.merge, completeness of graph-node slot registrations, first-match partition loops, in-place update rules, and absence of stores into the source graph.',
     not_decided=['value equality of leaves', 'metadata equality (depends on Variable.to_state / from_metadata values)', 'isomorphism as a whole'],
     mutants=[
         Mutant('C03-m1', GR, "  flat_state.sort()\n  return [value for _, value in flat_state]", "  flat_state.sort(key=lambda item: tuple(map(str, item[0])))\n  return [value for _, value in flat_state]", 'C03.R4', why='seed C03-A'),
         Mutant('C03-m2', GR, "  if not is_pytree_node_ and node in ref_index:\n    return NodeRef(type(node), ref_index[node])", "  if is_graph_node_ and node in ref_index:\n    return NodeRef(type(node), ref_index[node])", 'C03.R3', why='seed C03-B'),
         Mutant('C03-m3', GR, "  flatten=lambda x: (sorted(x.items()), None),", "  flatten=lambda x: (list(x.items()), None),", 'C03.R4'),
         Mutant('C03-m4', GR, "    index_ref[nodedef.index] = node\n    node_impl.init(node, _get_children())", "    node_impl.init(node, _get_children())\n    index_ref[nodedef.index] = node", 'C03.R3'),
         Mutant('C03-m5', GR, "      attributes.append((key, ARRAY_ATTR))\n      leaves.append(value)", "      attributes.append((key, Static(value)))", 'C03.R2'),
         Mutant('C03-m6', OB, "    nodes = vars(self).copy()\n    nodes = sorted(nodes.items())\n    return nodes, type(self)", "    nodes = list(vars(self).items())\n    return nodes, type(self)", 'C03.R4'),
         Mutant('C03-m7', GR, "        id_to_index[id(value)] = len(id_to_index)\n        node_impl.pop_key(node, name)\n        if isinstance(value, Variable):\n          value = value.to_state()\n        state[node_path] = value  # type: ignore[index] # mypy is wrong here?\n        break",
                "        id_to_index[id(value)] = len(id_to_index)\n        node_impl.pop_key(node, name)\n        if isinstance(value, Variable):\n          value = value.to_state()\n        state[node_path] = value  # type: ignore[index] # mypy is wrong here?", 'C03.R6'),
         Mutant('C03-m8', GR, "  if not is_pytree_node_ and node in ref_index:\n    return NodeRef(type(node), ref_index[node])", "  if not is_pytree_node_ and (index := ref_index.get(node)):\n    return NodeRef(type(node), index)", 'C03.R9', why='seed C03-C (round 2)'),
         Mutant('C03-m9', GR, "  nodes = [(_key_path_to_key(path[0]), value) for path, value in leaves]\n", "  nodes = sorted((_key_path_to_key(path[0]), value) for path, value in leaves)\n", 'C03.R4', why='seed C03-D (round 2)'),
         Mutant('C03-b1', GR, "  flat_state.sort()\n  return [value for _, value in flat_state]", "  flat_state = sorted(flat_state)\n  return [value for _, value in flat_state]", kind='benign'),
     ])
