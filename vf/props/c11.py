"""C11 — checkpoint directory survives crashes; retention and step ordering are exact."""
from __future__ import annotations

import ast
import re

from .. import astu, evid, types
from ..cfg import cfg_of
from ..model import AnalysisError
from ..report import key_of
from . import Mutant, meta, rule

CK = 'flax/training/checkpoints.py'
IO = 'flax/io.py'
FS_MUTATORS = {'rename', 'remove', 'rmtree', 'copy', 'makedirs'}


def _io_calls(f, names=None):
  return [c for c in astu.func_calls(f) if (astu.call_name(c) or '').startswith('io.') and (names is None or astu.call_tail(c) in names)]


def _derives(f, expr, pred, depth=0):
  """True if `expr` (through single assignments / tuple unpackings) is built from an expression satisfying pred."""
  if depth > 6 or expr is None:
    return False
  if pred(expr):
    return True
  if isinstance(expr, ast.Name):
    d = types.single_def(f.node, expr.id, allow_param=True)
    if d is not None:
      return _derives(f, d, pred, depth + 1)
    return False
  if isinstance(expr, ast.BinOp):
    return _derives(f, expr.left, pred, depth + 1)
  if isinstance(expr, ast.Call) and astu.call_name(expr) == 'os.path.join' and expr.args:
    return _derives(f, expr.args[0], pred, depth + 1)
  return False


@rule('C11.R1', 'K3+K7', 3, 'files are written only under temporary names; final names appear only through rename')
def r1(R, repo):
  mod = repo.mod(CK)
  n = 0
  for f in mod.funcs.values():
    for c in astu.func_calls(f):
      if astu.call_name(c) == 'io.GFile' and len(c.args) >= 2 and astu.const_str(c.args[1]) and 'w' in astu.const_str(c.args[1]):
        n += 1
        p = c.args[0]
        ok = _derives(f, p, lambda e: isinstance(e, ast.Name) and ('tmp' in e.id)) or \
            _derives(f, p, lambda e: isinstance(e, ast.Name) and e.id in ('mpa_ckpt_path',))
        why = 'temporary path' if 'tmp' in astu.src(p) else 'commit marker inside the array directory'
        final = _derives(f, p, lambda e: isinstance(e, ast.Name) and e.id in ('ckpt_path', 'ckpt_dir', 'base_path')) and not ok
        R.judge(ok or final, ok, key_of(f, 'io.GFile(%s, %r)' % (astu.src(p), astu.const_str(c.args[1]))), (f, c),
                'a file is opened for writing under `%s`, which is not derived from the temporary checkpoint path: a crash while writing would leave a partial file under a final name' % astu.src(p))
      nm = astu.call_name(c) or ''
      if nm in ('open', 'os.rename', 'os.remove', 'os.replace', 'shutil.rmtree', 'shutil.move', 'shutil.copy', 'os.unlink', 'os.makedirs'):
        R.fail(key_of(f, 'raw file-system call %s' % nm), (f, c), 'checkpoints.py must go through flax.io (found `%s`)' % astu.short(c))
  R.require(n >= 2, 'expected >= 2 io.GFile(..., "w*") sites')
  # the tmp name: _get_checkpoint_paths builds it with the literal 'tmp' step
  g = mod.func('_get_checkpoint_paths')
  tmp = types.single_def(g.node, 'ckpt_tmp_path')
  ok = isinstance(tmp, ast.Call) and astu.call_name(tmp) == '_checkpoint_path' and astu.const_str(tmp.args[1]) == 'tmp'
  R.judge(isinstance(tmp, ast.Call) and astu.call_name(tmp) == '_checkpoint_path' and len(tmp.args) >= 2 and isinstance(tmp.args[1], ast.Constant), ok, key_of(g, "tmp path = _checkpoint_path(dir, 'tmp', prefix)"), g, "the temporary checkpoint name must be '<prefix>tmp' (the name listings and the overwrite check know about)")


@rule('C11.R2', 'K4', 5, 'path tuples are built and destructured in the same order')
def r2(R, repo):
  mod = repo.mod(CK)
  g = mod.func('_get_checkpoint_paths')
  ret = [n for n in astu.body_walk(g.node) if isinstance(n, ast.Return)][-1].value
  R.require(isinstance(ret, ast.Tuple) and len(ret.elts) == 3, '_get_checkpoint_paths must return a 3-tuple')
  order = [astu.src(e) for e in ret.elts]
  for f in mod.funcs.values():
    for n in astu.body_walk(f.node):
      if isinstance(n, ast.Assign) and isinstance(n.value, ast.Call) and astu.call_name(n.value) == '_get_checkpoint_paths':
        tg = [astu.src(e) for e in astu.flatten_targets(n.targets[0])]
        R.judge(sorted(tg) == sorted(order), tg == order, key_of(f, 'destructures _get_checkpoint_paths'), (f, n),
                '_get_checkpoint_paths returns %s but %s unpacks it as %s: final and temporary path would be swapped' % (order, f.name, tg))
  s = mod.func('_save_main_ckpt_file')
  unp = [n for n in astu.body_walk(s.node) if isinstance(n, ast.Assign) and astu.src(n.value) == 'paths']
  R.require(len(unp) == 1, '_save_main_ckpt_file: `… = paths` not found')
  want = [astu.src(e) for e in astu.flatten_targets(unp[0].targets[0])]
  n_call = 0
  for f in mod.funcs.values():
    for c in astu.func_calls(f):
      if astu.call_name(c) == '_save_main_ckpt_file':
        n_call += 1
        a = astu.arg_or_kw(c, 2, 'paths')
        got = [astu.src(e) for e in a.elts] if isinstance(a, ast.Tuple) else None
        R.judge(got is not None and sorted(got) == sorted(want), got == want, key_of(f, '_save_main_ckpt_file(paths=(tmp, final))'), (f, c),
                '_save_main_ckpt_file unpacks paths as %s but is called with %s' % (want, got))
  R.require(n_call >= 2, 'callers of _save_main_ckpt_file not found')
  # _save_commit positional order (tmp, final, base, ...)
  sc = mod.func('_save_commit')
  ps = astu.pos_params(sc.node)[:3]
  for f in mod.funcs.values():
    for c in astu.func_calls(f):
      if astu.call_name(c) == '_save_commit':
        got = [astu.src(a) for a in c.args[:3]]
        R.judge(sorted(got) == sorted(ps), got == ps, key_of(f, '_save_commit(tmp, final, base, …)'), (f, c), '_save_commit expects %s, called with %s' % (ps, got))


@rule('C11.R3', 'K1', 2, 'the temporary file is closed before it is committed')
def r3(R, repo):
  mod = repo.mod(CK)
  f = mod.func('_save_main_ckpt_file')
  c = cfg_of(f)
  withs = [n for n in c.nodes if n.kind == 'with' and 'io.GFile' in astu.src(n.ast)]
  R.require(len(withs) == 1, '_save_main_ckpt_file: `with io.GFile(tmp, "wb")` not found')
  w = withs[0]
  exits = [n for n in c.nodes if n.kind == 'withexit' and n.stmt is w.stmt and not n.copy]
  commits = [n for x in astu.func_calls(f) if astu.call_name(x) in ('_save_commit', 'io.rename') for n in c.nodes_for(x)]
  R.require(commits, '_save_main_ckpt_file: commit call not found')
  ok = all(c.dominated(cm, exits) for cm in commits)
  R.check(ok, key_of(f, 'commit after the with-block closed the file'), (f, w.stmt), evidence=True, msg_fail=
          'the rename/commit must come after the `with io.GFile(...)` block has closed (flushed) the temporary file')
  writes = [x for x in astu.func_calls(f) if astu.call_tail(x) == 'write']
  ok = len(writes) == 1 and astu.src(writes[0].args[0]) == astu.params(f.node)[0] and all(w in c.reach([c.entry]) for w in [withs[0]])
  R.judge(len(writes) >= 1, ok, key_of(f, 'whole payload written once'), f, 'the serialized bytes must be written exactly once inside the with-block')


def _nodes_calling(c, f, names):
  out = []
  for x in astu.func_calls(f):
    if astu.call_name(x) in names or astu.call_tail(x) in names:
      out += c.nodes_for(x)
  return out


@rule('C11.R4', 'K1', 5, 'a checkpoint is committed before any older or newer one is removed')
def r4(R, repo):
  mod = repo.mod(CK)
  sc = mod.func('_save_commit')
  c = cfg_of(sc)
  ren = [n for x in astu.func_calls(sc) if astu.call_name(x) == 'io.rename' and astu.src(x.args[0]) == astu.params(sc.node)[0] for n in c.nodes_for(x)]
  rem = _nodes_calling(c, sc, {'_remove_invalid_ckpts'})
  R.require(len(ren) == 1 and len(rem) == 1, '_save_commit: main rename / _remove_invalid_ckpts not found')
  R.check(c.dominated(rem[0], ren), key_of(sc, 'rename(tmp, final) before _remove_invalid_ckpts'), (sc, rem[0].stmt), evidence=True, msg_fail=
          'old checkpoints are removed before the new one is renamed into place: a crash in between leaves fewer checkpoints than `keep` (possibly none)',
          witness=c.witness(c.entry, rem[0], avoid=ren))
  final = astu.params(sc.node)[1]
  destr = [x for x in astu.func_calls(sc) if astu.call_name(x) in ('_safe_remove', 'io.remove', 'io.rmtree') and x.args and astu.src(x.args[0]) == final]
  R.check(not destr, key_of(sc, 'the committed file is replaced by the rename itself, never removed first'), (sc, destr[0]) if destr else sc, evidence=True, msg_fail=
          '`%s` deletes the final checkpoint path before the rename: a crash between the two leaves neither the old nor the new checkpoint of that step (rename with overwrite replaces it atomically)' % (astu.short(destr[0]) if destr else ''))
  rn = [x for x in astu.func_calls(sc) if astu.call_name(x) == 'io.rename' and astu.src(x.args[0]) == astu.params(sc.node)[0]][0]
  evid.judge_forward(R, repo, sc, rn, ['overwrite', astu.params(sc.node)[1]], key_of(sc, 'rename honours overwrite'), 'the commit rename must pass overwrite=overwrite (an existing step is replaced only on request) and target the final path',
                     alias={astu.params(sc.node)[1]: 'dst'}, pos={astu.params(sc.node)[1]: 1, 'overwrite': 2})
  # arrays before the main file; wait for the previous async save before renaming
  mpa = [n for x in astu.func_calls(sc) if astu.call_name(x) == 'io.rename' and 'mpa' in astu.src(x.args[0]) for n in c.nodes_for(x)]
  waits = _nodes_calling(c, sc, {'wait_previous_save'})
  ok = bool(mpa) and all(ren[0] in c.reach([m]) and m not in c.reach(ren) for m in mpa) and bool(waits) and all(ren[0] in c.reach([w]) and w not in c.reach(ren) for w in waits)
  R.judge(bool(mpa) and bool(waits), ok, key_of(sc, 'array directory and previous async save first'), sc,
          'the multi-process array directory must be committed, and a previous async save awaited, before the main file is renamed')
  for qual in ('save_checkpoint', 'save_checkpoint_multiprocess'):
    f = mod.func(qual)
    cf = cfg_of(f)
    saves = [n for x in astu.func_calls(f) if astu.src(x.func) == 'orbax_checkpointer.save' for n in cf.nodes_for(x)]
    rems = _nodes_calling(cf, f, {'_remove_invalid_ckpts'})
    R.require(len(saves) == 1 and len(rems) == 1, '%s: orbax save / retention call not found' % qual)
    R.check(cf.dominated(rems[0], saves), key_of(f, 'orbax save before _remove_invalid_ckpts'), (f, rems[0].stmt), evidence=True, msg_fail=
            '%s (Orbax back-end) applies the retention policy before the new checkpoint is saved: after the save the directory holds keep+1 checkpoints, and with '
            'overwrite=True newer checkpoints are deleted before their replacement exists' % qual,
            witness=cf.witness(cf.entry, rems[0], avoid=saves))
    sv = [x for x in astu.func_calls(f) if astu.src(x.func) == 'orbax_checkpointer.save'][0]
    evid.judge_expr(R, f, astu.kwarg(sv, 'force'), 'overwrite', key_of(f, 'orbax save(ckpt_path, force=overwrite)') + ' :: force', (f, sv), 'the Orbax save must use force=overwrite')
    evid.judge_expr(R, f, sv.args[0] if sv.args else None, 'ckpt_path', key_of(f, 'orbax save(ckpt_path, force=overwrite)') + ' :: path', (f, sv), 'the Orbax save must target the final step path', vocab=('ckpt_tmp_path', 'base_path'))


@rule('C11.R5', 'K1', 4, 'a save that must be refused is refused before anything is touched')
def r5(R, repo):
  mod = repo.mod(CK)
  for qual in ('save_checkpoint', 'save_checkpoint_multiprocess'):
    f = mod.func(qual)
    c = cfg_of(f)
    chk = _nodes_calling(c, f, {'_check_overwrite_error'})
    deep = evid.calls_deep(repo, f, evid.call_named('_check_overwrite_error')) if not chk else []
    if not chk and deep:
      # moved into the nested task function that is handed to the async manager: the refusal then happens on the worker
      # thread, after save_checkpoint has already returned
      deferred = [(g_, x_) for g_, x_ in deep if g_.qual.startswith(f.qual + '.') and any(
          astu.call_tail(y_) == 'save_async' and any(isinstance(a_, ast.Name) and a_.id == g_.name for a_ in y_.args) for y_ in astu.func_calls(f))]
      if deferred:
        g_, x_ = deferred[0]
        R.fail(key_of(f, 'overwrite check dominates every write'), (g_, x_), '%s runs _check_overwrite_error inside `%s`, the task it hands to async_manager.save_async: with an async manager the save is accepted and the error is raised on the worker thread later (or never observed), instead of refusing the save before anything is touched' % (qual, g_.name))
      else:
        R.unsure(key_of(f, 'overwrite check dominates every write'), f, '_check_overwrite_error is called from a helper')
      continue
    if not chk:
      R.fail(key_of(f, 'overwrite check dominates every write'), f, '%s never calls _check_overwrite_error: a save at an existing or older step would silently proceed' % qual)
      continue
    R.require(len(chk) == 1, '%s: several _check_overwrite_error calls' % qual)
    tests = [n for n in c.nodes if n.kind == 'if' and astu.src(n.ast) == 'not overwrite']
    ok = len(tests) == 1 and c.edge_guarded(chk[0], tests[0], 'T')
    # on the not-overwrite path every write task / io mutation comes after the check
    writers = _nodes_calling(c, f, {'save_main_ckpt_task', 'save_async', '_make_mpa_dirs', '_save_mpas'})
    lab_other = [(tests[0], m, l) for m, l in c.succ[tests[0]] if l != 'T'] if tests else []
    legacy = [w for w in writers]
    ok = ok and bool(legacy) and all(c.must_pass(c.entry, w, chk, avoid_edges=lab_other) for w in legacy)
    R.judge(len(tests) == 1 and bool(legacy), ok, key_of(f, 'overwrite check dominates every write'), f,
            '%s: when overwrite is false, _check_overwrite_error must run before any file is written' % qual)
    call = [x for x in astu.func_calls(f) if astu.call_name(x) == '_check_overwrite_error'][0]
    R.judge(sorted(astu.src(a) for a in call.args) == sorted(['ckpt_tmp_path', 'ckpt_path', 'base_path', 'step']), [astu.src(a) for a in call.args] == ['ckpt_tmp_path', 'ckpt_path', 'base_path', 'step'], key_of(f, 'check receives (tmp, final, base, step)'), (f, call),
            '_check_overwrite_error must receive (ckpt_tmp_path, ckpt_path, base_path, step)')
  ce = mod.func('_check_overwrite_error')
  c = cfg_of(ce)
  raises = [n for n in c.nodes if isinstance(n.stmt, ast.Raise) and astu.raised_name(n.stmt) == 'InvalidCheckpointError']
  tests = [astu.src(t.ast) for t in c.nodes if t.kind == 'if']
  ok = len(raises) == 2 and 'ckpt_path in checkpoint_files' in tests and 'ckpt_path != checkpoint_files[-1]' in tests and 'checkpoint_files[-1] == ckpt_tmp_path' in tests
  srt = [n for n in c.nodes if isinstance(n.stmt, ast.Assign) and isinstance(n.stmt.value, ast.Call) and astu.call_name(n.stmt.value) == 'natural_sort']
  last = [t for t in c.nodes if t.kind == 'if' and astu.src(t.ast) == 'ckpt_path != checkpoint_files[-1]']
  app = _nodes_calling(c, ce, {'append'})
  ok = ok and len(srt) == 1 and last and c.dominated(last[0], srt) and app and c.dominated(srt[0], app)
  R.check(ok, key_of(ce, 'rejects an existing step and any step that is not the numerically largest'), ce,
          '_check_overwrite_error must raise for an existing step, and (after adding the new path and natural-sorting, ignoring a trailing leftover tmp file) when the new step is not last')
  io_mut = _io_calls(ce, FS_MUTATORS)
  R.check(not io_mut, key_of(ce, 'read-only'), ce, '_check_overwrite_error must not modify the directory', evidence=True)


def _listing_exclusions(f):
  """Patterns matched / excluded by the `c.match(...)` listing comprehension of a function."""
  inc, exc = [], []
  for n in astu.body_walk(f.node):
    if isinstance(n, ast.ListComp) and n.generators[0].ifs:
      for cond in n.generators[0].ifs:
        for t in (cond.values if isinstance(cond, ast.BoolOp) else [cond]):
          neg = isinstance(t, ast.UnaryOp) and isinstance(t.op, ast.Not)
          call = t.operand if neg else t
          if isinstance(call, ast.Call) and astu.call_tail(call) == 'match' and call.args:
            (exc if neg else inc).append(_pattern(f.mod, call.args[0]))
  return inc, exc


def _pattern(mod, node):
  """Source text of a glob pattern with module-level string constants spelled out, so that f'{prefix}tmp' and
  f'{prefix}{_TMP_NAME}' (with _TMP_NAME = 'tmp') read the same."""
  if isinstance(node, ast.JoinedStr):
    out = []
    for v in node.values:
      if isinstance(v, ast.Constant):
        out.append(str(v.value))
      elif isinstance(v, ast.FormattedValue):
        d = mod.assigns.get(v.value.id) if isinstance(v.value, ast.Name) else (v.value if isinstance(v.value, ast.Constant) else None)
        if isinstance(d, ast.Constant) and isinstance(d.value, str) and v.format_spec is None:
          out.append(d.value)
        else:
          out.append('{%s}' % astu.src(v.value))
    return "f'%s'" % ''.join(out)
  if isinstance(node, ast.Name):
    d = mod.assigns.get(node.id)
    if isinstance(d, ast.Constant) and isinstance(d.value, str):
      return "f'%s'" % d.value
  if isinstance(node, ast.Constant) and isinstance(node.value, str):
    return "f'%s'" % node.value
  return astu.src(node)


def _want(mod, text):
  return _pattern(mod, ast.parse(text, mode='eval').body)


@rule('C11.R6', 'K4', 5, 'in-flight names are invisible to every listing that feeds a latest/retention/ordering decision')
def r6(R, repo):
  mod = repo.mod(CK)
  allc = mod.func('_all_checkpoints')
  inc, exc = _listing_exclusions(allc)
  want = {"f'{prefix}tmp'": 'legacy temp file', "f'*{MP_ARRAY_POSTFIX}'": 'multi-process array directory', "f'*{ocp.utils.TMP_DIR_SUFFIX}*'": 'Orbax temp directory'}
  for pat, what in want.items():
    R.judge(len(exc) >= 1 and len(inc) >= 1, _want(mod, pat) in exc, key_of(allc, 'excludes %s' % pat), allc, '_all_checkpoints must hide the %s (%s): latest_checkpoint/restore would otherwise return a partial checkpoint' % (what, pat))
  R.judge(len(inc) == 1, inc == [_want(mod, "f'{prefix}*'")], key_of(allc, 'lists <prefix>*'), allc, '_all_checkpoints must list exactly the names starting with the prefix')
  rm = mod.func('_remove_invalid_ckpts')
  inc, exc = _listing_exclusions(rm)
  # retention deletes and counts: it must not see in-flight directories that can exist when it runs
  for pat in ("f'*{MP_ARRAY_POSTFIX}'", "f'*{ocp.utils.TMP_DIR_SUFFIX}*'"):
    R.judge(len(exc) >= 1 and len(inc) >= 1, _want(mod, pat) in exc, key_of(rm, 'retention listing excludes %s' % pat), rm,
            'the retention listing counts and sorts entries matching %s as checkpoints: a leftover in-flight directory pushes a complete checkpoint out of the `keep` newest '
            'and gets real checkpoints deleted' % pat)
  ce = mod.func('_check_overwrite_error')
  inc, exc = _listing_exclusions(ce)
  tmp_handled = any('ckpt_tmp_path' in astu.src(n) for n in astu.body_walk(ce.node) if isinstance(n, ast.If))
  R.judge(len(inc) >= 1 and tmp_handled, _want(mod, "f'*{MP_ARRAY_POSTFIX}'") in exc and tmp_handled, key_of(ce, 'overwrite check ignores array dirs and tolerates a leftover tmp file'), ce,
          '_check_overwrite_error must ignore *_gda directories and tolerate a leftover <prefix>tmp as the last entry')
  # the temp name listings hide is the name writers create
  g = mod.func('_get_checkpoint_paths')
  cp = mod.func('_checkpoint_path')
  ret = [n for n in astu.body_walk(cp.node) if isinstance(n, ast.Return)][0].value
  ok = isinstance(ret, ast.Call) and astu.call_name(ret) == 'os.path.join' and astu.src(ret.args[1]) == "f'{prefix}{step}'"
  R.check(ok, key_of(cp, "name = f'{prefix}{step}'"), cp, "checkpoint names must be f'{prefix}{step}' so that f'{prefix}tmp' is exactly the temp name")
  for qual in ('latest_checkpoint', 'available_steps'):
    f = mod.func(qual)
    R.judge(any(astu.call_name(x) == '_all_checkpoints' for x in astu.func_calls(f)) or bool(_io_calls(f, {'listdir', 'glob'})), any(astu.call_name(x) == '_all_checkpoints' for x in astu.func_calls(f)), key_of(f, 'uses _all_checkpoints'), f, '%s must list through _all_checkpoints' % qual)
  lc = mod.func('latest_checkpoint')
  R.check('checkpoint_files[-1]' in astu.src(lc.node), key_of(lc, 'last of the natural-sorted list'), lc, 'latest_checkpoint must return the last entry of the natural-sorted listing')


@rule('C11.R7', 'K1', 5, 'retention: newer only with overwrite, old ones beyond keep, keep_every_n_steps spares, removal through the safe helpers')
def r7(R, repo):
  mod = repo.mod(CK)
  f = mod.func('_remove_invalid_ckpts')
  c = cfg_of(f)
  srt = [n for n in c.nodes if isinstance(n.stmt, ast.Assign) and isinstance(n.stmt.value, ast.Call) and astu.call_name(n.stmt.value) == 'natural_sort']
  R.require(len(srt) == 1, '_remove_invalid_ckpts: natural_sort not found')
  removals = _nodes_calling(c, f, {'_safe_remove'})
  R.require(len(removals) == 2, '_remove_invalid_ckpts: two _safe_remove sites expected')
  R.check(all(c.dominated(r, srt) for r in removals), key_of(f, 'sorted before any removal'), f, evidence=True, msg_fail= 'the listing must be natural-sorted before anything is removed')
  t_over = [n for n in c.nodes if n.kind == 'if' and 'overwrite' in astu.names_loaded(n.ast) and
            not (isinstance(n.ast, ast.BoolOp) and isinstance(n.ast.op, ast.Or))]
  newer_loop = [n for n in c.nodes if n.kind == 'for' and astu.src(n.ast) == 'newer_ckpts']
  old_loop = [n for n in c.nodes if n.kind == 'for' and astu.src(n.ast) == 'old_ckpts']
  R.require(len(newer_loop) == 1 and len(old_loop) == 1, '_remove_invalid_ckpts: removal loops not found')
  newer_rm = [r for r in removals if r in c.loop_body_nodes(newer_loop[0].stmt)]
  old_rm = [r for r in removals if r in c.loop_body_nodes(old_loop[0].stmt)]
  evid.judge_guard(R, c, newer_rm, lambda e: isinstance(e, ast.Name) and e.id == 'overwrite', key_of(f, 'newer checkpoints removed only with overwrite'), f,
                   'checkpoints newer than the saved step may be removed only when overwrite is true and the step exists')
  nd = types.single_def(f.node, 'newer_ckpts')
  ind = types.single_def(f.node, 'ind')
  evid.judge_expr(R, f, nd, 'checkpoint_files[ind:]', key_of(f, 'newer = entries after the saved step'), f, '`newer_ckpts` must be exactly the entries after the saved step in sorted order', follow=False)
  evid.judge_expr(R, f, ind, 'checkpoint_files.index(ckpt_path) + 1', key_of(f, 'newer = entries after the saved step') + ' :: index', f, '`newer_ckpts` must start right after the saved step', follow=False)
  od = types.single_def(f.node, 'old_ckpts')
  t_keep = [n for n in c.nodes if n.kind == 'if' and astu.src(n.ast) == 'len(checkpoint_files) > keep']
  evid.judge_expr(R, f, od, 'checkpoint_files[:-keep]', key_of(f, 'old = all but the keep newest'), f, 'old checkpoints must be `checkpoint_files[:-keep]`', follow=False)
  R.judge(len(t_keep) == 1 and len(old_rm) == 1, len(t_keep) == 1 and len(old_rm) == 1 and c.edge_guarded(old_rm[0], t_keep[0], 'T'), key_of(f, 'old removed only beyond keep'), f, 'old checkpoints may be removed only when there are more than `keep`')
  conts = [n for n in c.nodes if isinstance(n.stmt, ast.Continue)]
  t_every = [n for n in c.nodes if n.kind == 'if' and astu.src(n.ast) == 'keep_every_n_steps']
  t_gap = [n for n in c.nodes if n.kind == 'if' and 'step_number - last_kept' in astu.src(n.ast)]
  ok = len(conts) == 1 and len(t_every) == 1 and len(t_gap) == 1 and c.edge_guarded(conts[0], t_every[0], 'T') and c.edge_guarded(conts[0], t_gap[0], 'T') and \
      any('>= keep_every_n_steps' in t_ for y_ in ast.walk(t_gap[0].ast) if isinstance(y_, ast.Compare) for t_ in astu.mirror_forms(y_))
  upd = [n for n in c.nodes if isinstance(n.stmt, ast.Assign) and astu.src(n.stmt) == 'last_kept = step_number']
  ok = ok and len(upd) == 1 and c.dominated(conts[0], upd)
  R.judge(len(conts) == 1 and len(t_every) == 1 and len(t_gap) == 1, ok, key_of(f, 'keep_every_n_steps spares a checkpoint and remembers it'), f,
          'a checkpoint at least keep_every_n_steps after the last spared one must be kept (continue) and recorded in last_kept')
  sr = mod.func('_safe_remove')
  R.check('io.isdir' in astu.src(sr.node) and 'io.rmtree' in astu.src(sr.node) and 'io.remove' in astu.src(sr.node), key_of(sr, 'rmtree for dirs, remove for files'), sr,
          '_safe_remove must use io.rmtree for directories and io.remove for files')


@rule('C11.R8', 'K3+K4', 13, 'one I/O layer: every shim handles every back-end mode; rename/copy honour overwrite')
def r8(R, repo):
  mod = repo.mod(IO)
  enum = mod.cls('BackendMode')
  modes = sorted(t.id for st in enum.body if isinstance(st, ast.Assign) for t in st.targets if isinstance(t, ast.Name))
  R.require(len(modes) >= 2, 'BackendMode members not found')
  shims = [f for q, f in mod.funcs.items() if '.' not in q and any(('io_mode ==' in astu.src(n.test) or 'io_mode !=' in astu.src(n.test)) for n in astu.body_walk(f.node) if isinstance(n, ast.If))]
  R.require(len(shims) >= 11, 'expected >= 11 io shims, found %d' % len(shims))
  for f in shims:
    cs = cfg_of(f)
    handled = {m_ for m_ in modes if evid.kind_edges(cs, 'io_mode', m_)}
    # with io_mode equal to none of the known modes no path may return normally
    env_none = {}
    for m_ in modes:
      env_none['io_mode == BackendMode.%s' % m_] = False
      env_none['io_mode != BackendMode.%s' % m_] = True
    may_n, must_n = evid.reach_env(cs, env_none)
    falls = cs.exit in may_n
    final = [ast.Raise()] if not falls else []
    ok = sorted(handled) == modes and not falls
    R.judge(len(handled) >= 1, ok, key_of(f, 'handles %s, else raises' % modes), f, 'io.%s handles modes %s of %s and %s' % (f.name, sorted(handled), modes, 'raises otherwise' if final and isinstance(final[-1], ast.Raise) else 'does NOT raise otherwise'))
  for name in ('rename', 'copy'):
    f = mod.func(name)
    c = cfg_of(f)
    raises = [n for n in c.nodes if isinstance(n.stmt, ast.Raise) and astu.raised_name(n.stmt) == 'AlreadyExistsError']
    tests = [n for n in c.nodes if n.kind == 'if' and astu.src(n.ast) == 'os.path.exists(dst) and (not overwrite)']
    acts = [n for x in astu.func_calls(f) if astu.call_name(x) in ('os.rename', 'shutil.copy', 'os.replace', 'shutil.move') for n in c.nodes_for(x)]
    ok = len(raises) == 1 and len(tests) == 1 and c.edge_guarded(raises[0], tests[0], 'T') and acts and all(c.dominated(a, tests) for a in acts)
    tf = [x for x in astu.func_calls(f) if (astu.call_name(x) or '').startswith('gfile.')]
    ok = ok and len(tf) == 1 and astu.src(astu.kwarg(tf[0], 'overwrite')) == 'overwrite' and astu.is_const(astu.param_default(f.node, 'overwrite'), False)
    may, must = evid.reach_env(c, {'os.path.exists(dst)': True, 'overwrite': False, 'io_mode == BackendMode.DEFAULT': True, 'io_mode == BackendMode.TF': False})
    key = key_of(f, 'refuses to clobber unless overwrite')
    msg = 'io.%s must raise AlreadyExistsError when dst exists and overwrite is false, before acting, in both back-ends' % name
    if name == 'rename':
      # the rename is the commit point of a checkpoint save: it has to replace the destination in one step
      dst = astu.params(f.node)[1] if len(astu.params(f.node)) > 1 else 'dst'
      wipe = [x for x in astu.func_calls(f) if (astu.call_name(x) or '') in ('os.remove', 'os.unlink', 'shutil.rmtree', 'os.rmdir', 'gfile.remove', 'gfile.rmtree', 'remove', 'rmtree') and x.args and astu.src(x.args[0]) == dst]
      kw = key_of(f, 'replaces the destination in one step')
      if wipe:
        R.fail(kw, (f, wipe[0]), 'io.rename deletes the destination (`%s`) before renaming: between the two steps neither the old nor the new checkpoint exists under the final name, so a crash there loses the checkpoint that was being overwritten' % astu.short(wipe[0]))
      else:
        R.ok(kw, f)
    # the refusal may live in a helper that receives dst and overwrite and raises
    helper_ok = helper_seen = False
    for x in astu.func_calls(f):
      g_ = mod.funcs.get(astu.call_name(x) or '')
      if g_ is None or not evid.raises_deep(repo, g_, 'AlreadyExistsError') or any(isinstance(a, ast.Starred) for a in x.args):
        continue
      helper_seen = True
      gp = astu.params(g_.node)
      bind = {gp[i]: astu.src(a) for i, a in enumerate(x.args) if i < len(gp)}
      bind.update({k.arg: astu.src(k.value) for k in x.keywords if k.arg})
      pd = [k for k, v in bind.items() if v == 'dst']
      po = [k for k, v in bind.items() if v == 'overwrite']
      if len(pd) == 1 and len(po) == 1:
        cg_ = cfg_of(g_)
        may_g, _ = evid.reach_env(cg_, {'os.path.exists(%s)' % pd[0]: True, po[0]: False})
        hn = c.nodes_for(x)
        if cg_.exit not in may_g and acts and hn and all(c.dominated(a, hn) for a in acts):
          helper_ok = True
    if helper_seen and not (len(raises) == 1 and len(tests) == 1):
      tfk = len(tf) == 1 and astu.src(astu.kwarg(tf[0], 'overwrite')) == 'overwrite' and astu.is_const(astu.param_default(f.node, 'overwrite'), False)
      if helper_ok and tfk:
        R.ok(key, f)
      else:
        R.unsure(key, f, msg + ' (the refusal is delegated to a helper)')
    elif acts and any(a in must for a in acts):
      R.fail(key, f, msg + ': `%s` is reached with dst existing and overwrite false' % astu.short([a for a in acts if a in must][0].stmt))
    elif ok:
      R.ok(key, f)
    elif len(tf) == 1 and astu.kwarg(tf[0], 'overwrite') is None and not astu.has_star_kwargs(tf[0]) and len(tf[0].args) < 3:
      R.fail(key, f, msg + ': the gfile call does not receive overwrite')
    else:
      R.unsure(key, f, msg)


@rule('C11.R9', 'K1', 4, 'async ordering: the previous save is awaited before paths are computed or a new task is submitted')
def r9(R, repo):
  mod = repo.mod(CK)
  for qual in ('save_checkpoint', 'save_checkpoint_multiprocess'):
    f = mod.func(qual)
    c = cfg_of(f)
    waits = _nodes_calling(c, f, {'wait_previous_save'})
    paths = _nodes_calling(c, f, {'_get_checkpoint_paths'})
    t = [n for n in c.nodes if n.kind == 'if' and astu.src(n.ast) == 'async_manager']
    ok = len(paths) == 1 and waits and t and all(c.edge_guarded(w, t[0], 'T') for w in waits[:1])
    other = [(t[0], m, l) for m, l in c.succ[t[0]] if l != 'T'] if t else []
    ok = ok and c.must_pass(c.entry, paths[0], waits, avoid_edges=other)
    R.judge(len(paths) == 1 and bool(waits) and bool(t), ok, key_of(f, 'wait_previous_save before anything else'), f, '%s must wait for the previous async save before computing paths / checking / removing' % qual)
  am = mod.func('AsyncManager.save_async')
  c = cfg_of(am)
  w = _nodes_calling(c, am, {'wait_previous_save'})
  s = _nodes_calling(c, am, {'submit'})
  R.judge(len(s) == 1 and (len(w) == 1 or not evid.calls_deep(repo, am, evid.call_named('wait_previous_save'))), len(w) == 1 and len(s) == 1 and c.dominated(s[0], w), key_of(am, 'wait before submit'), am, 'save_async must wait for the previous task before submitting the next one')
  ini = mod.func('AsyncManager.__init__')
  R.check(astu.is_const(astu.param_default(ini.node, 'max_workers'), 1) and 'max_workers=max_workers' in astu.src(ini.node), key_of(ini, 'single worker by default'), ini,
          'AsyncManager must default to one worker (tasks run in submission order)')
  wp = mod.func('AsyncManager.wait_previous_save')
  R.check('self.save_future.result()' in astu.src(wp.node), key_of(wp, 'blocks on the future (re-raising its error)'), wp, 'wait_previous_save must call save_future.result()')


def _groups(pattern):
  import re._parser as sp  # stdlib regex AST
  p = sp.parse(pattern)
  return p.state.groups - 1


@rule('C11.R10', 'K4', 6, 'step regexes: one capturing group, sign / fraction / exponent recognised; natural_sort compares numbers numerically')
def r10(R, repo):
  mod = repo.mod(CK)
  pats = {}
  for name in ('SIGNED_FLOAT_RE', 'UNSIGNED_FLOAT_RE'):
    v = mod.assigns.get(name)
    R.require(isinstance(v, ast.Call) and astu.call_name(v) == 're.compile' and v.args, '%s is not re.compile(<literal>)' % name)
    try:
      pat = ast.literal_eval(v.args[0])
    except Exception:
      raise AnalysisError('%s pattern is not a literal' % name)
    pats[name] = pat
    R.check(_groups(pat) == 1, key_of(mod.rel, '%s has exactly one capturing group' % name), mod, evidence=True, msg_fail=
            '%s has %d capturing groups: re.split would not alternate text/number and natural_sort keys would compare floats with strings' % (name, _groups(pat)))
  rx = re.compile(pats['SIGNED_FLOAT_RE'])
  samples = {'7': 7.0, '-3': -3.0, '+2': 2.0, '1.5': 1.5, '1e-05': 1e-05, '-2.5E+3': -2500.0, '10': 10.0, '.5': 0.5}
  bad = [s for s, v in samples.items() if not (rx.fullmatch(s) and float(rx.fullmatch(s).group(1)) == v)]
  R.check(not bad, key_of(mod.rel, 'SIGNED_FLOAT_RE matches ints, floats, signs, exponents'), mod, evidence=True, msg_fail= 'SIGNED_FLOAT_RE does not fully match %s (constant-folded on a fixed sample)' % bad)
  ux = re.compile(pats['UNSIGNED_FLOAT_RE'])
  bad = [s for s in ('7', '1.5', '1e-05', '10', '-3', '+2') if not (ux.fullmatch(s) and ux.fullmatch(s).group(1) == s.lstrip('+-'))]
  R.check(not bad, key_of(mod.rel, 'UNSIGNED_FLOAT_RE captures the magnitude without the sign'), mod, evidence=True, msg_fail= 'UNSIGNED_FLOAT_RE misclassifies %s' % bad)
  ns = mod.func('natural_sort')
  mn = mod.func('natural_sort.maybe_num')
  sk = mod.func('natural_sort.split_keys')
  ok = 'float(s)' in astu.src(mn.node) and 'float_re.match(s)' in astu.src(mn.node) and astu.src([n for n in astu.body_walk(sk.node) if isinstance(n, ast.Return)][0].value) == '[maybe_num(c) for c in float_re.split(s)]'
  ret = [n for n in astu.body_walk(ns.node) if isinstance(n, ast.Return)][-1].value
  ok = ok and astu.src(ret) == 'sorted(file_list, key=split_keys)'
  fr = types.single_def(ns.node, 'float_re')
  ok = ok and astu.src(fr) == 'SIGNED_FLOAT_RE if signed else UNSIGNED_FLOAT_RE' and astu.is_const(astu.param_default(ns.node, 'signed'), True)
  R.check(ok, key_of(ns, 'numeric pieces compared as floats'), ns, 'natural_sort must split names with the float regex, convert numeric pieces to float and sort by that key (signed by default)')
  st = mod.func('_checkpoint_path_step')
  ok = 'SIGNED_FLOAT_RE.split(path)[::-1]' in astu.src(st.node) and 'return float(s)' in astu.src(st.node)
  first = [x for x in astu.func_calls(st) if astu.call_tail(x) in ('search', 'match', 'fullmatch') and x.args and astu.src(x.args[0]) == astu.params(st.node)[0]]
  first += [n_ for n_ in ast.walk(st.node) if isinstance(n_, ast.Subscript) and isinstance(n_.value, ast.Call) and astu.call_tail(n_.value) in ('findall', 'split') and astu.is_const(n_.slice, 0)]
  if first and not ok:
    R.fail(key_of(st, 'step = last number in the name'), (st, first[0]), '`%s` takes the *first* number found in the whole path: any digit in a directory name (run_3/, a date, a temp dir) is then read as the step, so retention by step (keep_every_n_steps) and the ordering of checkpoints break; the step is the last number of the path' % astu.short(first[0]))
  else:
    R.check(ok, key_of(st, 'step = last number in the name'), st, '_checkpoint_path_step must return the last number of the path')


meta('C11',
     explanation='Crash safety as an ordering discipline on the statement CFG of flax/training/checkpoints.py: writes only to temp names, close before commit, commit (rename / '
     'orbax save) before retention, refusal before any write, async waits first; table agreement of path tuples and of the in-flight names hidden by every listing; '
     'retention structure; flax/io.py shims exhaustive over BackendMode; step regexes constant-folded (group count via re._parser).',
     not_decided=['atomicity/durability of os.rename and GCS', 'torn writes', "Orbax's internal temp-dir protocol", 'thread interleavings inside AsyncManager',
                  'restore returns exactly the tree saved (C10 values)'],
     mutants=[
         Mutant('C11-m1', CK, "  io.rename(ckpt_tmp_path, ckpt_path, overwrite=overwrite)\n  logging.info('Saved checkpoint at %s', ckpt_path)\n\n  # Remove newer and older invalid checkpoints.\n  _remove_invalid_ckpts(\n    ckpt_path, base_path, keep, overwrite, keep_every_n_steps, has_mpa\n  )\n",
                "  # Remove newer and older invalid checkpoints.\n  _remove_invalid_ckpts(\n    ckpt_path, base_path, keep, overwrite, keep_every_n_steps, has_mpa\n  )\n  io.rename(ckpt_tmp_path, ckpt_path, overwrite=overwrite)\n  logging.info('Saved checkpoint at %s', ckpt_path)\n\n", 'C11.R4'),
         Mutant('C11-m2', CK, "  return ckpt_path, ckpt_tmp_path, base_path", "  return ckpt_tmp_path, ckpt_path, base_path", 'C11.R2'),
         Mutant('C11-m3', CK, "    and not c.match(f'{prefix}tmp')\n", "", 'C11.R6'),
         Mutant('C11-m4', CK, "    and not c.match(f'*{MP_ARRAY_POSTFIX}')\n    and not c.match(f'*{ocp.utils.TMP_DIR_SUFFIX}*')\n  ]\n  checkpoint_files = natural_sort(checkpoint_files)\n\n  # Remove newer checkpoints",
                "    and not c.match(f'*{MP_ARRAY_POSTFIX}')\n  ]\n  checkpoint_files = natural_sort(checkpoint_files)\n\n  # Remove newer checkpoints", 'C11.R6', why='the original defect F6'),
         Mutant('C11-m5', CK, "  if overwrite and ckpt_path in checkpoint_files:", "  if ckpt_path in checkpoint_files:", 'C11.R7'),
         Mutant('C11-m6', CK, "  with io.GFile(ckpt_tmp_path, 'wb') as fp:\n    fp.write(target)\n", "  with io.GFile(ckpt_path, 'wb') as fp:\n    fp.write(target)\n", 'C11.R1'),
         Mutant('C11-m7', IO, "    if os.path.exists(dst) and not overwrite:\n      raise errors.AlreadyExistsError(dst)\n    return os.rename(src, dst)", "    return os.rename(src, dst)", 'C11.R8'),
         Mutant('C11-m8', CK, "SIGNED_FLOAT_RE = re.compile(r'([-+]?(?:\\d+(?:\\.\\d*)?|\\.\\d+)(?:[eE][-+]?\\d+)?)')", "SIGNED_FLOAT_RE = re.compile(r'([-+]?(\\d+(?:\\.\\d*)?|\\.\\d+)(?:[eE][-+]?\\d+)?)')", 'C11.R10'),
         Mutant('C11-m9', CK, "  if not overwrite:\n    _check_overwrite_error(ckpt_tmp_path, ckpt_path, base_path, step)  # type: ignore\n\n  target = serialization.to_bytes(target)\n", "  target = serialization.to_bytes(target)\n", 'C11.R5', why='fails closed (anchor) is acceptable'),
         Mutant('C11-m10', CK, "  io.rename(ckpt_tmp_path, ckpt_path, overwrite=overwrite)\n  logging.info('Saved checkpoint at %s', ckpt_path)\n", "  if overwrite and io.exists(ckpt_path):\n    _safe_remove(ckpt_path)\n  io.rename(ckpt_tmp_path, ckpt_path, overwrite=overwrite)\n  logging.info('Saved checkpoint at %s', ckpt_path)\n", 'C11.R4', why='seed C11-A'),
         Mutant('C11-b1', CK, "  io.rename(ckpt_tmp_path, ckpt_path, overwrite=overwrite)\n  logging.info('Saved checkpoint at %s', ckpt_path)\n", "  logging.info('Saving checkpoint at %s', ckpt_path)\n  io.rename(ckpt_tmp_path, ckpt_path, overwrite=overwrite)\n", kind='benign'),
     ])
