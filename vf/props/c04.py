"""C04 — NNX transforms keep Python reference semantics (split -> pure call -> merge protocol)."""
from __future__ import annotations

import ast
import glob
import os

from .. import astu, evid, flow, types
from ..cfg import cfg_of
from ..model import AnalysisError, Func
from ..report import key_of
from . import Mutant, meta, rule

GR = 'flax/nnx/graph.py'
EX = 'flax/nnx/extract.py'
TDIR = 'flax/nnx/transforms/'
TFILES = ['autodiff.py', 'compilation.py', 'general.py', 'iteration.py', 'transforms.py']


def _tmods(repo):
  return [repo.mod(TDIR + f) for f in TFILES]


def _tag_src(e):
  """Normalised tag expression: `T if cond else None` reads as T."""
  if e is None:
    return None
  if isinstance(e, ast.IfExp) and astu.is_const(e.orelse, None):
    return astu.src(e.body)
  if isinstance(e, ast.IfExp) and astu.is_const(e.body, None):
    return astu.src(e.orelse)
  if astu.is_const(e, None):
    return None
  return astu.src(e)


class Site:
  def __init__(self, f, call):
    self.f, self.call = f, call
    self.kind = 'to' if astu.call_tail(call) == 'to_tree' else 'from'
    te = astu.kwarg(call, 'ctxtag')
    if isinstance(te, ast.Name):
      ds = [d[0] for d in flow.defs(f, te.id)]
      if len(ds) == 1 and isinstance(ds[0], ast.Constant):
        te = ds[0]
    self.tag = _tag_src(te)
    ii = astu.kwarg(call, 'is_inner')
    self.is_inner = ii.value if isinstance(ii, ast.Constant) else (None if ii is None else astu.src(ii))


def _sites(f):
  return [Site(f, c) for c in astu.func_calls(f) if astu.call_name(c) in ('extract.to_tree', 'extract.from_tree')]


def _own_context_tags(f):
  """Tags of graph.update_context(...) applied to f by decorator, or by `with` around (part of) its body."""
  tags = []
  for d in f.node.decorator_list:
    if isinstance(d, ast.Call) and astu.call_name(d) == 'graph.update_context' and d.args:
      tags.append(('decorator', astu.src(d.args[0]), None))
  for n in astu.body_walk(f.node):
    if isinstance(n, ast.With):
      for i in n.items:
        ce = i.context_expr
        if isinstance(ce, ast.Call) and astu.call_name(ce) == 'graph.update_context' and ce.args:
          tags.append(('with', astu.src(ce.args[0]), n))
  return tags


def _under_context(f, node, tag):
  for kind, t, w in _own_context_tags(f):
    if t != tag:
      continue
    if kind == 'decorator':
      return True
    if any(x is node for x in ast.walk(w)):
      return True
  return False


# residual (non-graph) values of custom_vjp travel without a context tag: frozen exemption table
UNTAGGED_OK = {
    ('flax.nnx.transforms.autodiff:FwdFn.__call__', 'extract.to_tree(residual)'): 'residuals carry no graph nodes shared with the caller',
    ('flax.nnx.transforms.autodiff:BwdFn.__call__', 'extract.from_tree(pure_residual, is_inner=True)'): 'residuals carry no graph nodes shared with the caller',
}
OUTER_ONLY_TAGS = {"'while_loop'": 'the body uses the self-contained tag while_loop_body', "'fori_loop'": 'the body uses the self-contained tag fori_loop_body'}


@rule('C04.R1', 'K1+K4', 40, 'every transform follows the tagged split -> call -> merge protocol (outer under update_context, inner mirrored)')
def r1(R, repo):
  inner_tags, outer_tags = {}, {}
  n_fn = 0
  for mod in _tmods(repo):
    for q, f in mod.funcs.items():
      sites = _sites(f)
      if not sites:
        continue
      tagged = [s for s in sites if s.tag is not None]
      if not tagged:
        continue
      n_fn += 1
      c = cfg_of(f)
      # P2: one tag per function; untagged calls only from the exemption table
      tags = sorted({s.tag for s in tagged})
      R.check(len(tags) == 1, key_of(f, 'single context tag'), f, evidence=True, msg_fail='to_tree/from_tree calls in one function use different context tags %s: objects split under one tag cannot be re-identified under another' % tags)
      for s in sites:
        if s.tag is None:
          k = (f.fq, astu.src(s.call))
          exempt = k in UNTAGGED_OK or (f.fq in {k_[0] for k_ in UNTAGGED_OK} and s.call.args and 'residual' in astu.src(s.call.args[0]))
          R.check(exempt, key_of(f, 'untagged ' + astu.short(s.call, 60)), (f, s.call), evidence=not astu.has_star_kwargs(s.call), msg_fail=
                  '`%s` has no ctxtag although the function works under tag %s: nodes merged without the tag come back as copies instead of the caller\'s own objects' % (astu.short(s.call, 70), tags[0]))
      tag = tags[0]
      froms = [s for s in tagged if s.kind == 'from']
      tos = [s for s in tagged if s.kind == 'to']
      for s in froms:
        key = key_of(f, 'from_tree(tag=%s, is_inner=%s)' % (s.tag, s.is_inner))
        if s.is_inner is True:
          inner_tags.setdefault(tag, []).append(f)
          fn = c.nodes_for(s.call)
          tn = [n for t in tos for n in c.nodes_for(t.call)]
          ok = bool(tn) and all(c.must_pass(x, c.exit, tn, avoid_edges=c.exc_edges()) and any(c.can_reach(x, t) for t in tn) for x in fn)
          R.judge(bool(tn), ok, key, (f, s.call), 'an inner from_tree(is_inner=True) must be followed on every path by a to_tree with the same tag %s (the state changes made by the user function are sent back out)' % tag)
        elif s.is_inner is False:
          outer_tags.setdefault(tag, []).append(f)
          fn = c.nodes_for(s.call)
          host = f
          tn = [n for t in tos for n in c.nodes_for(t.call)]
          under = _under_context(f, s.call, tag)
          hosts = []
          if not tos and '.' in q:
            # nested helper (e.g. grad_wrapper.process_out): the protocol lives in the enclosing function
            hosts = [mod.funcs.get(q.rsplit('.', 1)[0])]
          elif not tos:
            # module-level helper that only merges: the protocol lives in the functions that call it
            hosts = [g_ for g_ in mod.funcs.values() if g_ is not f and any(astu.call_name(x) == f.name for x in astu.func_calls(g_))]
          hosts = [h_ for h_ in hosts if h_ is not None]
          if not tos and len(hosts) > 1:
            under = True
            for host in hosts:
              hc = cfg_of(host)
              htos = [t for t in _sites(host) if t.kind == 'to' and t.tag == tag]
              calls = [n for x in astu.func_calls(host) if astu.call_name(x) == f.name for n in hc.nodes_for(x)]
              tn2 = [n for t in htos for n in hc.nodes_for(t.call)]
              ok = bool(tn2) and bool(calls) and all(hc.dominated(x, tn2) for x in calls)
              under = under and (any(t == tag and kind == 'decorator' for kind, t, w in _own_context_tags(host)) or all(_under_context(host, x, tag) for x in astu.func_calls(host) if astu.call_name(x) == f.name))
              R.judge(bool(tn2) and bool(calls), ok, key + ' after to_tree in ' + host.name, (f, s.call), 'the outer from_tree must come after a to_tree with tag %s in %s' % (tag, host.name))
          elif not tos and len(hosts) == 1:
            host = hosts[0]
            if host is not None:
              hc = cfg_of(host)
              htos = [t for t in _sites(host) if t.kind == 'to' and t.tag == tag]
              calls = [n for x in astu.func_calls(host) if astu.call_name(x) == f.name for n in hc.nodes_for(x)]
              tn2 = [n for t in htos for n in hc.nodes_for(t.call)]
              ok = bool(tn2) and bool(calls) and all(hc.dominated(x, tn2) for x in calls)
              under = any(t == tag and kind == 'decorator' for kind, t, w in _own_context_tags(host)) or all(_under_context(host, x, tag) for x in astu.func_calls(host) if astu.call_name(x) == f.name)
              R.judge(bool(tn2) and bool(calls), ok, key + ' after to_tree in ' + host.name, (f, s.call), 'the outer from_tree must come after a to_tree with tag %s in %s' % (tag, host.name))
          elif not tos:
            R.unsure(key + ' after to_tree', (f, s.call), '%s only merges (from_tree) and nothing in the module calls it: the matching to_tree was not found' % q)
            under = True
          else:
            ok = bool(tn) and all(c.dominated(x, tn) for x in fn)
            R.judge(bool(tn), ok, key + ' after to_tree', (f, s.call), 'an outer from_tree(is_inner=False) must be dominated by a to_tree with the same tag %s' % tag)
          R.check(under, key + ' under update_context', (f, s.call), evidence=True, msg_fail=
                  'the outer from_tree with tag %s does not run under graph.update_context(%s): the identity map between the caller\'s objects and the traced copies is missing, so updates land on copies' % (tag, tag))
          # P4: what the merge produced is what is returned
          st = astu.enclosing_stmt(s.call)
          rets = [n for n in astu.body_walk(f.node) if isinstance(n, ast.Return) and n.value is not None]
          produced = astu.names_stored(st.targets[0]) if isinstance(st, ast.Assign) else set()
          okr = isinstance(st, ast.Return) or any(astu.names_loaded(r.value) & produced for r in rets)
          R.check(okr, key + ' result returned', (f, s.call), 'the value rebuilt by the outer from_tree must be what the wrapper returns')
        else:
          R.fail(key, (f, s.call), 'from_tree with a context tag must say is_inner=True or is_inner=False explicitly (got %s)' % s.is_inner)
      nested_froms = [s2 for q2, g in mod.funcs.items() if q2.startswith(q + '.') for s2 in _sites(g) if s2.kind == 'from' and s2.tag == tag]
      for t in tos:
        if not froms and not nested_froms:
          R.unsure(key_of(f, 'to_tree without from_tree'), (f, t.call), 'to_tree with tag %s has no matching from_tree in this function' % tag)
  R.require(n_fn >= 20, 'expected >= 20 functions using tagged to_tree/from_tree, found %d' % n_fn)
  # P5: tag table — every inner tag has an outer counterpart and vice versa
  for tag, fs in sorted(inner_tags.items()):
    key = key_of('tag', tag, 'inner has outer')
    f = fs[0]
    if tag in outer_tags:
      R.ok(key, f)
    elif any(t == tag for kind, t, w in _own_context_tags(f)):
      R.ok(key, f, 'self-contained body tag')
    elif tag in ('self.ctxtag', 'ctxtag'):
      R.ok(key, f, 'linked through constructor / parameter (checked below)')
    else:
      R.fail(key, f, 'inner functions use tag %s but no outer wrapper opens update_context(%s) and merges with it' % (tag, tag))
  for tag, fs in sorted(outer_tags.items()):
    key = key_of('tag', tag, 'outer has inner')
    f = fs[0]
    if tag in inner_tags or tag in OUTER_ONLY_TAGS or tag in ('self.ctxtag', 'ctxtag'):
      R.ok(key, f, OUTER_ONLY_TAGS.get(tag, ''))
    else:
      # dynamic tags (the wrapper function object itself): an inner class must receive it through its constructor
      linked = False
      for mod in _tmods(repo):
        for g in mod.funcs.values():
          for x in astu.func_calls(g):
            r = repo.resolve_dotted(mod, astu.call_name(x) or '', g)
            if isinstance(r, tuple) and r[0] == 'class':
              cls = r[1].classes[r[2]]
              fields = [s.target.id for s in cls.body if isinstance(s, ast.AnnAssign) and isinstance(s.target, ast.Name)]
              if 'ctxtag' in fields:
                v = astu.arg_or_kw(x, fields.index('ctxtag'), 'ctxtag')
                if v is not None and astu.src(v) == tag:
                  linked = True
      R.check(linked, key, f, 'outer wrapper uses tag %s but no inner function/class is given the same tag' % tag, evidence=True)
  # self.ctxtag classes: every constructor call passes the tag of the wrapper that owns the update_context
  for mod in _tmods(repo):
    for g in mod.funcs.values():
      for x in astu.func_calls(g):
        r = repo.resolve_dotted(mod, astu.call_name(x) or '', g)
        if not (isinstance(r, tuple) and r[0] == 'class'):
          continue
        cls = r[1].classes[r[2]]
        fields = [s.target.id for s in cls.body if isinstance(s, ast.AnnAssign) and isinstance(s.target, ast.Name)]
        if 'ctxtag' not in fields:
          continue
        v = astu.arg_or_kw(x, fields.index('ctxtag'), 'ctxtag')
        key = key_of(g, 'constructs %s with the wrapper\'s tag' % r[2])
        if v is None:
          R.fail(key, (g, x), '%s is constructed without a ctxtag' % r[2])
          continue
        tag = astu.src(v)
        # the tag must be one opened by an update_context in this function or a sibling nested wrapper
        scope_q = g.qual.split('.')[0]
        opened = set()
        for h in mod.funcs.values():
          if h.qual == scope_q or h.qual.startswith(scope_q + '.') or h.qual.startswith(g.qual.rsplit('.', 1)[0]):
            opened |= {t for kind, t, w in _own_context_tags(h)}
        R.judge(bool(opened), tag in opened, key, (g, x), '%s receives ctxtag=%s, but the enclosing wrapper opens update_context for %s' % (r[2], tag, sorted(opened)))
  # general.split_inputs / merge_inputs call sites agree on the tag
  for mod in _tmods(repo):
    for q, f in mod.funcs.items():
      splits = []
      for n in [f.node] + list(ast.walk(f.node)):
        pass
      for n in ast.walk(f.node):
        if isinstance(n, ast.Call) and astu.call_name(n) == 'general.split_inputs':
          splits.append(n)
      for d in f.node.decorator_list:
        if isinstance(d, ast.Call) and astu.call_name(d) == 'general.split_inputs' and d not in splits:
          splits.append(d)
      if not splits or '.' in q:
        continue
      merges = [n for n in ast.walk(f.node) if isinstance(n, ast.Call) and astu.call_name(n) == 'general.merge_inputs']
      st = {_tag_src(astu.kwarg(s, 'ctxtag')) for s in splits}
      mt = {_tag_src(astu.kwarg(m, 'ctxtag')) for m in merges}
      ctx = {astu.src(n.args[0]) for n in ast.walk(f.node) if isinstance(n, ast.Call) and astu.call_name(n) == 'graph.update_context' and n.args}
      ok = len(st) == 1 and st == mt and bool(merges) and None not in st and (not ctx or ctx == st)
      R.judge(bool(merges) and None not in st and None not in mt, ok, key_of(f, 'split_inputs / merge_inputs tags agree'), f, 'general.split_inputs uses tag(s) %s but general.merge_inputs uses %s (update_context %s)' % (sorted(map(str, st)), sorted(map(str, mt)), sorted(ctx)))
  gen = repo.mod(TDIR + 'general.py')
  ds = astu.src(astu.param_default(gen.func('split_inputs').node, 'ctxtag'))
  dm = astu.src(astu.param_default(gen.func('merge_inputs').node, 'ctxtag'))
  R.check(ds == dm, key_of(gen.rel, 'default tags of split_inputs / merge_inputs agree'), gen, 'default ctxtag of split_inputs (%s) and merge_inputs (%s) differ' % (ds, dm), evidence=True)
  for q in ('split_inputs', 'merge_inputs'):
    f = gen.func(q)
    parts = [x for x in astu.func_calls(f) if astu.call_name(x) == 'functools.partial']
    if len(parts) == 1:
      R.check(flow.kw_forwarded(parts[0], 'ctxtag'), key_of(f, 're-entry forwards ctxtag'), f, '%s(f=Missing, ctxtag=T) must return partial(%s, ctxtag=T)' % (q, q), evidence=not astu.has_star_kwargs(parts[0]))
    else:
      R.unsure(key_of(f, 're-entry forwards ctxtag'), f, 'functools.partial re-entry not found')


def _ctx_methods(repo, f, seen=None, depth=0):
  """Names of SplitContext/MergeContext methods (split/merge/flatten/unflatten) a split/merge function calls on its ctx."""
  out = set()
  seen = seen or set()
  if f.fq in seen or depth > 3:
    return out
  seen.add(f.fq)
  ps = astu.params(f.node)
  ctxp = 'ctx' if 'ctx' in ps else next((a.arg for a in f.node.args.args if a.annotation is not None and 'Context' in astu.src(a.annotation)), ps[0] if ps else None)
  for x in astu.func_calls(f):
    if isinstance(x.func, ast.Attribute) and isinstance(x.func.value, ast.Name) and x.func.value.id == ctxp and x.func.attr in ('split', 'merge', 'flatten', 'unflatten'):
      out.add(x.func.attr)
    r = repo.resolve_call(f.mod, x, f)
    if isinstance(r, Func) and any(isinstance(a, ast.Name) and a.id == ctxp for a in x.args):
      out |= _ctx_methods(repo, r, seen, depth + 1)
  return out


@rule('C04.R2', 'K4', 10, 'the split function at a to_tree and the merge function at the matching from_tree speak the same representation')
def r2(R, repo):
  ex = repo.mod(EX)
  dsf = astu.src(astu.param_default(ex.func('to_tree').node, 'split_fn'))
  dmf = astu.src(astu.param_default(ex.func('from_tree').node, 'merge_fn'))

  def rep(mod, scope, expr, default, which):
    name = astu.src(expr) if expr is not None else default
    m2 = ex if expr is None else mod
    if isinstance(expr, ast.Call) and astu.call_name(expr) == 'functools.partial':
      name = astu.src(expr.args[0])
    r = repo.resolve_dotted(m2, name, scope if expr is not None else None) if astu.dotted(ast.parse(name, mode='eval').body) else None
    if not isinstance(r, Func):
      return name, None
    ms = _ctx_methods(repo, r)
    if ms & {'split', 'merge'}:
      return name, 'state'
    if ms & {'flatten', 'unflatten'}:
      return name, 'flat'
    return name, None
  n = 0
  for mod in _tmods(repo):
    # group by (enclosing top-level function or class, tag)
    groups = {}
    for q, f in mod.funcs.items():
      for s in _sites(f):
        if s.tag is None:
          continue
        top = q.split('.')[0]
        groups.setdefault((top, s.tag), []).append(s)
    # link inner classes/functions to outer by tag text within the module
    by_tag = {}
    for (top, tag), ss in groups.items():
      by_tag.setdefault(tag, []).extend(ss)
    for tag, ss in sorted(by_tag.items()):
      if tag in ('self.ctxtag', 'ctxtag'):
        continue
      reps = {}
      for s in ss:
        if s.kind == 'to':
          nm, r_ = rep(mod, s.f, astu.kwarg(s.call, 'split_fn'), dsf, 'split')
        else:
          nm, r_ = rep(mod, s.f, astu.kwarg(s.call, 'merge_fn'), dmf, 'merge')
        reps[(s.f.qual, s.kind, nm)] = r_
      vals = set(reps.values())
      n += 1
      R.judge(None not in vals, len(vals) == 1, key_of(mod.rel, 'tag %s: one representation' % tag), (ss[0].f, ss[0].call),
              'under tag %s the split/merge functions do not all use the same representation (state = ctx.split/ctx.merge, flat = ctx.flatten/ctx.unflatten): %s' % (tag, {k[2]: v for k, v in reps.items()}))
  # classes using self.ctxtag: within one class both directions agree
  for mod in _tmods(repo):
    for q, f in mod.funcs.items():
      ss = [s for s in _sites(f) if s.tag == 'self.ctxtag']
      if len(ss) < 2:
        continue
      reps = set()
      for s in ss:
        if s.kind == 'to':
          reps.add(rep(mod, f, astu.kwarg(s.call, 'split_fn'), dsf, 'split')[1])
        else:
          reps.add(rep(mod, f, astu.kwarg(s.call, 'merge_fn'), dmf, 'merge')[1])
      n += 1
      R.judge(None not in reps, len(reps) == 1, key_of(f, 'one representation'), f, '%s splits and merges with different representations %s' % (q, reps))
  R.require(n >= 8, 'expected >= 8 tag groups')


def _leaf_pred_disjuncts(test, var):
  """{'is_graph_node', 'Variable'} for `graph.is_graph_node(x) or isinstance(x, variablelib.Variable)`."""
  out = set()
  vals = test.values if isinstance(test, ast.BoolOp) and isinstance(test.op, ast.Or) else [test]
  for v in vals:
    if isinstance(v, ast.Call) and astu.call_tail(v) == 'is_graph_node' and astu.src(v.args[0]) == var:
      out.add('is_graph_node')
    elif isinstance(v, ast.Call) and astu.call_name(v) == 'isinstance' and astu.src(v.args[0]) == var and astu.src(v.args[1]).split('.')[-1] == 'Variable':
      out.add('Variable')
    elif isinstance(v, ast.Call) and astu.call_tail(v) in ('is_node', 'is_pytree_node', 'is_node_type') and v.args and astu.src(v.args[0]) == var:
      out.add(astu.call_tail(v))  # graph / pytree nodes only: does not include bare Variables
    elif isinstance(v, ast.Name):
      out.add('flag:' + v.id)
    else:
      out.add('?' + astu.src(v))
  return out


@rule('C04.R3', 'K1+K4', 7, 'aliasing: one split context per to_tree, consistency check before splitting, the same notion of "graph leaf" everywhere')
def r3(R, repo):
  ex = repo.mod(EX)
  tt = ex.func('to_tree')
  c = cfg_of(tt)
  chk = [n for x in astu.func_calls(tt) if astu.call_name(x) == 'check_consistent_aliasing' for n in c.nodes_for(x)]
  spl = [n for n in c.nodes if isinstance(n.stmt, ast.Assign) and astu.src(n.stmt.targets[0]) == 'tree_node' and isinstance(n.stmt.value, ast.Call) and astu.src(n.stmt.value.func) == 'split_fn']
  t = [n for n in c.nodes if n.kind == 'if' and astu.src(n.ast) == 'check_aliasing']
  R.require(len(spl) == 1, 'to_tree: tree_node = split_fn(...) not found')
  if not chk and evid.calls_deep(repo, tt, evid.call_named('check_consistent_aliasing')):
    R.unsure(key_of(tt, 'consistent-aliasing check before split'), tt, 'check_consistent_aliasing is called from a helper')
  elif not chk:
    R.fail(key_of(tt, 'consistent-aliasing check before split'), tt, 'to_tree no longer calls check_consistent_aliasing: aliases under different prefixes would be silently resolved')
  else:
    cut = [(t[0], m, l) for m, l in c.succ[t[0]] if l != 'T'] if t else []
    ok = len(t) == 1 and c.edge_guarded(chk[0], t[0], 'T') and c.must_pass(c.entry, spl[0], chk, avoid_edges=cut)
    wit = evid.bypass_under(c, {'check_aliasing': True}, spl[0], chk)
    if wit is not None:
      R.fail(key_of(tt, 'consistent-aliasing check before split'), (tt, spl[0].stmt), 'with check_aliasing=True a graph-node leaf can reach split_fn without check_consistent_aliasing (path: %s): '
             'aliases under a prefix the extra condition excludes (e.g. None = broadcast / not differentiated) are silently resolved, first argument wins' % wit)
    else:
      R.judge(len(t) == 1, ok, key_of(tt, 'consistent-aliasing check before split'), tt, 'on the prefix path every graph-node leaf must pass check_consistent_aliasing before split_fn unless check_aliasing is false')
  R.check(astu.is_const(astu.param_default(tt.node, 'check_aliasing'), True), key_of(tt, 'check_aliasing defaults to True'), tt, 'check_aliasing must default to True', evidence='check_aliasing' in astu.params(tt.node))
  withs = [n for n in c.nodes if n.kind == 'with' and 'graph.split_context(ctxtag)' in astu.src(n.ast)]
  loops = [n for n in c.nodes if n.kind == 'for']
  ok = len(withs) == 2 and len(loops) == 1 and all(any(x is loops[0].stmt for x in ast.walk(w.stmt)) for w in withs[1:])
  R.check(ok, key_of(tt, 'one split context around the whole leaf loop'), tt, 'all leaves of one to_tree call must be split under a single graph.split_context(ctxtag) (arguments aliasing each other become references, not duplicates)')
  ft = ex.func('from_tree')
  cf = cfg_of(ft)
  withs = [n for n in cf.nodes if n.kind == 'with' and 'graph.merge_context(ctxtag, is_inner)' in astu.src(n.ast)]
  R.check(len(withs) == 2, key_of(ft, 'one merge context per call, with the caller\'s tag and is_inner'), ft, 'from_tree must merge all leaves under one graph.merge_context(ctxtag, is_inner)')
  # callers overriding check_aliasing: frozen table
  for mod in _tmods(repo):
    for f in mod.funcs.values():
      for x in astu.func_calls(f):
        if astu.call_name(x) == 'extract.to_tree' and astu.kwarg(x, 'check_aliasing') is not None:
          v = astu.src(astu.kwarg(x, 'check_aliasing'))
          ok = f.fq in ('flax.nnx.transforms.compilation:jit.jit_wrapper', 'flax.nnx.transforms.compilation:shard_map.shard_map_wrapper') and v == 'in_shardings is not None or kwarg_shardings is not None'
          ok = ok or (f.qual.endswith('shard_map_wrapper') and 'is not None' in v)
          R.check(ok, key_of(f, 'check_aliasing=%s' % v), (f, x), 'only nnx.jit / shard_map may relax the aliasing check, and only when no shardings are given')
  # the same notion of "graph leaf" in to_tree (both paths), clear_non_graph_nodes and from_tree
  want = {'is_graph_node', 'Variable'}
  found = []
  for n in ast.walk(tt.node):
    if isinstance(n, ast.If) and 'is_graph_node' in astu.src(n.test):
      found.append((tt, n, _leaf_pred_disjuncts(n.test, 'leaf')))
    if isinstance(n, ast.IfExp) and 'is_graph_node' in astu.src(n.test):
      found.append((tt, n, _leaf_pred_disjuncts(n.test, 'x')))
  cl = ex.func('clear_non_graph_nodes')
  for n in ast.walk(cl.node):
    if isinstance(n, ast.IfExp):
      found.append((cl, n, _leaf_pred_disjuncts(n.test, 'x')))
  R.require(len(found) >= 3, 'leaf predicates in extract.py not found')
  for f, n, d in found:
    core = {x for x in d if not x.startswith('flag:')}
    R.judge(not any(x.startswith('?') for x in core), core == want, key_of(f, 'graph leaf = graph node or Variable', astu.short(n.test, 50)), (f, n),
            '`%s` treats %s as graph leaves, but to_tree splits graph nodes *and* bare Variables: values of the other kind are dropped or not sent back' % (astu.short(n.test, 80), sorted(core)))


def _fp_tokens(f, mode):
  """Linearised event skeleton of a fingerprint function (see DESIGN C04.R4)."""
  toks = []
  me = f.node.name

  def emit_of(test):
    # `E != next(fp_iterator)` / `E == next(fp_iterator)`
    if isinstance(test, ast.Compare) and len(test.ops) == 1 and isinstance(test.comparators[0], ast.Call) and astu.call_name(test.comparators[0]) == 'next':
      return astu.src(test.left)
    return None

  def walk(stmts):
    for st in stmts:
      if isinstance(st, ast.Expr) and isinstance(st.value, ast.Call):
        nm = astu.call_name(st.value)
        if mode == 'emit' and nm == 'append_fn':
          toks.append(('emit', astu.src(st.value.args[0])))
          continue
        if nm == me:
          toks.append(('rec',))
          continue
      if isinstance(st, ast.If):
        e = emit_of(st.test) if mode == 'check' else None
        if e is not None:
          toks.append(('emit', e))
          continue
        if mode == 'check' and isinstance(st.test, ast.UnaryOp) and isinstance(st.test.operand, ast.Call) and astu.call_name(st.test.operand) == me:
          toks.append(('rec',))
          continue
        cond = astu.src(st.test)
        if cond.startswith('not '):
          cond = cond[4:]
        toks.append(('if', cond))
        walk(st.body)
        if st.orelse:
          toks.append(('else',))
          walk(st.orelse)
        toks.append(('endif',))
        continue
      if isinstance(st, ast.For):
        toks.append(('for', astu.src(st.iter)))
        walk(st.body)
        toks.append(('endfor',))
        continue
      if isinstance(st, ast.Return) and mode == 'check' and st.value is not None:
        e = emit_of(st.value)
        if e is not None:
          toks.append(('emit', e))
        continue
      if isinstance(st, (ast.Assign, ast.AugAssign)) and 'ctx.next_index' in astu.src(st):
        toks.append(('alloc', astu.src(st)))
        continue
  walk(astu.strip_docstring(f.node.body))
  return toks


def _normalise(toks):
  """Drop control tokens that only wrap a raise / nothing, and `else` vs `elif` shape differences."""
  out = []
  for t in toks:
    if t[0] in ('else', 'endif', 'endfor'):
      continue
    out.append(t)
  # an `if isinstance(value, (jax.Array, np.ndarray))` immediately before emit(value) (reject arrays) == the producer's negated guard
  return out


@rule('C04.R4', 'K5', 2, 'graph fingerprint and its check walk the graph in lock-step')
def r4(R, repo):
  mod = repo.mod(GR)
  a, b = mod.func('_graph_fingerprint'), mod.func('_check_graph_fingerprint')
  ta, tb = _normalise(_fp_tokens(a, 'emit')), _normalise(_fp_tokens(b, 'check'))
  R.require(len([t for t in ta if t[0] == 'emit']) >= 10, 'fingerprint emits not recognised')
  diff = None
  for i, (x, y) in enumerate(zip(ta, tb)):
    if x != y:
      diff = (i, x, y)
      break
  if diff is None and len(ta) != len(tb):
    i = min(len(ta), len(tb))
    diff = (i, ta[i] if i < len(ta) else None, tb[i] if i < len(tb) else None)
  skel = lambda ts: [t_ for t_ in ts if t_[0] not in ('emit', 'alloc')]
  R.judge(skel(ta) == skel(tb), diff is None, key_of(mod.rel, '_graph_fingerprint == _check_graph_fingerprint event sequence'), a,
          'the fingerprint producer and checker diverge at event %s: producer %s, checker %s — a cached jit/cached_partial trace would be accepted or rejected on the wrong element' % (diff[0] if diff else '', diff[1] if diff else '', diff[2] if diff else ''))
  na = len([t for t in ta if t[0] == 'alloc'])
  R.judge(skel(ta) == skel(tb) and na >= 1, na == len([t for t in tb if t[0] == 'alloc']), key_of(mod.rel, 'index allocation at the same points'), a, 'both sides must allocate ctx.next_index for new nodes and new Variables')


@rule('C04.R5', 'K1', 3, 'cached_partial: a structurally changed node is rejected before its Variables are updated')
def r5(R, repo):
  mod = repo.mod(GR)
  f = mod.func('MergeContext.unflatten')
  c = cfg_of(f)
  t = [n for n in c.nodes if n.kind == 'if' and astu.src(n.ast) == 'static_cache_node.final_graphdef != graphdef']
  lt = [n for n in c.nodes if n.kind == 'if' and astu.src(n.ast) == 'len(leaves) != len(static_cache_node.variables)']
  ups = [n for n in c.nodes if n.kind == 'stmt' and (('variable.update_from_state(leaf)' in astu.src(n.stmt)) or astu.src(n.stmt) == 'variable.raw_value = leaf')]
  R.require(len(ups) == 2, 'MergeContext.unflatten: cached variable updates not found')
  gd_ne = lambda e: isinstance(e, ast.Compare) and len(e.ops) == 1 and isinstance(e.ops[0], ast.NotEq) and 'final_graphdef' in astu.src(e)
  gd_eq = lambda e: isinstance(e, ast.Compare) and len(e.ops) == 1 and isinstance(e.ops[0], ast.Eq) and 'final_graphdef' in astu.src(e)
  key = key_of(f, 'graphdef comparison before updating cached variables')
  msg = 'on the cached path a graphdef mismatch must raise before any cached Variable is updated'
  if any(evid.mentions(n.ast, gd_eq) for n in c.nodes if n.kind == 'if'):
    evid.judge_guard(R, c, ups, gd_eq, key, f, msg)
  else:
    evid.judge_guard(R, c, ups, gd_ne, key, f, msg, negative=True)
  ln_ne = lambda e: isinstance(e, ast.Compare) and len(e.ops) == 1 and isinstance(e.ops[0], ast.NotEq) and 'len(leaves)' in astu.src(e)
  evid.judge_guard(R, c, ups, ln_ne, key_of(f, 'leaf count comparison before updating cached variables'), f, 'a leaf-count mismatch must raise before any cached Variable is updated', negative=True, absent_is_violation=False)
  en = mod.func('UpdateContextManager.__enter__')
  c = cfg_of(en)
  rd = [n for n in c.nodes if isinstance(n.stmt, ast.Assign) and astu.src(n.stmt) == 'static_cache = GRAPH_CONTEXT.tmp_static_cache']
  cl = [n for n in c.nodes if isinstance(n.stmt, ast.Assign) and astu.src(n.stmt) == 'GRAPH_CONTEXT.tmp_static_cache = None']
  notnone = lambda e: isinstance(e, ast.Compare) and len(e.ops) == 1 and isinstance(e.ops[0], ast.IsNot) and astu.is_const(e.comparators[0], None) and astu.src(e.left) in ('static_cache', 'GRAPH_CONTEXT.tmp_static_cache')
  isnone = lambda e: isinstance(e, ast.Compare) and len(e.ops) == 1 and isinstance(e.ops[0], ast.Is) and astu.is_const(e.comparators[0], None) and astu.src(e.left) in ('static_cache', 'GRAPH_CONTEXT.tmp_static_cache')
  none_edges = evid.est_edges(c, notnone, negative=True) + evid.est_edges(c, isnone)
  ok = len(rd) == 1 and len(cl) >= 1 and c.must_pass(rd[0], c.exit, cl, avoid_edges=none_edges)
  R.judge(len(rd) == 1, ok, key_of(en, 'tmp_static_cache consumed exactly once'), en, 'UpdateContextManager.__enter__ must clear GRAPH_CONTEXT.tmp_static_cache when it takes it')
  R.check("static_cache = ctx.static_cache if ctx is not None and self.is_inner is False else None" in astu.src(f.node), key_of(f, 'static cache only for the outer merge'), f,
          'the static cache may be consulted only by the outer merge (is_inner is False)')


@rule('C04.R6', 'K2', 4, 'split / merge / update contexts are pushed and popped in pairs, end hooks run in finally')
def r6(R, repo):
  mod = repo.mod(GR)
  for q, stack, hook in (('split_context', 'ref_index_stack', 'flatten_end'), ('merge_context', 'index_ref_stack', 'unflatten_end')):
    f = mod.func(q)
    tr = [n for n in astu.body_walk(f.node) if isinstance(n, ast.Try)]
    ok = len(tr) == 1 and tr[0].finalbody and any(('GRAPH_CONTEXT.%s.pop()' % stack) in astu.src(s_) for s_ in tr[0].finalbody)
    pushes = [s for s in f.node.body if ('GRAPH_CONTEXT.%s.append(' % stack) in astu.src(s)]
    ok = ok and len(pushes) == 1 and f.node.body.index(pushes[0]) < f.node.body.index(tr[0]) and any(isinstance(x, ast.Yield) for s in tr[0].body for x in ast.walk(s))
    pops_any = [x for x in astu.func_calls(f) if astu.src(x.func) == 'GRAPH_CONTEXT.%s.pop' % stack]
    R.judge(len(pushes) == 1 and len(tr) == 1 and (not pops_any or bool(tr[0].finalbody)), ok, key_of(f, 'push before try, pop in finally'), f, '%s must push its context, yield inside try and pop in finally' % q)
    fin = ast.Module(body=tr[0].finalbody, type_ignores=[]) if tr else None
    hooks = [x for x in ast.walk(fin) if isinstance(x, ast.Call) and astu.call_tail(x) == hook] if fin else []
    guarded = [n for n in ast.walk(fin) if isinstance(n, ast.If) and astu.src(n.test) == 'ctxtag is not None'] if fin else []
    ok = len(hooks) == 1 and len(guarded) == 1 and any(h is x for x in ast.walk(guarded[0]) for h in hooks)
    all_hooks = [x for x in astu.func_calls(f) if astu.call_tail(x) == hook]
    R.judge(not all_hooks or len(guarded) == 1, ok, key_of(f, '%s called in finally when a tag is given' % hook), f, '%s must call ctx.%s in its finally block whenever a ctxtag is given' % (q, hook))
  ex = mod.func('UpdateContextManager.__exit__')
  R.check('stack.pop()' in astu.src(ex.node) and 'del GRAPH_CONTEXT.update_context_stacks[self.tag]' in astu.src(ex.node), key_of(ex, 'pops the context it pushed'), ex, 'UpdateContextManager.__exit__ must pop the stack for its tag and drop the empty stack')
  ca = mod.func('UpdateContextManager.__call__.update_context_manager_wrapper')
  R.check('with self:' in astu.src(ca.node), key_of(ca, 'decorator form runs f under `with self`'), ca, 'update_context used as a decorator must run the function inside `with self`')


@rule('C04.R7', 'K6', 8, 'decorator re-entry (`f is Missing`) forwards every keyword-only option')
def r7(R, repo):
  REJECTED = {('grad', 'reduce_axes'), ('value_and_grad', 'reduce_axes')}
  n = 0
  for mod in _tmods(repo):
    for q, f in mod.funcs.items():
      if '.' in q or any('overload' in d for d in astu.decorator_names(f.node)):
        continue
      for st in f.node.body:
        if isinstance(st, ast.If) and ('Missing' in astu.src(st.test)):
          rets = [x for x in ast.walk(st) if isinstance(x, ast.Return) and isinstance(x.value, ast.Call) and astu.call_name(x.value) == 'functools.partial']
          if not rets:
            continue
          call = rets[0].value
          if astu.src(call.args[0]) != f.name:
            R.fail(key_of(f, 're-entry partial'), (f, call), 'the Missing branch of %s re-enters `%s`' % (f.name, astu.src(call.args[0])))
            continue
          n += 1
          kwo = astu.kwonly_params(f.node)
          pos = [p for p in astu.pos_params(f.node)[1:]]
          missing = [k for k in kwo + pos if not flow.kw_forwarded(call, k) and (f.name, k) not in REJECTED]
          R.check(not missing, key_of(f, 're-entry forwards all options'), (f, call), evidence=not astu.has_star_kwargs(call), msg_fail=
                  '%s(f=Missing, …) returns functools.partial(%s, …) without %s: the option would silently revert to its default when %s is used as a decorator factory' % (f.name, f.name, missing, f.name))
  R.require(n >= 8, 'expected >= 8 decorator re-entry sites, found %d' % n)


@rule('C04.R8', 'K1', 3, 'merging into an existing object clears it first (removed attributes do not survive) and registers it before its children')
def r8(R, repo):
  mod = repo.mod(GR)
  f = mod.func('_graph_unflatten')
  c = cfg_of(f)
  reuse = [n for n in c.nodes if isinstance(n.stmt, ast.Assign) and astu.src(n.stmt) == 'node = outer_index_outer_ref[nodedef.outer_index]']
  init = [n for n in c.nodes if n.kind == 'stmt' and 'node_impl.init(node, _get_children())' in astu.src(n.stmt)]
  clear = [n for n in c.nodes if n.kind == 'stmt' and astu.src(n.stmt) == 'node_impl.clear(node)']
  R.require(len(reuse) == 1 and len(init) == 1, '_graph_unflatten: reuse / init statements not found')
  deep_clear = evid.calls_deep(repo, f, lambda y: astu.call_tail(y) == 'clear' and 'node_impl' in astu.src(y.func))
  R.judge(bool(clear) or not deep_clear, bool(clear) and c.must_pass(reuse[0], init[0], clear, avoid_edges=c.exc_edges()), key_of(f, 'clear before init when reusing the caller\'s object'), (f, init[0].stmt),
          'when an existing object is reused, node_impl.clear(node) must run before node_impl.init(node, children): otherwise attributes deleted inside the transform survive on the caller\'s object')
  tchk = [n for n in c.nodes if n.kind == 'if' and astu.src(n.ast) == 'type(node) != nodedef.type']
  R.judge(len(tchk) == 1, len(tchk) == 1 and c.must_pass(reuse[0], init[0], tchk), key_of(f, 'type check on the reused object'), f, 'a reused object must be checked to have the recorded type')
  reg = [n for n in c.nodes if isinstance(n.stmt, ast.Assign) and astu.src(n.stmt) == 'index_ref[nodedef.index] = node']
  R.judge(len(reg) == 1, len(reg) == 1 and c.dominated(init[0], reg), key_of(f, 'registered before children are built'), f, 'index_ref[nodedef.index] = node must precede init(node, children) so that cycles resolve to the node itself')


def check_aliasing_body(R, repo):
  """check_consistent_aliasing compares *every* prefix recorded for a node and rejects more than one distinct value."""
  f = repo.func(EX, 'check_consistent_aliasing')
  c = cfg_of(f)
  key = key_of(f, 'a node reached under two different prefixes is rejected (None counts as a prefix)')
  tests = [n for n in c.nodes if n.kind == 'if' and isinstance(n.ast, ast.Compare) and len(n.ast.ops) == 1 and isinstance(n.ast.left, ast.Call) and astu.call_name(n.ast.left) == 'len'
           and n.ast.left.args and isinstance(n.ast.left.args[0], ast.Name)]
  cand = []
  for t in tests:
    for d in flow.defs(f, t.ast.left.args[0].id):
      if isinstance(d[0], (ast.SetComp, ast.Call)):
        cand.append((t, d[0]))
  cand = [(t, d) for t, d in cand if isinstance(d, ast.SetComp) or (astu.call_name(d) == 'set' and d.args and isinstance(d.args[0], (ast.GeneratorExp, ast.ListComp)))]
  if len(cand) != 1:
    R.unsure(key, f, 'the `len(<set of prefixes>) > 1` test was not recognised')
    return
  t, d = cand[0]
  comp = d if isinstance(d, ast.SetComp) else d.args[0]
  op, rhs = t.ast.ops[0], t.ast.comparators[0]
  # which outcome of the test leads to the report (node_msgs.append / raise)?  `if len(s) <= 1: continue` reports on the false edge
  acts = [n for n in c.nodes if n is not t and n.kind == 'stmt' and any(isinstance(x, ast.Call) and astu.call_tail(x) == 'append' for x in ast.walk(n.stmt)) or isinstance(n.stmt, ast.Raise)]
  on_true = [n for n in acts if c.edge_guarded(n, t, 'T')]
  on_false = [n for n in acts if c.edge_guarded(n, t, 'F')]
  if on_false and not on_true:
    op = {ast.LtE: ast.Gt, ast.Lt: ast.GtE, ast.Eq: ast.NotEq, ast.Gt: ast.LtE, ast.GtE: ast.Lt, ast.NotEq: ast.Eq}.get(type(op), type(op))()
  elif not on_true:
    R.unsure(key, (f, t.stmt), 'what the `%s` test guards was not recognised' % astu.short(t.ast))
    return
  thr_ok = (isinstance(op, ast.Gt) and astu.is_const(rhs, 1)) or (isinstance(op, ast.GtE) and astu.is_const(rhs, 2)) or (isinstance(op, ast.NotEq) and astu.is_const(rhs, 1))
  filt = [i for g in comp.generators for i in g.ifs]
  if filt:
    R.fail(key, (f, comp), '`%s` leaves prefixes out of the comparison (`if %s`): the same node passed under two different specifications — for instance axis 0 and None — is silently resolved instead of raising "Inconsistent aliasing"' % (astu.short(comp), astu.short(filt[0])))
  elif not thr_ok and isinstance(rhs, ast.Constant):
    R.fail(key, (f, t.stmt), '`%s`: two distinct prefixes for one node must already be rejected' % astu.short(t.ast))
  elif thr_ok:
    R.ok(key, (f, t.stmt))
  else:
    R.unsure(key, (f, t.stmt), 'threshold `%s` not recognised' % astu.short(t.ast))
  raises = [n for n in c.nodes if isinstance(n.stmt, ast.Raise) and astu.raised_name(n.stmt) == 'ValueError' and 'aliasing' in astu.src(n.stmt).lower()]
  R.judge(bool(raises) or not evid.raises_deep(repo, f, 'ValueError'), bool(raises), key_of(f, 'inconsistent aliasing raises'), f, 'check_consistent_aliasing must raise ValueError for inconsistent aliasing')


@rule('C04.R13', 'K4', 1, 'the outer split remembers *every* object it indexed (graph nodes and Variables) for the final merge')
def r13(R, repo):
  f = repo.func(GR, 'UpdateContext.flatten_end')
  key = key_of(f, 'index -> object map inverts the whole reference map')
  comps = [n for n in astu.body_walk(f.node) if isinstance(n, ast.DictComp) and isinstance(n.generators[0].iter, ast.Call) and astu.call_tail(n.generators[0].iter) == 'items']
  if len(comps) != 1:
    R.unsure(key, f, 'the {index: object} comprehension was not recognised')
    return
  g = comps[0].generators[0]
  if g.ifs:
    R.fail(key, (f, comps[0]), '`%s` leaves objects out of the index -> object map (`if %s`): the final merge cannot find the caller\'s object for those indices and builds fresh ones, so references the caller holds (e.g. to its Variables) go stale after every transform' % (astu.short(comps[0]), astu.short(g.ifs[0])))
  else:
    R.ok(key, (f, comps[0]))


@rule('C04.R12', 'K4', 8, 'inner functions hand back the caller\'s graph nodes at every depth of the arguments (extract.clear_non_graph_nodes), not only top-level ones')
def r12(R, repo):
  n = 0
  for mod in _tmods(repo):
    for f in mod.funcs.values():
      for call in astu.func_calls(f):
        if astu.call_tail(call) != 'to_tree' or not call.args or not isinstance(call.args[0], ast.Tuple) or len(call.args[0].elts) < 2:
          continue
        first = call.args[0].elts[0]
        if not isinstance(first, ast.Name):
          continue
        exprs = [e for e in evid.expand(f, first) if isinstance(e, ast.AST) and not isinstance(e, ast.Name)]
        cleared = [e for e in exprs for x in ast.walk(e) if isinstance(x, ast.Call) and astu.call_tail(x) == 'clear_non_graph_nodes']
        shallow = [e for e in exprs if (isinstance(e, (ast.GeneratorExp, ast.ListComp)) or (isinstance(e, ast.Call) and astu.call_name(e) in ('tuple', 'list') and e.args and isinstance(e.args[0], (ast.GeneratorExp, ast.ListComp))))
                   and any(isinstance(y, ast.IfExp) and (astu.is_const(y.orelse, None) or astu.is_const(y.body, None)) for y in ast.walk(e))]
        key = key_of(f, 'arguments sent back through clear_non_graph_nodes')
        if cleared:
          n += 1
          R.ok(key, (f, call))
        elif shallow:
          n += 1
          R.fail(key, (f, shallow[0]), '`%s` keeps graph nodes only when they are top-level arguments: a Module or Variable passed inside a tuple, list or dict argument is replaced by None on the way out, so the updates made to it inside the transform never reach the caller\'s object' % astu.short(shallow[0], 120))
  R.require(n >= 8, 'expected >= 8 inner to_tree((args_out, out)) sites, found %d' % n)


@rule('C04.R11', 'K5', 6, 'context stacks are LIFO: pushed with append, popped with pop(), and the current context is the last element')
def r11(R, repo):
  mod = repo.mod(GR)
  stacks = set()
  for f in mod.funcs.values():
    for x in astu.func_calls(f):
      if isinstance(x.func, ast.Attribute) and x.func.attr in ('append', 'pop') and 'GRAPH_CONTEXT.' in astu.src(x.func.value):
        base = x.func.value
        while isinstance(base, ast.Subscript):
          base = base.value
        stacks.add(astu.src(base))
  R.require(len(stacks) >= 3, 'context stacks of GRAPH_CONTEXT not found (got %s)' % sorted(stacks))
  for f in mod.funcs.values():
    local = {n_ for n_ in {t.id for st in astu.body_walk(f.node) if isinstance(st, ast.Assign) for t in st.targets if isinstance(t, ast.Name)}
             if any(isinstance(d[0], ast.AST) and any(astu.src(b) in stacks for b in ast.walk(d[0])) and isinstance(d[0], (ast.Subscript, ast.Attribute)) for d in flow.defs(f, n_))}
    for n in astu.body_walk(f.node):
      if isinstance(n, ast.Subscript) and isinstance(n.ctx, ast.Load):
        base = n.value
        through = astu.src(base)
        is_stack = through in stacks or (isinstance(base, ast.Subscript) and astu.src(base.value) in stacks and through not in stacks) or (isinstance(base, ast.Name) and base.id in local)
        if not is_stack or astu.src(n) in stacks:
          continue
        if isinstance(base, ast.Name) and base.id in local and not isinstance(n.slice, (ast.Constant, ast.UnaryOp)):
          continue
        if through in stacks and not isinstance(n.slice, (ast.Constant, ast.UnaryOp)):
          continue  # update_context_stacks[tag]: selecting the stack of a tag, not an element of a stack
        idx = n.slice
        key = key_of(f, 'current context = last element of %s' % through)
        if isinstance(idx, ast.UnaryOp) and isinstance(idx.op, ast.USub) and astu.is_const(idx.operand, 1):
          R.ok(key, (f, n))
        elif isinstance(idx, ast.Constant) and isinstance(idx.value, int):
          R.fail(key, (f, n), '`%s` takes element %d of a context stack: a transform nested inside the same kind of transform would use the *outer* call\'s context instead of its own' % (astu.short(n), idx.value))
      if isinstance(n, ast.Call) and isinstance(n.func, ast.Attribute) and n.func.attr == 'pop':
        base = n.func.value
        through = astu.src(base)
        keyed = {astu.src(x_.value) for x_ in ast.walk(mod.tree) if isinstance(x_, ast.Subscript) and astu.src(x_.value) in stacks and not isinstance(x_.slice, (ast.Constant, ast.UnaryOp))}
        # a dict of stacks (update_context_stacks[tag]) is popped through one of its values, a plain stack directly
        if (through in stacks and through not in keyed) or (isinstance(base, ast.Name) and base.id in local) or (isinstance(base, ast.Subscript) and astu.src(base.value) in stacks):
          key = key_of(f, 'pop() removes the last element of %s' % through)
          if not n.args:
            R.ok(key, (f, n))
          elif isinstance(n.args[0], ast.Constant) and n.args[0].value in (0,):
            R.fail(key, (f, n), '`%s` pops the oldest context: nested contexts are unwound in the wrong order' % astu.short(n))


@rule('C04.R10', 'K1', 2, 'one object passed under two different specifications is rejected, whatever the specifications are')
def r10(R, repo):
  check_aliasing_body(R, repo)


@rule('C04.R9', 'K12', 1, 'indices of the caller\'s objects (0 = the first argument) are never tested for truth (shared with C03.R9)')
def r9(R, repo):
  from . import c03 as _c03
  _c03.check_index_truthiness(R, repo)


meta('C04',
     explanation='Protocol rules over every extract.to_tree/from_tree call and graph.update_context use in flax/nnx/transforms/*.py (tag agreement, is_inner roles, dominance / '
     'post-dominance of split and merge, outer wrapper under update_context, result returned, inner<->outer tag table incl. constructor-linked tags), representation pairing of '
     'split/merge functions, aliasing-check reachability and the shared notion of graph leaf in extract.py, lock-step event sequences of the fingerprint producer/checker, '
     'cached_partial staleness guard, context push/pop pairing, decorator re-entry keyword plumbing, clear-before-init when merging into the caller\'s objects.',
     not_decided=['equality of returned values with eager execution', 'loop = unrolled loop (jax semantics)', 'trace-cache behaviour of jax.jit itself'],
     mutants=[
         Mutant('C04-m1', TDIR + 'iteration.py', "    args = extract.from_tree(pure_args, ctxtag='vmap', is_inner=True)", "    args = extract.from_tree(pure_args, ctxtag='pmap', is_inner=True)", 'C04.R1'),
         Mutant('C04-m2', TDIR + 'iteration.py', "    _args_out, out = extract.from_tree(\n      (pure_args_out, pure_out), ctxtag='vmap', is_inner=False\n    )", "    _args_out, out = extract.from_tree(\n      (pure_args_out, pure_out), is_inner=False\n    )", 'C04.R1'),
         Mutant('C04-m3', TDIR + 'general.py', "    args = extract.from_tree(pure_args, ctxtag=ctxtag, is_inner=True)", "    args = extract.from_tree(pure_args, ctxtag=ctxtag, is_inner=False)", 'C04.R1'),
         Mutant('C04-m4', EX, "    lambda x: x\n    if graph.is_graph_node(x) or isinstance(x, variablelib.Variable)\n    else None,", "    lambda x: x\n    if graph.is_graph_node(x)\n    else None,", 'C04.R3', why='seed C04-B'),
         Mutant('C04-m5', GR, "      node_impl.clear(node)\n    else:\n      node = node_impl.create_empty(nodedef.metadata)", "    else:\n      node = node_impl.create_empty(nodedef.metadata)", 'C04.R8', why='seed C04-A'),
         Mutant('C04-m6', GR, "      append_fn(id(value))\n      append_fn(type(value))", "      append_fn(type(value))", 'C04.R4'),
         Mutant('C04-m7', TDIR + 'transforms.py', "    general.merge_inputs(false_fun, ctxtag='cond'),", "    general.merge_inputs(false_fun, ctxtag='switch'),", 'C04.R1'),
         Mutant('C04-m8', TDIR + 'compilation.py', "    JitFn(fun, in_shardings, out_shardings, kwarg_shardings, jit_wrapper),", "    JitFn(fun, in_shardings, out_shardings, kwarg_shardings, fun),", 'C04.R1'),
         Mutant('C04-m9', GR, "          if static_cache_node.final_graphdef != graphdef:", "          if False and static_cache_node.final_graphdef != graphdef:", 'C04.R5'),
         Mutant('C04-m10', GR, "      outer_index_outer_ref is not None\n", "      outer_index_outer_ref\n      and nodedef.outer_index\n", 'C04.R9', why='seed C04-C (round 2)'),
         Mutant('C04-m11', EX, "        if check_aliasing:\n", "        if check_aliasing and leaf_prefix is not None:\n", 'C04.R3', why='seed C08-D (round 2)'),
         Mutant('C04-b1', TDIR + 'general.py', "    pure_args = extract.to_tree(args, ctxtag=ctxtag)\n    pure_args_out, pure_out = f(*pure_args)", "    pure = extract.to_tree(args, ctxtag=ctxtag)\n    pure_args_out, pure_out = f(*pure)", kind='benign'),
     ])
