"""C18 — Linen <-> NNX bridge wrappers behave like the module they wrap."""
from __future__ import annotations

import ast

from .. import astu, evid, flow, types
from ..cfg import cfg_of
from ..model import AnalysisError, Func
from ..report import key_of
from . import Mutant, meta, rule
from .c15 import MUTATORS

VL = 'flax/nnx/variablelib.py'
BV = 'flax/nnx/bridge/variables.py'
BW = 'flax/nnx/bridge/wrappers.py'
ME = 'flax/core/meta.py'
LS = 'flax/linen/spmd.py'


@rule('C18.R1', 'K4+K3', 8, 'collection name <-> Variable type registry is a bijection with a single writer pair')
def r1(R, repo):
  mod = repo.mod(VL)
  regs = [n for n in mod.tree.body if isinstance(n, ast.Expr) and isinstance(n.value, ast.Call) and astu.call_name(n.value) == 'register_variable_name']
  names = [astu.const_str(n.value.args[0]) for n in regs]
  tys = [astu.src(n.value.args[1]) for n in regs]
  R.judge(len(regs) >= 5, len(set(names)) == len(names) and len(set(tys)) == len(tys), key_of(mod.rel, 'built-in registrations are one-to-one'), mod,
          'module-level register_variable_name calls must map distinct names to distinct types: %s' % list(zip(names, tys)))
  want = {'params': 'Param', 'batch_stats': 'BatchStat', 'cache': 'Cache', 'intermediates': 'Intermediate', 'perturbations': 'Perturbation'}
  for k, v in want.items():
    R.judge(len(regs) >= 5, dict(zip(names, tys)).get(k) == v, key_of(mod.rel, '%s <-> %s' % (k, v)), mod, 'Linen collection %r must map to nnx.%s' % (k, v))
  writers = set()
  for f in mod.funcs.values():
    for n in astu.body_walk(f.node):
      if isinstance(n, ast.Subscript) and isinstance(n.ctx, (ast.Store, ast.Del)) and astu.src(n.value) == 'VariableTypeCache':
        writers.add(f.qual)
  R.judge(bool(writers), writers <= {'variable_type_from_name', 'register_variable_name'}, key_of(mod.rel, 'registry written only by its two registration functions'), mod, 'VariableTypeCache is written by %s' % sorted(writers))
  rg = mod.func('register_variable_name')
  c = cfg_of(rg)
  st = [n for n in c.nodes if isinstance(n.stmt, ast.Assign) and astu.src(n.stmt.targets[0]) == 'VariableTypeCache[name]']
  t = [n for n in c.nodes if n.kind == 'if' and astu.src(n.ast) == 'not overwrite and name in VariableTypeCache']
  rs = [n for n in c.nodes if isinstance(n.stmt, ast.Raise)]
  ok = len(st) == 1 and len(t) == 1 and any(c.edge_guarded(r_, t[0], 'T') for r_ in rs) and c.edge_guarded(st[0], t[0], 'F') and astu.is_const(astu.param_default(rg.node, 'overwrite'), False)
  may, must = evid.reach_env(c, {'overwrite': False, 'name in VariableTypeCache': True, 'name not in VariableTypeCache': False})
  key = key_of(rg, 'refuses to rebind a name without overwrite')
  if st and any(s_ in must for s_ in st):
    R.fail(key, rg, 'register_variable_name rebinds a name that is already mapped although overwrite is false: `%s` is reached' % astu.short([s_ for s_ in st if s_ in must][0].stmt))
  elif ok or (st and not any(s_ in may for s_ in st) and astu.is_const(astu.param_default(rg.node, 'overwrite'), False)):
    R.ok(key, rg)
  else:
    R.unsure(key, rg, 'register_variable_name must raise when the name is already mapped and overwrite is false')
  vn = mod.func('variable_name_from_type')
  tpar = astu.params(vn.node)[0]
  loose = [x for lp_ in astu.body_walk(vn.node) if isinstance(lp_, ast.For) for t_ in ast.walk(lp_) if isinstance(t_, ast.If) for x in ast.walk(t_.test)
           if isinstance(x, ast.Call) and astu.call_name(x) in ('issubclass', 'isinstance') and x.args and astu.src(x.args[0]) == tpar]
  if loose:
    R.fail(key_of(vn, 'exact type match, else register under the class name'), (vn, loose[0]), '`%s` maps a Variable subclass to the name of the first registered base class: ToLinen then files e.g. a LoRAParam under `params` (and a Perturbation under `intermediates`) instead of under its own collection, so the Linen variable tree no longer mirrors the NNX state' % astu.short(loose[0]))
  else:
    R.check('if typ == t' in astu.src(vn.node) and 'register_variable_name(name, typ)' in astu.src(vn.node), key_of(vn, 'exact type match, else register under the class name'), vn,
            'variable_name_from_type must look the type up by equality (not isinstance) and otherwise register it under its class name')
  # the bridge translates collections <-> types only through the registry
  for rel in (BV, BW):
    m = repo.mod(rel)
    for f in m.funcs.values():
      for x in astu.func_calls(f):
        nm = astu.call_name(x) or ''
        if nm.endswith('VariableTypeCache.get') or 'VariableTypeCache[' in astu.src(x):
          R.fail(key_of(f, 'direct registry access'), (f, x), 'the bridge must translate names through variable_name_from_type / variable_type_from_name')


@rule('C18.R2', 'K3', 7, 'converting a variable never mutates the object it converts')
def r2(R, repo):
  bv = repo.mod(BV)
  targets = [bv.func(q) for q in ('to_nnx_var', 'to_linen_var', 'linen_vars_to_nnx_attrs', 'nnx_attrs_to_linen_vars')]
  for rel in (ME, LS, BV):
    m = repo.mod(rel)
    targets += [f for q, f in m.funcs.items() if q.endswith('.to_nnx_metadata') or q.endswith('.to_nnx_variable')]
  for f in targets:
    ps = [p for p in astu.params(f.node) if p != 'cls']
    aliases = set(ps)
    for n in astu.body_walk(f.node):
      if isinstance(n, ast.Assign) and len(n.targets) == 1 and isinstance(n.targets[0], ast.Name):
        s = astu.src(n.value)
        if any(s in ('vars(%s)' % p, '%s.__dict__' % p, p) for p in ps):
          aliases.add(n.targets[0].id)
    bad = None
    for n in astu.body_walk(f.node):
      if isinstance(n, (ast.Subscript, ast.Attribute)) and isinstance(n.ctx, (ast.Store, ast.Del)) and isinstance(n.value, ast.Name) and n.value.id in aliases:
        bad = (n, '`%s` writes into the converted object' % astu.short(astu.enclosing_stmt(n)))
      if isinstance(n, ast.Call) and isinstance(n.func, ast.Attribute) and n.func.attr in MUTATORS and isinstance(n.func.value, ast.Name) and n.func.value.id in aliases:
        bad = (n, '`%s` mutates the converted object' % astu.short(n))
      if isinstance(n, ast.Call) and astu.call_name(n) in ('setattr', 'object.__setattr__', 'delattr') and n.args and astu.src(n.args[0]) in aliases:
        bad = (n, '`%s` sets an attribute on the converted object' % astu.short(n))
    R.check(bad is None, key_of(f, 'input not mutated'), (f, bad[0]) if bad else f, '%s: %s' % (f.qual, bad[1] if bad else ''), evidence=True)
  # from_nnx_metadata renames keys in the dict it is given: every caller must hand it a fresh dict
  n_call = 0
  for m in repo.mods_with('from_nnx_metadata('):
    for f in m.funcs.values():
      for x in astu.func_calls(f):
        if astu.call_tail(x) == 'from_nnx_metadata':
          n_call += 1
          a0_ = x.args[0] if x.args else None
          fresh_ = a0_ is not None and any(isinstance(e_, (ast.Dict, ast.DictComp)) or (isinstance(e_, ast.Call) and astu.call_name(e_) in ('dict', 'copy.copy', 'copy.deepcopy')) for e_ in evid.expand(f, a0_) if isinstance(e_, ast.AST))
          shared_ = a0_ is not None and (isinstance(a0_, ast.Attribute) or (isinstance(a0_, ast.Name) and a0_.id in astu.params(f.node) and not [d for d in flow.defs(f, a0_.id) if isinstance(d[0], ast.AST)]))
          R.judge(fresh_ or shared_, fresh_, key_of(f, 'from_nnx_metadata receives a fresh dict'), (f, x),
                  'from_nnx_metadata pops keys from its argument; it must be called with a freshly built dict, got `%s`' % astu.short(x.args[0] if x.args else x))
  R.require(n_call >= 1, 'no from_nnx_metadata call found')


@rule('C18.R3', 'K1', 9, 'mutable updates propagate: ToNNX deep-merges them into its state, ToLinen writes the module state back')
def r3(R, repo):
  bw = repo.mod(BW)
  f = bw.func('ToNNX.__call__')
  c = cfg_of(f)
  t = [n for n in c.nodes if n.kind == 'if' and "kwargs.get('mutable', False) != False" in astu.src(n.ast)]
  R.require(len(t) == 1, "ToNNX.__call__: `kwargs.get('mutable', False) != False` test not found")
  conv = [n for n in c.nodes if isinstance(n.stmt, ast.Assign) and astu.src(n.stmt.value) == 'bv.linen_vars_to_nnx_attrs(updates)']
  sets = [n for n in c.nodes if n.kind == 'stmt' and isinstance(n.stmt, ast.Expr) and isinstance(n.stmt.value, ast.Call) and astu.call_name(n.stmt.value) == 'setattr' and c.edge_guarded(n, t[0], 'T')]
  lp = [n for n in c.nodes if n.kind == 'for' and c.edge_guarded(n, t[0], 'T')]
  ok = len(conv) == 1 and c.edge_guarded(conv[0], t[0], 'T') and len(lp) == 1 and astu.src(lp[0].ast) == 'nnx_attrs.items()' and len(sets) >= 1
  firsts = [m for m, lab in c.succ[lp[0]] if lab == 'T'] if lp else []
  ok = ok and all(s in sets or lp[0] not in c.reach([s], avoid=sets) for s in firsts)
  R.judge(len(conv) == 1 and len(lp) == 1, ok, key_of(f, 'every updated attribute is stored on the wrapper'), f, 'with mutable collections, every attribute converted from the returned updates must be stored on self')
  unp = [n for n in c.nodes if isinstance(n.stmt, ast.Assign) and astu.src(n.stmt) == 'out, updates = out' and c.edge_guarded(n, t[0], 'T')]
  R.check(len(unp) == 1, key_of(f, '(out, updates) unpacked'), f, 'the (output, updates) pair returned by apply must be unpacked so that only the output is returned')
  # existing dict attributes are deep-merged, the update winning
  merged = [s for s in sets if astu.src(s.stmt.value.args[2]) != 'value']
  okm = False
  msg = 'no merge of the update into the stored attribute found'
  if len(merged) == 1:
    v = merged[0].stmt.value.args[2]
    orig = None
    for d in flow.defs(f, 'original_tree'):
      if not isinstance(d[0], tuple):
        orig = d[0]
    if isinstance(v, ast.Call) and astu.call_tail(v) == '_recursive_merge' and [astu.src(a) for a in v.args] == ['original_tree', 'value'] and orig is not None and astu.src(orig) == 'getattr(self, attr_name)':
      okm = True
    else:
      msg = '`%s` is not a recursive merge of (stored tree, update) with the update winning: a shallow `|`/dict() replaces a nested sub-dict and drops the sibling variables stored next to the updated ones; merging in the other order keeps stale values' % astu.short(v)
  vm = merged[0].stmt.value.args[2] if len(merged) == 1 else None
  def _shallow(e):
    return (isinstance(e, ast.BinOp) and isinstance(e.op, ast.BitOr)) or (isinstance(e, ast.Dict) and None in e.keys) or \
        (isinstance(e, ast.Call) and astu.call_name(e) == 'dict' and (len(e.args) + len(e.keywords)) >= 2)
  cands = [e for s_ in sets for e in evid.expand(f, s_.stmt.value.args[2]) if isinstance(e, ast.AST)] + [d[0] for d in flow.defs(f, 'value') if isinstance(d[0], ast.AST)]
  shallow = (vm is not None and _shallow(vm)) or any(_shallow(e) for e in cands)
  swapped = vm is not None and isinstance(vm, ast.Call) and astu.call_tail(vm) == '_recursive_merge' and [astu.src(a) for a in vm.args] == ['value', 'original_tree']
  R.judge(okm or shallow or swapped, okm, key_of(f, 'update deep-merged into the stored attribute, update wins'), (f, merged[0].stmt) if merged else f, 'ToNNX.__call__: ' + msg)
  rm = repo.func(BV, '_recursive_merge')
  src = astu.src(rm.node)
  ps = astu.params(rm.node)
  ok = 'flat_map = traversals.flatten_mapping(%s)' % ps[0] in src and 'flat_map |= traversals.flatten_mapping(%s)' % ps[1] in src and 'traversals.unflatten_mapping(flat_map)' in src
  sd_ = [x for x in astu.func_calls(rm) if astu.call_tail(x) == 'setdefault']
  first_wins = [x for x in ast.walk(rm.node) if isinstance(x, ast.AugAssign) and isinstance(x.op, ast.BitOr) and ps[0] in astu.names_loaded(x.value) and ps[1] not in astu.names_loaded(x.value)]
  if (sd_ or first_wins) and not ok:
    w_ = (sd_ or first_wins)[0]
    R.fail(key_of(rm, 'flat merge, second argument wins'), (rm, w_), '`%s` keeps the entries of the first mapping: _recursive_merge(stored, update) then lets the *stored* value win, so mutable updates of nested sub-modules (e.g. BatchNorm statistics inside a Linen model wrapped by ToNNX) are dropped' % astu.short(w_))
  else:
    R.check(ok, key_of(rm, 'flat merge, second argument wins'), rm, '_recursive_merge must merge the flattened mappings with the second argument winning')
  # init path stores every converted attribute
  ini = [n for n in c.nodes if n.kind == 'if' and astu.src(n.ast) == 'self._object__state.initializing']
  iset = [n for n in c.nodes if n.kind == 'stmt' and isinstance(n.stmt, ast.Expr) and isinstance(n.stmt.value, ast.Call) and astu.call_name(n.stmt.value) == 'setattr' and ini and c.edge_guarded(n, ini[0], 'T')]
  R.check(len(ini) == 1 and len(iset) == 1 and astu.src(iset[0].stmt.value) == 'setattr(self, attr_name, value)', key_of(f, 'init stores every converted attribute'), f, 'on the init path every attribute converted from the initial variables must be set on self')
  ap = [x for x in astu.func_calls(f) if astu.src(x.func) == 'self.module.apply']
  ok = len(ap) == 1 and astu.src(ap[0].args[0]) == 'variables' and flow.kw_forwarded(ap[0], 'method') and astu.src(astu.kwarg(ap[0], 'rngs')) == '_rngs'
  vd = [d[0] for d in flow.defs(f, 'variables') if not isinstance(d[0], tuple)]
  ok = ok and any(astu.src(d) == 'bv.nnx_attrs_to_linen_vars(nnx_attrs)' for d in vd)
  R.check(ok, key_of(f, 'apply(variables held by the wrapper, …)'), f, 'ToNNX must call module.apply on the variables converted from its own attributes, forwarding method and rngs')
  # ToLinen
  g = bw.func('ToLinen.__call__')
  cg = cfg_of(g)
  ups = [n for x in astu.func_calls(g) if astu.src(x) == 'self._update_variables(module)' for n in cg.nodes_for(x)]
  it = [n for n in cg.nodes if n.kind == 'if' and astu.src(n.ast) == 'self.is_initializing()']
  calls = [n for n in cg.nodes if n.kind == 'stmt' and 'module(*args, **kwargs)' in astu.src(n.stmt)]
  ok = len(ups) == 2 and len(it) == 1 and len(calls) == 2
  if ok:
    init_up = [u for u in ups if cg.edge_guarded(u, it[0], 'T')]
    app_up = [u for u in ups if cg.edge_guarded(u, it[0], 'F')]
    app_call = [x for x in calls if cg.edge_guarded(x, it[0], 'F')]
    ok = len(init_up) == 1 and len(app_up) == 1 and len(app_call) == 1 and app_up[0] in cg.reach(app_call) and app_call[0] not in cg.reach(app_up)
  R.judge(len(ups) == 2 and len(it) == 1 and len(calls) == 2, ok, key_of(g, '_update_variables after the module ran (apply) / after construction (init)'), g, 'ToLinen.__call__ must write the module state back with _update_variables after calling the module (apply path) and for the freshly built module (init path)')
  uv = bw.func('ToLinen._update_variables')
  cu = cfg_of(uv)
  puts = [n for x in astu.func_calls(uv) if astu.src(x.func) == 'self.put_variable' for n in cu.nodes_for(x)]
  R.require(len(puts) == 2, 'ToLinen._update_variables: two put_variable sites expected')
  for p_ in puts:
    call = [x for x in ast.walk(p_.stmt) if isinstance(x, ast.Call) and astu.src(x.func) == 'self.put_variable'][0]
    col = astu.src(call.args[0])
    tests = [t_ for t_ in cu.nodes if t_.kind == 'if' and astu.src(t_.ast) == 'self.is_mutable_collection(%s)' % col]
    R.judge(len(tests) == 1, len(tests) == 1 and cu.edge_guarded(p_, tests[0], 'T'), key_of(uv, 'put_variable(%s, …) only when mutable' % col), (uv, p_.stmt), 'the collection %s must be written only when it is mutable' % col)
  cd = types.single_def(uv.node, 'collection')
  R.check(cd is not None and astu.src(cd).startswith('variablelib.variable_name_from_type(typ'), key_of(uv, 'collection named after the Variable type'), uv, 'each type\'s state must be written to the collection named by variable_name_from_type(typ)')
  R.check("self.put_variable('nnx', 'graphdef', gdef)" in astu.src(uv.node), key_of(uv, "graphdef stored under ('nnx', 'graphdef')"), uv, "the graphdef must be stored under ('nnx', 'graphdef'), where __call__ reads it")
  R.check("self.get_variable('nnx', 'graphdef')" in astu.src(g.node), key_of(g, "graphdef read from ('nnx', 'graphdef')"), g, "ToLinen.__call__ must read the graphdef from ('nnx', 'graphdef')")
  sp = [x for x in astu.func_calls(uv) if astu.call_name(x) == 'nnx.split' and any(isinstance(a, ast.Starred) for a in x.args)]
  srt = types.single_def(uv.node, 'types')
  tdefs = [d[0] for d in flow.defs(uv, 'types') if not isinstance(d[0], tuple)]
  ok = len(sp) == 1 and astu.src(sp[0].args[1]) == '*types' and any(astu.src(d) == 'bv.sort_variable_types(types)' for d in tdefs)
  R.check(ok, key_of(uv, 'state split by types sorted most-derived first'), uv, 'the module state must be split by the Variable types ordered by bv.sort_variable_types (subclasses before their bases: nnx.split is first-match with isinstance)')
  sv = repo.func(BV, 'sort_variable_types')
  rets = [n.value for n in astu.body_walk(sv.node) if isinstance(n, ast.Return)]
  ok = False
  if len(rets) == 1 and isinstance(rets[0], ast.Call) and astu.call_name(rets[0]) == 'sorted' and isinstance(astu.kwarg(rets[0], 'key'), ast.Lambda) and astu.kwarg(rets[0], 'reverse') is None:
    body = astu.kwarg(rets[0], 'key').body
    first = body.elts[0] if isinstance(body, ast.Tuple) else body
    ok = isinstance(first, ast.UnaryOp) and isinstance(first.op, ast.USub) and astu.src(first.operand).startswith('parent_count[')
  # the same order spelled `key=lambda t: parent_count[t], reverse=True` (a reverse sort is stable as well)
  if len(rets) == 1 and isinstance(rets[0], ast.Call) and astu.call_name(rets[0]) == 'sorted' and isinstance(astu.kwarg(rets[0], 'key'), ast.Lambda) and astu.is_const(astu.kwarg(rets[0], 'reverse'), True):
    body = astu.kwarg(rets[0], 'key').body
    first = body.elts[0] if isinstance(body, ast.Tuple) else body
    ok = not isinstance(body, ast.Tuple) and astu.src(first).startswith('parent_count[')
  pc = flow.defs(sv, 'parent_count')
  # the counting helper may be nested or a module-level function called from here
  ctext = astu.src(sv.node) + ''.join(astu.src(g_.node) for g_ in (sv.mod.funcs.get(astu.call_name(x) or '') for x in astu.func_calls(sv)) if g_ is not None)
  has_count = 'issubclass(p, variablelib.Variable)' in ctext and 't.mro()' in ctext
  sign_ok = ok
  ok = ok and has_count
  keyl = astu.kwarg(rets[0], 'key') if len(rets) == 1 and isinstance(rets[0], ast.Call) and astu.call_name(rets[0]) == 'sorted' else None
  asc = keyl is not None and 'parent_count' in astu.src(keyl) and not any(isinstance(x, ast.UnaryOp) and isinstance(x.op, ast.USub) for x in ast.walk(keyl)) and not astu.is_const(astu.kwarg(rets[0], 'reverse'), True)
  # key=<the counting function itself>: ascending by the number of Variable ancestors, i.e. bases first
  if len(rets) == 1 and isinstance(rets[0], ast.Call) and astu.call_name(rets[0]) == 'sorted' and isinstance(astu.kwarg(rets[0], 'key'), ast.Name) and not astu.is_const(astu.kwarg(rets[0], 'reverse'), True):
    kf = sv.mod.funcs.get(sv.qual + '.' + astu.kwarg(rets[0], 'key').id)
    if kf is not None and 'mro()' in astu.src(kf.node):
      R.fail(key_of(sv, 'sorted by number of Variable ancestors, descending, as the primary key'), (sv, rets[0]), '`%s` sorts ascending by the number of Variable ancestors: base classes come first and (nnx.split being first-match with isinstance) swallow the variables of their subclasses' % astu.short(rets[0]))
      return
  # a later stable sort by another key becomes the primary order: follow `sorted(<name bound to sorted(...)>, key=...)`
  resorted = None
  if len(rets) == 1 and isinstance(rets[0], ast.Call) and astu.call_name(rets[0]) == 'sorted' and rets[0].args and (keyl is None or 'parent_count' not in astu.src(keyl)):
    inner = [e for e in evid.expand(sv, rets[0].args[0]) if isinstance(e, ast.Call) and astu.call_name(e) == 'sorted' and astu.kwarg(e, 'key') is not None and 'parent_count' in astu.src(astu.kwarg(e, 'key'))]
    if inner:
      resorted = inner[0]
  if resorted is not None:
    R.fail(key_of(sv, 'sorted by number of Variable ancestors, descending, as the primary key'), (sv, rets[0]),
           '`%s` re-sorts the depth-ordered types by another key: the number of Variable ancestors is no longer the primary order, so a base class can precede its subclass and (nnx.split being first-match) swallow the subclass\'s variables' % astu.short(rets[0]))
    return
  if sign_ok and not has_count and not asc:
    R.unsure(key_of(sv, 'sorted by number of Variable ancestors, descending, as the primary key'), sv, 'the function that counts the Variable classes in the MRO was not found')
    return
  R.judge((isinstance(keyl, ast.Lambda) and 'parent_count' in astu.src(keyl)) or asc, ok and not asc, key_of(sv, 'sorted by number of Variable ancestors, descending, as the primary key'), sv,
          'sort_variable_types must order types by -(number of Variable classes in the MRO) as the primary key, so that a subclass always precedes its base')


def _box_fields(repo, mod, cls, depth=0):
  """Annotated dataclass fields of a metadata box class, including those of its bases inside the repository."""
  c = mod.classes.get(cls)
  if c is None or depth > 4:
    return None
  out = []
  for b in c.bases:
    name = astu.dotted(b.value if isinstance(b, ast.Subscript) else b) or ''
    tail = name.split('.')[-1]
    if tail in ('PyTreeNode', 'Generic') or tail.startswith('AxisMetadata'):
      continue
    target = None
    if tail in mod.classes:
      target = (mod, tail)
    else:
      head = name.split('.')[0]
      imp = mod.imports.get(head)
      if imp:
        rel = imp.replace('.', '/') + '.py'
        if len(name.split('.')) == 1:
          rel = '/'.join(imp.split('.')[:-1]) + '.py'
        if rel in repo._paths and tail in repo.mod(rel).classes:
          target = (repo.mod(rel), tail)
    if target is None:
      return None
    sub = _box_fields(repo, target[0], target[1], depth + 1)
    if sub is None:
      return None
    out += sub
  for st in c.body:
    if isinstance(st, ast.AnnAssign) and isinstance(st.target, ast.Name) and 'ClassVar' not in astu.src(st.annotation):
      out.append(st.target.id)
  return out


@rule('C18.R4', 'K4', 5, 'metadata conversions rename the same key pairs in opposite directions; the Linen box type travels with the Variable')
def r4(R, repo):
  def renames(f):
    out = []
    for n in astu.body_walk(f.node):
      if isinstance(n, ast.Assign) and isinstance(n.targets[0], ast.Subscript) and isinstance(n.value, ast.Call) and astu.call_tail(n.value) == 'pop' and \
          astu.src(n.targets[0].value) == astu.src(n.value.func.value):
        out.append((astu.const_str(n.value.args[0]), astu.const_str(n.targets[0].slice)))
    return out
  for rel, cls, want in ((ME, 'Partitioned', [('names', 'sharding')]), (LS, 'LogicallyPartitioned', [('names', 'sharding'), ('rules', 'sharding_rules')])):
    m = repo.mod(rel)
    to, fr = m.func(cls + '.to_nnx_metadata'), m.func(cls + '.from_nnx_metadata')
    rt, rf = renames(to), renames(fr)
    lit = [n.value for n in astu.body_walk(to.node) if isinstance(n, ast.Return) and isinstance(n.value, ast.Dict)]
    if lit and not rt and all(k is not None and astu.const_str(k) is not None for d_ in lit for k in d_.keys):
      # the metadata dict is written out by hand: every dataclass field of the box (renamed or not) must be in it
      fields = _box_fields(repo, m, cls)
      ren = dict(want)
      for d_ in lit:
        keys = {astu.const_str(k) for k in d_.keys}
        missing = sorted(ren.get(f_, f_) for f_ in fields if ren.get(f_, f_) not in keys) if fields else None
        if missing is None:
          R.unsure(key_of(m.rel, '%s: to/from rename %s' % (cls, want)), (to, d_), 'fields of %s not resolved' % cls)
        elif missing:
          R.fail(key_of(m.rel, '%s: to/from rename %s' % (cls, want)), (to, d_), '%s.to_nnx_metadata builds `%s` by hand and leaves out %s: that metadata is lost on every Linen -> NNX conversion (from_nnx_metadata cannot restore it)' % (cls, astu.short(d_), missing))
        else:
          R.ok(key_of(m.rel, '%s: to/from rename %s' % (cls, want)), (to, d_))
      continue
    R.judge(len(rt) == len(want) and len(rf) == len(want), sorted(rt) == sorted(want) and sorted(rf) == sorted((b, a) for a, b in want), key_of(m.rel, '%s: to/from rename %s' % (cls, want)), to,
            '%s.to_nnx_metadata renames %s but from_nnx_metadata renames %s (must be exact inverses)' % (cls, rt, rf))
    R.check('fields = {x.name for x in dataclasses.fields(cls)}' in astu.src(fr.node) and 'if k in fields' in astu.src(fr.node), key_of(fr, 'only dataclass fields passed to the constructor'), fr,
            '%s.from_nnx_metadata must pass only the dataclass fields to the constructor' % cls)
  bv = repo.mod(BV)
  tn = bv.func('to_nnx_var')
  R.check('linen_meta_type=type(x)' in astu.src(tn.node), key_of(tn, 'records linen_meta_type=type(x)'), tn, 'to_nnx_var must record the Linen box type under linen_meta_type')
  tl = bv.func('to_linen_var')
  R.check("'linen_meta_type' in metadata" in astu.src(tl.node) and "metadata['linen_meta_type']" in astu.src(tl.node), key_of(tl, 'reads linen_meta_type'), tl, 'to_linen_var must rebuild the box from the recorded linen_meta_type')
  R.check("linen_type.from_nnx_metadata({'value': vs.value, **metadata})" in astu.src(tl.node), key_of(tl, 'value and all metadata handed to the box'), tl, 'the box must be rebuilt from the value plus all recorded metadata')


@rule('C18.R5', 'K4', 3, 'rng streams are renamed / re-seeded consistently between the two APIs')
def r5(R, repo):
  bw = repo.mod(BW)
  f = bw.func('ToNNX.__call__')
  c = cfg_of(f)
  t = [n for n in c.nodes if n.kind == 'if' and astu.src(n.ast) == "'params' not in _rngs and 'default' in _rngs"]
  st = [n for n in c.nodes if isinstance(n.stmt, ast.Assign) and astu.src(n.stmt) == "_rngs['params'] = _rngs.pop('default')"]
  R.check(len(t) == 1 and len(st) == 1 and c.edge_guarded(st[0], t[0], 'T'), key_of(f, "default -> params only when params is absent"), f, "ToNNX must rename the 'default' stream to 'params' only when no 'params' stream exists")
  g = bw.func('ToLinen.__call__')
  R.check('nnx.reseed(module, **linen_rngs_dict(self))' in astu.src(g.node), key_of(g, 'reseeds the merged module from the Linen rngs'), g, 'ToLinen must reseed the merged NNX module with keys drawn from the Linen scope')
  R.check('nnx.Rngs(**linen_rngs_dict(self))' in astu.src(g.node), key_of(g, 'init builds Rngs from the Linen rngs'), g, 'ToLinen must construct the NNX module with Rngs built from the Linen scope\'s streams')
  lr = bw.func('linen_rngs_dict')
  R.check('{name: linen_module.make_rng(name) for name in linen_module.scope.rngs.keys()}' in astu.src(lr.node), key_of(lr, 'one key per Linen stream, by name'), lr, 'linen_rngs_dict must draw one key per stream name')


meta('C18',
     explanation='Bijection and single-writer rules for the collection-name <-> Variable-type registry, absence of stores into converted objects in the bridge conversion functions (and fresh-dict '
     'arguments for from_nnx_metadata), propagation of mutable updates in ToNNX.__call__ (deep merge with the update winning) and ToLinen (write-back after the module ran, per type into the '
     'collection named after it, subclasses split before base classes), inverse rename tables of the metadata converters, and rng stream renaming.',
     not_decided=['output equality with the wrapped module', 'sharding values'],
     mutants=[
         Mutant('C18-m1', BW, "          setattr(self, attr_name, bv._recursive_merge(original_tree, value))", "          setattr(self, attr_name, original_tree | value)", 'C18.R3', why='the original defect F8'),
         Mutant('C18-m2', BW, "          setattr(self, attr_name, bv._recursive_merge(original_tree, value))", "          setattr(self, attr_name, bv._recursive_merge(value, original_tree))", 'C18.R3', why='seed C18-A (stored wins)'),
         Mutant('C18-m3', BV, "  return sorted(types, key=lambda t: -parent_count[t])", "  return sorted(types, key=lambda t: (t.__name__, -parent_count[t]))", 'C18.R3', why='seed C18-B'),
         Mutant('C18-m4', ME, "    metadata = dict(vars(self))\n    metadata['sharding'] = metadata.pop('names')", "    metadata = vars(self)\n    metadata['sharding'] = metadata.pop('names')", 'C18.R2', why='the original defect F3'),
         Mutant('C18-m5', LS, "    metadata['rules'] = metadata.pop('sharding_rules')", "    metadata['rules'] = metadata.pop('sharding')", 'C18.R4'),
         Mutant('C18-m6', BW, "    out = module(*args, **kwargs)\n    self._update_variables(module)\n    return out", "    self._update_variables(module)\n    out = module(*args, **kwargs)\n    return out", 'C18.R3'),
         Mutant('C18-m8', BV, "  return sorted(types, key=lambda t: -parent_count[t])", "  return sorted(types, key=parent_count.__getitem__)", 'C18.R3', why='seed C18-D (round 2)'),
         Mutant('C18-m7', VL, "  if not overwrite and name in VariableTypeCache:", "  if False and name in VariableTypeCache:", 'C18.R1'),
     ])
