"""C19 — partition metadata stays aligned with array axes through boxing and transforms."""
from __future__ import annotations

import ast

from .. import astu, evid, flow, types
from ..cfg import cfg_of
from ..model import AnalysisError, Func
from ..report import key_of
from . import Mutant, meta, rule

ME = 'flax/core/meta.py'
NS = 'flax/nnx/spmd.py'
LS = 'flax/linen/spmd.py'
LI = 'flax/core/lift.py'
IT = 'flax/nnx/transforms/iteration.py'
SC = 'flax/core/scope.py'


def _pad_target(test, names_var, index):
  """For `while <test>: v.append(None)`: 'exact' when the loop stops at len(v) == index, 'off' when it provably stops elsewhere, None if unknown."""
  if not (isinstance(test, ast.Compare) and len(test.ops) == 1):
    return None
  l, r, op = test.left, test.comparators[0], test.ops[0]
  flip = {ast.Lt: ast.Gt, ast.Gt: ast.Lt, ast.LtE: ast.GtE, ast.GtE: ast.LtE}
  if astu.src(r) == 'len(%s)' % names_var and type(op) in flip:
    l, r, op = r, l, flip[type(op)]()
  if astu.src(l) != 'len(%s)' % names_var:
    return None
  off = None
  if astu.src(r) == index:
    off = 0
  elif isinstance(r, ast.BinOp) and isinstance(r.op, (ast.Add, ast.Sub)) and astu.src(r.left) == index and isinstance(r.right, ast.Constant) and isinstance(r.right.value, int):
    off = r.right.value if isinstance(r.op, ast.Add) else -r.right.value
  if off is None:
    return None
  if isinstance(op, ast.Lt):
    stop = off        # loop ends when len == index + off
  elif isinstance(op, ast.LtE):
    stop = off + 1
  else:
    return None
  return 'exact' if stop == 0 else 'off'


def _insert_shape(f, names_var, index='index'):
  """`while len(v) < index: v.append(None)` then `v.insert(index, NAME)`; returns the inserted expr, the string 'off-by-one'
  when the padding loop is located but stops at another length, or None (not recognised)."""
  whiles = [n for n in astu.body_walk(f.node) if isinstance(n, ast.While)]
  ins = [x for x in astu.func_calls(f) if astu.src(x.func) == '%s.insert' % names_var]
  if len(ins) == 1 and not whiles and astu.src(ins[0].args[0]) == index and not any(isinstance(n, (ast.For, ast.ListComp)) or (isinstance(n, ast.BinOp) and isinstance(n.op, ast.Mult)) or
                                                                                   (isinstance(n, ast.Call) and astu.call_tail(n) in ('extend', 'append')) for n in astu.body_walk(f.node)):
    return 'off-by-one'  # no padding at all: list.insert beyond the end appends, the name lands on an earlier axis
  if len(ins) == 1 and not whiles and astu.src(ins[0].args[0]) == index:
    # padding written as v.extend([None] * (index - len(v))) / v += [None] * (...): the count must be index - len(v)
    pads = [x.args[0] for x in astu.func_calls(f) if astu.src(x.func) == '%s.extend' % names_var and x.args] + \
           [n.value for n in astu.body_walk(f.node) if isinstance(n, ast.AugAssign) and astu.src(n.target) == names_var]
    for pz in pads:
      if isinstance(pz, ast.BinOp) and isinstance(pz.op, ast.Mult):
        lst, cnt = (pz.left, pz.right) if isinstance(pz.left, ast.List) else (pz.right, pz.left)
        if isinstance(lst, ast.List) and len(lst.elts) == 1 and astu.is_const(lst.elts[0], None):
          txt = astu.src(cnt).replace(' ', '')
          want = ('%s-len(%s)' % (index, names_var), 'max(0,%s-len(%s))' % (index, names_var), 'max(%s-len(%s),0)' % (index, names_var))
          if txt in want:
            return ins[0].args[1]
          if index in txt and 'len(%s)' % names_var in txt:
            return 'off-by-one'
  if len(whiles) != 1 or len(ins) != 1:
    return None
  w = whiles[0]
  if [astu.src(s) for s in w.body if isinstance(s, ast.Expr) and isinstance(s.value, ast.Call)] != ['%s.append(None)' % names_var] or any(isinstance(s, (ast.Break, ast.Return, ast.Continue)) for s in w.body):
    return None
  tgt = _pad_target(w.test, names_var, index)
  if tgt is None:
    return None
  if astu.src(ins[0].args[0]) != index:
    return None
  if ins[0].lineno < w.lineno:
    return None
  if tgt == 'off':
    return 'off-by-one'
  return ins[0].args[1]


def _abs_guard(repo, f, expr, val, attr='sharding', depth=0):
  """Truth of a guard expression when x.<attr> is None / () / a non-empty tuple."""
  if depth > 4:
    raise AnalysisError('guard too deep')
  if isinstance(expr, ast.BoolOp):
    vs = [_abs_guard(repo, f, e, val, attr, depth) for e in expr.values]
    return all(vs) if isinstance(expr.op, ast.And) else any(vs)
  if isinstance(expr, ast.UnaryOp) and isinstance(expr.op, ast.Not):
    return not _abs_guard(repo, f, expr.operand, val, attr, depth)
  s = astu.src(expr)
  if isinstance(expr, ast.Call) and astu.call_name(expr) == 'hasattr' and astu.const_str(expr.args[1]) == attr:
    return True
  if isinstance(expr, ast.Compare) and len(expr.ops) == 1 and isinstance(expr.left, ast.Attribute) and expr.left.attr == attr and astu.is_const(expr.comparators[0], None):
    return (val != 'None') if isinstance(expr.ops[0], (ast.IsNot, ast.NotEq)) else (val == 'None')
  if isinstance(expr, ast.Attribute) and expr.attr == attr:
    return val == 'nonempty'
  if isinstance(expr, ast.Call) and astu.call_name(expr) == 'bool' and expr.args:
    return _abs_guard(repo, f, expr.args[0], val, attr, depth + 1)
  if isinstance(expr, ast.Call) and astu.call_name(expr) == 'getattr' and astu.const_str(expr.args[1]) == attr:
    return val == 'nonempty'
  if isinstance(expr, ast.Call) and isinstance(expr.func, ast.Name):
    r = repo.resolve_call(f.mod, expr, f)
    if isinstance(r, Func):
      rets = [n for n in astu.body_walk(r.node) if isinstance(n, ast.Return)]
      if len(rets) == 1:
        return _abs_guard(repo, r, rets[0].value, val, attr, depth + 1)
  raise AnalysisError('guard `%s` is outside the analysable fragment' % s)


@rule('C19.R1', 'K4', 10, 'add_axis / remove_axis are inverse on the axis-name tuple, for every annotated Variable including rank 0')
def r1(R, repo):
  mod = repo.mod(ME)
  add, rem = mod.func('Partitioned.add_axis'), mod.func('Partitioned.remove_axis')
  ins = _insert_shape(add, 'names')
  nm = types.single_def(add.node, 'axis_name')
  off = ins == 'off-by-one'
  ins = None if off else ins
  ok = ins is not None and astu.src(ins) == 'axis_name' and astu.src(nm) == 'self._get_partition_name(params)' and astu.src(types.single_def(add.node, 'names')) == 'list(self.names)'
  rets = [n for n in astu.body_walk(add.node) if isinstance(n, ast.Return)]
  ok = ok and len(rets) == 1 and astu.src(rets[0].value) == 'self.replace(names=tuple(names))'
  pos_ins = [x for x in astu.func_calls(add) if astu.src(x.func) in ('names.insert', 'names.append', 'names.extend') and x.args and 'axis_name' in astu.src(x)]
  bad_pos = [x for x in pos_ins if astu.call_tail(x) != 'insert' or astu.src(x.args[0]) != 'index']
  R.judge(ok or bool(bad_pos) or off, ok, key_of(add, 'pad with None up to index, insert the partition name at index'), add, 'Partitioned.add_axis must pad names with None up to `index`, insert the partition name at `index` and return a copy with tuple(names)' + (
      ' (the padding loop stops at a length other than `index`: a spurious None, or a missing one, shifts every later axis name)' if off else ''))
  src = astu.src(rem.node)
  ok = 'assert names.pop(index) == axis_name' in src and 'self.replace(names=tuple(names))' in src and 'axis_name = self._get_partition_name(params)' in src
  pops = [x for x in astu.func_calls(rem) if astu.src(x.func) == 'names.pop']
  R.judge(ok or (len(pops) == 1 and (not pops[0].args or astu.src(pops[0].args[0]) != 'index')), ok, key_of(rem, 'pop(index) must be the partition name'), rem, 'Partitioned.remove_axis must pop the name at `index`, assert it is the partition name and return a copy')
  gp = mod.func('Partitioned._get_partition_name')
  R.check(any(isinstance(n, ast.Raise) for n in astu.body_walk(gp.node)) and 'PARTITION_NAME' in astu.src(gp.node), key_of(gp, 'missing partition name raises'), gp, '_get_partition_name must raise when PARTITION_NAME is not given')
  ns = repo.mod(NS)
  fa, fr = ns.func('add_axis.insert_field'), ns.func('remove_axis.remove_field')
  ins = _insert_shape(fa, 'iterable')
  R.judge(ins is not None, ins is not None and ins != 'off-by-one' and astu.src(ins) == astu.params(fa.node)[2] and 'return tuple(iterable)' in astu.src(fa.node), key_of(fa, 'pad with None, insert value at index'), fa, 'insert_field must pad with None up to index and insert the value at index')
  R.check('assert iterable.pop(index) == value' in astu.src(fr.node) and 'return tuple(iterable)' in astu.src(fr.node), key_of(fr, 'pop(index) must be the value'), fr, 'remove_field must pop the entry at index and assert it is the expected name')
  for q, field_fn in (('add_axis._add_axis', 'insert_field'), ('remove_axis._remove_axis', 'remove_field')):
    f = ns.func(q)
    c = cfg_of(f)
    st = [n for n in c.nodes if isinstance(n.stmt, ast.Assign) and astu.src(n.stmt.targets[0]) == 'x.sharding']
    if not st:
      # `sharding` folded into a generic loop over (field, name) pairs: the loop's guard decides whether () is handled
      gen = [n_ for n_ in astu.body_walk(f.node) if isinstance(n_, ast.For) and any(astu.const_str(y) == 'sharding' for y in ast.walk(n_.iter))]
      key = key_of(f, 'applies to every annotated Variable (sharding is not None), including sharding=()')
      handled = False
      for lp_ in gen:
        kv = astu.src(lp_.target.elts[0]) if isinstance(lp_.target, ast.Tuple) else None
        for g_ in [y for y in lp_.body if isinstance(y, ast.If)]:
          ops = list(evid.truthiness_operands(g_.test))
          truthy_attr = [o for o in ops if (isinstance(o, ast.NamedExpr) and isinstance(o.value, ast.Call) and astu.call_name(o.value) == 'getattr') or (isinstance(o, ast.Call) and astu.call_name(o) == 'getattr')]
          if truthy_attr:
            handled = True
            R.fail(key, (f, g_), 'the `sharding` field is updated by a generic loop whose guard `%s` tests the field value for truth: a rank-0 Variable annotated with sharding=() is skipped, so it does not get the '
                   'partition name when it is stacked (nor lose it when sliced)' % astu.short(g_.test, 100))
      if not handled:
        R.require(False, '%s: x.sharding assignment not found' % q)
      continue
    val = st[0].stmt.value
    ok = isinstance(val, ast.Call) and astu.call_name(val) == field_fn and [astu.src(a) for a in val.args] == ['x.sharding', 'index', 'axis_name']
    R.judge(isinstance(val, ast.Call) and astu.call_name(val) in ('insert_field', 'remove_field') and len(val.args) == 3, ok, key_of(f, 'x.sharding = %s(x.sharding, index, axis_name)' % field_fn), f, '%s must rewrite x.sharding with %s(x.sharding, index, axis_name)' % (q, field_fn))
    guards = [t for t in c.nodes if t.kind == 'if' and c.edge_guarded(st[0], t, 'T') and 'sharding' in astu.src(t.ast)]
    R.require(len(guards) >= 1, '%s: sharding guard not found' % q)
    g = guards[-1].ast
    vals = {v: _abs_guard(repo, f, g, v) for v in ('None', 'empty', 'nonempty')}
    R.check(vals == {'None': False, 'empty': True, 'nonempty': True}, key_of(f, 'applies to every annotated Variable (sharding is not None), including sharding=()'), (f, guards[-1].stmt), evidence=True, msg_fail=
            'the guard `%s` evaluates to %s for sharding None / () / non-empty: a rank-0 Variable annotated with sharding=() must still get the partition name when it is stacked (and lose it when sliced)' % (astu.src(g), vals))
    nm = types.single_def(ns.func(q.split('.')[0]).node, 'axis_name')
  for q in ('add_axis', 'remove_axis'):
    f = ns.func(q)
    unp = [n for n in astu.body_walk(f.node) if isinstance(n, ast.Assign) and isinstance(n.value, ast.Call) and astu.call_name(n.value) == '_get_partition_name_and_metadata']
    R.judge(len(unp) == 1 and isinstance(unp[0].targets[0], ast.Tuple) and len(unp[0].targets[0].elts) == 2, len(unp) == 1 and isinstance(unp[0].targets[0], ast.Tuple) and astu.src(unp[0].targets[0].elts[0]) == 'axis_name', key_of(f, 'name from _get_partition_name_and_metadata'), f, '%s must take the partition name from transform_metadata' % q)
  gn = ns.func('_get_partition_name_and_metadata')
  R.check(any(isinstance(n, ast.Raise) for n in astu.body_walk(gn.node)) and 'return (transform_metadata[PARTITION_NAME], other_meta)' in astu.src(gn.node), key_of(gn, 'missing partition name raises'), gn,
          '_get_partition_name_and_metadata must raise when the partition name is missing and return (name, other metadata)')


def _zip_pairs(f, fn_name):
  """[(loop iter src, call)] for every meta.<fn_name>(group, axis, params) in f, with the zip(...) of its loop."""
  out = []
  for x in astu.func_calls(f):
    if astu.call_name(x) == 'meta.' + fn_name:
      lp = None
      for a in astu.ancestors(x):
        if isinstance(a, ast.For):
          lp = a
          break
      out.append((lp, x))
  return out


@rule('C19.R2', 'K1', 8, 'transforms remove the partition name on the way in (in-axes) and add it on the way out (out-axes)')
def r2(R, repo):
  mod = repo.mod(LI)
  for q, call_name in (('vmap.inner', 'mapped'), ('scan.inner', 'scanned')):
    f = mod.func(q)
    c = cfg_of(f)
    rem, add = _zip_pairs(f, 'remove_axis'), _zip_pairs(f, 'add_axis')
    R.require(len(rem) == 1 and len(add) == 1, '%s: meta.remove_axis / meta.add_axis not found' % q)
    call = [n for n in c.nodes if isinstance(n.stmt, ast.Assign) and isinstance(n.stmt.value, ast.Call) and astu.call_name(n.stmt.value) == call_name]
    R.require(len(call) == 1, '%s: call of %s not found' % (q, call_name))
    rn, an = c.nodes_for(rem[0][1]), c.nodes_for(add[0][1])
    ok = all(call[0] in c.reach([x]) and x not in c.reach(call) for x in rn) and all(x in c.reach(call) for x in an)
    R.check(ok, key_of(f, 'remove_axis before the mapped call, add_axis after it'), f, evidence=True, msg_fail= '%s must strip the partition name before calling %s and add it back afterwards' % (q, call_name))
    lr, la = rem[0][0], add[0][0]
    okz = lr is not None and la is not None and 'variable_in_axes' in astu.src(lr.iter) and 'variable_out_axes' in astu.src(la.iter) and 'variable_out_axes' not in astu.src(lr.iter) and 'variable_in_axes' not in astu.src(la.iter)
    axn = lambda lp_: {n_ for n_ in ('variable_in_axes', 'variable_out_axes') if lp_ is not None and n_ in astu.src(lp_.iter)}
    R.judge(len(axn(lr)) == 1 and len(axn(la)) == 1, okz, key_of(f, 'remove uses the in-axes, add uses the out-axes'), f, 'remove_axis must be zipped with variable_in_axes and add_axis with variable_out_axes (got `%s` / `%s`)' % (astu.short(lr.iter) if lr else None, astu.short(la.iter) if la else None))
    for kind, (lp, x) in (('remove', rem[0]), ('add', add[0])):
      if lp is None or not isinstance(lp.target, ast.Tuple):
        R.unsure(key_of(f, '%s_axis(group, its axis, metadata_params)' % kind), (f, x), 'meta.%s_axis is not called inside a loop over (group, axis) pairs' % kind)
        continue
      tg = [astu.src(e) for e in lp.target.elts]
      okc = [astu.src(a) for a in x.args] == [tg[0], tg[1], 'metadata_params']
      R.judge(len(x.args) == 3 and len(tg) == 2 and sorted(astu.src(a) for a in x.args) == sorted([tg[0], tg[1], 'metadata_params']), okc, key_of(f, '%s_axis(group, its axis, metadata_params)' % kind), (f, x), 'meta.%s_axis must receive the group, the axis zipped with it and metadata_params' % kind)
  ax = mod.func('_split_in_out_axes')
  src = astu.src(ax.node)
  R.check('isinstance(v, Out)' in src and 'isinstance(v, In)' in src, key_of(ax, 'In axes excluded from out, Out axes from in'), ax, '_split_in_out_axes must drop Out axes from the in half and In axes from the out half')
  it = repo.mod(IT)
  for q in ('VmapFn.__call__', 'PmapFn.__call__', 'ScanFn.__call__'):
    f = it.func(q)
    c = cfg_of(f)
    ups = [x for x in astu.func_calls(f) if astu.call_name(x) == '_update_variable_sharding_metadata']
    R.require(len(ups) == 2, '%s: two _update_variable_sharding_metadata calls expected' % q)
    fns = [astu.src(x.args[2]) for x in ups]
    fr = [n for x in astu.func_calls(f) if astu.call_name(x) == 'extract.from_tree' for n in c.nodes_for(x)]
    tt = [n for x in astu.func_calls(f) if astu.call_name(x) == 'extract.to_tree' for n in c.nodes_for(x)]
    un = [c.nodes_for(x)[0] for x in ups]
    ok = fns == ['spmd.remove_axis', 'spmd.add_axis'] and all(f_ in c.reach([un[0]]) for f_ in fr) and all(un[1] in c.reach([t]) for t in tt) and un[0] not in c.reach(fr)
    R.judge(sorted(fns) == ['spmd.add_axis', 'spmd.remove_axis'] or (len(set(fns)) == 1 and fns[0] in ('spmd.add_axis', 'spmd.remove_axis')), ok, key_of(f, 'remove_axis before merging inputs, add_axis after splitting outputs'), f, '%s must apply spmd.remove_axis to the incoming states before from_tree and spmd.add_axis to the outgoing states after to_tree (got %s)' % (q, fns))
    tests = [astu.src(t.ast) for t in c.nodes if t.kind == 'if' and any(c.edge_guarded(u, t, 'T') for u in un)]
    R.check(len(tests) == 2 and len(set(tests)) == 1 and 'PARTITION_NAME in self.transform_metadata' in tests[0], key_of(f, 'both under the same PARTITION_NAME test'), f, 'both metadata updates must be guarded by the same `PARTITION_NAME in transform_metadata` test')
  uf = it.func('_update_variable_sharding_metadata._update_axes_fn')
  calls = [x for x in astu.func_calls(uf) if astu.call_name(x) == 'axis_fn']
  argsets = sorted([astu.src(a) for a in x.args] for x in calls)
  ok = len(calls) == 2 and argsets == sorted([['state', 'node_states.metadata', 'transform_metadata'], ['state', 'axis', 'transform_metadata']])
  exp_sets = sorted(sorted(x_) for x_ in (['state', 'node_states.metadata', 'transform_metadata'], ['state', 'axis', 'transform_metadata']))
  permuted = len(calls) == 2 and sorted(sorted(a_) for a_ in argsets) == exp_sets  # the expected arguments, possibly in another order
  R.judge(permuted, ok, key_of(uf, 'axis_fn(state, its own axis, transform_metadata)'), uf, '_update_axes_fn must call axis_fn with each state and the axis declared for that state')


@rule('C19.R3', 'K1', 4, 'assigning to a boxed variable re-boxes the value; helpers map only over AxisMetadata leaves')
def r3(R, repo):
  mod = repo.mod(SC)
  setter = [f for q, f in mod.funcs.items() if q.startswith('Variable.value') and 'value.setter' in astu.decorator_names(f.node)]
  R.require(len(setter) == 1, 'scope.Variable.value setter not found')
  f = setter[0]
  c = cfg_of(f)
  rb = [n for n in c.nodes if isinstance(n.stmt, ast.Assign) and isinstance(n.stmt.value, ast.Call) and astu.call_name(n.stmt.value) == 'meta.replace_boxed']
  t = [n for n in c.nodes if n.kind == 'if' and 'self.unbox' in astu.src(n.ast)]
  put = [n for x in astu.func_calls(f) if astu.call_tail(x) == 'put_variable' for n in c.nodes_for(x)]
  ok = len(rb) == 1 and len(t) >= 1 and c.edge_guarded(rb[0], t[0], 'T') and len(put) == 1 and put[0] in c.reach(rb)
  R.judge(len(put) == 1 and (len(rb) == 1 or not evid.calls_deep(repo, f, evid.call_named('replace_boxed'))), ok, key_of(f, 'value re-boxed with meta.replace_boxed before being stored'), f, 'assigning to an unboxed view of a boxed variable must re-box the value (meta.replace_boxed(current, value)) before put_variable')
  # the re-boxing must also cover a *tree* of boxes (a variable whose value is a pytree with boxed leaves): a guard that asks
  # only whether the stored value itself is a box misses those
  if len(rb) == 1:
    direct = [t_ for t_ in c.nodes if t_.kind == 'if' and c.edge_guarded(rb[0], t_, 'T') and any(
        isinstance(y_, ast.Call) and (astu.call_tail(y_) == 'is_axis_metadata' or (astu.call_name(y_) == 'isinstance' and 'AxisMetadata' in astu.src(y_)))
        and y_.args and isinstance(y_.args[0], ast.Name) for y_ in ast.walk(t_.ast))]
    tree = any(isinstance(y_, ast.Call) and astu.call_tail(y_) in ('tree_structure', 'tree_leaves', 'tree_flatten', 'flatten_up_to') for y_ in ast.walk(f.node))
    if direct and not tree:
      R.fail(key_of(f, 're-boxing covers trees of boxes'), (f, direct[0].stmt), '`%s` re-boxes only when the stored value *itself* is a box: a variable that holds a pytree whose leaves are boxed (e.g. a dict of Partitioned arrays) loses all its partition names on the first assignment' % astu.short(direct[0].ast))
    elif tree:
      R.ok(key_of(f, 're-boxing covers trees of boxes'), f)
  me = repo.mod(ME)
  mm = me.func('map_axis_meta')
  R.check('is_leaf=is_axis_metadata' in astu.src(mm.node) and 'isinstance(x, AxisMetadata)' in astu.src(mm.node), key_of(mm, 'maps over AxisMetadata leaves only'), mm, 'map_axis_meta must treat AxisMetadata boxes as leaves and leave everything else untouched')
  for q, inner in (('add_axis', 'x.add_axis(index, params)'), ('remove_axis', 'x.remove_axis(index, params)')):
    g = me.func(q)
    R.check('map_axis_meta(lambda x: %s, tree)' % inner in astu.src(g.node), key_of(g, 'delegates to the box with (index, params) unchanged'), g, 'meta.%s must call %s on every box' % (q, inner))
  rb_ = me.func('replace_boxed')
  R.check('is_leaf=is_axis_metadata' in astu.src(rb_.node) and 'c.replace_boxed(replace_boxed(c.unbox(), v))' in astu.src(rb_.node), key_of(rb_, 'recursive re-boxing'), rb_, 'meta.replace_boxed must re-box nested boxes recursively')


@rule('C19.R4', 'K1', 5, 'logical_to_mesh_axes: rule priority, and no mesh axis used for two dimensions of one array')
def r4(R, repo):
  mod = repo.mod(LS)
  f = mod.func('_logical_to_mesh_axes')
  c = cfg_of(f)
  st = [n for n in c.nodes if isinstance(n.stmt, ast.Assign) and astu.src(n.stmt.targets[0]) == 'result[pos]']
  R.require(len(st) == 1, '_logical_to_mesh_axes: result[pos] store not found')
  tests = [t for t in c.nodes if t.kind == 'if' and c.edge_guarded(st[0], t, 'T')]
  conj = set()
  for t in tests:
    vals = t.ast.values if isinstance(t.ast, ast.BoolOp) and isinstance(t.ast.op, ast.And) else [t.ast]
    conj |= {t_ for v in vals for t_ in astu.mirror_forms(v)}
  ok = '_mesh_assignment_free(rule_mesh_names, result)' in conj and 'result[pos] == _unassigned_axis' in conj and 'rule_model_name in array_dim_names' in conj
  free_called = [x for x in astu.func_calls(f) if astu.call_name(x) == '_mesh_assignment_free']
  R.judge(ok or (not free_called and not evid.calls_deep(repo, f, evid.call_named('_mesh_assignment_free'))) or ('_mesh_assignment_free(rule_mesh_names, result)' in conj), ok, key_of(f, 'assign only if the mesh axes are free and the dimension is unassigned'), (f, st[0].stmt),
          'result[pos] = rule_mesh_names must be guarded by _mesh_assignment_free(rule_mesh_names, result) and result[pos] == _unassigned_axis (guards found: %s)' % sorted(conj))
  lp = [n for n in c.nodes if n.kind == 'for' and astu.src(n.ast) == 'rules']
  R.check(len(lp) == 1 and st[0] in c.loop_body_nodes(lp[0].stmt), key_of(f, 'rules visited in the given order'), f, 'rules must be applied in the order given (priority)')
  dup = [n for n in c.nodes if isinstance(n.stmt, ast.Raise) and 'occur more than once' in astu.src(n.stmt)]
  R.check(len(dup) == 1 and c.dominated(lp[0], [t for t in c.nodes if t.kind == 'if' and astu.src(t.ast) == 'dups']), key_of(f, 'duplicate logical names rejected first'), f, 'duplicate dimension names must be rejected before any assignment')
  mf = mod.func('_mesh_assignment_free')
  dn, de = types.single_def(mf.node, 'new'), types.single_def(mf.node, 'existing')
  ps = astu.params(mf.node)

  def flat(d, p):
    return isinstance(d, ast.Call) and astu.call_name(d) == 'set' and isinstance(d.args[0], ast.Call) and astu.call_name(d.args[0]) == 'jax.tree_util.tree_leaves' and astu.src(d.args[0].args[0]) == p
  raw_use = [x for x in ast.walk(mf.node) if isinstance(x, (ast.Call, ast.BinOp, ast.Compare)) and
             ((isinstance(x, ast.Call) and astu.call_tail(x) in ('isdisjoint', 'intersection', 'issubset', 'issuperset', 'union') and any(evid.raw3(mf, a_, ps[1], ('tree_leaves', 'tree_flatten')) == evid.RAW for a_ in x.args)) or
              (isinstance(x, ast.BinOp) and isinstance(x.op, (ast.BitAnd, ast.BitOr)) and any(evid.raw3(mf, a_, ps[1], ('tree_leaves', 'tree_flatten')) == evid.RAW for a_ in (x.left, x.right))))]
  # the *new* assignment used whole in a membership test: a tuple of mesh axes is never "in" a set of single axis names
  raw_new = [x for x in ast.walk(mf.node) if isinstance(x, ast.Compare) and len(x.ops) == 1 and isinstance(x.ops[0], (ast.In, ast.NotIn)) and evid.raw3(mf, x.left, ps[0], ('tree_leaves', 'tree_flatten')) == evid.RAW]
  if raw_new and not raw_use:
    R.fail(key_of(mf, 'both sides flattened to single mesh axis names'), (mf, raw_new[0]), '`%s` tests the new assignment as a whole: a rule that maps a dimension to a *tuple* of mesh axes is never found among the single axis names already used, so a mesh axis is assigned to two dimensions (e.g. P(\'data\', (\'data\', \'model\')))' % astu.short(raw_new[0]))
    dn = de = None
    raw_use = raw_new
  elif raw_use:
    R.fail(key_of(mf, 'both sides flattened to single mesh axis names'), (mf, raw_use[0]), '`%s` compares the new mesh axes with the *unflattened* existing assignments: a rule may have assigned a tuple of mesh axes to one dimension, '
           'and a tuple never equals a single axis name, so an axis used inside such a tuple is not seen as taken and is assigned to a second dimension' % astu.short(raw_use[0]))
    dn = de = None
  unflat = lambda d, p_: isinstance(d, ast.Call) and astu.call_name(d) in ('set', 'frozenset') and len(d.args) == 1 and astu.src(d.args[0]) == p_
  if not raw_use:
   R.judge((flat(dn, ps[0]) or unflat(dn, ps[0])) and (flat(de, ps[1]) or unflat(de, ps[1])), flat(dn, ps[0]) and flat(de, ps[1]), key_of(mf, 'both sides flattened to single mesh axis names'), mf,
           'a rule may name a tuple of mesh axes, so both the new assignment and the existing assignments must be flattened with jax.tree_util.tree_leaves before intersecting (got `%s` / `%s`): otherwise an axis used inside a tuple is not seen as taken' % (astu.short(dn), astu.short(de)))
  cm = cfg_of(mf)
  t = [n for n in cm.nodes if n.kind == 'if' and astu.src(n.ast) in ('existing.intersection(new)', 'new.intersection(existing)', 'existing & new', 'new & existing')]
  rf = [n for n in cm.nodes if isinstance(n.stmt, ast.Return) and astu.is_const(n.stmt.value, False)]
  R.judge(len(t) == 1 and len(rf) == 1, len(t) == 1 and len(rf) == 1 and cm.edge_guarded(rf[0], t[0], 'T'), key_of(mf, 'overlap -> not free'), mf, '_mesh_assignment_free must return False exactly when the flattened sets intersect')
  lt = mod.func('logical_to_mesh_axes')
  R.check('[None if x is _unassigned_axis else x for x in result]' in astu.src(lt.node) and 'PartitionSpec(*result)' in astu.src(lt.node), key_of(lt, 'unassigned -> None'), lt, 'logical_to_mesh_axes must map the unassigned sentinel to None and build the PartitionSpec from the result')


@rule('C19.R5', 'K4', 4, 'get_partition_spec returns exactly the recorded names (replicated spec for unboxed arrays)')
def r5(R, repo):
  me = repo.mod(ME)
  g = me.func('Partitioned.get_partition_spec')
  R.check('jax.sharding.PartitionSpec(*self.names)' in astu.src(g.node), key_of(g, 'PartitionSpec(*self.names)'), g, 'Partitioned.get_partition_spec must be PartitionSpec(*self.names)')
  lp = me.func('_get_leaf_pspec')
  src = astu.src(lp.node)
  R.check('x.get_partition_spec()' in src and "hasattr(x, 'shape')" in src and 'PartitionSpec()' in src and 'return None' in src, key_of(lp, 'box -> its spec; array -> replicated; else None'), lp,
          '_get_leaf_pspec must return the box\'s own spec, a replicated spec for anything with a shape and None otherwise')
  gp = me.func('get_partition_spec')
  R.check('is_leaf=lambda x: isinstance(x, AxisMetadata)' in astu.src(gp.node), key_of(gp, 'stops at boxes'), gp, 'meta.get_partition_spec must treat boxes as leaves')
  ns = repo.mod(NS).func('get_partition_spec.f')
  src = astu.src(ns.node)
  R.check('PartitionSpec(*x.sharding)' in src and '_maybe_replicate(x.value)' in src, key_of(ns, 'PartitionSpec(*x.sharding) / replicated'), ns, 'nnx.get_partition_spec must return PartitionSpec(*x.sharding) for annotated Variables and a replicated spec otherwise')


meta('C19',
     explanation='Sibling agreement of the four add/remove-axis implementations (pad-with-None + insert(index, name) vs pop(index) == name), an abstract truth table of the sharding guard over '
     '{None, (), non-empty}, remove-on-the-way-in / add-on-the-way-out ordering and in/out axis pairing in lift.vmap/scan and nnx VmapFn/PmapFn/ScanFn, re-boxing on assignment, the guards and '
     'flattening symmetry of logical_to_mesh_axes, and the partition-spec readers.',
     not_decided=['value equality of boxed vs raw computation', 'correctness of jax sharding constraints'],
     mutants=[
         Mutant('C19-m1', LS, "  existing = set(jax.tree_util.tree_leaves(existing_assignments))", "  existing = set(existing_assignments)", 'C19.R4', why='seed C19-A'),
         Mutant('C19-m2', NS, "  return hasattr(x, 'sharding') and x.sharding is not None", "  return bool(getattr(x, 'sharding', None))", 'C19.R1', why='seed C19-B (first site)'),
         Mutant('C19-m3', LI, "    for var_group, axis in zip(vars_out, variable_out_axes):\n      if axis is not None:\n        new_vars_out.append(meta.add_axis(var_group, axis, metadata_params))", "    for var_group, axis in zip(vars_out, variable_in_axes):\n      if axis is not None:\n        new_vars_out.append(meta.add_axis(var_group, axis, metadata_params))", 'C19.R2'),
         Mutant('C19-m4', ME, "    names.insert(index, axis_name)  # type: ignore\n", "    names.append(axis_name)  # type: ignore\n", 'C19.R1'),
         Mutant('C19-m5', IT, "      pure_args = _update_variable_sharding_metadata(\n          pure_args, self.transform_metadata, spmd.remove_axis\n      )\n    args = extract.from_tree(pure_args, ctxtag='vmap', is_inner=True)", "      pure_args = _update_variable_sharding_metadata(\n          pure_args, self.transform_metadata, spmd.add_axis\n      )\n    args = extract.from_tree(pure_args, ctxtag='vmap', is_inner=True)", 'C19.R2'),
         Mutant('C19-m6', LS, "      if (\n        _mesh_assignment_free(rule_mesh_names, result)\n        and result[pos] == _unassigned_axis\n      ):", "      if result[pos] == _unassigned_axis:", 'C19.R4'),
         Mutant('C19-b1', NS, "      if hasattr(x, 'sharding') and x.sharding is not None:\n        x.sharding = remove_field(x.sharding, index, axis_name)", "      if _has_sharding(x):\n        x.sharding = remove_field(x.sharding, index, axis_name)", kind='benign'),
     ])
