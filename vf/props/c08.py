"""C08 — NNX vmap / scan / grad: state routing, deque lock-step, axis moves, side effects applied once."""
from __future__ import annotations

import ast

from .. import astu, evid, flow, types
from ..cfg import cfg_of
from ..model import AnalysisError
from ..report import key_of
from . import Mutant, meta, rule
from . import c04 as _c04

IT = 'flax/nnx/transforms/iteration.py'
AD = 'flax/nnx/transforms/autodiff.py'


def _call_nodes(c, f, pred):
  return [n for x in astu.func_calls(f) if pred(x) for n in c.nodes_for(x)]


def _returns(c):
  return [n for n in c.nodes if isinstance(n.stmt, ast.Return)]


def _once_before_each_return(c, events, returns, entry=None):
  """Every path entry→return passes exactly one event node (per given return); exceptions ignored."""
  exc = c.exc_edges()
  for r_ in returns:
    if not c.must_pass(entry or c.entry, r_, events, avoid_edges=exc):
      return False, 'path to `%s` without the event: %s' % (astu.short(r_.stmt, 50), c.witness(entry or c.entry, r_, avoid=events))
  two = c.at_most_once(events)
  if two:
    return False, 'event twice on one path (%s then %s)' % (two[0].label(), two[1].label())
  return True, ''


def _once(R, repo, c, f, ev, rets, key, msg, what, extra_ok=True):
  """Located events: exactly once before each of `rets` (positive evidence either way); no event left in f or its helpers: violation."""
  if not ev:
    if evid.calls_deep(repo, f, lambda x: astu.src(x.func) == what or astu.src(x.func).endswith('.' + what.split('.')[-2] + '.' + what.split('.')[-1]) if '.' in what else False):
      R.unsure(key, f, '%s is called from a helper' % what)
    else:
      R.fail(key, f, '%s: no call of %s is left' % (msg, what))
    return
  if not rets:
    R.unsure(key, f, 'return statements not recognised (%s)' % msg)
    return
  ok, why = _once_before_each_return(c, ev, rets)
  R.check(ok and extra_ok, key, f, '%s: %s' % (msg, why), evidence=True)


@rule('C08.R1', 'K5+K2', 10, 'producer / consumer deques: one entry appended per graph-node leaf, one popped, on every path')
def r1(R, repo):
  ad = repo.mod(AD)
  sp = ad.func('_grad_general.grad_wrapper._grad_split_fn')
  c = cfg_of(sp)
  ev = _call_nodes(c, sp, lambda x: astu.src(x.func) == 'nondiff_states.append')
  _once(R, repo, c, sp, ev, _returns(c), key_of(sp, 'nondiff_states.append exactly once per argument'), '_grad_split_fn must append exactly one entry (the non-differentiated state or None) per argument', 'nondiff_states.append')
  mg = ad.func('GradFn.__call__._grad_merge_fn')
  c = cfg_of(mg)
  ev = _call_nodes(c, mg, lambda x: astu.src(x.func) == 'self.nondiff_states.popleft')
  _once(R, repo, c, mg, ev, _returns(c), key_of(mg, 'nondiff_states.popleft exactly once per argument'), '_grad_merge_fn must pop exactly one entry per argument', 'self.nondiff_states.popleft')
  it = repo.mod(IT)
  si = it.func('_scan_split_in')
  c = cfg_of(si)
  gt = [n for n in c.nodes if n.kind == 'if' and astu.src(n.ast) == 'graph.is_graph_node(x) or isinstance(x, variablelib.Variable)']
  R.require(len(gt) == 1, '_scan_split_in: graph-node test not found')
  graph_rets = [r_ for r_ in _returns(c) if c.edge_guarded(r_, gt[0], 'T')]
  for dq in ('carry_deque', 'broadcast_deque'):
    ev = _call_nodes(c, si, lambda x: astu.src(x.func) == dq + '.append')
    _once(R, repo, c, si, ev, graph_rets, key_of(si, '%s.append exactly once per graph-node argument' % dq), '_scan_split_in must append to %s exactly once for every graph-node leaf (and never for plain arrays)' % dq, dq + '.append',
          extra_ok=all(c.edge_guarded(e, gt[0], 'T') for e in ev))
  ba = _call_nodes(c, si, lambda x: astu.src(x.func) == 'broadcast_arrays.append')
  nt = [n for n in c.nodes if n.kind == 'if' and astu.src(n.ast) == 'prefix is None' and c.edge_guarded(n, gt[0], 'F')]
  R.judge(len(ba) == 1 and len(nt) == 1, len(ba) == 1 and len(nt) == 1 and c.edge_guarded(ba[0], nt[0], 'T'), key_of(si, 'broadcast arrays recorded for prefix None'), si, 'a plain array with axis None must be recorded in broadcast_arrays')
  mi = it.func('_scan_merge_in')
  c = cfg_of(mi)
  nt = [n for n in c.nodes if n.kind == 'if' and astu.src(n.ast) == 'isinstance(x, extract.NodeStates)']
  R.require(len(nt) == 1, '_scan_merge_in: NodeStates test not found')
  rets = [r_ for r_ in _returns(c) if c.edge_guarded(r_, nt[0], 'T')]
  for dq in ('carry_deque', 'broadcast_deque'):
    ev = _call_nodes(c, mi, lambda x: astu.src(x.func) == dq + '.popleft')
    _once(R, repo, c, mi, ev, rets, key_of(mi, '%s.popleft exactly once per NodeStates' % dq), '_scan_merge_in must pop %s exactly once for every NodeStates leaf' % dq, dq + '.popleft')
  bp = _call_nodes(c, mi, lambda x: astu.src(x.func) == 'broadcast_arrays.popleft')
  bt = [n for n in c.nodes if n.kind == 'if' and astu.src(n.ast) == 'isinstance(x, Broadcasted)']
  R.judge(len(bp) == 1 and len(bt) == 1, len(bp) == 1 and len(bt) == 1 and c.edge_guarded(bp[0], bt[0], 'T'), key_of(mi, 'broadcast arrays consumed for Broadcasted placeholders'), mi, 'a Broadcasted placeholder must be replaced by the next recorded broadcast array')
  mc = [x for x in astu.func_calls(mi) if astu.src(x.func) == 'ctx.merge']
  R.judge(len(mc) == 1 and len(mc[0].args) == 4, len(mc) == 1 and sorted(astu.src(a) for a in mc[0].args[1:]) == sorted(['*x.states', '*carry_states', '*broadcast_states']) and astu.src(mc[0].args[0]) == 'x.graphdef', key_of(mi, 'merge(graphdef, vectorized, carry, broadcast)'), mi,
          'the node must be rebuilt from its graphdef with the vectorized, carry and broadcast states')
  for q, op in (('_scan_split_out', 'append'), ('_scan_merge_out', 'popleft')):
    f = it.func(q)
    c = cfg_of(f)
    for dq in ('carry_deque', 'broadcast_deque'):
      ev = _call_nodes(c, f, lambda x: astu.src(x.func) == '%s.%s' % (dq, op))
      tests = [n for n in c.nodes if n.kind == 'if' and astu.src(n.ast) == 'is_input_arg']
      ok = bool(ev) and all(any(c.edge_guarded(e, t, 'T') for t in tests) for e in ev)
      R.judge(bool(ev) and bool(tests), ok, key_of(f, '%s.%s only for input arguments' % (dq, op)), f, '%s must touch %s only for the input-argument half (is_input_arg); outputs carry no carry/broadcast state' % (q, dq))
  so = it.func('_scan_split_out')
  c = cfg_of(so)
  gt = [n for n in c.nodes if n.kind == 'if' and astu.src(n.ast) == 'graph.is_graph_node(x) or isinstance(x, variablelib.Variable)']
  graph_rets = [r_ for r_ in _returns(c) if gt and c.edge_guarded(r_, gt[0], 'T')]
  it_tests = [n for n in c.nodes if n.kind == 'if' and astu.src(n.ast) == 'is_input_arg']
  cut = [(t, m, l) for t in it_tests for m, l in c.succ[t] if l != 'T']
  okall = True
  for dq in ('carry_deque', 'broadcast_deque'):
    ev = _call_nodes(c, so, lambda x: astu.src(x.func) == dq + '.append')
    for r_ in graph_rets:
      okall = okall and c.must_pass(c.entry, r_, ev, avoid_edges=cut + c.exc_edges())
  R.judge(bool(graph_rets) and bool(it_tests), okall, key_of(so, 'input graph nodes always record carry and broadcast states'), so, 'for an input argument _scan_split_out must append to both deques on every path')
  sf = it.func('ScanFn.__call__')
  R.check('assert not carry_deque and (not broadcast_deque) and (not broadcast_arrays)' in astu.src(sf.node), key_of(sf, 'deques empty after merging the inputs'), sf, 'ScanFn.__call__ must assert that all deques were consumed by the merge')


def _axis_table(loop):
  """{'None': list, 'int': list, 'else': list} from the StateAxes loop of a split function."""
  table = {}
  cur = [s for s in loop.body if isinstance(s, ast.If)]
  if not cur:
    return table
  node = cur[0]
  while True:
    cond = astu.src(node.test)
    kind = {'axis is None': 'None', 'isinstance(axis, int)': 'int', 'axis is Carry': 'Carry'}.get(cond, cond)
    for s in ast.walk(ast.Module(body=node.body, type_ignores=[])):
      if isinstance(s, ast.Call) and astu.call_tail(s) == 'append' and astu.src(s.func.value).endswith('_states'):
        table[kind] = astu.src(s.func.value)
      if isinstance(s, ast.Call) and astu.call_tail(s) == 'append' and astu.src(s.func.value) == 'states':
        a = astu.src(s.args[0])
        table[kind] = {'state': 'vectorized_states', 'broadcast_states.popleft()': 'broadcast_states', 'carry_states.popleft()': 'carry_states'}.get(a, a)
    if len(node.orelse) == 1 and isinstance(node.orelse[0], ast.If):
      node = node.orelse[0]
    else:
      for s in ast.walk(ast.Module(body=node.orelse, type_ignores=[])):
        if isinstance(s, ast.Call) and astu.call_tail(s) == 'append' and astu.src(s.func.value).endswith('_states'):
          table['Carry'] = astu.src(s.func.value)
        if isinstance(s, ast.Call) and astu.call_tail(s) == 'append' and astu.src(s.func.value) == 'states':
          a = astu.src(s.args[0])
          table['Carry'] = {'carry_states.popleft()': 'carry_states'}.get(a, a)
      break
  return table


@rule('C08.R2', 'K4', 5, 'the four scan split/merge functions classify axes identically: None -> broadcast, int -> vectorized, Carry -> carry')
def r2(R, repo):
  it = repo.mod(IT)
  want = {'None': 'broadcast_states', 'int': 'vectorized_states', 'Carry': 'carry_states'}
  for q in ('_scan_split_in', '_scan_split_out', '_scan_merge_out'):
    f = it.func(q)
    loops = [n for n in astu.body_walk(f.node) if isinstance(n, ast.For) and 'prefix.axes' in astu.src(n.iter)]
    R.require(len(loops) == 1, '%s: loop over prefix.axes not found' % q)
    t = _axis_table(loops[0])
    R.judge(set(t) == set(want) and set(t.values()) <= set(want.values()), t == want, key_of(f, 'StateAxes routing table'), (f, loops[0]), '%s routes axes as %s, expected %s' % (q, t, want))
    if q != '_scan_merge_out':
      R.check('zip(states, prefix.axes)' in astu.src(loops[0].iter) or 'zip(states, prefix.filters, prefix.axes)' in astu.src(loops[0].iter), key_of(f, 'states paired with axes in filter order'), (f, loops[0]),
              '%s must pair the states returned by ctx.split(x, *prefix.filters) with prefix.axes positionally' % q)
      sp = [x for x in astu.func_calls(f) if astu.src(x.func) == 'ctx.split' and len(x.args) == 2]
      R.check(any(astu.src(x.args[1]) == '*prefix.filters' for x in sp), key_of(f, 'split by prefix.filters'), f, '%s must split the node with the StateAxes filters' % q)
  mp = it.func('StateAxes.map_prefix')
  c = cfg_of(mp)
  rets = _returns(c)
  rs = [n for n in c.nodes if isinstance(n.stmt, ast.Raise)]
  t = [n for n in c.nodes if n.kind == 'if' and astu.src(n.ast) == 'predicate(path, variable)']
  ok = len(rets) == 1 and len(t) == 1 and c.edge_guarded(rets[0], t[0], 'T') and astu.src(rets[0].stmt.value) == 'axis' and len(rs) == 1 and 'zip(self.filters, self.axes)' in astu.src(mp.node)
  R.judge(len(rets) == 1 and len(t) == 1, ok, key_of(mp, 'first matching filter decides; no match raises'), mp, 'StateAxes.map_prefix must return the axis of the first matching filter and raise when none matches')


def _moveaxis_calls(f):
  return [x for x in ast.walk(f.node) if isinstance(x, ast.Call) and astu.call_name(x) == 'jnp.moveaxis' and len(x.args) == 3]


@rule('C08.R3', 'K4', 4, 'every axis moved to the front on the way in is moved back from the front on the way out')
def r3(R, repo):
  it = repo.mod(IT)
  si, mo = it.func('_scan_split_in'), it.func('_scan_merge_out')
  ins, outs = _moveaxis_calls(si), _moveaxis_calls(mo)
  R.require(len(ins) == 3 and len(outs) == 3, 'expected 3 jnp.moveaxis calls in _scan_split_in and in _scan_merge_out')
  for x in ins:
    R.check(astu.is_const(x.args[2], 0) and not astu.is_const(x.args[1], 0), key_of(si, 'moveaxis(x, %s, 0)' % astu.src(x.args[1])), (si, x), evidence=True, msg_fail=
            '_scan_split_in must move the declared axis to position 0 (`%s`)' % astu.short(x))
  for x in outs:
    R.check(astu.is_const(x.args[1], 0) and not astu.is_const(x.args[2], 0), key_of(mo, 'moveaxis(x, 0, %s)' % astu.src(x.args[2])), (mo, x), evidence=True, msg_fail=
            '_scan_merge_out must move position 0 back to the declared axis, i.e. jnp.moveaxis(x, 0, axis); `%s` applies the input-side permutation again, which differs from the inverse for axis >= 2' % astu.short(x))
  a_in = sorted(astu.src(x.args[1]) for x in ins)
  a_out = sorted(astu.src(x.args[2]) for x in outs)
  R.check(a_in == a_out, key_of(it.rel, 'same axis expressions on both sides'), si, 'axes moved in (%s) and moved back (%s) differ' % (a_in, a_out))
  so = it.func('_scan_split_out')
  R.check(not _moveaxis_calls(so) and not _moveaxis_calls(it.func('_scan_merge_in')), key_of(it.rel, 'inner side does not move axes'), so, evidence=True, msg_fail= 'inside the scan body no axis may be moved (jax.lax.scan slices / stacks along axis 0)')


@rule('C08.R4', 'K7', 3, 'grad differentiates exactly the state selected by the DiffState filter; the rest is closed over')
def r4(R, repo):
  ad = repo.mod(AD)
  sp = ad.func('_grad_general.grad_wrapper._grad_split_fn')
  src = astu.src(sp.node)
  evid.judge_stmts(R, sp, ['graphdef, diff, nondiff = ctx.split(value, prefix.filter, ...)', 'nondiff_states.append(nondiff)', 'return extract.NodeStates.from_split(graphdef, diff)'], key_of(sp, 'selected state differentiated, remainder to the deque'), sp, '_grad_split_fn must split the node into (graphdef, selected, rest), return only the selected state to jax and queue the rest')
  g = ad.func('_grad_general')
  R.check('DiffState(-1, variablelib.Param)' in astu.src(g.node), key_of(g, 'default filter is nnx.Param'), g, 'an integer argnum must default to differentiating nnx.Param')
  R.check("raise ValueError(f'argnum {index} is repeated in argnums')" in astu.src(g.node), key_of(g, 'repeated argnum rejected'), g, 'a repeated argnum must be rejected')
  mg = ad.func('GradFn.__call__._grad_merge_fn')
  src = astu.src(mg.node)
  R.check('ctx.merge(value.graphdef, value.state, nondiff)' in src and 'ctx.merge(value.graphdef, value.state)' in src, key_of(mg, 'merge(differentiated state, non-differentiated state)'), mg, 'the inner merge must rebuild the node from the differentiated state plus the queued remainder')


@rule('C08.R5', 'K2', 2, 'forward-pass side effects are applied to the caller\'s objects exactly once on every return path')
def r5(R, repo):
  ad = repo.mod(AD)
  gw = ad.func('_grad_general.grad_wrapper')
  c = cfg_of(gw)
  # "process_out" by role: any function of the module (nested or not) that returns extract.from_tree(..., is_inner=False)
  mergers = {g_.name for g_ in ad.funcs.values() for r_ in astu.body_walk(g_.node) if isinstance(r_, ast.Return) and isinstance(r_.value, ast.Call) and astu.call_tail(r_.value) == 'from_tree'
             and astu.is_const(astu.kwarg(r_.value, 'is_inner'), False)} | {'process_out'}
  ev = _call_nodes(c, gw, lambda x: astu.call_name(x) in mergers)
  rets = _returns(c)
  R.require(len(rets) >= 1, 'grad_wrapper: return statements not found')
  _once(R, repo, c, gw, ev, rets, key_of(gw, 'process_out exactly once before every return'),
        'grad_wrapper must call process_out (the outer from_tree that copies the updated state back onto the caller\'s objects) exactly once on each of its return paths', 'process_out')
  # everything the transformed function returned must be consumed: the gradients by process_grads, the updated
  # argument state (and aux) by process_out, the loss by the return — a part unpacked from fn_out and never read is dropped
  unpack = [n for n in astu.body_walk(gw.node) if isinstance(n, ast.Assign) and isinstance(n.value, ast.Name) and n.value.id == 'fn_out' and isinstance(n.targets[0], ast.Tuple)]
  loads = {}
  for n in astu.body_walk(gw.node):
    if isinstance(n, ast.Name) and isinstance(n.ctx, ast.Load):
      loads.setdefault(n.id, []).append(n)
  for u in unpack:
    names = [x.id for x in ast.walk(u.targets[0]) if isinstance(x, ast.Name)]
    for nm in names:
      if nm == '_':
        R.fail(key_of(gw, 'every part of fn_out is consumed') + ' :: _ @%s' % astu.short(u.targets[0], 40), (gw, u), '`%s` throws a part of the transformed function\'s result away (`_`): on the other branches that position is the updated argument state, which must be merged back (process_out) so that the forward pass\'s side effects reach the caller\'s objects' % astu.short(u))
        continue
      if nm.startswith('_'):
        continue
      key = key_of(gw, 'every part of fn_out is consumed') + ' :: %s @%s' % (nm, astu.short(u.targets[0], 40))
      un = c.nodes_for(u)
      after = c.reach(un) if un else set()
      here = []
      for nd in after:
        part = nd.ast if nd.kind in ('if', 'while', 'for') and getattr(nd, 'ast', None) is not None else nd.stmt
        if part is None:
          continue
        here += [y for y in ast.walk(part) if isinstance(y, ast.Name) and y.id == nm and isinstance(y.ctx, ast.Load)]
      if here:
        R.ok(key, (gw, u))
      else:
        R.fail(key, (gw, u), '`%s` is unpacked from the transformed function\'s result (`%s`) and never used on this branch: %s' % (
            nm, astu.short(u), 'the state the forward pass wrote into the arguments (counters, batch statistics, rng counts) is not copied back to the caller\'s objects' if 'args' in nm else 'that part of the result is dropped'))
  try:
    po = ad.func('_grad_general.grad_wrapper.process_out')
  except AnalysisError:
    cands = [g_ for g_ in ad.funcs.values() if g_.name in mergers and g_.name != 'process_out']
    if len(cands) != 1:
      R.unsure(key_of(gw, 'outer merge with the grad tag'), gw, 'the function that merges the outputs back was not found')
      return
    po = cands[0]
  R.check("return extract.from_tree(%s, ctxtag='grad', is_inner=False)" % (astu.params(po.node)[0] if astu.params(po.node) else 'pure_out') in astu.src(po.node) or "return extract.from_tree(pure_out, ctxtag='grad', is_inner=False)" in astu.src(po.node), key_of(po, 'outer merge with the grad tag'), po, "process_out must be the outer from_tree(..., ctxtag='grad', is_inner=False)")


@rule('C08.R6', 'K1', 4, 'inconsistent carries, broadcast outputs and inconsistent aliasing are rejected before the transform runs')
def r6(R, repo):
  it = repo.mod(IT)
  sf = it.func('ScanFn.__call__')
  c = cfg_of(sf)
  chk = _call_nodes(c, sf, lambda x: astu.call_name(x) == '_check_carry_same_references')
  call = [n for n in c.nodes if isinstance(n.stmt, ast.Assign) and astu.src(n.stmt.value) == 'self.f(*args)']
  tt = _call_nodes(c, sf, lambda x: astu.call_name(x) == 'extract.to_tree')
  ok = len(chk) == 1 and len(call) == 1 and len(tt) == 1 and chk[0] in c.reach(call) and c.dominated(tt[0], chk)
  if not chk and not evid.calls_deep(repo, sf, evid.call_named('_check_carry_same_references')):
    R.fail(key_of(sf, 'carry references checked between the user call and to_tree'), sf, 'ScanFn.__call__ no longer checks that the carry holds the same object references after the user function')
  else:
    R.judge(len(chk) == 1 and len(call) == 1 and len(tt) == 1, ok, key_of(sf, 'carry references checked between the user call and to_tree'), sf,   'ScanFn.__call__ must check that the carry holds the same object references after the user function, before splitting the outputs')
  sc = it.func('scan')
  src = astu.src(sc.node)
  R.check('_check_out_axes(out_axes)' in src and '_get_carry_argnum(in_axes, is_in_axes=True)' in src and '_get_carry_argnum(out_axes, is_in_axes=False)' in src, key_of(sc, 'out_axes and Carry positions validated up front'), sc,
          'nnx.scan must validate out_axes (no broadcast / carry outputs) and locate the Carry arguments before building the transform')
  cr = it.func('_check_carry_same_references.check_carry_same_references')
  R.check('arg is not out' in astu.src(cr.node) and any(isinstance(n, ast.Raise) for n in ast.walk(cr.node)), key_of(cr, 'identity comparison raises'), cr, 'carry references must be compared by identity and a difference must raise')
  co = it.func('_check_out_axes')
  R.check(len([n for n in ast.walk(co.node) if isinstance(n, ast.Raise)]) == 3, key_of(co, 'None / StateAxes None / StateAxes Carry outputs rejected'), co, '_check_out_axes must reject None, StateAxes None and StateAxes Carry in out_axes')


@rule('C08.R9', 'K1', 2, 'one object passed under two different axis / differentiation specifications is rejected (shared with C04.R10)')
def r9(R, repo):
  _c04.check_aliasing_body(R, repo)


@rule('C08.R7', 'K1+K4', 40, 'vmap / pmap / scan / grad follow the tagged split -> call -> merge protocol (shared with C04.R1)')
def r7(R, repo):
  _c04.r1(R, repo)


@rule('C08.R8', 'K1+K4', 7, 'aliases under different axis specifications are rejected; graph leaves are treated uniformly (shared with C04.R3)')
def r8(R, repo):
  _c04.r3(R, repo)


meta('C08',
     explanation='Exactly-once append/pop lock-step of the deques that carry non-vectorised state across jax.lax.scan / jax.grad, sibling agreement of the axis-routing tables of the four '
     '_scan_* functions, inverse pairing of jnp.moveaxis calls (in: axis->0, out: 0->axis), diff/non-diff separation in _grad_split_fn, process_out exactly once on each of the four return '
     'paths of grad_wrapper, reachability of the rejection checks, and the transform protocol / aliasing rules shared with C04.',
     not_decided=['equality with per-index calls / the python loop / jax.grad of the functional form (values)', 'split_rngs key values'],
     mutants=[
         Mutant('C08-m1', IT, "          state = jax.tree.map(lambda x: jnp.moveaxis(x, 0, axis), state)", "          state = jax.tree.map(lambda x: jnp.moveaxis(x, axis, 0), state)", 'C08.R3', why='seed C08-A'),
         Mutant('C08-m2', AD, "        grads, pure_args_out = fn_out\n        grads = process_grads(grads)\n        _args_out = process_out(pure_args_out)\n        return grads", "        grads, _pure_args_out = fn_out\n        return process_grads(grads)", 'C08.R5', why='seed C08-B'),
         Mutant('C08-m3', AD, "      if prefix is None:\n        nondiff_states.append(None)\n        return extract.NodeStates.from_split(*ctx.split(value))", "      if prefix is None:\n        return extract.NodeStates.from_split(*ctx.split(value))", 'C08.R1'),
         Mutant('C08-m4', IT, "        if axis is None:\n          broadcast_states.append(state)\n        elif isinstance(axis, int):\n          state = jax.tree.map(lambda x: jnp.moveaxis(x, axis, 0), state)\n          vectorized_states.append(state)\n        else:  # axis is Carry\n          carry_states.append(state)",
                "        if axis is None:\n          carry_states.append(state)\n        elif isinstance(axis, int):\n          state = jax.tree.map(lambda x: jnp.moveaxis(x, axis, 0), state)\n          vectorized_states.append(state)\n        else:  # axis is Carry\n          broadcast_states.append(state)", 'C08.R2'),
         Mutant('C08-m5', IT, "    _check_carry_same_references(carry_arg, carry_arg_out)\n", "", 'C08.R6'),
         Mutant('C08-m6', IT, "    carry_states = carry_deque.popleft()\n    broadcast_states = broadcast_deque.popleft()\n    return ctx.merge(", "    carry_states = carry_deque.popleft()\n    broadcast_states = broadcast_deque[0]\n    return ctx.merge(", 'C08.R1'),
     ])
