"""C12 — feed-forward layers: dropout contract, BatchNorm running statistics, padding tables, bias use (Linen and NNX)."""
from __future__ import annotations

import ast

from .. import evid, astu, flow, types
from ..cfg import cfg_of
from ..model import AnalysisError
from ..report import key_of
from . import Mutant, meta, rule

LS = 'flax/linen/stochastic.py'
NS = 'flax/nnx/nn/stochastic.py'
LN = 'flax/linen/normalization.py'
NN = 'flax/nnx/nn/normalization.py'
LL = 'flax/linen/linear.py'
NL = 'flax/nnx/nn/linear.py'


def poly(e, atoms=None):
  """Polynomial normal form {sorted tuple of atom texts: coefficient} of an arithmetic expression (+, -, *, numbers)."""
  if isinstance(e, ast.Constant) and isinstance(e.value, (int, float)):
    return {(): e.value} if e.value != 0 else {}
  if isinstance(e, ast.BinOp) and isinstance(e.op, (ast.Add, ast.Sub)):
    a, b = poly(e.left), poly(e.right)
    out = dict(a)
    for k, v in b.items():
      out[k] = out.get(k, 0) + (v if isinstance(e.op, ast.Add) else -v)
    return {k: v for k, v in out.items() if v != 0}
  if isinstance(e, ast.BinOp) and isinstance(e.op, ast.Mult):
    a, b = poly(e.left), poly(e.right)
    out = {}
    for k1, v1 in a.items():
      for k2, v2 in b.items():
        k = tuple(sorted(k1 + k2))
        out[k] = out.get(k, 0) + v1 * v2
    return {k: v for k, v in out.items() if v != 0}
  if isinstance(e, ast.UnaryOp) and isinstance(e.op, ast.USub):
    return {k: -v for k, v in poly(e.operand).items()}
  return {(astu.src(e),): 1}


@rule('C12.R1', 'K1+K7', 10, 'Dropout: identity without drawing a key, zeros at rate 1, data-independent mask, survivors scaled by 1/(1-rate)')
def r1(R, repo):
  for rel in (LS, NS):
    f = repo.func(rel, 'Dropout.__call__')
    c = cfg_of(f)
    x = astu.params(f.node)[1]
    t0 = [n for n in c.nodes if n.kind == 'if' and isinstance(n.ast, ast.BoolOp) and isinstance(n.ast.op, ast.Or) and 'deterministic' in astu.names_loaded(n.ast) and 'self.rate' in astu.src(n.ast)]
    t1 = [n for n in c.nodes if n.kind == 'if' and astu.src(n.ast) == 'self.rate == 1.0']
    draws = [n for n in c.nodes if n.kind == 'stmt' and ('make_rng(' in astu.src(n.stmt) or 'rngs[self.rng_collection]()' in astu.src(n.stmt))]
    R.require(len(draws) == 1, '%s Dropout.__call__: rng draw not found' % rel)
    # broadcast_dims are axis numbers in numpy's sense (negative ones count from the end): the mask shape has to be built by
    # indexing (shape[dim] = 1), not by asking whether a non-negative position is "in" broadcast_dims
    memb = [y for y in ast.walk(f.node) if isinstance(y, ast.Compare) and len(y.ops) == 1 and isinstance(y.ops[0], (ast.In, ast.NotIn)) and astu.src(y.comparators[0]).endswith('broadcast_dims')
            and any(isinstance(g_, ast.comprehension) and isinstance(g_.iter, ast.Call) and astu.call_name(g_.iter) in ('enumerate', 'range') for a_ in astu.ancestors(y) for g_ in getattr(a_, 'generators', []))]
    if memb:
      R.fail(key_of(f, 'broadcast_dims accept negative axes'), (f, memb[0]), '`%s` compares non-negative positions with broadcast_dims: a negative axis (e.g. -1, as in the documentation of Dropout) never matches, so the mask is no longer shared along that axis' % astu.short(memb[0]))
    else:
      R.ok(key_of(f, 'broadcast_dims accept negative axes'), f)
    key = key_of(f, 'rate 0 / deterministic: returns the input itself, no key drawn')
    verdicts = []
    for env in ({'deterministic': True, 'self.rate == 0.0': False, 'self.rate == 1.0': False}, {'self.rate == 0.0': True, 'self.rate == 1.0': False, 'deterministic': False}):
      may, must = evid.reach_env(c, env)
      rets_may = [n for n in c.nodes if isinstance(n.stmt, ast.Return) and n in may]
      if draws[0] in must:
        verdicts.append(('fail', 'with %s a key is drawn (and the output rescaled) instead of returning the input unchanged' % ' / '.join('%s=%s' % kv for kv in list(env.items())[:1])))
      elif draws[0] not in may and rets_may and all(astu.src(n.stmt.value) == x for n in rets_may):
        verdicts.append(('ok', ''))
      else:
        verdicts.append(('unsure', 'early return for %s not recognised' % list(env)[0]))
    if any(v == 'fail' for v, _ in verdicts):
      R.fail(key, f, 'Dropout: ' + [m_ for v, m_ in verdicts if v == 'fail'][0])
    elif all(v == 'ok' for v, _ in verdicts):
      R.ok(key, f)
    else:
      R.unsure(key, f, [m_ for v, m_ in verdicts if v == 'unsure'][0])
    r0 = [n for n in c.nodes if isinstance(n.stmt, ast.Return) and astu.src(n.stmt.value) == x]
    if len(t1) != 1:
      t1 = [n for n in c.nodes if n.kind == 'if' and isinstance(n.ast, ast.Compare) and astu.is_const(n.ast.comparators[0], 1.0)]
    if len(t1) != 1:
      R.unsure(key_of(f, 'rate 1: zeros'), f, 'rate == 1.0 test not found')
      continue
    r1_ = [n for n in c.nodes if isinstance(n.stmt, ast.Return) and c.edge_guarded(n, t1[0], 'T')]
    evid.judge_expr(R, f, r1_[0].stmt.value if len(r1_) == 1 else None, 'jnp.zeros_like(%s)' % x, key_of(f, 'rate 1: zeros'), f, 'at rate 1.0 Dropout must return zeros_like(inputs)')
    bern = [y for y in astu.func_calls(f) if astu.call_name(y) == 'random.bernoulli']
    R.require(len(bern) == 1, '%s Dropout.__call__: random.bernoulli not found' % rel)
    # taint: values of `inputs` reach the mask only through .shape
    bad = []
    for a in list(bern[0].args) + [k.value for k in bern[0].keywords]:
      stack = [a]
      seen = set()
      while stack:
        e = stack.pop()
        for n in ast.walk(e):
          if isinstance(n, ast.Name) and n.id == x:
            p = astu.parent(n)
            if not (isinstance(p, ast.Attribute) and p.attr in ('shape', 'ndim', 'dtype')):
              bad.append(n)
          if isinstance(n, ast.Name) and n.id != x and n.id not in seen:
            seen.add(n.id)
            for d in flow.defs(f, n.id):
              if isinstance(d[0], ast.AST):
                stack.append(d[0])
              elif isinstance(d[0], tuple) and len(d[0]) > 1 and isinstance(d[0][1], ast.AST):
                stack.append(d[0][1])
    R.check(not bad, key_of(f, 'mask depends on the data only through its shape'), (f, bern[0]), evidence=True, msg_fail= 'the arguments of random.bernoulli depend on the values of `%s`: the dropout mask must be independent of the data' % x)
    kp = types.single_def(f.node, 'keep_prob')
    kp = evid._subst_flags(kp, f) if kp is not None else None
    R.judge(kp is not None and all(len(k_) <= 1 for k_ in poly(kp)) and set(poly(kp)) <= {(), ('self.rate',)}, kp is not None and poly(kp) == {(): 1.0, ('self.rate',): -1}, key_of(f, 'keep_prob = 1 - rate'), f, 'keep_prob must be 1.0 - self.rate (got `%s`)' % astu.src(kp))
    pk = astu.kwarg(bern[0], 'p') or (bern[0].args[1] if len(bern[0].args) > 1 else None)
    evid.judge_expr(R, f, pk, 'keep_prob', key_of(f, 'bernoulli(p=keep_prob)'), (f, bern[0]), 'the keep mask must be drawn with probability keep_prob', follow=False, vocab=('self', 'rate'))
    rets = [n for n in c.nodes if isinstance(n.stmt, ast.Return) and n not in r0 and n not in r1_]
    ok = len(rets) == 1 and astu.src(rets[0].stmt.value) == 'lax.select(mask, %s / keep_prob, jnp.zeros_like(%s))' % (x, x)
    if len(rets) == 1:
      evid.judge_expr(R, f, rets[0].stmt.value, 'lax.select(mask, %s / keep_prob, jnp.zeros_like(%s))' % (x, x), key_of(f, 'select(mask, inputs / keep_prob, 0)'), f, 'kept elements must be inputs / keep_prob and dropped elements zero')
    else:
      R.unsure(key_of(f, 'select(mask, inputs / keep_prob, 0)'), f, 'final return of Dropout.__call__ not found')


@rule('C12.R2', 'K8+K1', 6, 'BatchNorm: running statistics follow momentum*old + (1-momentum)*batch and are untouched in inference mode')
def r2(R, repo):
  for rel, old_mean, old_var in ((LN, 'ra_mean.value', 'ra_var.value'), (NN, 'self.mean.value', 'self.var.value')):
    f = repo.func(rel, 'BatchNorm.__call__')
    c = cfg_of(f)
    t = [n for n in c.nodes if n.kind == 'if' and astu.src(n.ast) == 'use_running_average']
    R.require(len(t) == 1, '%s BatchNorm.__call__: use_running_average test not found' % rel)
    stores = [n for n in c.nodes if isinstance(n.stmt, ast.Assign) and astu.src(n.stmt.targets[0]) in (old_mean, old_var)]
    R.judge(len(stores) >= 1, all(c.edge_guarded(s, t[0], 'F') for s in stores), key_of(f, 'no update of the running statistics in inference mode'), f, 'with use_running_average the running mean / var must not be written')
    for s in stores:
      tgt = astu.src(s.stmt.targets[0])
      batch = 'mean' if tgt == old_mean else 'var'
      got = poly(s.stmt.value)
      want = {tuple(sorted(('self.momentum', tgt))): 1, (batch,): 1, tuple(sorted(('self.momentum', batch))): -1}
      atoms = {a_ for k_ in got for a_ in k_}
      R.judge(atoms <= {'self.momentum', tgt, 'mean', 'var'}, got == want, key_of(f, '%s = m*old + (1-m)*batch' % tgt), (f, s.stmt), 'the update of %s must be momentum*old + (1-momentum)*batch_%s; got polynomial %s' % (tgt, batch, got))
    # in inference mode mean/var come from the running statistics
    md = [n for n in c.nodes if isinstance(n.stmt, ast.Assign) and c.edge_guarded(n, t[0], 'T') and 'mean' in astu.names_stored(n.stmt.targets[0])]
    R.check(len(md) >= 1 and all(old_mean.split('.value')[0] in astu.src(n.stmt.value) for n in md), key_of(f, 'inference uses the stored statistics'), f, 'in inference mode the normalisation must use the stored running statistics')
    cs = [x for x in astu.func_calls(f) if astu.call_name(x) == '_compute_stats']
    R.judge(len(cs) == 1 and not astu.has_star_kwargs(cs[0]), len(cs) == 1 and flow.kw_forwarded(cs[0], 'mask') and all(c.edge_guarded(n, t[0], 'F') for n in c.nodes_for(cs[0])), key_of(f, 'batch statistics (with mask) only in training mode'), f, 'batch statistics must be computed with the given mask, and only when not using running averages')
    if rel == LN:
      # every store into the running statistics must be reached only through an edge that establishes "not initialising"
      evid.judge_guard(R, c, stores, evid.call_named('is_initializing'), key_of(f, 'no update while initialising'), f,
                       'Linen BatchNorm must not update the running statistics during init (they must start at mean 0 / var 1): the stores are not guarded by `not self.is_initializing()`', negative=True)


@rule('C12.R3', 'K6', 8, '_compute_stats: every mean (also the variance of the two-pass form) is taken over the masked positions only')
def r3(R, repo):
  for rel in (LN, NN):
    f = repo.func(rel, '_compute_stats')
    calls = [x for x in astu.func_calls(f) if astu.call_name(x) == 'maybe_distributed_mean']
    R.require(len(calls) == 4, '%s _compute_stats: four maybe_distributed_mean calls expected' % rel)
    for x in calls:
      R.check(flow.kw_forwarded(x, 'mask'), key_of(f, 'mask forwarded', astu.short(x, 60)), (f, x), evidence=not astu.has_star_kwargs(x) and len(x.args) < 2, msg_fail=
              '`%s` does not pass mask=mask: this statistic is then averaged over masked-out (padding) positions too, so padding leaks into the normalised outputs and running variance' % astu.short(x, 80))
    h = repo.func(rel, '_compute_stats.maybe_distributed_mean')
    # a hand-written masked mean (sum of kept values / number of kept values) is right only when the count is taken over the
    # mask broadcast to the shape of x; `sum(mask)` counts the mask's own elements
    hand = None
    for n_ in ast.walk(h.node):
      if isinstance(n_, ast.BinOp) and isinstance(n_.op, ast.Div):
        for den in evid.expand(h, n_.right):
          if isinstance(den, ast.Call) and astu.call_tail(den) == 'sum' and den.args and any(isinstance(a_, ast.Name) and a_.id == 'mask' for a_ in den.args[:1]) and \
              not any(isinstance(y_, ast.Call) and astu.call_tail(y_) in ('broadcast_to', 'broadcast_arrays') for y_ in ast.walk(den)):
            hand = n_
    if hand is not None and 'where=mask' not in astu.src(h.node).replace(' ', '').replace('where=mask,', 'where=mask') :
      R.fail(key_of(h, 'mean(axes, where=mask)'), (h, hand), '`%s` divides the masked sum by the number of True entries of the mask itself: a mask that is broadcast against x (e.g. one flag per position for all features) gives a count that is too small, so the statistics are scaled wrongly; x.mean(axes, where=mask) counts the broadcast positions' % astu.short(hand))
      continue
    R.check('x.mean(axes, where=mask)' in astu.src(h.node), key_of(h, 'mean(axes, where=mask)'), h, 'the helper must reduce with where=mask')
    t = astu.src(f.node)
    R.check('var = jnp.maximum(0.0, mu2 - _abs_sq(mu))' in t and '_abs_sq(x - jnp.expand_dims(mu, axes))' in t, key_of(f, 'variance = E|x|^2 - |E x|^2 (fast) / E|x - mu|^2 (two-pass)'), f, 'the variance must be E|x|² − |E x|² (clamped at 0) or E|x − mean|²')


def _pad_tables(f):
  """Tables of the special-cased padding block of a Conv.__call__."""
  out = {'modes': [], 'mode_map': None, 'low_high': None, 'dilated': None, 'causal_pads': None, 'left_pad': None}
  for n in astu.body_walk(f.node):
    if isinstance(n, ast.If) and isinstance(n.test, ast.Compare) and astu.src(n.test.left) == 'padding_lax':
      cmp_ = n.test.comparators[0]
      vals = [e.value for e in cmp_.elts] if isinstance(cmp_, ast.Tuple) else ([cmp_.value] if isinstance(cmp_, ast.Constant) else [])
      out['modes'] += vals
  for n in ast.walk(f.node):
    if isinstance(n, ast.Subscript) and isinstance(n.value, ast.Dict) and astu.src(n.slice) == 'padding_lax':
      out['mode_map'] = {astu.const_str(k): astu.const_str(v) for k, v in zip(n.value.keys, n.value.values)}
    if isinstance(n, ast.ListComp) and isinstance(n.elt, ast.Tuple) and len(n.elt.elts) == 2 and astu.src(n.generators[0].iter) == 'kernel_size_dilated':
      out['low_high'] = (astu.src(n.elt.elts[0]), astu.src(n.elt.elts[1]), astu.src(n.generators[0].target))
    if isinstance(n, (ast.Assign, ast.AnnAssign)) and astu.src(n.targets[0] if isinstance(n, ast.Assign) else n.target) == 'kernel_size_dilated':
      out['dilated'] = astu.src(n.value)
    if isinstance(n, ast.Assign) and astu.src(n.targets[0]) == 'left_pad':
      out['left_pad'] = astu.src(n.value)
    if isinstance(n, ast.Assign) and astu.src(n.targets[0]) == 'pads' and 'left_pad' in astu.src(n.value):
      out['causal_pads'] = astu.src(n.value)
  return out


@rule('C12.R4', 'K4', 8, 'Conv padding: the same special modes, pad-mode table and pad amounts in Linen and NNX; low = (k-1)//2, high = k//2')
def r4(R, repo):
  a, b = repo.func(LL, '_Conv.__call__'), repo.func(NL, 'Conv.__call__')
  ta, tb = _pad_tables(a), _pad_tables(b)
  for key in ('modes', 'mode_map', 'low_high', 'dilated', 'causal_pads', 'left_pad'):
    R.judge(ta[key] is not None and tb[key] is not None and ta[key] != [], ta[key] == tb[key], key_of('Conv', 'Linen == NNX: %s' % key), a, 'Linen _Conv and NNX Conv disagree on %s: %s vs %s — the two APIs would produce different outputs for the same parameters' % (key, ta[key], tb[key]))
  for f, t in ((a, ta), (b, tb)):
    R.check(sorted(t['modes']) == ['CAUSAL', 'CIRCULAR', 'REFLECT'] and t['mode_map'] == {'CIRCULAR': 'wrap', 'REFLECT': 'reflect'}, key_of(f, 'CIRCULAR->wrap, REFLECT->reflect, CAUSAL'), f, 'the special-cased padding modes must be CIRCULAR (wrap), REFLECT (reflect) and CAUSAL')
    lh = t['low_high']
    ok = lh is not None and lh[0] == '(%s - 1) // 2' % lh[2] and lh[1] == '%s // 2' % lh[2]
    R.judge(lh is not None and sorted(lh[:2]) == sorted(['(%s - 1) // 2' % lh[2], '%s // 2' % lh[2]]), ok, key_of(f, 'pad (low, high) = ((k-1)//2, k//2) of the dilated kernel'), f,
            'explicit CIRCULAR/REFLECT padding must put (k-1)//2 elements before and k//2 after along each spatial axis (got %s): swapping them shifts the output by one position for even kernel extents' % (lh,))
    R.check(t['dilated'] == '[(k - 1) * d + 1 for k, d in zip(kernel_size, kernel_dilation)]', key_of(f, 'dilated extent = (k-1)*d + 1'), f, 'the dilated kernel extent must be (k-1)*d + 1')
    R.check(t['left_pad'] == 'kernel_dilation[0] * (kernel_size[0] - 1)' and t['causal_pads'] == '[(0, 0), (left_pad, 0), (0, 0)]', key_of(f, 'CAUSAL pads d*(k-1) on the left only'), f, 'CAUSAL padding must pad dilation*(k-1) on the left and nothing on the right')
  ca, cb = repo.func(LL, 'ConvTranspose.__call__'), repo.func(NL, 'ConvTranspose.__call__')
  ma = sorted({n.comparators[0].value for n in ast.walk(ca.node) if isinstance(n, ast.Compare) and isinstance(n.comparators[0], ast.Constant) and isinstance(n.comparators[0].value, str) and 'padding' in astu.src(n.left)})
  mb = sorted({n.comparators[0].value for n in ast.walk(cb.node) if isinstance(n, ast.Compare) and isinstance(n.comparators[0], ast.Constant) and isinstance(n.comparators[0].value, str) and 'padding' in astu.src(n.left)})
  R.check(ma == mb == ['CIRCULAR'], key_of('ConvTranspose', 'Linen == NNX special padding modes'), ca, 'Linen and NNX ConvTranspose special-case different padding modes: %s vs %s' % (ma, mb))


BIAS_LAYERS = [(LL, 'Dense'), (LL, 'DenseGeneral'), (LL, 'Einsum'), (LL, '_Conv'), (LL, 'ConvTranspose'), (NL, 'Linear'), (NL, 'LinearGeneral'), (NL, 'Einsum'), (NL, 'Conv'), (NL, 'ConvTranspose')]


@rule('C12.R5', 'K7', 10, 'the bias is added after the contraction exactly when use_bias, and not created otherwise')
def r5(R, repo):
  for rel, cls in BIAS_LAYERS:
    f = repo.func(rel, cls + '.__call__')
    c = cfg_of(f)
    adds = [n for n in c.nodes if isinstance(n.stmt, ast.AugAssign) and isinstance(n.stmt.op, ast.Add) and 'bias' in astu.names_loaded(n.stmt.value)]
    R.require(len(adds) == 1, '%s.%s: `out += bias` not found' % (rel, cls))
    tests = [t for t in c.nodes if t.kind == 'if' and astu.src(t.ast) in ('bias is not None', 'self.use_bias') and c.edge_guarded(adds[0], t, 'T')]
    contr = [n for x in astu.func_calls(f) if (astu.call_tail(x) in ('dot_general', 'einsum', 'conv_general_dilated', 'conv_transpose', 'conv_general_dilated_local', 'conv_fn') or astu.src(x.func) in ('dot_general', 'einsum', 'conv_general_dilated')) for n in c.nodes_for(x)]
    ok = len(tests) >= 1 and (not contr or all(adds[0] in c.reach([x]) for x in contr))
    R.check(ok, key_of(f, 'out += bias only under use_bias / bias is not None, after the contraction'), (f, adds[0].stmt), '%s must add the bias after the contraction and only when a bias exists' % cls)
    if rel == LL:
      mk = [n for n in c.nodes if isinstance(n.stmt, ast.Assign) and astu.src(n.stmt.targets[0]) == 'bias' and isinstance(n.stmt.value, ast.Call) and astu.src(n.stmt.value.func) == 'self.param']
      none = [n for n in c.nodes if isinstance(n.stmt, ast.Assign) and astu.src(n.stmt) == 'bias = None']
      tb = [t for t in c.nodes if t.kind == 'if' and astu.src(t.ast) == 'self.use_bias']
      ok = len(mk) == 1 and len(none) == 1 and tb and c.edge_guarded(mk[0], tb[0], 'T') and c.edge_guarded(none[0], tb[0], 'F') and astu.const_str(mk[0].stmt.value.args[0]) == 'bias'
      R.check(ok, key_of(f, "param 'bias' created iff use_bias"), f, "%s must create the 'bias' parameter exactly when use_bias is set" % cls)
  for rel in ('flax/linen/linear.py', 'flax/nnx/nn/linear.py'):
    at = repo.func(rel, 'Embed.attend')
    cl = repo.func(rel, 'Embed.__call__')
    emb = 'embedding'
    R.check(emb in astu.src(at.node) and emb in astu.src(cl.node) and ('.T' in astu.src(at.node) or 'dot' in astu.src(at.node)), key_of(at, 'attend contracts with the same embedding table'), at, 'Embed.attend must contract the query with the same embedding table that __call__ indexes')



@rule('C12.R6', 'K3', 8, 'an NNX layer\'s forward pass never writes into its own parameters (only BatchNorm\'s running statistics are updated)')
def r6(R, repo):
  n = 0
  for rel in (NL, NN, NS, 'flax/nnx/nn/lora.py'):
    if rel not in repo._paths:
      continue
    mod = repo.mod(rel)
    for q, f in sorted(mod.funcs.items()):
      if not q.endswith('.__call__') or q.count('.') != 1:
        continue
      n += 1
      bad = None
      me = astu.params(f.node)[0] if astu.params(f.node) else 'self'
      # names that hold a Variable of the layer itself (self.kernel), not its value (self.kernel.value)
      holders = set()
      for nm in {t.id for st in astu.body_walk(f.node) if isinstance(st, ast.Assign) for t in st.targets if isinstance(t, ast.Name)}:
        ds = [d[0] for d in flow.defs(f, nm) if isinstance(d[0], ast.AST)]
        if ds and any(isinstance(d, ast.Attribute) and isinstance(d.value, ast.Name) and d.value.id == me for d in ds):
          holders.add(nm)
      for st in astu.body_walk(f.node):
        if isinstance(st, ast.AugAssign):
          t = st.target
          if isinstance(t, ast.Name) and t.id in holders:
            bad = (st, '`%s` updates `%s` in place, and `%s` is the layer\'s own Variable (bound from `%s.%s`, not from its `.value`): the stored parameter is overwritten on every forward pass' % (
                astu.short(st), t.id, t.id, me, next(astu.src(d[0]).split('.', 1)[1] for d in flow.defs(f, t.id) if isinstance(d[0], ast.Attribute))))
          elif isinstance(t, ast.Attribute) and astu.src(t).startswith(me + '.') and rel != NN:
            bad = (st, '`%s` writes into the layer\'s own state during the forward pass' % astu.short(st))
        elif isinstance(st, ast.Assign) and rel != NN:
          for t in st.targets:
            if isinstance(t, ast.Attribute) and astu.src(t).startswith(me + '.') and t.attr == 'value':
              bad = (st, '`%s` overwrites a parameter of the layer during the forward pass' % astu.short(st))
      key = key_of(f, 'parameters are read, never written')
      if bad:
        R.fail(key, (f, bad[0]), bad[1] + ' (Linen and the documented formula treat parameters as read-only inputs)')
      else:
        R.ok(key, f)
  R.require(n >= 8, 'expected >= 8 NNX layer __call__ methods, found %d' % n)

meta('C12',
     explanation='Only the clauses whose truth is in the shape of the code: the Dropout contract (early identity return dominating the rng draw, zeros at rate 1, mask arguments tainted by the data only '
     'through .shape, keep_prob = 1 - rate in polynomial normal form), BatchNorm running-statistic updates in polynomial normal form and their absence in inference mode, mask forwarding in every '
     'mean of _compute_stats, agreement of the Conv padding tables between Linen and NNX with the (k-1)//2, k//2 split, and bias creation/use under use_bias.',
     not_decided=['every numerical claim: contractions, convolution vs direct sum for all strides/dilations/groups, normalisation statistics as values, pooling, dtype promotion',
                  'Linen/NNX numerical agreement beyond the compared tables'],
     mutants=[
         Mutant('C12-m1', LL, "        + [((k - 1) // 2, k // 2) for k in kernel_size_dilated]", "        + [(k // 2, (k - 1) // 2) for k in kernel_size_dilated]", 'C12.R4', why='seed C12-A'),
         Mutant('C12-m2', LN, "      var = maybe_distributed_mean(\n        _abs_sq(x - jnp.expand_dims(mu, axes)), mask=mask\n      )", "      var = maybe_distributed_mean(\n        _abs_sq(x - jnp.expand_dims(mu, axes))\n      )", 'C12.R3', why='seed C12-B'),
         Mutant('C12-m3', LS, "    if (self.rate == 0.0) or deterministic:\n      return inputs\n", "", 'C12.R1', why='fails closed or violation'),
         Mutant('C12-m4', NN, "      self.var.value = (\n        self.momentum * self.var.value + (1 - self.momentum) * var\n      )", "      self.var.value = (\n        self.momentum * var + (1 - self.momentum) * self.var.value\n      )", 'C12.R2'),
         Mutant('C12-m5', NS, "    mask = random.bernoulli(rng, p=keep_prob, shape=broadcast_shape)", "    mask = random.bernoulli(rng, p=keep_prob * (inputs != 0), shape=broadcast_shape)", 'C12.R1'),
     ])
