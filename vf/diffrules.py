"""Expression-level comparison with the vetted reference tree (rule R91 of every property).

The rules of vf/props/*.py were validated on the reference tree (vf/reference.json).  For every function of a
property's anchor files that still exists under the same name, the expressions below are matched against the ones
recorded for that function on the reference tree.  Only a match that is *unique in the function on both trees*
is compared, and only differences that change what the matched expression computes are reported:

  D1  the same callee receives the same positional arguments in another order            f(a, b)  ->  f(b, a)
  D2  a boolean keyword constant of the same call is flipped                             g(x, keep=True)  ->  g(x, keep=False)
  D3  a keyword through which the enclosing function forwarded one of its own parameters
      (or another non-constant value) is no longer passed: no **splat, not turned positional   h(x, axis=axis)  ->  h(x)
  D4  a comparison between the same two operands uses another relation that is neither the old one nor its
      complement (the complement appears when a test is inverted and its branches exchanged)    n < k -> n <= k,  a != b -> a > b
  D5  a constant index into the same object changed                                      stack[-1] -> stack[0]
  D6  the operands of the same non-commutative operator are exchanged                    a - b -> b - a
  D9  a call statement made for its effect (not a container method, not logging) is gone and nothing in the function calls that
      callee any more (and the callee still exists)                                       node_impl.clear(node)  ->  (nothing)
  D10 an operand compared with None / False on the reference tree is now only tested by truthiness   if step is not None -> if step
  D11 the same conditions joined by the other connective (and <-> or)
  D12 `t = A if c else B` became unconditionally `t = A` and `c` is tested nowhere in the function any more
  D5b a subscript made only of literals changed                                              x[..., None] -> x[:, None]
  D13 the default value of a parameter changed (a module constant with the old text counts as the same)
  D7  one positional argument that is a parameter of the enclosing function is no longer passed, the other
      arguments unchanged and in order                                                    merge(state, *states) -> merge(*states)

A function that was renamed, split or rewritten produces no unique matches and nothing is reported for it (the
specific rules decide, or nobody does).  A compensated edit (both the flag and its meaning inverted) would be
reported wrongly; none of the 140 stored behaviour-preserving refactorings does that.
"""
from __future__ import annotations

import ast

from . import astu, reference
from .report import key_of

COMMUTATIVE_CALLEES = {'zip', 'max', 'min', 'union', 'intersection', 'add', 'multiply', 'maximum', 'minimum', 'allclose', 'array_equal', 'logical_and',
                       'logical_or', 'equal', 'not_equal', 'isclose', 'union_filters', 'intersect_filters', 'set', 'sorted', 'concatenate', 'dot', 'all', 'any',
                       'assertEqual', 'assert_allclose', 'assert_array_equal', 'symmetric_difference'}
_COMPLEMENT = {'Lt': 'GtE', 'GtE': 'Lt', 'Gt': 'LtE', 'LtE': 'Gt', 'Eq': 'NotEq', 'NotEq': 'Eq', 'Is': 'IsNot', 'IsNot': 'Is', 'In': 'NotIn', 'NotIn': 'In'}
_MIRROR = {'Lt': 'Gt', 'Gt': 'Lt', 'LtE': 'GtE', 'GtE': 'LtE', 'Eq': 'Eq', 'NotEq': 'NotEq'}
_CONTAINER_METHODS = {'append', 'extend', 'add', 'insert', 'pop', 'popleft', 'appendleft', 'remove', 'discard', 'setdefault', 'update', 'sort', 'reverse', 'write', 'put', 'put_nowait'}
_NONCOMM = (ast.Sub, ast.Div, ast.FloorDiv, ast.Mod, ast.Pow, ast.MatMult, ast.LShift, ast.RShift)


def _own_nodes(fn):
  """Nodes of fn's body, not descending into nested function definitions (they are functions of their own) but into lambdas."""
  stack = [x for x in fn.body if not isinstance(x, (ast.FunctionDef, ast.AsyncFunctionDef, ast.ClassDef))]
  while stack:
    n = stack.pop()
    yield n
    for ch in ast.iter_child_nodes(n):
      if isinstance(ch, (ast.FunctionDef, ast.AsyncFunctionDef, ast.ClassDef)):
        continue
      stack.append(ch)


def _in_message(node):
  """Inside a raise / warning / logging / assert message: not behaviour the properties speak about."""
  for a in astu.ancestors(node):
    if isinstance(a, ast.Raise):
      return True
    if isinstance(a, ast.Call):
      nm = astu.call_name(a) or ''
      if nm.startswith('logging.') or nm.startswith('warnings.') or nm.endswith('.warn') or nm == 'print':
        return True
    if isinstance(a, (ast.JoinedStr,)):
      return True
    if isinstance(a, ast.stmt):
      if isinstance(a, ast.Assert):
        return node is not a.test and not any(x is node for x in ast.walk(a.test))
      return False
  return False


def _is_literal(e):
  try:
    ast.literal_eval(e)
    return True
  except Exception:
    return False


def atoms(fn):
  """{'call': {callee: [[pos texts], {kw: text}, splat, line]}, 'cmp': {...}, 'idx': {...}, 'bin': {...}} with only unique keys kept."""
  calls, cmps, idxs, bins = {}, {}, {}, {}
  params = set(astu.params(fn))
  for n in _own_nodes(fn):
    if isinstance(n, ast.Call) and not _in_message(n):
      callee = astu.src(n.func)
      if len(callee) > 80:
        continue
      pos = [astu.src(a) for a in n.args]
      kws = {k.arg: astu.src(k.value) for k in n.keywords if k.arg is not None}
      kinds = {k.arg: ('const' if _is_literal(k.value) else 'expr') for k in n.keywords if k.arg is not None}
      splat = any(k.arg is None for k in n.keywords) or any(isinstance(a, ast.Starred) for a in n.args)
      own_kw = fn.args.kwarg.arg if getattr(fn, 'args', None) is not None and fn.args.kwarg is not None else None
      own_va = fn.args.vararg.arg if getattr(fn, 'args', None) is not None and fn.args.vararg is not None else None
      # `*args, **kwargs` of the enclosing function itself cannot carry one of its *named* parameters
      if splat and all(k.arg is not None or (isinstance(k.value, ast.Name) and k.value.id == own_kw) for k in n.keywords) and \
          all(not isinstance(a, ast.Starred) or (isinstance(a.value, ast.Name) and a.value.id == own_va) for a in n.args):
        splat = 'own'
      entry = [pos, kws, kinds, splat, getattr(n, 'lineno', 0)]
      calls.setdefault(callee, []).append(entry)
      if len(pos) >= 1 and not splat:
        # second key: the callee together with the multiset of its positional arguments (finds a transposition when the callee is called several times)
        calls.setdefault('%s @@ %s' % (callee, ' ## '.join(sorted(pos))), []).append(entry)
      if isinstance(n.func, ast.Attribute) and len(n.args) == 1 and not n.keywords and not isinstance(n.args[0], ast.Starred):
        recv, arg = astu.src(n.func.value), astu.src(n.args[0])
        if recv != arg and len(recv) + len(arg) <= 120:
          bins.setdefault('.%s() ## %s' % (n.func.attr, ' ## '.join(sorted([recv, arg]))), []).append([recv, arg, getattr(n, 'lineno', 0)])
    elif isinstance(n, ast.Compare) and len(n.ops) == 1 and not _in_message(n):
      l, r = astu.src(n.left), astu.src(n.comparators[0])
      if len(l) + len(r) > 160:
        continue
      cmps.setdefault('%s ## %s' % (l, r), []).append([type(n.ops[0]).__name__, getattr(n, 'lineno', 0)])
    elif isinstance(n, ast.Subscript) and isinstance(n.ctx, ast.Load) and not _in_message(n):
      s = n.slice
      v = None
      if isinstance(s, ast.Constant) and isinstance(s.value, int) and not isinstance(s.value, bool):
        v = s.value
      elif isinstance(s, ast.UnaryOp) and isinstance(s.op, ast.USub) and isinstance(s.operand, ast.Constant) and isinstance(s.operand.value, int):
        v = -s.operand.value
      if v is not None and len(astu.src(n.value)) <= 100:
        idxs.setdefault(astu.src(n.value), []).append([v, getattr(n, 'lineno', 0)])
    elif isinstance(n, ast.BinOp) and isinstance(n.op, _NONCOMM) and not _in_message(n):
      l, r = astu.src(n.left), astu.src(n.right)
      if l != r and len(l) + len(r) <= 160 and not isinstance(n.left, ast.Constant) and not (isinstance(n.op, ast.Mod) and isinstance(n.left, (ast.Constant, ast.JoinedStr))):
        bins.setdefault('%s ## %s' % (type(n.op).__name__, ' ## '.join(sorted([l, r]))), []).append([l, r, getattr(n, 'lineno', 0)])
  uniq = lambda d: {k: v[0] for k, v in d.items() if len(v) == 1}
  # call statements made for their effect (`x.clear(y)`, `scope.invalidate()`), keyed by callee text; all callee texts of the function
  effects, all_callees, truthy = {}, set(), set()
  for n in _own_nodes(fn):
    if isinstance(n, ast.Call):
      all_callees.add(astu.src(n.func)[-80:])
      all_callees.add((astu.call_tail(n) or ''))
    if isinstance(n, ast.Expr) and isinstance(n.value, ast.Call) and not _in_message(n.value):
      nm = astu.call_name(n.value) or ''
      tail = astu.call_tail(n.value) or ''
      if tail in _CONTAINER_METHODS or nm.startswith('logging.') or nm.startswith('warnings.') or nm in ('print', 'super') or tail in ('record_event', 'warn', 'info', 'debug'):
        continue
      effects.setdefault(astu.src(n.value.func)[-80:], []).append(getattr(n, 'lineno', 0))
    # operands tested by truthiness
    tests = []
    if isinstance(n, (ast.If, ast.While, ast.IfExp)):
      tests = [n.test]
    elif isinstance(n, ast.BoolOp):
      tests = list(n.values)
    elif isinstance(n, ast.UnaryOp) and isinstance(n.op, ast.Not):
      tests = [n.operand]
    for te in tests:
      while isinstance(te, ast.UnaryOp) and isinstance(te.op, ast.Not):
        te = te.operand
      if isinstance(te, (ast.Name, ast.Attribute)) and astu.dotted(te):
        truthy.add(astu.dotted(te))
  # boolean connectives keyed by their operands; conditional expressions keyed by their target; literal slices keyed by their base
  bools, ifexps, lslices = {}, {}, {}
  for n in _own_nodes(fn):
    if isinstance(n, ast.BoolOp) and not _in_message(n):
      ops = sorted(astu.src(v) for v in n.values)
      if sum(len(o) for o in ops) <= 240:
        bools.setdefault(' ## '.join(ops), []).append([type(n.op).__name__, getattr(n, 'lineno', 0)])
    if isinstance(n, (ast.Assign, ast.Return)) and isinstance(n.value, ast.IfExp):
      tgt = astu.src(n.targets[0]) if isinstance(n, ast.Assign) and len(n.targets) == 1 else ('return' if isinstance(n, ast.Return) else None)
      if tgt is not None:
        ifexps.setdefault(tgt, []).append([astu.src(n.value.test), astu.src(n.value.body), astu.src(n.value.orelse), getattr(n, 'lineno', 0)])
    if isinstance(n, ast.Subscript) and isinstance(n.ctx, ast.Load) and not _in_message(n) and not any(isinstance(y, (ast.Name, ast.Attribute, ast.Call)) for y in ast.walk(n.slice)) and len(astu.src(n.value)) <= 100:
      lslices.setdefault(astu.src(n.value), []).append([astu.src(n.slice), getattr(n, 'lineno', 0)])
  plain = {}
  for n in _own_nodes(fn):
    if isinstance(n, ast.Assign) and len(n.targets) == 1 and not isinstance(n.value, ast.IfExp):
      plain.setdefault(astu.src(n.targets[0]), []).append(astu.src(n.value))
    elif isinstance(n, ast.Return) and n.value is not None and not isinstance(n.value, ast.IfExp):
      plain.setdefault('return', []).append(astu.src(n.value))
  tests = sorted({astu.src(n.test) for n in _own_nodes(fn) if isinstance(n, (ast.If, ast.IfExp, ast.While))})
  # `X is None` / `X is not None` / `X is False` ... per operand X
  nonecmp = {}
  for n in _own_nodes(fn):
    if isinstance(n, ast.Compare) and len(n.ops) == 1 and isinstance(n.ops[0], (ast.Is, ast.IsNot, ast.Eq, ast.NotEq)) and isinstance(n.comparators[0], ast.Constant) and n.comparators[0].value in (None, False) \
        and not isinstance(n.comparators[0].value, int if n.comparators[0].value is None else str) and astu.dotted(n.left):
      nonecmp.setdefault(astu.dotted(n.left), []).append(repr(n.comparators[0].value))
  defaults = {}
  if getattr(fn, 'args', None) is not None:
    a_ = fn.args
    pos_ = a_.posonlyargs + a_.args
    for x_, d_ in list(zip(pos_[len(pos_) - len(a_.defaults):], a_.defaults)) + [(x_, d_) for x_, d_ in zip(a_.kwonlyargs, a_.kw_defaults) if d_ is not None]:
      defaults[x_.arg] = astu.src(d_)
  return {'defaults': defaults, 'call': uniq(calls), 'cmp': uniq(cmps), 'idx': uniq(idxs), 'bin': uniq(bins), 'params': sorted(params),
          'fx': {k: v[0] for k, v in effects.items() if len(v) == 1}, 'callees': sorted(all_callees), 'truthy': sorted(truthy), 'nonecmp': {k: sorted(set(v)) for k, v in nonecmp.items()},
          'bool': uniq(bools), 'ifexp': uniq(ifexps), 'lslice': uniq(lslices), 'plain': {k: v for k, v in plain.items() if len(v) == 1}, 'tests': tests}


def call_counts(tree):
  """How often each function / method name is called anywhere in a module."""
  out = {}
  for n in ast.walk(tree):
    if isinstance(n, ast.Call):
      t = astu.call_tail(n) or ''
      if t:
        out[t] = out.get(t, 0) + 1
  return out


def table(repo, rels):
  out = {}
  for rel in rels:
    if rel not in repo._paths:
      continue
    m = repo._load(rel)
    out['#calls|' + rel] = call_counts(m._tree)
    for q, f in m._funcs.items():
      a = atoms(f.node)
      if a['call'] or a['cmp'] or a['idx'] or a['bin'] or a['fx'] or a['nonecmp'] or a['bool'] or a['ifexp'] or a['lslice'] or a['defaults']:
        out['%s|%s' % (rel, q)] = a
  return out


def _tail(callee):
  return callee.split('.')[-1].split('(')[0]


def compare(R, f, ref, now, module_funcs=None, counts=None, repo=None, module_consts=None):
  """Report D1-D6 differences between the reference atoms and the current atoms of one function."""
  n_cmp = 0
  q = f.qual
  for ckey, (rpos, rkw, rkind, rsplat, _l) in ref['call'].items():
    cur = now['call'].get(ckey)
    if cur is None:
      continue
    callee = ckey.split(' @@ ')[0]
    if ' @@ ' in ckey and callee in ref['call'] and callee in now['call']:
      continue  # already compared under the plain callee key
    npos, nkw, nkind, nsplat, line = cur
    n_cmp += 1
    if not rsplat and not nsplat and len(rpos) >= 2 and sorted(rpos) == sorted(npos) and rpos != npos and len(set(rpos)) == len(rpos) and _tail(callee) not in COMMUTATIVE_CALLEES:
      R.fail(key_of(f, 'arguments of %s(...) keep their order' % callee), (f, line),
             '`%s(%s)`: the same arguments are passed in another order than on the reference tree (`%s(%s)`)' % (callee, ', '.join(npos), callee, ', '.join(rpos)))
    if len(npos) == len(rpos) - 1 and ' @@ ' not in ckey and not any(v_ in rpos for v_ in nkw.values() if v_ not in rkw.values()):
      # D7: exactly one positional argument is gone, the others unchanged and in order, and it did not become a keyword
      gone = [i for i in range(len(rpos)) if rpos[:i] + rpos[i + 1:] == npos]
      if len(gone) >= 1 and set(nkw) == set(rkw) and rpos[gone[0]] in ref.get('params', ()) and rpos[gone[0]] in now.get('params', ()) and _tail(callee) not in ('zip', 'get', 'getattr', 'print', 'format', 'join', 'isinstance'):
        R.fail(key_of(f, '%s(...) still receives `%s`' % (callee, rpos[gone[0]])), (f, line),
               '`%s(%s)` no longer passes `%s` (reference tree: `%s(%s)`): that value silently drops out of the computation' % (callee, ', '.join(npos), rpos[gone[0]], callee, ', '.join(rpos)))
    for k, v in rkw.items():
      if k in nkw:
        if rkind.get(k) == 'const' and nkind.get(k) == 'const' and {v, nkw[k]} == {'True', 'False'}:
          R.fail(key_of(f, '%s(..., %s=%s)' % (callee, k, v)), (f, line), '`%s(..., %s=%s)`: the flag is %s on the reference tree' % (callee, k, nkw[k], v))
      elif rkind.get(k) == 'expr' and len(npos) > len(rpos) and not nsplat and not rsplat:
        # some keywords were turned into positional arguments: those are accounted for by their text; a keyword whose value appears
        # nowhere among the new positionals, when every new positional is accounted for, is really gone
        extra = npos[len(rpos):]
        moved = [k2 for k2, v2 in rkw.items() if k2 not in nkw and v2 in extra]
        if len(moved) == len(extra) and k not in moved and v not in npos:
          R.fail(key_of(f, '%s(..., %s=%s) still passed' % (callee, k, v)), (f, line),
                 '`%s(...)` was rewritten with positional arguments (%s) and no longer receives `%s=%s`: the callee silently falls back to its default for that option' % (callee, ', '.join(extra), k, v))
      elif rkind.get(k) == 'expr' and len(npos) <= len(rpos) and ((not nsplat and not rsplat) or (nsplat in (False, 'own') and rsplat in (False, 'own') and v == k and k in ref.get('params', ()) and k in now.get('params', ()))):
        fwd = v in ref.get('params', ()) or v.split('.')[0] in ref.get('params', ())
        R.fail(key_of(f, '%s(..., %s=%s) still passed' % (callee, k, v)), (f, line),
               '`%s(...)` no longer receives `%s=%s`%s: the callee silently falls back to its default for that option' % (callee, k, v, ' (a parameter of %s that callers can set)' % q if fwd else ''))
  for key, (rop, _l) in ref['cmp'].items():
    cur = now['cmp'].get(key)
    l, r = key.split(' ## ', 1)
    if cur is None:
      # the same two operands written the other way round: a < b  ==  b > a
      cur2 = now['cmp'].get('%s ## %s' % (r, l))
      if cur2 is None or rop not in _MIRROR:
        continue
      nop, line = _MIRROR.get(cur2[0], cur2[0]), cur2[1]
    else:
      nop, line = cur
    n_cmp += 1
    if nop != rop and nop != _COMPLEMENT.get(rop):
      R.fail(key_of(f, 'relation between %s and %s' % (l, r)), (f, line),
             'the test between `%s` and `%s` uses `%s`; on the reference tree it is `%s` (and the change is not the inversion of the test): a boundary or a whole class of inputs is now treated differently' % (l, r, nop, rop))
  # D9: a call statement made for its effect is gone: no call with that callee text (nor that method / function name) anywhere in the function any more
  for callee, line in (ref.get('fx') or {}).items():
    tail = _tail(callee)
    if callee in now.get('callees', ()) or tail in now.get('callees', ()):
      continue
    if module_funcs is not None and '.' not in callee and callee not in module_funcs:
      continue  # the called helper itself was removed / inlined
    if any((isinstance(x, ast.Attribute) and x.attr == tail) or (isinstance(x, ast.Name) and x.id == tail) for x in _own_nodes(f.node) if isinstance(getattr(x, 'ctx', None), ast.Load)):
      continue  # the function is still referred to as a value (`fn = io.rmtree if … else io.remove; fn(path)`, `map(f, xs)`)
    if counts is not None and counts[1].get(tail, 0) >= counts[0].get(tail, 0):
      continue  # the call moved to another function of the module (a helper was extracted)
    if repo is not None:
      from . import evid
      try:
        if evid.calls_deep(repo, f, lambda y, _t=tail: (astu.call_tail(y) or '') == _t, depth=3):
          continue  # still made through a function this one calls
      except Exception:
        continue
    n_cmp += 1
    R.fail(key_of(f, 'effect call %s(...) is still made' % callee), f, '`%s(...)` is a statement of %s on the reference tree (line %d) made for its effect; neither it nor any other call of `%s` is left in the function: that effect no longer happens' % (callee, q, line, tail))
  # D10: an operand compared with None / False on the reference tree is now only tested by truthiness
  for x, consts in (ref.get('nonecmp') or {}).items():
    if x in (now.get('nonecmp') or {}) or x not in now.get('truthy', ()) or x in ref.get('truthy', ()):
      continue
    n_cmp += 1
    R.fail(key_of(f, '`%s` compared with %s' % (x, '/'.join(consts))), f, '`%s` is compared with %s on the reference tree; now it is only tested by truthiness, which also treats 0, 0.0, empty containers and empty filters as "absent" / "off"' % (x, ' / '.join(consts)))
  # D13: the default of a parameter changed (a named module constant with the old text counts as unchanged)
  for p_, rd in (ref.get('defaults') or {}).items():
    nd = (now.get('defaults') or {}).get(p_)
    if nd is None or nd == rd:
      continue
    n_cmp += 1
    resolved = nd
    if module_consts is not None and nd in module_consts:
      resolved = module_consts[nd]
    if resolved != rd and not (rd in (module_consts or {}) and module_consts[rd] == nd):
      R.fail(key_of(f, 'default of `%s`' % p_), f, 'the default of parameter `%s` of %s is `%s`; on the reference tree it is `%s`: every caller that relies on the default now gets other behaviour' % (p_, q, nd, rd))
  # D11: the same operands joined by the other connective (a refactoring that swaps and/or also negates the operands)
  for key, (rop, _l) in (ref.get('bool') or {}).items():
    cur = (now.get('bool') or {}).get(key)
    if cur is None:
      continue
    n_cmp += 1
    if cur[0] != rop:
      R.fail(key_of(f, 'connective of `%s`' % key.replace(' ## ', '` `')[:100]), (f, cur[1]), 'the conditions `%s` are joined by `%s`; on the reference tree by `%s`' % (key.replace(' ## ', '`, `'), 'or' if cur[0] == 'Or' else 'and', 'or' if rop == 'Or' else 'and'))
  # D12: `t = A if c else B` became `t = A` (or `t = B`) and the test `c` is gone from the function
  for tgt, (test, body, orelse, _l) in (ref.get('ifexp') or {}).items():
    if tgt in (now.get('ifexp') or {}):
      continue
    val = (now.get('plain') or {}).get(tgt)
    if not val or val[0] not in (body, orelse):
      continue
    if test in now.get('tests', ()) or ('not ' + test) in now.get('tests', ()) or any(test in t_ for t_ in now.get('tests', ())):
      continue
    n_cmp += 1
    R.fail(key_of(f, '`%s` keeps both alternatives' % tgt), f, '`%s` is `%s if %s else %s` on the reference tree; now it is unconditionally `%s` and `%s` is tested nowhere in %s: the %s case lost its special handling' % (
        tgt, body, test, orelse, val[0], test, q, 'false' if val[0] == body else 'true'))
  # D5b: a subscript made only of literals (..., :, None, numbers) changed
  for base, (rs, _l) in (ref.get('lslice') or {}).items():
    cur = (now.get('lslice') or {}).get(base)
    if cur is None or base in ref['idx'] and base in now['idx']:
      continue
    n_cmp += 1
    if cur[0] != rs:
      R.fail(key_of(f, 'index of %s' % base), (f, cur[1]), '`%s[%s]` is `%s[%s]` on the reference tree: another part of the array / sequence is selected' % (base, cur[0], base, rs))
  for base, (rv, _l) in ref['idx'].items():
    cur = now['idx'].get(base)
    if cur is None:
      continue
    n_cmp += 1
    if cur[0] != rv and (cur[0] < 0) != (rv < 0) and not (rv == 0 and cur[0] == -1) and not (rv == -1 and cur[0] == 0):
      continue  # counted from the other end (`xs[1]` / `xs[-1]` of a pair): the same element or not depends on the length, which is not known here
    if cur[0] != rv:
      R.fail(key_of(f, 'element %d of %s' % (rv, base)), (f, cur[1]), '`%s[%d]` selects another element than on the reference tree (`%s[%d]`)' % (base, cur[0], base, rv))
  for key, (rl, rr, _l) in ref['bin'].items():
    cur = now['bin'].get(key)
    if cur is None:
      continue
    n_cmp += 1
    if cur[0] == rr and cur[1] == rl:
      opn = key.split(' ## ')[0]
      if opn.startswith('.') and opn[1:-2] in COMMUTATIVE_CALLEES | {'update', 'extend', 'append', 'join', 'format', 'get', 'pop', 'index', 'count', 'startswith', 'endswith', 'split', 'issubset', 'issuperset'}:
        continue
      R.fail(key_of(f, 'operands of %s' % opn), (f, cur[2]), ('receiver and argument of `%s` are exchanged: `%s` and `%s`' if opn.startswith('.') else 'the operands of the non-commutative `%s` are exchanged: `%s` and `%s`') % (opn, cur[0], cur[1]))
  return n_cmp


def run(R, repo, rels):
  tab = reference.load().get('__atoms__')
  R.require(isinstance(tab, dict) and bool(tab), 'reference table __atoms__ missing (run tools/make_reference.py)')
  stab = reference.load().get('__stmts__') or {}
  for rel in rels:
    R.require(rel in repo._paths, 'anchor file %s is missing' % rel)
    m = repo.mod(rel)
    now_counts = call_counts(m.tree)
    consts = {k_: astu.src(v_) for k_, v_ in m.assigns.items() if isinstance(v_, ast.AST) and len(astu.src(v_)) < 200}
    nf = nc = 0
    for q, f in sorted(m.funcs.items()):
      ref = tab.get('%s|%s' % (rel, q))
      if not ref:
        continue
      nf += 1
      nc += compare(R, f, ref, atoms(f.node), module_funcs={qq.split('.')[-1] for qq in m.funcs}, counts=(tab.get('#calls|' + rel) or {}, now_counts), repo=repo, module_consts=consts)
      sref = stab.get('%s|%s' % (rel, q))
      if sref:
        nc += compare_statements(R, f, sref, statements(f.node))
    R.ok(key_of(rel, 'matched expressions agree with the reference tree (%d functions, %d expressions)' % (nf, nc)), m)


def ensure(prop, registry, RuleSpec):
  from . import generic
  rid = '%s.R91' % prop
  specs = registry.setdefault(prop, [])
  if any(s.id == rid for s in specs):
    return
  rels = generic.anchors(prop)

  def fn(R, repo, _prop=prop):
    run(R, repo, generic.rule_files(_prop))
  specs.append(RuleSpec(rid, 'K4', len(rels), 'expressions matched with the reference tree: argument order, flags, forwarded / dropped arguments, relations and connectives, indices, operand order, one-leaf replacements, dropped effect calls, None-tests turned into truthiness, collapsed conditionals', fn))


# ----------------------------------------------------------------------------------------------
# D8: one leaf of an otherwise identical statement replaced by another name of the function

import hashlib


import re as _re
_IDENT_RE = _re.compile(r'^[A-Za-z_][A-Za-z0-9_]{0,30}$')
_COPY_CALLS = ('dict', 'list', 'tuple', 'set', 'copy.copy', 'copy.deepcopy', 'OrderedDict')


def _skel(n, leaves, strip=None):
  """Shape of an expression / statement with its leaves (names, dotted attribute chains, constants) replaced by `_`; the leaf
  texts are appended to `leaves` in source order.  Nothing is copied or modified.  With `strip` (a one-element counter list)
  defensive copies are looked through: dict(E) / list(E) / E.copy() / copy.copy(E) read as E."""
  if strip is not None and isinstance(n, ast.Call):
    nm = astu.call_name(n) or ''
    if nm in _COPY_CALLS and len(n.args) == 1 and not n.keywords and not isinstance(n.args[0], (ast.Starred, ast.GeneratorExp, ast.ListComp)):
      strip[0] += 1
      return _skel(n.args[0], leaves, strip)
    if isinstance(n.func, ast.Attribute) and n.func.attr == 'copy' and not n.args and not n.keywords and nm != 'copy.copy':
      strip[0] += 1
      return _skel(n.func.value, leaves, strip)
  if isinstance(n, ast.Name):
    # an assignment target is marked: binding another name is how temporaries are introduced, not a change of the value that flows
    leaves.append(('=' if isinstance(n.ctx, (ast.Store, ast.Del)) else '') + n.id)
    return '_'
  if isinstance(n, ast.Attribute):
    d = astu.dotted(n)
    if d is not None:
      leaves.append(('=' if isinstance(n.ctx, (ast.Store, ast.Del)) else '') + d)
      return '_'
  if isinstance(n, ast.Constant):
    if isinstance(n.value, str):
      # collection / stream / field names are behaviour, messages are not
      leaves.append("'%s'" % n.value if _IDENT_RE.match(n.value) else '"str"')
    else:
      leaves.append(repr(n.value))
      if n.value is True or n.value is False or n.value is None:
        return '_'  # same shape as a name: `f(x, flag)` vs `f(x, True)` differ in one leaf only
    return 'c'
  if isinstance(n, ast.JoinedStr):
    leaves.append('"fstr"')
    return 'c'
  if isinstance(n, ast.Lambda):
    leaves.append('<lambda %d>' % len(astu.params(n)))
    return 'lambda(%s)' % _skel(n.body, leaves, strip)
  if isinstance(n, ast.keyword):
    return '%s=%s' % (n.arg, _skel(n.value, leaves, strip))
  if isinstance(n, ast.AST):
    parts = []
    for name, val in ast.iter_fields(n):
      if name in ('ctx', 'type_comment', 'annotation', 'lineno', 'col_offset', 'end_lineno', 'end_col_offset', 'returns'):
        continue
      if isinstance(val, list):
        parts.append('[%s]' % ','.join(_skel(x, leaves, strip) for x in val))
      elif isinstance(val, ast.AST):
        parts.append(_skel(val, leaves, strip))
      elif val is not None and name in ('op', 'attr', 'arg', 'is_async'):
        parts.append(str(val))
    return '%s(%s)' % (type(n).__name__, ';'.join(parts))
  return ''


_POSITIVE = {ast.IsNot: ast.Is, ast.NotEq: ast.Eq, ast.NotIn: ast.In}


def _simple_statements(fn, loose=False):
  for n in _own_nodes(fn):
    if isinstance(n, (ast.Assign, ast.AugAssign, ast.AnnAssign, ast.Return, ast.Expr)) and not (isinstance(n, ast.Expr) and isinstance(n.value, ast.Constant)):
      if isinstance(n, ast.Expr) and isinstance(n.value, ast.Call) and ((astu.call_name(n.value) or '').startswith('logging.') or (astu.call_name(n.value) or '').startswith('warnings.')):
        continue
      yield n
    elif isinstance(n, (ast.If, ast.While)):
      t = n.test
      while isinstance(t, ast.UnaryOp) and isinstance(t.op, ast.Not):
        t = t.operand  # the polarity of a test goes with the arrangement of its branches, which is not compared here
      if loose and isinstance(t, ast.Compare) and len(t.ops) == 1 and type(t.ops[0]) in _POSITIVE:
        t = ast.Compare(left=t.left, ops=[_POSITIVE[type(t.ops[0])]()], comparators=t.comparators)
      yield ast.Expr(value=t, lineno=n.lineno, col_offset=0)


def statements(fn, loose=False):
  """[skeleton hash, leaves, line] per simple statement / test.  `loose`: a negative comparison at the top of a test reads as its
  positive form (`x is not None` like `x is None`): used only to recognise statements that are accounted for, never to pair them."""
  out = []
  for st in _simple_statements(fn, loose):
    leaves = []
    try:
      t = _skel(st, leaves)
    except RecursionError:
      continue
    if len(leaves) < 2 or len(leaves) > 40:
      continue
    h = hashlib.sha1(t.encode()).hexdigest()[:12]
    out.append([h, leaves, getattr(st, 'lineno', 0)])
  return out


def simple_aliases(fn):
  """[local, value text] for every `local = name_or_dotted` of the function (copy assignments)."""
  out = []
  params = set(astu.params(fn))
  stores = {}
  for n in _own_nodes(fn):
    if isinstance(n, ast.Name) and isinstance(n.ctx, ast.Store):
      stores[n.id] = stores.get(n.id, 0) + 1
  for n in _own_nodes(fn):
    if isinstance(n, ast.Assign) and len(n.targets) == 1 and isinstance(n.targets[0], ast.Name) and isinstance(n.value, (ast.Name, ast.Attribute)) and astu.dotted(n.value):
      t = n.targets[0].id
      if t not in params and stores.get(t, 0) == 1:  # the only binding of a local: a true alias
        out.append([t, astu.dotted(n.value)])
  return out


def stmt_table(repo, rels):
  out = {}
  for rel in rels:
    if rel not in repo._paths:
      continue
    m = repo._load(rel)
    for q, f in m._funcs.items():
      s = statements(f.node)
      if s:
        out['%s|%s' % (rel, q)] = {'stmts': s, 'params': astu.params(f.node), 'alias': simple_aliases(f.node), 'loose': [h for h, _l, _n in statements(f.node, loose=True)]}
  return out


def _is_ident(x):
  return bool(x) and (x[0].isalpha() or x[0] == '_') and not x.startswith('<')


def _aliases(f, a, b, depth=0):
  """One of the two is a local of f whose definition is (or contains only) the other one.  For two names the alias must be the
  *only* binding of that local (a parameter that is conditionally re-bound to the other name is not an alias of it); for a constant
  any binding to that constant counts (`flag = True` ... `g(flag)` vs `g(True)`)."""
  from . import flow
  const = a in ('True', 'False', 'None') or b in ('True', 'False', 'None')
  for x, y in ((a, b), (b, a)):
    if '.' in x:
      continue
    if not const and (x in astu.params(f.node) or len(flow.defs(f, x)) != 1):
      continue
    for d in flow.defs(f, x):
      e = d[0]
      if isinstance(e, ast.AST):
        t = astu.src(e)
        if t == y or (isinstance(e, ast.Call) and len(e.args) == 1 and not e.keywords and astu.src(e.args[0]) == y and (astu.call_name(e) or '') in ('tuple', 'list', 'dict', 'int', 'float', 'jnp.asarray', 'np.asarray')):
          return True
      elif isinstance(e, tuple) and len(e) > 1 and isinstance(e[1], ast.AST) and astu.src(e[1]) == y:
        return True
  return False


def compare_statements(R, f, ref, now):
  """ref / now: lists of [skeleton hash, leaves, line]."""
  def vocab(params, stmts):
    out = set(params)
    for h_, leaves, _l in stmts:
      for x in leaves:
        x = x.lstrip('=')
        out.add(x)
        parts = x.split('.')
        for i_ in range(1, len(parts)):  # obj of obj.attr, obj.attr of obj.attr.sub
          out.add('.'.join(parts[:i_]))
    return out
  rv = vocab(ref['params'], ref['stmts'])
  nv = vocab(astu.params(f.node), now)
  ref_exact = {(h, tuple(l)) for h, l, _ in ref['stmts']}
  now_exact = {(h, tuple(l)) for h, l, _ in now}
  # a test whose polarity was inverted together with the arrangement of its branches is accounted for, not replaced
  rl_h = ref.get('loose') or [h for h, _l, _n in ref['stmts']]
  ref_loose = {(hl, tuple(l)) for hl, (_h, l, _n) in zip(rl_h, ref['stmts'])}
  now_loose_list = statements(f.node, loose=True)
  now_loose = {(h, tuple(l)) for h, l, _ in now_loose_list}
  loose_of = {(h1, tuple(l1)): (h2, tuple(l2)) for (h1, l1, _a), (h2, l2, _b) in zip(now, now_loose_list)}
  n = 0
  for (h, rl, _l), hl in zip(ref['stmts'], rl_h):
    if (h, tuple(rl)) in now_exact or (hl, tuple(rl)) in now_loose:
      continue
    cands = []
    for h2, nl, line in now:
      if h2 != h or len(nl) != len(rl) or (h2, tuple(nl)) in ref_exact or loose_of.get((h2, tuple(nl))) in ref_loose:
        continue
      diff = [i for i in range(len(rl)) if rl[i] != nl[i]]
      if len(diff) == 1 and not rl[diff[0]].startswith('=') and not nl[diff[0]].startswith('='):
        cands.append((diff[0], nl, line))
    # the reference statement must have exactly one near match, and that near match exactly one reference counterpart
    if len(cands) != 1:
      continue
    i, nl, line = cands[0]
    others = [1 for h3, rl3, _ in ref['stmts'] if h3 == h and len(rl3) == len(nl) and (h3, tuple(rl3)) not in now_exact and sum(1 for j in range(len(nl)) if rl3[j] != nl[j]) == 1
              and not any(rl3[j] != nl[j] and (rl3[j].startswith('=') or nl[j].startswith('=')) for j in range(len(nl)))]
    if len(others) != 1:
      continue
    old, new = rl[i], nl[i]
    if old.startswith('=') or new.startswith('='):
      continue
    n += 1
    if _is_ident(old) and _is_ident(new) and _aliases(f, old, new):
      continue  # `new` is a local holding the value of `old` (t = old ... use t): the same value flows here
    if _is_ident(old) and new in ('True', 'False', 'None') and old not in ('True', 'False', 'None'):
      if old in nv:
        R.fail(key_of(f, 'value used at `%s`' % ' '.join(x for x in rl[:6])), (f, line), 'line %d passes the constant `%s` where the reference tree uses `%s` (which still exists in %s) in an otherwise identical statement' % (line, new, old, f.qual))
    elif _is_ident(old) and _is_ident(new):
      # a rename changes every occurrence: the old name then no longer occurs in the function.  Here both names exist on both trees.
      ref_alias = {tuple(x) for x in ref.get('alias', [])} | {tuple(reversed(x)) for x in ref.get('alias', [])}
      # a dotted expression (obj.attr) cannot have been "renamed" into a name that already existed with a role of its own
      still = old in nv or ('.' in old and '.' not in new)
      if (old, new) not in ref_alias:
        if new in rv and still:
          R.fail(key_of(f, 'value used at `%s`' % ' '.join(x for x in rl[:6])), (f, line),
                 'line %d uses `%s` where the reference tree uses `%s` in an otherwise identical statement (both names exist in %s on both trees, so this is not a rename): a different value flows here' % (line, new, old, f.qual))
    elif old.startswith("'") and new.startswith("'"):
      R.fail(key_of(f, 'name at `%s`' % ' '.join(x for x in rl[:6])), (f, line), 'line %d uses the name %s where the reference tree uses %s in an otherwise identical statement: another collection / stream / field / key is addressed' % (line, new, old))
    elif _is_ident(old) and new in ('True', 'False', 'None') and old in nv:
      R.fail(key_of(f, 'value used at `%s`' % ' '.join(x for x in rl[:6])), (f, line), 'line %d passes the constant `%s` where the reference tree uses `%s` (which still exists in %s) in an otherwise identical statement' % (line, new, old, f.qual))
    elif {old, new} == {'True', 'False'}:
      R.fail(key_of(f, 'constant at `%s`' % ' '.join(x for x in rl[:6])), (f, line), 'line %d has `%s` where the reference tree has `%s` in an otherwise identical statement' % (line, new, old))
  return n
