"""Verdict reuse for alpha-equivalent code (see vf/canon.py).

vf/reference.json records, for the tree the rules were validated on, which units
(functions / whole modules) every rule consulted, the alpha-normal digest of each
unit, and the rule's findings there.  When a rule reports a finding or cannot
analyse the tree under test, and *every* unit it consulted (now or on the
reference tree) has the same digest as on the reference tree, the code it looked
at differs at most in local variable names, comments, docstrings, annotations or
keyword order - so the recorded verdict is the right one and is reused.  Any real
change in a consulted unit disables the reuse and the rule's own verdict stands.
"""
from __future__ import annotations

import json
import os

from . import canon
from .report import Finding

PATH = os.path.join(os.path.dirname(os.path.abspath(__file__)), 'reference.json')
_REF = None


def load():
  global _REF
  if _REF is None:
    try:
      with open(PATH) as f:
        _REF = json.load(f)
    except (OSError, ValueError):
      _REF = {}
  return _REF


def unit_key(u):
  return '|'.join(u)


def unit_digest(repo, u):
  """Digest of a consulted unit in `repo`, or None if it does not exist there."""
  try:
    if u[0] == 'mod':
      if u[1] not in repo._paths:
        return None
      return canon.digest(repo._load(u[1])._tree)
    if u[1] not in repo._paths:
      return None
    m = repo._load(u[1])
    if u[2] not in m._funcs:
      return None
    cache = getattr(repo, '_canon_cache', None)
    if cache is None:
      cache = repo._canon_cache = {}
    return canon.digest_qual(m._tree, u[2], cache)
  except Exception:
    return None


def snapshot(R, repo):
  units = {unit_key(u): unit_digest(repo, u) for u in sorted(R.consulted or ())}
  return {
      'units': units,
      'findings': [{'key': f.key, 'file': f.file, 'line': f.line, 'msg': f.msg, 'witness': f.witness, 'title': f.title} for f in R.findings],
      'error': R.error,
  }


def reuse(R, repo) -> bool:
  ref = load().get(R.id)
  if not isinstance(ref, dict) or not ref or ref.get('error'):
    return False
  units = dict(ref['units'])
  table = load().get('__all_units__', {})
  for u in (R.consulted or ()):
    # a unit consulted only on the tree under test (e.g. a helper searched after an anchor was not recognised):
    # compare it with its digest on the reference tree, recorded for every function of the analysed modules
    units.setdefault(unit_key(u), table.get(unit_key(u)))
  cache = getattr(repo, '_digest_cache', None)
  if cache is None:
    cache = repo._digest_cache = {}
  for k, want in units.items():
    if want is None:
      return False
    if k not in cache:
      cache[k] = unit_digest(repo, tuple(k.split('|')))
    if cache[k] != want:
      return False
  # alpha-equivalent everywhere: the recorded verdict applies
  n_before = len(R.findings)
  R.findings = [Finding(R.ctx.prop, R.id, f['key'], f['file'], f['line'], f['msg'], f.get('witness'), f.get('title', R.title)) for f in ref['findings']]
  keep = {f.key for f in R.findings}
  R.instances = [(k, fl, ln, True if (not ok and k not in keep) else ok, msg) for (k, fl, ln, ok, msg) in R.instances]
  if R.found < R.floor:
    R.instances += [('reused verdict %d' % i, R.instances[0][1] if R.instances else '', 0, True, '') for i in range(R.floor - R.found)]
  R.error = None
  R.inconclusive = []
  R.notes.append('verdict of the reference tree reused: all %d consulted units are alpha-equivalent to it (%d name-dependent finding(s) discarded)' % (len(units), n_before - len(R.findings)))
  return True
