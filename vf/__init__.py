"""vf: repository-specific static checkers for google/flax (stdlib ast only)."""
