"""Reusable structural patterns (used by several properties)."""
from __future__ import annotations

import ast

from . import astu
from .cfg import cfg_of


def group_stores(stmts):
  """Events that put an item into a group: `x.append(...)`, `x[...] = ...`, `x.add(...)`."""
  out = []
  for st in stmts:
    for n in astu.walk_shallow(st):
      if isinstance(n, ast.Call) and astu.call_tail(n) in ('append', 'add') and isinstance(n.func, ast.Attribute):
        out.append(n)
      elif isinstance(n, ast.Assign) and any(isinstance(t, ast.Subscript) for t in n.targets):
        out.append(n)
  return out


def first_match_loop(func, loop: ast.For):
  """Check the `for pred in preds: if pred(item): store; break  else: remainder` idiom.

  Returns (ok, message, info). ok is None when the idiom was not recognised at all (inconclusive), False when it was
  recognised and one of its obligations is positively broken. ok means: in every iteration of the *enclosing*
  item loop exactly one of {a single group store followed by break, the else
  clause} happens.
  """
  c = cfg_of(func)
  heads = c.nodes_of_stmt(loop)
  if not heads:
    return None, 'loop not in CFG', {}
  head = heads[0]
  lvars0 = astu.names_stored(loop.target)

  def _recv(s):
    r = s.func.value if isinstance(s, ast.Call) else [t for t in s.targets if isinstance(t, ast.Subscript)][0].value
    return astu.names_loaded(r)

  # a *group* store writes into a container selected by the loop variables (flat_states[i], state)
  stores = [s for s in group_stores(loop.body) if _recv(s) & lvars0]
  snodes = []
  for s in stores:
    snodes += c.nodes_for(s)
  if not snodes:
    return None, 'no group store inside the predicate loop', {}
  # the store is guarded by a test that calls the loop variable (the predicate)
  lvars = astu.names_stored(loop.target)
  tests = [n for n in c.nodes if n.kind == 'if' and n in c.loop_body_nodes(loop) | set() and
           any(isinstance(x, ast.Call) and isinstance(x.func, ast.Name) and x.func.id in lvars for x in ast.walk(n.ast))]
  if not tests:
    return None, 'group store is not guarded by a call of the loop predicate', {}
  from . import evid
  is_pred = lambda e: isinstance(e, ast.Call) and isinstance(e.func, ast.Name) and e.func.id in lvars
  for sn in snodes:
    if evid.guarded(c, sn, is_pred) != 'yes':
      return False, 'group store at L%d is not under the predicate test' % sn.line, {}
  # after a store the loop must be left (break): head not reachable from the store
  for sn in snodes:
    if head in c.reach([sn]) and head in c.reach([sn], avoid=[n for n in c.nodes if isinstance(n.stmt, ast.Break)]):
      # reaching head again is fine only through an *outer* loop iteration
      inner = c.reach([sn], avoid=_outer_heads(c, loop))
      if head in inner:
        return False, ('after storing an item at L%d the predicate loop continues: the item can land in a second group '
                       '(missing break)' % sn.line), {}
  # at most one store per iteration path
  for sn in snodes:
    r = c.reach([sn], avoid=_outer_heads(c, loop))
    if any(x in r for x in snodes):
      return False, 'two group stores on one path of the predicate loop', {}
  # when the predicate holds, a store must happen before leaving the loop
  loop_nodes = c.loop_body_nodes(loop)
  for t, a, _lab in evid.est_edges(c, is_pred):
    if t not in loop_nodes:
      continue
    if a in snodes:
      continue
    # any path from the predicate-holds edge that leaves the loop body without a store?
    reach = c.reach([a], avoid=snodes, include_src=True)
    leaves = [x for x in reach if x not in loop_nodes and x is not head and x.kind != 'raise']
    if leaves or head in reach:
      return False, 'a matching item can leave the predicate loop (or go on to the next predicate) without being stored (L%d)' % t.line, {}
  # no other path puts an item into one of the groups without asking the predicates (e.g. a cached shortcut)
  roots = set()
  for s in stores + group_stores(loop.orelse):
    r = s.func.value if isinstance(s, ast.Call) else [t for t in s.targets if isinstance(t, ast.Subscript)][0].value
    while isinstance(r, (ast.Subscript, ast.Attribute)):
      r = r.value
    if isinstance(r, ast.Name):
      roots.add(r.id)
  outer = None
  for a in astu.ancestors(loop):
    if isinstance(a, (ast.For, ast.While)):
      outer = a
      break
    if isinstance(a, astu.FUNC_TYPES):
      break
  if outer is not None:
    inside = {id(x) for x in ast.walk(loop)}
    for s in group_stores(outer.body):
      if id(s) in inside:
        continue
      r = s.func.value if isinstance(s, ast.Call) else [t for t in s.targets if isinstance(t, ast.Subscript)][0].value
      while isinstance(r, (ast.Subscript, ast.Attribute)):
        r = r.value
      if isinstance(r, ast.Name) and r.id in roots - lvars0:
        return False, ('`%s` (L%d) puts an item into a group without evaluating the predicates for it: the group of an item must be decided by the first matching '
                       'predicate for *that* item (a per-type / cached shortcut is wrong for path- or tag-dependent filters)' % (astu.short(s, 70), s.lineno)), {}
  info = {'stores': [astu.short(s) for s in stores], 'else': 'drop'}
  if loop.orelse:
    es = group_stores(loop.orelse)
    rs = [n for st in loop.orelse for n in astu.walk_shallow(st) if isinstance(n, ast.Raise)]
    info['else'] = 'store' if es else ('raise' if rs else 'drop')
  return True, '', info


def _outer_heads(c, loop):
  out = []
  for a in astu.ancestors(loop):
    if isinstance(a, (ast.For, ast.While)):
      out += c.nodes_of_stmt(a)
    if isinstance(a, astu.FUNC_TYPES):
      break
  return out


def ellipsis_last_validation(func):
  """`...`/True may only be trailing filters: the validation loop that raises ValueError."""
  for n in astu.body_walk(func):
    if isinstance(n, ast.For):
      txt = astu.src(n)
      if '(..., True)' in txt or '(Ellipsis, True)' in txt:
        if any(isinstance(x, ast.Raise) for x in ast.walk(n)) and 'len(' in txt:
          return n
  return None
