"""Statement-level control-flow graph for one Python function.

Nodes are simple statements and the *headers* of compound statements (the test
of an `if`/`while`, the iterator of a `for`, the context expressions of a
`with`, a synthetic with-exit, `except` heads).  `finally` bodies and with-exits
are duplicated for abrupt exits (return / raise / break / continue) so that
"on every path" questions see them.

Implicit exceptions (any call may raise) are modelled only inside `try` bodies
(edge labelled 'exc' from every node of the body to every handler and, if no
handler is a catch-all, outwards).  Outside `try` they are ignored: rules speak
about paths that do not die from an unexpected exception, plus explicit
`raise`/`assert`.
"""
from __future__ import annotations

import ast
from collections import deque
from typing import Callable, Iterable, Optional

from . import astu


class Node:
  __slots__ = ('id', 'kind', 'ast', 'stmt', 'copy')

  def __init__(self, id, kind, astnode=None, stmt=None, copy=False):
    self.id, self.kind, self.ast, self.stmt, self.copy = id, kind, astnode, stmt, copy

  @property
  def line(self):
    n = self.ast if self.ast is not None else self.stmt
    return getattr(n, 'lineno', 0)

  def label(self):
    if self.kind in ('entry', 'exit', 'raise'):
      return self.kind
    if self.kind == 'withexit':
      return 'L%d end-with' % getattr(self.stmt, 'end_lineno', self.line)
    head = {'if': 'if ', 'while': 'while ', 'for': 'for … in ', 'with': 'with ', 'except': 'except ',
            'match': 'match '}.get(self.kind, '')
    return 'L%d %s%s' % (self.line, head, astu.short(self.ast, 60) if self.ast is not None else '')

  def __repr__(self):
    return '<%d %s>' % (self.id, self.label())


class _Frame:
  """What an abrupt exit has to run through on its way out."""

  def __init__(self, kind, **kw):
    self.kind = kind  # 'loop' | 'try' | 'finally' | 'with'
    self.__dict__.update(kw)


class CFG:

  def __init__(self, func):
    self.func = func
    self.nodes: list = []
    self.succ: dict = {}
    self.pred: dict = {}
    self.by_stmt: dict = {}
    self.entry = self._new('entry')
    self.exit = self._new('exit')
    self.raise_exit = self._new('raise')
    body = [ast.Return(value=func.body, lineno=func.lineno, col_offset=0)] if isinstance(func, ast.Lambda) else func.body
    if isinstance(func, ast.Lambda):
      body[0]._vf_parent = func
    outs = self._block(body, [(self.entry, None)], [])
    for n, lab in outs:
      self._edge(n, self.exit, lab)

  # -- construction ---------------------------------------------------------
  def _new(self, kind, astnode=None, stmt=None, copy=False):
    n = Node(len(self.nodes), kind, astnode, stmt, copy)
    self.nodes.append(n)
    self.succ[n] = []
    self.pred[n] = []
    if stmt is not None:
      self.by_stmt.setdefault(id(stmt), []).append(n)
    return n

  def _edge(self, a, b, label=None):
    if (b, label) not in self.succ[a]:
      self.succ[a].append((b, label))
      self.pred[b].append((a, label))

  def _connect(self, ins, node):
    for n, lab in ins:
      self._edge(n, node, lab)

  def _block(self, stmts, ins, frames):
    for st in stmts:
      ins = self._stmt(st, ins, frames)
    return ins

  def _exc_targets(self, node, frames):
    """Add implicit-exception edges for a node that sits inside try bodies."""
    for i in range(len(frames) - 1, -1, -1):
      fr = frames[i]
      if fr.kind == 'try':
        for h in fr.handlers:
          self._edge(node, h, 'exc')
        if fr.catch_all:
          return
      elif fr.kind in ('finally', 'with'):
        # propagate outward through a copy of the cleanup
        outs = self._run_cleanup(fr, [(node, 'exc')], frames[:i])
        self._abrupt(outs, 'raise', frames[:i], skip_cleanup=False, implicit=True)
        return
    # not inside any try: implicit exceptions are not modelled
    return

  def _in_try(self, frames):
    return any(fr.kind in ('try',) for fr in frames) or any(
        fr.kind in ('finally',) for fr in frames)

  def _run_cleanup(self, fr, ins, outer_frames):
    if fr.kind == 'finally':
      return self._block_copy(fr.body, ins, outer_frames)
    if fr.kind == 'with':
      n = self._new('withexit', None, fr.stmt, copy=True)
      self._connect(ins, n)
      return [(n, None)]
    return ins

  def _block_copy(self, stmts, ins, frames):
    saved = self._copying if hasattr(self, '_copying') else False
    self._copying = True
    try:
      return self._block(stmts, ins, frames)
    finally:
      self._copying = saved

  def _abrupt(self, ins, how, frames, skip_cleanup=False, implicit=False):
    """Route an abrupt exit (`return`, `raise`, `break`, `continue`) outward."""
    cur = ins
    for i in range(len(frames) - 1, -1, -1):
      fr = frames[i]
      if fr.kind in ('finally', 'with'):
        cur = self._run_cleanup(fr, cur, frames[:i])
      elif fr.kind == 'try' and how == 'raise':
        for h in fr.handlers:
          for n, lab in cur:
            self._edge(n, h, lab or 'exc')
        if fr.catch_all:
          return
      elif fr.kind == 'loop' and how in ('break', 'continue'):
        if how == 'break':
          fr.breaks.extend(cur)
        else:
          for n, lab in cur:
            self._edge(n, fr.head, lab)
        return
    target = self.exit if how == 'return' else self.raise_exit
    for n, lab in cur:
      self._edge(n, target, lab)

  def _simple(self, st, ins, frames, kind='stmt', astnode=None):
    n = self._new(kind, astnode if astnode is not None else st, st, copy=getattr(self, '_copying', False))
    self._connect(ins, n)
    if any(fr.kind == 'try' for fr in frames):
      self._exc_targets(n, frames)
    return n

  def _stmt(self, st, ins, frames):
    if isinstance(st, ast.If):
      h = self._simple(st, ins, frames, 'if', st.test)
      t = self._block(st.body, [(h, 'T')], frames)
      f = self._block(st.orelse, [(h, 'F')], frames) if st.orelse else [(h, 'F')]
      return t + f
    if isinstance(st, (ast.While,)):
      h = self._simple(st, ins, frames, 'while', st.test)
      fr = _Frame('loop', head=h, breaks=[])
      b = self._block(st.body, [(h, 'T')], frames + [fr])
      for n, lab in b:
        self._edge(n, h, lab)
      const_true = isinstance(st.test, ast.Constant) and bool(st.test.value)
      out = [] if const_true else [(h, 'F')]
      if st.orelse:
        out = self._block(st.orelse, out, frames)
      return out + fr.breaks
    if isinstance(st, (ast.For, ast.AsyncFor)):
      h = self._simple(st, ins, frames, 'for', st.iter)
      fr = _Frame('loop', head=h, breaks=[])
      b = self._block(st.body, [(h, 'T')], frames + [fr])
      for n, lab in b:
        self._edge(n, h, lab)
      out = [(h, 'F')]
      if st.orelse:
        out = self._block(st.orelse, out, frames)
      return out + fr.breaks
    if isinstance(st, (ast.With, ast.AsyncWith)):
      h = self._simple(st, ins, frames, 'with', None)
      h.ast = st.items[0].context_expr if len(st.items) == 1 else ast.Tuple(
          elts=[i.context_expr for i in st.items], ctx=ast.Load())
      fr = _Frame('with', stmt=st)
      b = self._block(st.body, [(h, None)], frames + [fr])
      x = self._new('withexit', None, None, copy=getattr(self, '_copying', False))
      x.stmt = st
      self._connect(b, x)
      return [(x, None)]
    if isinstance(st, ast.Try) or (hasattr(ast, 'TryStar') and isinstance(st, ast.TryStar)):
      return self._try(st, ins, frames)
    if hasattr(ast, 'Match') and isinstance(st, ast.Match):
      h = self._simple(st, ins, frames, 'match', st.subject)
      outs = []
      exhaustive = False
      for c in st.cases:
        outs += self._block(c.body, [(h, 'case')], frames)
        if isinstance(c.pattern, ast.MatchAs) and c.pattern.pattern is None and c.guard is None:
          exhaustive = True
      if not exhaustive:
        outs.append((h, 'F'))
      return outs
    if isinstance(st, ast.Return):
      n = self._simple(st, ins, frames)
      self._abrupt([(n, None)], 'return', frames)
      return []
    if isinstance(st, ast.Raise):
      n = self._simple(st, ins, frames)
      self._abrupt([(n, 'raise')], 'raise', frames)
      return []
    if isinstance(st, ast.Break):
      n = self._simple(st, ins, frames)
      self._abrupt([(n, None)], 'break', frames)
      return []
    if isinstance(st, ast.Continue):
      n = self._simple(st, ins, frames)
      self._abrupt([(n, None)], 'continue', frames)
      return []
    if isinstance(st, ast.Assert):
      n = self._simple(st, ins, frames)
      if not (isinstance(st.test, ast.Constant) and st.test.value):
        self._abrupt([(n, 'raise')], 'raise', frames)
      if isinstance(st.test, ast.Constant) and not st.test.value:
        return []
      return [(n, None)]
    # everything else: simple statement (Assign, Expr, def, class, import, pass, ...)
    n = self._simple(st, ins, frames)
    return [(n, None)]

  def _try(self, st, ins, frames):
    handlers = []
    catch_all = False
    for h in st.handlers:
      hn = self._new('except', h.type, h, copy=getattr(self, '_copying', False))
      handlers.append(hn)
      if h.type is None or astu.dotted(h.type) in ('BaseException', 'Exception'):
        catch_all = catch_all or h.type is None or astu.dotted(h.type) == 'BaseException'
    inner = list(frames)
    if st.finalbody:
      inner.append(_Frame('finally', body=st.finalbody))
    tfr = _Frame('try', handlers=handlers, catch_all=catch_all)
    body_out = self._block(st.body, ins, inner + [tfr])
    if st.orelse:
      body_out = self._block(st.orelse, body_out, inner)
    outs = list(body_out)
    for h, hn in zip(st.handlers, handlers):
      outs += self._block(h.body, [(hn, None)], inner)
    if st.finalbody:
      outs = self._block(st.finalbody, outs, frames)
    return outs

  # -- lookups --------------------------------------------------------------
  def nodes_of_stmt(self, st) -> list:
    return list(self.by_stmt.get(id(st), []))

  def nodes_for(self, astnode) -> list:
    """CFG node(s) that evaluate `astnode` (header node for compound statements)."""
    st = astu.enclosing_stmt(astnode)
    if st is None:
      return []
    ns = self.nodes_of_stmt(st)
    if ns:
      if isinstance(st, (ast.With, ast.AsyncWith)):
        return [n for n in ns if n.kind == 'with']
      return ns
    if isinstance(st, ast.ExceptHandler):  # pragma: no cover
      return self.nodes_of_stmt(st)
    return []

  def nodes_where(self, pred: Callable[[Node], bool]) -> list:
    return [n for n in self.nodes if pred(n)]

  def stmt_nodes(self):
    return [n for n in self.nodes if n.kind not in ('entry', 'exit', 'raise')]

  # -- path queries ------------------------------------------------------------
  def reach(self, srcs, avoid=(), avoid_edges=(), include_src=False) -> set:
    """Nodes reachable from `srcs` by >=1 edge (or 0 if include_src) avoiding nodes/edges."""
    avoid = set(avoid)
    avoid_edges = set(avoid_edges)
    seen = set()
    dq = deque()
    for s in srcs:
      if include_src and s not in avoid:
        seen.add(s)
      dq.append(s)
    started = set()
    while dq:
      n = dq.popleft()
      if n in started:
        continue
      started.add(n)
      for m, lab in self.succ[n]:
        if m in avoid or (n, m, lab) in avoid_edges or (n, lab) in avoid_edges:
          continue
        if m not in seen:
          seen.add(m)
        if m not in started:
          dq.append(m)
    return seen

  def path(self, src, dst, avoid=(), avoid_edges=()) -> Optional[list]:
    """Shortest path src→dst (list of nodes) avoiding nodes/edges, or None."""
    avoid = set(avoid)
    avoid_edges = set(avoid_edges)
    prev = {src: None}
    dq = deque([src])
    while dq:
      n = dq.popleft()
      for m, lab in self.succ[n]:
        if m in avoid or (n, m, lab) in avoid_edges or (n, lab) in avoid_edges:
          continue
        if m is dst:
          out = [(m, lab)]
          cur = n
          while cur is not None:
            p = prev[cur]
            out.append((cur, p[1] if p else None))
            cur = p[0] if p else None
          out.reverse()
          return out
        if m not in prev:
          prev[m] = (n, lab)
          dq.append(m)
    return None

  def witness(self, src, dst, avoid=(), avoid_edges=()) -> str:
    p = self.path(src, dst, avoid, avoid_edges)
    if p is None:
      return '<no path>'
    parts = []
    for i, (n, _) in enumerate(p):
      lab = p[i + 1][1] if i + 1 < len(p) else None
      s = n.label()
      if lab in ('T', 'F'):
        s += ' (%s)' % ('true' if lab == 'T' else 'false')
      elif lab:
        s += ' (%s)' % lab
      parts.append(s)
    return ' → '.join(parts)

  def must_pass(self, src, dst, through: Iterable[Node], avoid_edges=()) -> bool:
    """Every path src→dst contains a node of `through` (vacuously true if unreachable)."""
    through = set(through)
    if src in through or dst in through:
      return True
    return dst not in self.reach([src], avoid=through, avoid_edges=avoid_edges)

  def dominated(self, b: Node, A: Iterable[Node]) -> bool:
    """Every path entry→b passes through a node in A."""
    return self.must_pass(self.entry, b, A)

  def postdominated(self, a: Node, B: Iterable[Node], to=None) -> bool:
    """Every path a→normal exit passes through a node in B."""
    return self.must_pass(a, to or self.exit, B)

  def reachable(self, n: Node) -> bool:
    return n is self.entry or n in self.reach([self.entry])

  def can_reach(self, a: Node, b: Node, avoid=()) -> bool:
    return b in self.reach([a], avoid=avoid)

  def at_most_once(self, events: Iterable[Node]) -> Optional[tuple]:
    """None if no path contains two event nodes; else an offending (first, second)."""
    ev = list(events)
    evs = set(ev)
    for e in ev:
      r = self.reach([e])
      hit = [x for x in r if x in evs]
      if hit:
        return (e, hit[0])
    return None

  def exactly_once_to_exit(self, events: Iterable[Node], start=None, exits=None):
    """(ok, reason): every path start→exit passes exactly one event node."""
    ev = list(events)
    start = start or self.entry
    for ex in (exits or [self.exit]):
      if not self.must_pass(start, ex, ev):
        return False, 'path without event: ' + self.witness(start, ex, avoid=ev)
    two = self.at_most_once(ev)
    if two:
      return False, 'event twice on a path: %s then %s' % (two[0].label(), two[1].label())
    return True, ''

  def edge_guarded(self, b: Node, test: Node, label: str) -> bool:
    """Every path entry→b takes edge `label` ('T'/'F') out of `test`."""
    other = [(test, m, lab) for m, lab in self.succ[test] if lab != label]
    # remove the `label` edges: b must become unreachable
    cut = [(test, m, lab) for m, lab in self.succ[test] if lab == label]
    return b not in self.reach([self.entry], avoid_edges=cut) and b is not test

  def exc_edges(self) -> list:
    """Implicit-exception edges (to exclude when a rule speaks about non-failing paths)."""
    if getattr(self, '_exc', None) is None:
      self._exc = [(a, m, lab) for a in self.nodes for m, lab in self.succ[a] if lab == 'exc']
    return self._exc

  def loop_body_nodes(self, loop_stmt) -> set:
    out = set()
    for st in loop_stmt.body:
      for n in ast.walk(st):
        if isinstance(n, ast.stmt):
          out.update(self.nodes_of_stmt(n))
    return out


_CACHE: dict = {}


def cfg_of(func) -> CFG:
  node = getattr(func, 'node', func)
  c = _CACHE.get(id(node))
  if c is None or c.func is not node:
    c = CFG(node)
    _CACHE[id(node)] = c
  return c
